#!/usr/bin/env python3
"""Builds /verif/seeded/SUMMARY.md from seeded/*/meta.json."""
import glob, json, os

rows = []
for d in sorted(glob.glob('/verif/seeded/*/')):
    mp = os.path.join(d, 'meta.json')
    if not os.path.exists(mp):
        continue
    m = json.load(open(mp))
    sid = os.path.basename(d.rstrip('/'))
    det = m.get('detection', {})
    caught = [p for p, r in det.items() if r.get('exit') == 1]
    missed = [p for p, r in det.items() if r.get('exit') == 0]
    other = ["%s(exit %s)" % (p, r.get('exit')) for p, r in det.items() if r.get('exit') not in (0, 1)]
    labels = sorted({l for r in det.values() for l in r.get('labels', [])})
    rows.append((sid, m.get('property', ''), m.get('title', m.get('what_it_breaks', ''))[:90], ', '.join(caught) or '-', ', '.join(missed) or '-', ', '.join(other) or '-', '; '.join(labels)[:160], m.get('note_outside_claim', '')))
out = ["# Seeded changes and detection", "",
       "Each row is a change written by an independent sub-agent from the property text alone, re-confirmed in a scratch worktree (suite green with it, demonstration fails with it and passes without it). `caught by` = checks that exit 1 with a natively confirmed VIOLATION on the changed tree (tier in meta.json).", "",
       "| id | property | change | caught by | missed by | other | labels | remark |", "|---|---|---|---|---|---|---|---|"]
for r in rows:
    out.append("| " + " | ".join(str(x).replace('|', '/') for x in r) + " |")
open('/verif/seeded/SUMMARY.md', 'w').write('\n'.join(out) + '\n')
print('\n'.join(out))
