#!/usr/bin/env python3
"""seed_eval.py <src_dir_with_patch.diff,demo_test.go,meta.json> <id> [check props...]
Confirms a seeded change in a scratch worktree (suite green with it, demo fails with it and passes
without it), stores it under /verif/seeded/<id>/ and runs the named checks against it."""
import json, os, re, shutil, subprocess, sys, time

src, sid = sys.argv[1], sys.argv[2]
props = sys.argv[3:]
tier = os.environ.get("SEED_TIER", "quick")
wt = "/tmp/ev-%s-%d" % (sid, os.getpid())
VERIF = os.path.dirname(os.path.dirname(os.path.abspath(__file__)))  # the tree the checks run from (a snapshot under vp run)
ENV = dict(os.environ)


def sh(cmd, cwd=None, timeout=3000):
    r = subprocess.run(cmd, shell=True, cwd=cwd, capture_output=True, text=True, errors="replace", timeout=timeout, env=ENV)
    return r.returncode, (r.stdout + r.stderr)


out = {"id": sid, "source": src}
sh("git -C /repo worktree remove --force %s; git -C /repo worktree prune" % wt)
rc, o = sh("git -C /repo worktree add -q %s HEAD" % wt)
assert rc == 0, o
try:
    patch = os.path.join(src, "patch.diff")
    rc, o = sh("git apply %s" % patch, cwd=wt)
    out["patch_applies"] = rc == 0
    if rc != 0:
        out["apply_error"] = o[-500:]
        print(json.dumps(out, indent=1))
        sys.exit(2)
    rc, o = sh("go build ./... && go test -vet=off -count=1 ./...", cwd=wt)
    out["suite_green_with_patch"] = rc == 0
    if rc != 0:
        out["suite_output"] = o[-1500:]
    demo = open(os.path.join(src, "demo_test.go")).read()
    pkg = re.search(r"^package (\w+)", demo, re.M).group(1)
    ddir = {"json_test": ".", "json": ".", "jsontext_test": "jsontext", "jsontext": "jsontext", "jsonwire_test": "internal/jsonwire", "jsonwire": "internal/jsonwire",
            "jsonflags_test": "internal/jsonflags", "jsonflags": "internal/jsonflags", "jsonopts_test": "internal/jsonopts", "jsonopts": "internal/jsonopts"}.get(pkg, ".")
    m = re.search(r"copy (?:this file )?(?:in)?to\s+[`'\"]?([\w/.\-]+)", demo, re.I)
    if m and m.group(1).strip("./") in ("v1",):
        ddir = "v1"
    tests = re.findall(r"^func (Test\w+)\(", demo, re.M)
    shutil.copy(os.path.join(src, "demo_test.go"), os.path.join(wt, ddir, "zz_seed_demo_test.go"))
    runpat = "^(%s)$" % "|".join(tests)
    rc1, o1 = sh("go test -vet=off -count=1 -run '%s' ./%s" % (runpat, ddir), cwd=wt)
    out["demo_fails_with_patch"] = rc1 != 0
    sh("git apply -R %s" % patch, cwd=wt)
    rc2, o2 = sh("go test -vet=off -count=1 -run '%s' ./%s" % (runpat, ddir), cwd=wt)
    out["demo_passes_without_patch"] = rc2 == 0
    if rc2 != 0:
        out["demo_clean_output"] = o2[-800:]
    os.remove(os.path.join(wt, ddir, "zz_seed_demo_test.go"))
    sh("git apply %s" % patch, cwd=wt)
    out["demo_dir"] = ddir
    confirmed = out["suite_green_with_patch"] and out["demo_fails_with_patch"] and out["demo_passes_without_patch"]
    out["confirmed"] = confirmed
    # run checks
    out["checks"] = {}
    for p in props:
        t0 = time.time()
        env = dict(ENV, VERIF_REPO=wt)
        r = subprocess.run(["./check", p, "--tier", tier], cwd=VERIF, capture_output=True, text=True, env=env, timeout=6000)
        viol = [l for l in r.stdout.splitlines() if l.startswith("VIOLATION")]
        labels = set()
        for l in viol[:40]:
            try:
                rp = l.split("replay=")[1].strip()
                labels.add(json.load(open(rp))["label"])
            except Exception:
                pass
        out["checks"][p] = {"tier": tier, "exit": r.returncode, "violations": len(viol), "labels": sorted(labels), "wall_s": round(time.time() - t0, 1),
                            "tail": (r.stderr or "")[-300:]}
    if confirmed:
        dst = os.path.join("/verif/seeded", sid)
        os.makedirs(dst, exist_ok=True)
        if os.path.realpath(src) != os.path.realpath(dst):
            shutil.copy(patch, dst)
            shutil.copy(os.path.join(src, "demo_test.go"), dst)
        meta = {}
        try:
            meta = json.load(open(os.path.join(src, "meta.json")))
        except Exception as e:
            meta = {"note": "original meta.json unreadable: %s" % e}
        meta["confirmation"] = {k: out[k] for k in ("patch_applies", "suite_green_with_patch", "demo_fails_with_patch", "demo_passes_without_patch", "demo_dir")}
        meta["confirmation"]["ran"] = ["git apply patch.diff (scratch worktree of /repo HEAD)", "go build ./... && go test -vet=off -count=1 ./...  -> ok",
                                       "go test -run '<demo tests>' ./%s -> FAIL with patch, ok after git apply -R" % ddir]
        meta.setdefault("detection", {}).update(out["checks"])
        json.dump(meta, open(os.path.join(dst, "meta.json"), "w"), indent=1)
finally:
    sh("git -C /repo worktree remove --force %s; git -C /repo worktree prune" % wt)
    # restore evidence of the unchanged tree is the caller's job (checks rewrite evidence files)
print(json.dumps(out, indent=1))
