package json

import (
	"bytes"
	"errors"
	"math"
	"strings"

	"github.com/go-json-experiment/json/internal/jsonflags"
	"github.com/go-json-experiment/json/internal/zzverif/vrt"
	"github.com/go-json-experiment/json/jsontext"
)

// ---------------------------------------------------------------------------------------------
// C20: cycles that run through pointers and interfaces only. Such a cycle never opens a JSON
// array or object, so the nesting depth of the output does not grow while the marshaler
// recurses. A caller-supplied function that declines (ErrUnsupported) counts the levels of
// recursion and bails out with a sentinel after zz20MaxLevels, so that the native run
// terminates: the library must have reported an error of its own before that.
// ---------------------------------------------------------------------------------------------

type zz20P *zz20P

const zz20MaxLevels = 3000

var zz20ErrDeep = errors.New("zz20: recursion deeper than zz20MaxLevels")

// VerifC20PointerCycle: kind 0 marshal `type P *P` pointing at itself; 1 marshal an `any`
// holding a pointer to itself; 2 a pointer cycle of length two through `any`;
// 3 unmarshal into the self-referential any; 4 unmarshal a non-null value into type P.
func VerifC20PointerCycle(kind int) {
	n := 0
	count := func() error {
		n++
		if n > zz20MaxLevels {
			return zz20ErrDeep
		}
		return errors.ErrUnsupported
	}
	var err error
	switch kind {
	case 0:
		var p zz20P
		p = &p
		_, err = Marshal(p, WithMarshalers(MarshalToFunc(func(*jsontext.Encoder, *zz20P) error { return count() })))
	case 1:
		var a any
		a = &a
		_, err = Marshal(a, WithMarshalers(MarshalToFunc(func(*jsontext.Encoder, *any) error { return count() })))
	case 2:
		var a, b any
		a, b = &b, &a
		_, err = Marshal(a, WithMarshalers(MarshalToFunc(func(*jsontext.Encoder, *any) error { return count() })))
	case 3:
		var a any
		a = &a
		err = Unmarshal([]byte(`1`), &a, WithUnmarshalers(UnmarshalFromFunc(func(*jsontext.Decoder, *any) error { return count() })))
	default:
		var p zz20P
		err = Unmarshal([]byte(`1`), &p, WithUnmarshalers(UnmarshalFromFunc(func(*jsontext.Decoder, *zz20P) error { return count() })))
	}
	vrt.Observe("levels", n)
	// KF-C20-unmarshal-pointer-cycle: the unmarshal side (kinds 3, 4) has no cycle tracking.
	vrt.AssertKF("C20/ptrcycle/error-instead-of-unbounded-recursion", err != nil && !errors.Is(err, zz20ErrDeep), "KF-C20-unmarshal-pointer-cycle", kind >= 3)
	vrt.Cover("checked")
}

// ---------------------------------------------------------------------------------------------
// C20 / C19: a call option that changes AllowDuplicateNames for the duration of one
// UnmarshalDecode / MarshalEncode call which fails in the middle of a nested object. The
// caller goes on using the coder (nothing forbids that): no panic; either the coder refuses
// with an error or the remaining tokens are those of the document.
// ---------------------------------------------------------------------------------------------

type zz20XY struct {
	X int8 `json:"x"`
	Y int8 `json:"y"`
}

type zz20Bad struct {
	X int8    `json:"x"`
	F float64 `json:"f"` // NaN cannot be marshaled: the call fails after `{"x":1,"f"`
}

// VerifC20CallOptionDecoder: the decoder's own AllowDuplicateNames and the value passed to
// the UnmarshalDecode call are chosen by the solver, as are the number of tokens read before
// the call (0-4) and two bytes of the member value the call stumbles over (or not).
func VerifC20CallOptionDecoder() {
	coderDup, callDup := vrt.Bool("coderDup"), vrt.Bool("callDup")
	doc := vrt.Template("doc", `{"a":{"x":??,"y":2},"b":{"y":3},"c":1}`)
	dec := jsontext.NewDecoder(bytes.NewReader(doc), jsontext.AllowDuplicateNames(coderDup))
	for i, n := 0, vrt.IntRange("before", 0, 4); i < n; i++ {
		if _, err := dec.ReadToken(); err != nil {
			vrt.Cover("syntax-error-before-call")
			return
		}
	}
	var v zz20XY
	var m map[string]zz20XY
	var err error
	if dec.StackDepth() == 0 {
		err = UnmarshalDecode(dec, &m, jsontext.AllowDuplicateNames(callDup))
	} else {
		err = UnmarshalDecode(dec, &v, jsontext.AllowDuplicateNames(callDup))
	}
	if err == nil {
		vrt.Cover("call-succeeded")
	} else {
		vrt.Cover("call-failed")
	}
	// The caller goes on reading tokens: errors are acceptable (the library may declare the
	// coder unusable after a failed call, as it does for namespaces it had disabled, and the
	// text may be invalid), a panic is not (any escaping panic is reported as a violation).
	for i := 0; i < 24; i++ {
		if _, err := dec.ReadToken(); err != nil {
			vrt.Cover("stopped-with-error")
			return
		}
	}
	vrt.Fail("C20/callopt/decoder-terminates") // the document has fewer than 24 tokens
}

// VerifC20CallOptionEncoder: the same for MarshalEncode failing after `{"x":1,"f"` inside an
// object, followed by further WriteToken calls.
func VerifC20CallOptionEncoder() {
	coderDup, callDup := vrt.Bool("coderDup"), vrt.Bool("callDup")
	w := new(strings.Builder)
	enc := jsontext.NewEncoder(w, jsontext.AllowDuplicateNames(coderDup))
	pre := []jsontext.Token{jsontext.BeginObject, jsontext.String("a")}
	for i, n := 0, vrt.IntRange("before", 0, 2); i < n; i++ {
		if err := enc.WriteToken(pre[i]); err != nil {
			vrt.Fail("C20/callopt/prelude")
		}
	}
	bad := zz20Bad{X: 1}
	if vrt.Bool("nan") {
		bad.F = math.NaN()
	}
	if err := MarshalEncode(enc, &bad, jsontext.AllowDuplicateNames(callDup)); err != nil {
		vrt.Cover("call-failed")
	} else {
		vrt.Cover("call-succeeded")
	}
	rest := []jsontext.Token{jsontext.String("y"), jsontext.Uint(2), jsontext.EndObject, jsontext.String("b"), jsontext.BeginObject,
		jsontext.String("y"), jsontext.Uint(3), jsontext.EndObject, jsontext.EndObject}
	for _, t := range rest {
		if err := enc.WriteToken(t); err != nil {
			vrt.Cover("stopped-with-error")
			return
		}
	}
	vrt.Cover("drained")
}

// ---------------------------------------------------------------------------------------------
// C20: termination under the v1 error semantics, where a conversion error does not stop the
// unmarshaling of an array: every element must still be consumed exactly once. A
// caller-supplied function for the element type counts how often an element is offered and,
// should that exceed the number of elements by far, ends the call with a syntactic-class
// error (the only kind that is fatal under these semantics), so that the native run terminates.
// ---------------------------------------------------------------------------------------------

type zz20Str interface{ String() string }

var zz20ErrLoop = errors.New("zz20: the same element was offered again and again")

// VerifC20LegacyElementsConsumed: target kinds: 0 a slice of a non-empty interface type (nil
// elements cannot be filled: an error per element), 1 a slice of int8 fed with strings, 2 a
// map[string]int8 fed with a string value, 3 [2]bool fed with numbers.
func VerifC20LegacyElementsConsumed(kind int) {
	doc := vrt.Template("doc", `[?,"x",?]`)
	if kind == 2 {
		doc = vrt.Template("doc", `{"a":?,"b":"x","c":?}`)
	}
	n := 0
	count := func() error {
		n++
		if n > 40 {
			return &jsontext.SyntacticError{Err: zz20ErrLoop}
		}
		return errors.ErrUnsupported
	}
	legacy := jsonflags.ReportErrorsWithLegacySemantics | 1
	var err error
	switch kind {
	case 0:
		var v []zz20Str
		err = Unmarshal(doc, &v, legacy, WithUnmarshalers(UnmarshalFromFunc(func(*jsontext.Decoder, *zz20Str) error { return count() })))
	case 1:
		var v []int8
		err = Unmarshal(doc, &v, legacy, WithUnmarshalers(UnmarshalFromFunc(func(*jsontext.Decoder, *int8) error { return count() })))
	case 2:
		var v map[string]int8
		err = Unmarshal(doc, &v, legacy, WithUnmarshalers(UnmarshalFromFunc(func(*jsontext.Decoder, *int8) error { return count() })))
	default:
		var v [2]bool
		err = Unmarshal(doc, &v, legacy, WithUnmarshalers(UnmarshalFromFunc(func(*jsontext.Decoder, *bool) error { return count() })))
	}
	vrt.Observe("offered", n)
	vrt.Assert("C20/legacy/each-element-offered-at-most-once", n <= 3 && !errors.Is(err, zz20ErrLoop))
	if err != nil {
		vrt.Cover("error")
	} else {
		vrt.Cover("accepted")
	}
}
