package json

import (
	"bytes"
	"time"

	"github.com/go-json-experiment/json/internal/jsonflags"
	"github.com/go-json-experiment/json/internal/jsonopts"
	"github.com/go-json-experiment/json/internal/zzverif/vrt"
)

// C19, behavioural side of "options behave like a last-wins map": a boolean option that was
// set to false - explicitly, after having been set to true, or by appending
// DefaultOptionsV2() after DefaultOptionsV1() - is exactly as if it had never been passed. A
// library site that tests the PRESENCE of a flag instead of its VALUE breaks this. The value
// and the document below touch every feature the v1 options switch: a duration without format
// (no default representation in v2), byte arrays, nil slices and maps, `string` on a pointer
// and a string, omitempty on a zero struct/array, case-insensitive names, embedded pointers.

type zz19In struct {
	Q int8 `json:"q"`
}

type zz19V struct {
	Y   [2]byte         `json:"y"`
	B   []byte          `json:"b"`
	NS  []int8          `json:"ns"`
	NM  map[string]int8 `json:"nm"`
	SP  *int8           `json:"sp,string"`
	OE  zz19In          `json:"oe,omitempty"`
	OA  [1]int8         `json:"oa,omitempty"`
	Fld int8            `json:"fld_name"`
	I   any             `json:"i"`
}

// zz19BoolFlags: every boolean option that Marshal/Unmarshal consult (v2 and v1).
var zz19BoolFlags = []jsonflags.Bools{
	jsonflags.StringifyNumbers, jsonflags.Deterministic, jsonflags.FormatNilMapAsNull, jsonflags.FormatNilSliceAsNull,
	jsonflags.OmitZeroStructFields, jsonflags.MatchCaseInsensitiveNames, jsonflags.RejectUnknownMembers,
	jsonflags.CallMethodsWithLegacySemantics, jsonflags.FormatByteArrayAsArray, jsonflags.FormatBytesWithLegacySemantics,
	jsonflags.FormatDurationAsNano, jsonflags.MatchCaseSensitiveDelimiter, jsonflags.MergeWithLegacySemantics,
	jsonflags.OmitEmptyWithLegacySemantics, jsonflags.ParseBytesWithLooseRFC4648, jsonflags.ParseTimeWithLooseRFC3339,
	jsonflags.ReportErrorsWithLegacySemantics, jsonflags.StringifyWithLegacySemantics, jsonflags.UnmarshalArrayFromAnyLength,
	jsonflags.AllowDuplicateNames, jsonflags.AllowInvalidUTF8, jsonflags.EscapeForHTML, jsonflags.EscapeForJS, jsonflags.PreserveRawStrings,
}

type zz19D struct {
	D time.Duration `json:"d"`
}

type zz19S struct {
	SS string `json:"ss,string"`
}

// zz19Value: shape 0 a struct with a duration; 1 the feature-rich struct without the two
// members that cannot be marshaled under v2 defaults; 2 a string with the `string` option.
func zz19Value(shape int) any {
	one := int8(1)
	switch shape {
	case 0:
		return &zz19D{D: time.Duration(7)}
	case 1:
		return &zz19V{Y: [2]byte{vrt.Byte("y0"), 2}, B: []byte{3}, SP: &one, Fld: 5, I: []any{nil}}
	default:
		return &zz19S{SS: "s<"}
	}
}

// VerifC19ExplicitFalseMarshal: mode 0 the option passed as false; 1 passed as true, then as
// false; 2 DefaultOptionsV1() then DefaultOptionsV2() (flag index unused). The result must be
// that of Marshal without options.
func VerifC19ExplicitFalseMarshal(mode, shape int) {
	v := zz19Value(shape)
	k := vrt.Choice("flag", len(zz19BoolFlags))
	flag := zz19BoolFlags[k]
	var opts []Options
	switch mode {
	case 0:
		opts = []Options{flag | 0}
	case 1:
		opts = []Options{flag | 1, flag | 0}
	default:
		opts = []Options{&jsonopts.DefaultOptionsV1, DefaultOptionsV2()}
	}
	want, err0 := Marshal(v)
	got, err1 := Marshal(v, opts...)
	vrt.Observe("k", k)
	vrt.Assert("C19/explicit-false/marshal-same-success", (err0 == nil) == (err1 == nil))
	vrt.Assert("C19/explicit-false/marshal-same-bytes", err0 != nil || err1 != nil || bytes.Equal(want, got))
	if err0 == nil {
		vrt.Cover("marshal-ok")
	} else {
		vrt.Cover("marshal-error")
	}
}

type zz19PQ struct {
	P int8 `json:"p"`
	Q int8 `json:"q"`
}

type zz19U struct {
	zz19V
	D  time.Duration     `json:"d"`
	SS string            `json:"ss,string"`
	MM map[string]zz19PQ `json:"mm"` // pre-populated: a member mentioned partially merges into the existing entry
}

// VerifC19ExplicitFalseUnmarshal: the same for Unmarshal of a document with a symbolic hole.
func VerifC19ExplicitFalseUnmarshal(mode int, tmpl string) {
	doc := vrt.Template("doc", tmpl)
	k := vrt.Choice("flag", len(zz19BoolFlags))
	flag := zz19BoolFlags[k]
	var opts []Options
	switch mode {
	case 0:
		opts = []Options{flag | 0}
	case 1:
		opts = []Options{flag | 1, flag | 0}
	default:
		opts = []Options{&jsonopts.DefaultOptionsV1, DefaultOptionsV2()}
	}
	one, two := int8(1), int8(1)
	v0 := zz19U{zz19V: zz19V{SP: &one, NS: []int8{4}, OE: zz19In{Q: 9}, Y: [2]byte{8, 8}}, MM: map[string]zz19PQ{"k": {P: 1, Q: 2}}}
	v1 := zz19U{zz19V: zz19V{SP: &two, NS: []int8{4}, OE: zz19In{Q: 9}, Y: [2]byte{8, 8}}, MM: map[string]zz19PQ{"k": {P: 1, Q: 2}}}
	err0 := Unmarshal(doc, &v0)
	err1 := Unmarshal(doc, &v1, opts...)
	vrt.Observe("k", k)
	vrt.Assert("C19/explicit-false/unmarshal-same-success", (err0 == nil) == (err1 == nil))
	if err0 == nil && err1 == nil {
		vrt.Cover("unmarshal-ok")
		same := v0.D == v1.D && v0.Y == v1.Y && bytes.Equal(v0.B, v1.B) && len(v0.NS) == len(v1.NS) && (v0.NS == nil) == (v1.NS == nil) &&
			len(v0.NM) == len(v1.NM) && (v0.NM == nil) == (v1.NM == nil) && (v0.SP == nil) == (v1.SP == nil) && v0.SS == v1.SS &&
			v0.OE == v1.OE && v0.OA == v1.OA && v0.Fld == v1.Fld && len(v0.MM) == len(v1.MM) && v0.MM["k"] == v1.MM["k"]
		if same && v0.SP != nil {
			same = *v0.SP == *v1.SP
		}
		vrt.Assert("C19/explicit-false/unmarshal-same-value", same)
	} else {
		vrt.Cover("unmarshal-error")
	}
}

type zz19Any struct {
	A any `json:"a"`
}

// VerifC19NilArshalers: the nil argument class of WithMarshalers / WithUnmarshalers - passed
// directly, inside JoinOptions, or after a non-nil setter (last wins) - behaves exactly as if
// no (un)marshalers had been given, for values that go through the untyped (any) paths.
func VerifC19NilArshalers(unmarshalSide bool) {
	joined := vrt.Bool("joined")
	afterNonNil := vrt.Bool("afterNonNil")
	shape := vrt.Choice("shape", 3)
	if !unmarshalSide {
		var opts []Options
		if afterNonNil {
			opts = append(opts, WithMarshalers(MarshalFunc(func(bool) ([]byte, error) { return []byte(`"B"`), nil })))
		}
		var nilM *Marshalers
		if joined {
			opts = append(opts, JoinOptions(Deterministic(false), WithMarshalers(nilM)))
		} else {
			opts = append(opts, WithMarshalers(nilM))
		}
		var v any
		switch shape {
		case 0:
			v = []any{1.5, "s", nil, true, map[string]any{}}
		case 1:
			v = &zz19Any{A: []any{true}}
		default:
			v = map[string]any{"k": vrt.Bool("b")}
		}
		want, err0 := Marshal(v)
		got, err1 := Marshal(v, opts...)
		vrt.Assert("C19/nil-arshalers/marshal-same-success", (err0 == nil) == (err1 == nil))
		vrt.Assert("C19/nil-arshalers/marshal-same-bytes", err0 != nil || err1 != nil || bytes.Equal(want, got))
		vrt.Cover("marshal-done")
		return
	}
	var opts []Options
	if afterNonNil {
		opts = append(opts, WithUnmarshalers(UnmarshalFunc(func(b []byte, p *bool) error { *p = true; return nil })))
	}
	var nilU *Unmarshalers
	if joined {
		opts = append(opts, JoinOptions(RejectUnknownMembers(false), WithUnmarshalers(nilU)))
	} else {
		opts = append(opts, WithUnmarshalers(nilU))
	}
	docs := []string{`[1.5,"s",null,false,{}]`, `{"a":[false]}`, `{"k":false}`}
	var v0, v1 any
	var s0, s1 zz19Any
	var err0, err1 error
	if shape == 1 {
		err0 = Unmarshal([]byte(docs[1]), &s0)
		err1 = Unmarshal([]byte(docs[1]), &s1, opts...)
		v0, v1 = s0.A, s1.A
	} else {
		err0 = Unmarshal([]byte(docs[shape]), &v0)
		err1 = Unmarshal([]byte(docs[shape]), &v1, opts...)
	}
	vrt.Assert("C19/nil-arshalers/unmarshal-same-success", (err0 == nil) == (err1 == nil))
	vrt.Assert("C19/nil-arshalers/unmarshal-same-value", err0 != nil || err1 != nil || zz04EqualAny(v0, v1))
	vrt.Cover("unmarshal-done")
}
