package json

import (
	"github.com/go-json-experiment/json/internal/jsonflags"
	"github.com/go-json-experiment/json/internal/zzverif/vrt"
)

// Types for the merge law: a struct holding every merge-capable kind.
type zz14Inner struct {
	X int8   `json:"x"`
	Y string `json:"y"`
}

type zz14T struct {
	S zz14Inner       `json:"s"`
	P *zz14Inner      `json:"p"`
	M map[string]int8 `json:"m"`
	L []int8          `json:"l"`
	A [2]int8         `json:"a"`
	I any             `json:"i"`
	N int8            `json:"n"`
	// slice with interface elements and array with struct elements: elements are REPLACED
	// (zeroed first), never merged with what the destination held at that index
	LA []any        `json:"la"`
	AS [2]zz14Inner `json:"as"`
}

// zzDigit returns a decimal digit byte and its numeric value: symbolic when sym, else def.
func zzDigit(sym bool, name string, def byte) (byte, int8) {
	if !sym {
		return def, int8(def - '0')
	}
	c := vrt.Byte(name)
	vrt.Assume(c >= '0' && c <= '9')
	return c, int8(c - '0')
}

// zzKeyByte returns a map key byte: symbolic in {a,b,c} when sym (equal and unequal keys both
// occur), else def.
func zzKeyByte(sym bool, name string, def byte) byte {
	if !sym {
		return def
	}
	c := vrt.Byte(name)
	vrt.Assume(c >= 'a' && c <= 'c')
	return c
}

// VerifC14Merge: Unmarshal merges JSON objects into existing values and replaces everything
// else. A first text j1 populates every field of zz14T with symbolic small values; a second
// text j2 mentions exactly one member (chosen by `field`) in one of three ways (`mode`:
// 0 a value, 1 null, 2 a value of a shape that exercises partial overwrite). Unmarshaling j2
// into the result of j1 must give exactly what the documented rules say: struct and map
// members merge recursively (untouched members/entries kept), a pointer is allocated or merged
// through, a slice holds exactly the new elements, an array is overwritten element-wise with
// missing elements zeroed, an interface holding a map merges only if both are objects else is
// replaced, scalars are replaced, null zeroes its destination; every field j2 does not mention
// is kept.
func VerifC14Merge(field, mode int) {
	// only the values of the field under test are symbolic (every further symbolic byte
	// multiplies the path count); the other fields carry distinct concrete values
	x1c, x1 := zzDigit(field == 0, "x1", '3')
	y1 := byte('q')
	if field == 0 {
		y1 = vrt.Byte("y1")
		vrt.Assume(y1 >= 'a' && y1 <= 'z')
	}
	px1c, px1 := zzDigit(field == 1, "px1", '4')
	k1 := zzKeyByte(field == 2, "k1", 'a')
	mv1c, mv1 := zzDigit(field == 2, "mv1", '5')
	l1c, l1 := zzDigit(field == 3, "l1", '6')
	a1c, a1 := zzDigit(field == 4, "a1", '8')
	a2c, a2 := zzDigit(field == 4, "a2", '9')
	n1c, n1 := zzDigit(field == 6, "n1", '2')
	ik1 := zzKeyByte(field == 5, "ik1", 'b')
	if field >= 7 {
		zz14Elements(field, mode)
		return
	}
	j1 := []byte(`{"s":{"x":` + string(x1c) + `,"y":"` + string(y1) + `"},"p":{"x":` + string(px1c) + `},"m":{"` + string(k1) + `":` + string(mv1c) +
		`},"l":[` + string(l1c) + `,7],"a":[` + string(a1c) + `,` + string(a2c) + `],"i":{"` + string(ik1) + `":true},"n":` + string(n1c) + `}`)
	var v zz14T
	err1 := Unmarshal(j1, &v)
	vrt.Assert("C14/j1-accepted", err1 == nil)
	if err1 != nil {
		return
	}
	// expected state after j1
	want := zz14T{S: zz14Inner{X: x1, Y: string(y1)}, P: &zz14Inner{X: px1}, M: map[string]int8{string(k1): mv1},
		L: []int8{l1, 7}, A: [2]int8{a1, a2}, N: n1}
	wantI := map[string]any{string(ik1): true}
	vrt.Assert("C14/after-j1", zz14Equal(&v, &want, wantI, false, false))

	// second text
	dc, d := zzDigit(true, "d", '0')
	k2 := zzKeyByte(field == 2 || field == 5, "k2", 'c')
	var j2 []byte
	iNil, iReplaced := false, false
	var wantIRepl any
	switch field {
	case 0: // struct member: merge recursively
		switch mode {
		case 0:
			j2 = []byte(`{"s":{"x":` + string(dc) + `}}`)
			want.S.X = d
		case 1:
			j2 = []byte(`{"s":null}`)
			want.S = zz14Inner{}
		default:
			j2 = []byte(`{"s":{"y":"Z"}}`)
			want.S.Y = "Z"
		}
	case 1: // pointer: merge through / zero on null / allocate
		switch mode {
		case 0:
			j2 = []byte(`{"p":{"y":"Q"}}`)
			want.P = &zz14Inner{X: px1, Y: "Q"}
		case 1:
			j2 = []byte(`{"p":null}`)
			want.P = nil
		default:
			j2 = []byte(`{"p":{"x":` + string(dc) + `,"y":"R"}}`)
			want.P = &zz14Inner{X: d, Y: "R"}
		}
	case 2: // map: entries merge, existing kept
		switch mode {
		case 0:
			j2 = []byte(`{"m":{"` + string(k2) + `":` + string(dc) + `}}`)
			want.M[string(k2)] = d
		case 1:
			j2 = []byte(`{"m":null}`)
			want.M = nil
		default:
			j2 = []byte(`{"m":{}}`)
		}
	case 3: // slice: exactly the new elements
		switch mode {
		case 0:
			j2 = []byte(`{"l":[` + string(dc) + `]}`)
			want.L = []int8{d}
		case 1:
			j2 = []byte(`{"l":null}`)
			want.L = nil
		default:
			j2 = []byte(`{"l":[1,2,` + string(dc) + `]}`)
			want.L = []int8{1, 2, d}
		}
	case 4: // array: overwritten element-wise, missing zeroed
		switch mode {
		case 0:
			j2 = []byte(`{"a":[` + string(dc) + `,5]}`)
			want.A = [2]int8{d, 5}
		case 1:
			j2 = []byte(`{"a":null}`)
			want.A = [2]int8{}
		default:
			j2 = []byte(`{"a":[` + string(dc) + `]}`)
			want.A = [2]int8{d, 0}
		}
	case 5: // interface holding a map
		switch mode {
		case 0:
			j2 = []byte(`{"i":{"` + string(k2) + `":false}}`)
			wantI[string(k2)] = false
		case 1:
			j2 = []byte(`{"i":null}`)
			iNil = true
		default:
			j2 = []byte(`{"i":"str"}`)
			iReplaced, wantIRepl = true, "str"
		}
	default: // scalar: replaced
		switch mode {
		case 0:
			j2 = []byte(`{"n":` + string(dc) + `}`)
			want.N = d
		case 1:
			j2 = []byte(`{"n":null}`)
			want.N = 0
		default:
			j2 = []byte(`{}`)
		}
	}
	err2 := Unmarshal(j2, &v)
	vrt.Observe("err2nil", err2 == nil)
	vrt.Cover("second-unmarshal")
	// The law is conditional ("whenever it succeeds"). Two of the texts are legitimately
	// refused under default options: a JSON array shorter than the Go array, and a JSON string
	// into an interface that currently holds a map. Everything else must be accepted.
	mayFail := (field == 4 && mode == 2) || (field == 5 && mode == 2)
	if err2 != nil && mayFail {
		vrt.Cover("second-refused")
		return
	}
	vrt.Assert("C14/j2-accepted", err2 == nil)
	if iReplaced {
		s, ok := v.I.(string)
		vrt.Assert("C14/interface-replaced", ok && s == wantIRepl.(string))
	}
	vrt.Assert("C14/merged-state", zz14Equal(&v, &want, wantI, iNil, iReplaced))
}

// zz14Equal compares the fields by hand (reflect.DeepEqual is not modelled).
func zz14Equal(got, want *zz14T, wantI map[string]any, iNil, iSkip bool) bool {
	if got.S != want.S || got.N != want.N || got.A != want.A {
		return false
	}
	if (got.P == nil) != (want.P == nil) || (got.P != nil && *got.P != *want.P) {
		return false
	}
	if (got.M == nil) != (want.M == nil) || len(got.M) != len(want.M) {
		return false
	}
	for k, w := range want.M {
		if g, ok := got.M[k]; !ok || g != w {
			return false
		}
	}
	if (got.L == nil) != (want.L == nil) || len(got.L) != len(want.L) {
		return false
	}
	for i := range want.L {
		if got.L[i] != want.L[i] {
			return false
		}
	}
	if iSkip {
		return true
	}
	if iNil {
		return got.I == nil
	}
	gm, ok := got.I.(map[string]any)
	if !ok || len(gm) != len(wantI) {
		return false
	}
	for k, w := range wantI {
		g, ok := gm[k]
		if !ok || g != w {
			return false
		}
	}
	return true
}

// zz14Elements: fields 7 (slice of interface elements) and 8 (array of structs, also under the
// option that accepts arrays of any length): a second text replaces elements, it never merges
// into the element that was at the same index.
func zz14Elements(field, mode int) {
	dc, d := zzDigit(true, "d", '0')
	k1 := zzKeyByte(true, "k1", 'a')
	k2 := zzKeyByte(true, "k2", 'b')
	var v zz14T
	if field == 7 {
		j1 := []byte(`{"la":[{"` + string(k1) + `":1},"keep"]}`)
		vrt.Assert("C14/j1-accepted", Unmarshal(j1, &v) == nil)
		var j2 []byte
		if mode == 0 {
			j2 = []byte(`{"la":[{"` + string(k2) + `":` + string(dc) + `}]}`)
		} else {
			j2 = []byte(`{"la":[{"` + string(k2) + `":` + string(dc) + `},{"z":true}]}`)
		}
		err2 := Unmarshal(j2, &v)
		vrt.Cover("second-unmarshal")
		vrt.Assert("C14/j2-accepted", err2 == nil)
		wantLen := 1
		if mode != 0 {
			wantLen = 2
		}
		vrt.Assert("C14/slice-holds-exactly-new-elements", len(v.LA) == wantLen)
		if len(v.LA) == wantLen {
			m0, ok := v.LA[0].(map[string]any)
			// the new element replaces the old one: exactly one member, the new one
			vrt.Assert("C14/interface-element-replaced-not-merged", ok && len(m0) == 1)
			if ok && len(m0) == 1 {
				f, isF := m0[string(k2)].(float64)
				vrt.Assert("C14/interface-element-value", isF && f == float64(d))
			}
			if mode != 0 {
				m1, ok1 := v.LA[1].(map[string]any)
				vrt.Assert("C14/second-element-replaced", ok1 && len(m1) == 1 && m1["z"] == true)
			}
		}
		return
	}
	j1 := []byte(`{"as":[{"x":1,"y":"p"},{"x":2,"y":"q"}]}`)
	vrt.Assert("C14/j1-accepted", Unmarshal(j1, &v) == nil)
	j2 := []byte(`{"as":[{"x":` + string(dc) + `},{"y":"r"}]}`)
	var err2 error
	if mode == 0 {
		err2 = Unmarshal(j2, &v)
	} else {
		// only the option that tolerates arrays of any length is set (it must not change how
		// present elements are stored)
		j2 = []byte(`{"as":[{"x":` + string(dc) + `}]}`)
		err2 = Unmarshal(j2, &v, jsonflags.UnmarshalArrayFromAnyLength|1)
	}
	vrt.Cover("second-unmarshal")
	vrt.Assert("C14/j2-accepted", err2 == nil)
	vrt.Assert("C14/array-element-overwritten-not-merged", v.AS[0] == zz14Inner{X: d})
	if mode == 0 {
		vrt.Assert("C14/array-second-element-overwritten", v.AS[1] == zz14Inner{Y: "r"})
	} else {
		vrt.Assert("C14/array-missing-element-zeroed", v.AS[1] == zz14Inner{})
	}
}

// zz14N: one field per destination kind for "a JSON null zeroes its destination".
type zz14N struct {
	BA [3]byte         `json:"ba"`
	BS []byte          `json:"bs"`
	IA [2]int8         `json:"ia"`
	P  *int8           `json:"p"`
	M  map[string]int8 `json:"m"`
	L  []int8          `json:"l"`
	S  string          `json:"s"`
	B  bool            `json:"b"`
	T  zz14Inner       `json:"t"`
	I  any             `json:"i"`
	F  float64         `json:"f"`
	U  uint8           `json:"u"`
	PP **int8          `json:"pp"`
}

// VerifC14Null: every field of zz14N holds a non-zero value (from a first Unmarshal when
// viaJSON, else set in Go); a second text {"<name>":null} names one field chosen by the solver.
// That field is zeroed, every other field is kept.
func VerifC14Null(viaJSON bool) {
	var v zz14N
	d := vrt.Byte("d")
	vrt.Assume(d >= '1' && d <= '9')
	n := int8(d - '0')
	if viaJSON {
		j1 := []byte(`{"ba":"AQID","bs":"BAU=","ia":[` + string(d) + `,2],"p":3,"m":{"k":4},"l":[5],"s":"x","b":true,"t":{"x":6,"y":"z"},"i":[7],"f":1.5,"u":8,"pp":9}`)
		err := Unmarshal(j1, &v)
		vrt.Assert("C14/null/first-accepted", err == nil)
		if err != nil {
			return
		}
	} else {
		p, q := int8(3), int8(9)
		pq := &q
		v = zz14N{BA: [3]byte{1, 2, 3}, BS: []byte{4, 5}, IA: [2]int8{n, 2}, P: &p, M: map[string]int8{"k": 4}, L: []int8{5}, S: "x", B: true,
			T: zz14Inner{X: 6, Y: "z"}, I: []any{7.0}, F: 1.5, U: 8, PP: &pq}
	}
	names := []string{"ba", "bs", "ia", "p", "m", "l", "s", "b", "t", "i", "f", "u", "pp"}
	k := vrt.Choice("field", len(names))
	err := Unmarshal([]byte(`{"`+names[k]+`":null}`), &v)
	vrt.Assert("C14/null/accepted", err == nil)
	if err != nil {
		return
	}
	zero := []bool{v.BA == [3]byte{}, v.BS == nil, v.IA == [2]int8{}, v.P == nil, v.M == nil, v.L == nil, v.S == "", !v.B, v.T == zz14Inner{}, v.I == nil, v.F == 0, v.U == 0, v.PP == nil}
	kept := []bool{v.BA == [3]byte{1, 2, 3}, len(v.BS) == 2 && v.BS[0] == 4 && v.BS[1] == 5, v.IA == [2]int8{n, 2}, v.P != nil && *v.P == 3, len(v.M) == 1 && v.M["k"] == 4,
		len(v.L) == 1 && v.L[0] == 5, v.S == "x", v.B, v.T == zz14Inner{X: 6, Y: "z"}, v.I != nil, v.F == 1.5, v.U == 8, v.PP != nil && *v.PP != nil && **v.PP == 9}
	for i := range names {
		if i == k {
			vrt.Assert("C14/null/destination-zeroed", zero[i])
		} else {
			vrt.Assert("C14/null/other-fields-kept", kept[i])
		}
	}
	vrt.Cover("checked")
}

// VerifC14ShortArray: "an array is overwritten element-wise with missing elements zeroed":
// a JSON array (or, for a byte array, a base64 string) that is shorter than the Go array is
// refused by default and, with UnmarshalArrayFromAnyLength, overwrites the leading elements
// and ZEROES the rest - whatever the array held before. tmpl: `{"ba":"??=="}` (one byte of
// payload), `{"ba":""}`, `{"ia":[?]}`, `{"ia":[]}`.
func VerifC14ShortArray(tmpl string, anyLength bool) {
	doc := vrt.Template("doc", tmpl)
	v := zz14N{BA: [3]byte{1, 2, 3}, IA: [2]int8{4, 5}, U: 8}
	var err error
	if anyLength {
		err = Unmarshal(doc, &v, jsonflags.UnmarshalArrayFromAnyLength|1)
	} else {
		err = Unmarshal(doc, &v)
	}
	vrt.Observe("ok", err == nil)
	if !anyLength {
		vrt.Assert("C14/short-array/refused-by-default", err != nil)
		return
	}
	if err != nil {
		vrt.Cover("refused")
		return
	}
	vrt.Cover("accepted")
	if doc[2] == 'b' {
		vrt.Assert("C14/short-array/tail-zeroed", v.BA[1] == 0 && v.BA[2] == 0 && v.IA == [2]int8{4, 5})
	} else {
		vrt.Assert("C14/short-array/tail-zeroed", v.IA[1] == 0 && v.BA == [3]byte{1, 2, 3})
	}
	vrt.Assert("C14/short-array/others-kept", v.U == 8)
}
