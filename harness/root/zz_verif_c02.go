package json

import (
	"bytes"

	"github.com/go-json-experiment/json/internal/jsonflags"
	"github.com/go-json-experiment/json/internal/zzverif/vrt"
	"github.com/go-json-experiment/json/internal/zzverif/zzspec"
	"github.com/go-json-experiment/json/jsontext"
)

// zzLeaf draws a leaf of an untyped value: nil, a symbolic bool, a string of strLen symbolic
// bytes (possibly ill-formed UTF-8), or a concrete finite float64.
func zzLeaf(name string, strLen int) any {
	switch vrt.Choice(name+"k", 4) {
	case 0:
		return nil
	case 1:
		return vrt.Bool(name + "b")
	case 2:
		return vrt.String(name+"s", strLen)
	default:
		return 1.5
	}
}

// zzLeafNS is a leaf that is not a string: nil, a symbolic bool or a concrete float.
func zzLeafNS(name string) any {
	switch vrt.Choice(name+"k", 3) {
	case 0:
		return nil
	case 1:
		return vrt.Bool(name + "b")
	default:
		return 1.5
	}
}

// zzTree builds an untyped tree of the given shape with symbolic leaves and map keys
// (the number of symbolic string bytes is kept small: every byte multiplies the classes).
func zzTree(shape, strLen int) any {
	switch shape {
	case 0:
		return zzLeaf("l0", strLen)
	case 1:
		return []any{zzLeaf("l0", strLen), zzLeafNS("l1")}
	case 2:
		return map[string]any{vrt.String("k0", strLen): nil, vrt.String("k1", strLen): zzLeafNS("l1")}
	case 3:
		return map[string]any{
			vrt.String("k0", strLen): []any{zzLeafNS("l0")},
			"b":                      map[string]any{vrt.String("k2", strLen): nil},
		}
	case 4:
		return []any{map[string]any{}, []any{}, map[string]any{vrt.String("k0", strLen): zzLeafNS("l0")}}
	default:
		return map[string]any{vrt.String("k0", strLen): nil, vrt.String("k1", strLen): nil, vrt.String("k2", strLen): nil}
	}
}

// zzWellFormedTree reports whether every string in the tree is well-formed UTF-8.
func zzWellFormedTree(v any) bool {
	switch v := v.(type) {
	case string:
		return zzspec.UTF8WellFormed([]byte(v))
	case []any:
		for _, e := range v {
			if !zzWellFormedTree(e) {
				return false
			}
		}
	case map[string]any:
		for k, e := range v {
			if !zzspec.UTF8WellFormed([]byte(k)) || !zzWellFormedTree(e) {
				return false
			}
		}
	}
	return true
}

// VerifC02AnyM: marshaling an untyped tree through the specialised fast path
// (marshalValueAny over a pooled buffered encoder, exactly what Marshal does for an any):
// if it reports success, the bytes are exactly one JSON value valid under the effective
// options (well-formed UTF-8 unless allowed, no duplicate names unless allowed — in particular
// two map keys that both mangle to U+FFFD must produce an error); otherwise an error. For
// well-formed trees it succeeds and the output denotes exactly the tree. With nondetOrder the
// map iteration order is an arbitrary permutation: under Deterministic the bytes must not
// depend on it (compared with the order-independent reference serialisation).
func VerifC02AnyM(shape, strLen int, allowUTF8, allowDup, deterministic, nondetOrder bool) {
	vrt.MapOrderNondet(nondetOrder)
	tree := zzTree(shape, strLen)
	enc := export.GetBufferedEncoder(jsontext.AllowInvalidUTF8(allowUTF8), jsontext.AllowDuplicateNames(allowDup), Deterministic(deterministic))
	defer export.PutBufferedEncoder(enc)
	xe := export.Encoder(enc)
	xe.Flags.Set(jsonflags.OmitTopLevelNewline | 1)
	err := marshalValueAny(enc, tree, &xe.Struct)
	out := bytes.Clone(xe.Buf)
	vrt.Observe("errnil", err == nil)
	wf := zzWellFormedTree(tree)
	if err != nil {
		vrt.Cover("error")
		// an error is only legitimate when the tree holds ill-formed UTF-8 (reported directly,
		// or through names colliding after U+FFFD substitution)
		vrt.Assert("C02/anyM/error-only-for-invalid-utf8", !wf)
		if allowUTF8 && allowDup {
			vrt.Fail("C02/anyM/no-error-when-everything-allowed")
		}
		return
	}
	vrt.Cover("success")
	if deterministic || shape <= 1 {
		vrt.Observe("out", out) // without Deterministic the native map order is random
	}
	vrt.Assert("C02/anyM/output-is-one-valid-value", zzspec.ValidText(out, !allowUTF8, !allowDup, 10000))
	if !allowUTF8 {
		vrt.Assert("C02/anyM/invalid-utf8-rejected", wf)
	}
	if wf {
		back, ok := zzspec.ParseAny(out)
		vrt.Assert("C02/anyM/denotes-the-tree", ok && zzspec.EqualAny(back, tree))
	}
	if deterministic {
		vrt.Assert("C18/det/sorted-order-independent", zzNamesSorted(out))
	}
}

// zzNamesSorted reports whether, in every object of the valid compact text b, member names
// appear in non-descending order of their unescaped spelling (what slices.Sort of the Go strings gives
// for names without escapes; harness strings are short raw bytes).
func zzNamesSorted(b []byte) bool {
	// scan objects with an explicit stack of "previous name" per open object
	var prev [][]byte
	var isObj []bool
	expectName := false
	for i := 0; i < len(b); {
		c := b[i]
		switch {
		case c == '{':
			prev = append(prev, nil)
			isObj = append(isObj, true)
			expectName = true
			i++
		case c == '[':
			prev = append(prev, nil)
			isObj = append(isObj, false)
			expectName = false
			i++
		case c == '}' || c == ']':
			prev = prev[:len(prev)-1]
			isObj = isObj[:len(isObj)-1]
			expectName = false
			i++
		case c == ',':
			expectName = len(isObj) > 0 && isObj[len(isObj)-1]
			i++
		case c == ':':
			expectName = false
			i++
		case c == '"':
			e := zzspec.ScanString(b, i, false)
			if expectName {
				name := zzspec.Unescape(b[i:e])
				top := len(prev) - 1
				// equal spellings are possible when AllowInvalidUTF8 mangles two distinct ill-formed
				// keys to U+FFFD (and duplicates are allowed): their relative order is fixed by the
				// Go keys, which this scan cannot see, so only a descent is an error
				if prev[top] != nil && bytes.Compare(prev[top], name) > 0 {
					return false
				}
				prev[top] = name
			}
			i = e
		default:
			i++
		}
	}
	return true
}

type zz02Emb struct {
	A int8           `json:"A"`
	X jsontext.Value `json:",embed"`
}

type zz02EmbMap struct {
	A int8           `json:"A"`
	X map[string]any `json:",embed"`
}

// A struct whose marshal order (depth-first: the embedded struct's members first) differs from
// the breadth-first numbering of its fields, with members that are dropped at run time.
type zz02In struct {
	C int8 `json:"C,omitzero"`
	D int8 `json:"D"`
}

type zz02Emb2 struct {
	zz02In
	B int8           `json:"B,omitzero"`
	A int8           `json:"A"`
	E int8           `json:"E,omitzero"`
	X jsontext.Value `json:",embed"`
}

type zz02EmbMap2 struct {
	zz02In
	B int8           `json:"B,omitzero"`
	A int8           `json:"A"`
	E int8           `json:"E,omitzero"`
	X map[string]any `json:",embed"`
}

// VerifC02Embedded2: as VerifC02Embedded for zz02Emb2 / zz02EmbMap2, the omitzero members
// present or dropped as the solver chooses.
func VerifC02Embedded2(tmpl string, viaMap bool) {
	b := vrt.Template("n", tmpl)
	in := zz02In{D: 4}
	var bb, ee int8
	if vrt.Bool("c") {
		in.C = 3
	}
	if vrt.Bool("b") {
		bb = 2
	}
	if vrt.Bool("e") {
		ee = 5
	}
	var out []byte
	var err error
	if viaMap {
		vrt.Assume(zzspec.ValidText(b, false, false, 10000))
		tree, ok := zzspec.ParseAny(b)
		m, isObj := tree.(map[string]any)
		vrt.Assume(ok && isObj)
		out, err = Marshal(&zz02EmbMap2{zz02In: in, B: bb, A: 1, E: ee, X: m})
	} else {
		out, err = Marshal(&zz02Emb2{zz02In: in, B: bb, A: 1, E: ee, X: jsontext.Value(b)})
	}
	vrt.Observe("errnil", err == nil)
	if err != nil {
		vrt.Cover("error")
		return
	}
	vrt.Cover("success")
	if !viaMap {
		vrt.Observe("out", out) // a map fallback is written in Go's random iteration order
	}
	vrt.Assert("C02/embedded/output-is-one-valid-value", zzspec.ValidText(out, true, true, 10000))
}

// VerifC02Embedded: members supplied through an embedded fallback (a raw jsontext.Value or a
// map) are policed like everything else: if Marshal reports success the output is one valid
// value under the effective options - no duplicate names (among the fallback's members, with
// the struct's own member "A", or after U+FFFD substitution of ill-formed names under
// AllowInvalidUTF8), well-formed UTF-8 unless allowed - otherwise an error.
func VerifC02Embedded(tmpl string, viaMap, allowUTF8 bool) {
	b := vrt.Template("n", tmpl)
	var out []byte
	var err error
	if viaMap {
		vrt.Assume(zzspec.ValidText(b, false, false, 10000)) // only then is the reference parser defined
		tree, ok := zzspec.ParseAny(b)
		m, isObj := tree.(map[string]any)
		vrt.Assume(ok && isObj)
		out, err = Marshal(&zz02EmbMap{A: 1, X: m}, jsontext.AllowInvalidUTF8(allowUTF8))
	} else {
		out, err = Marshal(&zz02Emb{A: 1, X: jsontext.Value(b)}, jsontext.AllowInvalidUTF8(allowUTF8))
	}
	vrt.Observe("errnil", err == nil)
	if err != nil {
		vrt.Cover("error")
		return
	}
	vrt.Cover("success")
	if !viaMap {
		vrt.Observe("out", out) // a map fallback is written in Go's random iteration order
	}
	vrt.Assert("C02/embedded/output-is-one-valid-value", zzspec.ValidText(out, !allowUTF8, true, 10000))
}

// VerifC02MapKeys: values in object-name position that are not strings or numbers - reached
// through pointer keys, interface keys and caller-supplied key functions - never yield
// malformed output: an error, or valid JSON. kind 0 map[*[]int8]V with an empty slice behind
// the key; 1 the same with a nil slice; 2 map[any]V holding such a pointer; 3 a pointer to an
// empty map as key; 4 a pointer to an empty struct; 5 map[*[]any]V; 6 key function mapping
// two distinct int8 keys to solver-chosen one-byte names, marshaled twice with the same
// Marshalers value (second call: warm per-type cache).
func VerifC02MapKeys(kind int) {
	var v any
	var opts []Options
	calls := 1
	switch kind {
	case 0:
		e := []int8{}
		v = map[*[]int8]string{&e: "v"}
	case 1:
		var e []int8
		v = map[*[]int8]int8{&e: 1}
	case 2:
		e := []int8{}
		v = map[any]bool{&e: true}
	case 3:
		e := map[string]int8{}
		v = map[*map[string]int8]int8{&e: 1}
	case 4:
		e := struct{}{}
		v = map[*struct{}]int8{&e: 1}
	case 5:
		e := []any{}
		v = []any{1, map[*[]any][]any{&e: {}}}
	default:
		n1, n2 := vrt.Byte("n1"), vrt.Byte("n2")
		vrt.Assume(n1 >= 'a' && n1 <= 'c' && n2 >= 'a' && n2 <= 'c')
		opts = []Options{WithMarshalers(MarshalFunc(func(k int8) ([]byte, error) {
			if k == 1 {
				return []byte{'"', n1, '"'}, nil
			}
			return []byte{'"', n2, '"'}, nil
		}))}
		v = []map[int8]bool{{1: true, 2: false}, {1: false, 2: true}}
		calls = 2
	}
	for i := 0; i < calls; i++ {
		out, err := Marshal(v, opts...)
		if err != nil {
			vrt.Cover("error")
			continue
		}
		vrt.Cover("success")
		vrt.Assert("C02/mapkeys/output-is-one-valid-value", zzspec.ValidText(out, true, true, 10000))
	}
}
