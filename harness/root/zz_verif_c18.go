package json

import (
	"bytes"
	"math"

	"github.com/go-json-experiment/json/jsontext"

	"github.com/go-json-experiment/json/internal/zzverif/vrt"
)

// VerifC18ErrAlias: values handed back by Unmarshal - including the JSON value recorded in a
// SemanticError - are not altered by later calls nor by the caller overwriting the input buffer
// it passed. The input is a number (symbolic digits); the cases that do not fit the int8 destination are compared.
func VerifC18ErrAlias(nd int, viaReader bool) {
	digits := vrt.Bytes("d", nd)
	for _, c := range digits {
		vrt.Assume(c >= '1' && c <= '9')
	}
	in := append([]byte(nil), digits...)
	var v int8
	var err error
	if viaReader {
		err = UnmarshalRead(bytes.NewReader(in), &v)
	} else {
		err = Unmarshal(in, &v)
	}
	if err == nil {
		vrt.Cover("fits") // three digits up to 127 fit the destination: nothing to compare
		return
	}
	se, ok := err.(*SemanticError)
	vrt.Cover("error")
	vrt.Assert("C18/alias/semantic-error", ok)
	if !ok {
		return
	}
	snapshot := append([]byte(nil), se.JSONValue...)
	vrt.Observe("val", snapshot)
	vrt.Assert("C18/alias/value-is-the-literal", bytes.Equal(snapshot, digits))
	// the caller re-uses its buffer, and further calls run on the recycled coders
	for i := range in {
		in[i] = '#'
	}
	var w []any
	_ = Unmarshal([]byte(`["abcdefgh", 12345678]`), &w)
	var u int8
	_ = UnmarshalRead(bytes.NewReader([]byte(`777777`)), &u)
	vrt.Assert("C18/alias/error-value-not-altered-later", bytes.Equal(se.JSONValue, snapshot))
}

// VerifC18DeepHistory: a marshal that fails deep inside cycle-tracked data (more than 1000
// levels) leaves nothing behind on its Encoder: after Reset, marshaling the same containers
// again (now with a valid innermost value) gives exactly what a new Encoder gives. (An explicit
// Encoder is re-used so that the history is the same natively; the pooled encoders of Marshal
// share the same reset code.)
func VerifC18DeepHistory(depth int) {
	inner := []any{math.NaN()}
	var v any = inner
	for i := 0; i < depth; i++ {
		v = []any{v}
	}
	w1 := new(bytes.Buffer)
	enc := jsontext.NewEncoder(w1)
	err1 := MarshalEncode(enc, v)
	vrt.Assert("C18/deep/nan-rejected", err1 != nil)
	leaf := any(nil)
	if vrt.Bool("leafkind") {
		leaf = true
	}
	inner[0] = leaf
	w2 := new(bytes.Buffer)
	enc.Reset(w2)
	err2 := MarshalEncode(enc, v) // re-used encoder
	w3 := new(bytes.Buffer)
	err3 := MarshalEncode(jsontext.NewEncoder(w3), v) // new encoder
	vrt.Cover("second")
	vrt.Observe("err2nil", err2 == nil)
	vrt.Assert("C18/deep/same-error-ness", (err2 == nil) == (err3 == nil))
	vrt.Assert("C18/deep/second-call-succeeds", err2 == nil)
	vrt.Assert("C18/deep/same-bytes", bytes.Equal(w2.Bytes(), w3.Bytes()))
}

// VerifC18ScratchPools: the scratch slices that the Deterministic paths take from package-level
// pools (sorted names of maps and of embedded map fallbacks) carry nothing from one call to the
// next: a nested deterministic map marshals to the same bytes before and after an unrelated
// call that used the same pools (an embedded map fallback with several entries), whatever
// that call's outcome.
func VerifC18ScratchPools() {
	b1, b2 := vrt.Bool("b1"), vrt.Bool("b2")
	nested := map[string]map[string]bool{"a": {"x": b1, "y": true}, "b": {"z": b2, "w": false}}
	want, err0 := Marshal(nested, Deterministic(true))
	vrt.Assert("C18/pools/first-call", err0 == nil)
	fb := map[string]any{"p": 1.5, "q": b1}
	if vrt.Bool("collide") {
		fb["A"] = true // collides with the struct's own member: the call fails after the names were sorted
	}
	_, errA := Marshal(&zz02EmbMap{A: 1, X: fb}, Deterministic(true))
	if errA != nil {
		vrt.Cover("unrelated-call-failed")
	} else {
		vrt.Cover("unrelated-call-ok")
	}
	got, err1 := Marshal(nested, Deterministic(true))
	vrt.Assert("C18/pools/same-result-after-unrelated-call", err1 == nil && bytes.Equal(got, want))
}
