package json

import (
	"github.com/go-json-experiment/json/internal/zzverif/vrt"
)

// VerifC20MarshalDepth: marshaling deeply nested Go values: `depth` nested []any (or
// map[string]any when maps) around a solver-chosen innermost value (nil, "x", an empty []any,
// an empty map[string]any, a non-empty []any, an empty []int, an empty map[string]int).
// Total nesting of at most 10000 is accepted, 10001 is refused with an error, for every leaf -
// in particular the empty containers that the marshalers emit through a fast path.
func VerifC20MarshalDepth(depth int, maps bool) {
	var leaf any
	leafDepth := 0
	switch vrt.Choice("leaf", 7) {
	case 0:
		leaf = nil
	case 1:
		leaf = "x"
	case 2:
		leaf, leafDepth = []any{}, 1
	case 3:
		leaf, leafDepth = map[string]any{}, 1
	case 4:
		leaf, leafDepth = []any{true}, 1
	case 5:
		leaf, leafDepth = []int{}, 1
	default:
		leaf, leafDepth = map[string]int{}, 1
	}
	v := leaf
	for i := 0; i < depth; i++ {
		if maps {
			v = map[string]any{"": v}
		} else {
			v = []any{v}
		}
	}
	out, err := Marshal(v)
	total := depth + leafDepth
	vrt.Observe("errnil", err == nil)
	vrt.Observe("len", len(out))
	if total <= 10000 {
		vrt.Cover("within-limit")
		vrt.Assert("C20/marshal-depth/accepted-up-to-10000", err == nil)
	} else {
		vrt.Cover("beyond-limit")
		vrt.Assert("C20/marshal-depth/10001-refused", err != nil)
	}
}
