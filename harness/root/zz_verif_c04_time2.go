package json

import (
	"time"

	"github.com/go-json-experiment/json/internal/zzverif/vrt"
)

type zz04DurSec struct {
	D time.Duration `json:"d,format:sec"`
}
type zz04DurNano struct {
	D time.Duration `json:"d,format:nano"`
}
type zz04DurMilliStr struct {
	D time.Duration `json:"d,string,format:milli"`
}

// VerifC04DurTyped: a struct with a formatted time.Duration member round-trips through the
// real Marshal and Unmarshal (format tags enabled) for every int64 duration of the given sign.
func VerifC04DurTyped(kind int, neg bool) {
	d := time.Duration(vrt.Int64("d"))
	vrt.Assume((d < 0) == neg)
	opt := ExperimentalSupportFormatTag(true)
	var out []byte
	var err error
	switch kind {
	case 0:
		out, err = Marshal(&zz04DurSec{d}, opt)
	case 1:
		out, err = Marshal(&zz04DurNano{d}, opt)
	default:
		out, err = Marshal(&zz04DurMilliStr{d}, opt)
	}
	vrt.Assert("C04/duration/typed-marshal-succeeds", err == nil)
	if err != nil {
		return
	}
	vrt.Observe("out", out)
	var d2 time.Duration
	switch kind {
	case 0:
		var w zz04DurSec
		err = Unmarshal(out, &w, opt)
		d2 = w.D
	case 1:
		var w zz04DurNano
		err = Unmarshal(out, &w, opt)
		d2 = w.D
	default:
		var w zz04DurMilliStr
		err = Unmarshal(out, &w, opt)
		d2 = w.D
	}
	vrt.Assert("C04/duration/typed-unmarshal-accepts-own-output", err == nil)
	vrt.Assert("C04/duration/typed-restored", err != nil || d2 == d)
	vrt.Cover("checked")
}
