package json

import (
	"errors"
	"io"

	"github.com/go-json-experiment/json/internal/jsonflags"
	"github.com/go-json-experiment/json/jsontext"

	"github.com/go-json-experiment/json/internal/zzverif/vrt"
)

// C05 (typed entry points): UnmarshalRead equals Unmarshal, whatever the reader does, for
// documents whose first value ends exactly at, just before or just after the decoder's buffer
// boundaries (64 bytes and its doublings), followed by a symbolic tail. The reader also polices
// the io.Reader contract from the other side: a Read with an empty buffer returns (0, nil),
// and a library that keeps polling with an empty buffer never makes progress - that is
// reported after a few such calls instead of spinning (C20: termination).

type zz05Reader struct {
	data      []byte
	chunk     int // at most this many bytes per Read (0: as many as fit)
	eofWith   bool
	zeroReads int
}

var zz05ErrSpin = errors.New("zz05: Read called with an empty buffer again and again")

func (r *zz05Reader) Read(p []byte) (int, error) {
	if len(p) == 0 {
		r.zeroReads++
		if r.zeroReads > 8 {
			return 0, zz05ErrSpin
		}
		return 0, nil
	}
	if len(r.data) == 0 {
		return 0, io.EOF
	}
	n := len(p)
	if r.chunk > 0 && n > r.chunk {
		n = r.chunk
	}
	if n > len(r.data) {
		n = len(r.data)
	}
	copy(p, r.data[:n])
	r.data = r.data[n:]
	if len(r.data) == 0 && r.eofWith {
		return n, io.EOF
	}
	return n, nil
}

// VerifC05UnmarshalRead: the first value is a string literal of exactly n bytes (kind 0), an
// array of n bytes (kind 1) or a number of n digits (kind 2); tail is a template ("?", "??",
// " ?") appended to it; chunk 0 fills the buffer, otherwise Read delivers at most chunk bytes.
func VerifC05UnmarshalRead(kind, n int, tail string, chunk int, eofWith bool) {
	doc := make([]byte, 0, n+4)
	switch kind {
	case 0:
		doc = append(doc, '"')
		for len(doc) < n-1 {
			doc = append(doc, 'x')
		}
		doc = append(doc, '"')
	case 1:
		doc = append(doc, '[')
		for len(doc) < n-2 {
			doc = append(doc, '1', ',')
		}
		doc = append(doc, '1')
		for len(doc) < n-1 {
			doc = append(doc, ' ')
		}
		doc = append(doc, ']')
	default:
		for len(doc) < n {
			doc = append(doc, '1')
		}
	}
	doc = append(doc, vrt.Template("tail", tail)...)
	var v0, v1 any
	err0 := Unmarshal(doc, &v0)
	r := &zz05Reader{data: append([]byte(nil), doc...), chunk: chunk, eofWith: eofWith}
	err1 := UnmarshalRead(r, &v1)
	vrt.Observe("ok0", err0 == nil)
	vrt.Observe("ok1", err1 == nil)
	vrt.Assert("C20/reader/not-polled-with-empty-buffer", r.zeroReads <= 8 && !errors.Is(err1, zz05ErrSpin))
	vrt.Assert("C05/unmarshalread/same-success", (err0 == nil) == (err1 == nil))
	if err0 == nil && err1 == nil {
		vrt.Cover("accepted")
		s0, ok0 := v0.(string)
		s1, ok1 := v1.(string)
		a0, oka0 := v0.([]any)
		a1, oka1 := v1.([]any)
		f0, okf0 := v0.(float64)
		f1, okf1 := v1.(float64)
		vrt.Assert("C05/unmarshalread/same-value", ok0 == ok1 && s0 == s1 && oka0 == oka1 && len(a0) == len(a1) && okf0 == okf1 && f0 == f1)
	} else {
		vrt.Cover("refused")
	}
}

// VerifC05DecodeStream: UnmarshalDecode over a stream equals Unmarshal of each value in turn:
// a short first value, then a second value (a string literal of n bytes) that extends past
// what the decoder has buffered, then a symbolic tail byte; with and without the v1 option
// ReportErrorsWithLegacySemantics (which pre-validates the next value before unmarshaling it).
func VerifC05DecodeStream(n, chunk int, legacy bool) {
	doc := []byte(`[1,2] `)
	second := make([]byte, 0, n)
	second = append(second, '"')
	for len(second) < n-1 {
		second = append(second, 'y')
	}
	second = append(second, '"')
	// two solver-chosen letters around the point where the first 64-byte fill ends
	c0, c1 := vrt.Byte("c0"), vrt.Byte("c1")
	vrt.Assume(c0 >= 'a' && c0 <= 'z' && c1 >= 'a' && c1 <= 'z')
	if n > 60 {
		second[57], second[58] = c0, c1
	} else {
		second[1], second[n-2] = c0, c1
	}
	doc = append(doc, second...)
	doc = append(doc, vrt.Template("tail", "?")...)
	var opts []Options
	if legacy {
		opts = append(opts, jsonflags.ReportErrorsWithLegacySemantics|1)
	}
	r := &zz05Reader{data: append([]byte(nil), doc...), chunk: chunk}
	dec := jsontext.NewDecoder(r)
	var v1, v2 any
	err1 := UnmarshalDecode(dec, &v1, opts...)
	vrt.Assert("C05/stream/first-value", err1 == nil)
	if a, ok := v1.([]any); !ok || len(a) != 2 {
		vrt.Fail("C05/stream/first-value")
	}
	err2 := UnmarshalDecode(dec, &v2, opts...)
	// the second value is complete and valid unless the tail byte glues onto it; a string
	// literal is self-delimiting, so it is always readable
	vrt.Assert("C05/stream/second-value-accepted", err2 == nil)
	s, ok := v2.(string)
	vrt.Assert("C05/stream/second-value-same", err2 != nil || (ok && s == string(second[1:n-1])))
	vrt.Assert("C20/reader/not-polled-with-empty-buffer", r.zeroReads <= 8)
	vrt.Cover("checked")
}
