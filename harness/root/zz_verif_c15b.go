package json

import (
	"github.com/go-json-experiment/json/internal/zzverif/vrt"
	"github.com/go-json-experiment/json/internal/zzverif/zzspec"
)

// ---- omitzero through the OmitZeroStructFields OPTION (documented as equivalent to tagging
// every field `omitzero`): the type's IsZero method decides, not Go zero-ness.

type zz15bZ int8

func (x zz15bZ) IsZero() bool { return x == 7 }

type zz15bOZ struct {
	A zz15bZ  `json:"a"`          // untagged: governed by the option only
	T zz15bZ  `json:"t,omitzero"` // tagged
	B int8    `json:"b"`
	P *zz15bZ `json:"p"`
}

// VerifC15OmitZeroOption: for all values of the fields, with and without the option: member
// "a" (untagged, type with IsZero) is omitted under the option exactly when IsZero() says so
// (value 7) - not when the Go value is 0; "t" likewise with or without the option; "b" is
// omitted under the option exactly when 0; a nil pointer is omitted under the option.
func VerifC15OmitZeroOption(option bool) {
	v := zz15bOZ{A: zz15bZ(vrt.Byte("a")), T: zz15bZ(vrt.Byte("t")), B: int8(vrt.Byte("b"))}
	vrt.Assume(v.A >= 0 && v.A <= 9 && v.T >= 0 && v.T <= 9 && v.B >= 0 && v.B <= 9)
	if vrt.Bool("ptr") {
		p := zz15bZ(5)
		if vrt.Bool("ptr7") {
			p = 7
		}
		v.P = &p
	}
	out, err := Marshal(&v, OmitZeroStructFields(option))
	vrt.Assert("C15/omitzero-option/marshal-ok", err == nil)
	if err != nil {
		return
	}
	vrt.Observe("out", out)
	tree, ok := zzspec.ParseAny(out)
	m, isObj := tree.(map[string]any)
	vrt.Assert("C15/omitzero-option/object", ok && isObj)
	if !isObj {
		return
	}
	has := func(k string) bool { _, ok := m[k]; return ok }
	vrt.Cover("end")
	vrt.Assert("C15/omitzero-option/tagged-field-uses-iszero", has("t") == (v.T != 7))
	if option {
		vrt.Assert("C15/omitzero-option/untagged-field-uses-iszero", has("a") == (v.A != 7))
		vrt.Assert("C15/omitzero-option/plain-field-zero", has("b") == (v.B != 0))
		// a pointer whose type has IsZero in its method set: nil is zero, otherwise IsZero() decides
		vrt.Assert("C15/omitzero-option/pointer", has("p") == (v.P != nil && *v.P != 7))
	} else {
		vrt.Assert("C15/omitzero-option/off-keeps-untagged", has("a") && has("b") && has("p"))
	}
}

// ---- embedded fallback dominance: the fallback is the unique shallowest candidate;
// candidates tied at the shallowest depth cancel each other and nothing deeper replaces them.

type Zz15bDeep struct {
	M3 map[string]any `json:",embed"`
}
type Zz15bLeft struct {
	M1 map[string]any `json:",embed"`
}
type Zz15bRight struct {
	M2 map[string]any `json:",embed"`
	Zz15bDeep
}
type Zz15bRightOnlyDeep struct {
	Zz15bDeep
}

// two tied at depth 2 plus one deeper: no fallback
type zz15bTied3 struct {
	A int8
	Zz15bLeft
	Zz15bRight
}

// one at depth 2 and one deeper: the shallow one is the fallback
type zz15bShallowWins struct {
	A int8
	Zz15bLeft
	Zz15bRightOnlyDeep
}

// VerifC15FallbackDominance: an object with one known member and one member whose name is
// symbolic (1-2 bytes) is unmarshaled into types with several embedded fallbacks: the unknown
// member goes to the dominant fallback when there is exactly one shallowest candidate;
// otherwise it is ignored, or rejected under RejectUnknownMembers; never captured by a
// cancelled or deeper candidate.
func VerifC15FallbackDominance(kind int, reject bool, tmpl string) {
	b := vrt.Template("n", tmpl)
	valid := zzspec.ValidText(b, true, true, 10000)
	vrt.Assume(valid)
	name := "" // the symbolic member name, recovered from the text
	if tree, ok := zzspec.ParseAny(b); ok {
		if m, isObj := tree.(map[string]any); isObj {
			for k := range m {
				if k != "A" {
					name = k
				}
			}
		}
	}
	vrt.Assume(name != "" && name != "a") // a proper unknown member (not matching field A)
	var m1, m2, m3 map[string]any
	var a int8
	var err error
	opts := []Options{RejectUnknownMembers(reject)}
	if kind == 0 {
		var v zz15bTied3
		err = Unmarshal(b, &v, opts...)
		a, m1, m2, m3 = v.A, v.M1, v.M2, v.M3
	} else {
		var v zz15bShallowWins
		err = Unmarshal(b, &v, opts...)
		a, m1, m3 = v.A, v.M1, v.M3
	}
	vrt.Observe("errnil", err == nil)
	vrt.Cover("end")
	if kind == 0 {
		// no dominant fallback: unknown members are ignored or rejected
		vrt.Assert("C15/fallback/cancelled-candidates-capture-nothing", len(m1) == 0 && len(m2) == 0 && len(m3) == 0)
		vrt.Assert("C15/fallback/unknown-rejected-iff-requested", (err != nil) == reject)
		if err == nil {
			vrt.Assert("C15/fallback/known-member-stored", a == 1)
		}
		return
	}
	// the depth-2 fallback is dominant: it captures the unknown member, the deeper one nothing
	vrt.Assert("C15/fallback/dominant-accepts", err == nil)
	_, got := m1[name]
	vrt.Assert("C15/fallback/dominant-captures", got && len(m1) == 1 && len(m3) == 0 && a == 1)
}
