package json

import (
	"bytes"
	"errors"

	"github.com/go-json-experiment/json/internal/zzverif/vrt"
	"github.com/go-json-experiment/json/internal/zzverif/zzspec"
	"github.com/go-json-experiment/json/jsontext"
)

// ---------------------------------------------------------------------------------------------
// Recording and scripting of user code.
//
// Every user-defined method/function of the test types appends its tag to zz17Log (and the
// receiver value it saw to zz17Recv) and then does what the harness-installed script says.
// ---------------------------------------------------------------------------------------------

const (
	zz17TagTo   = 1 // MarshalJSONTo
	zz17TagJ    = 2 // MarshalJSON
	zz17TagA    = 3 // AppendText
	zz17TagT    = 4 // MarshalText
	zz17TagF1   = 5 // caller-supplied functions, in the order of the list
	zz17TagF2   = 6
	zz17TagF3   = 7
	zz17TagFrom = 11 // UnmarshalJSONFrom
	zz17TagUJ   = 12 // UnmarshalJSON
	zz17TagUT   = 13 // UnmarshalText
	zz17TagU1   = 15 // caller-supplied unmarshal functions
	zz17TagU2   = 16
	zz17TagU3   = 17
)

var (
	zz17Log     []int
	zz17Recv    []int8
	zz17NilRecv bool // a method/function was entered with a nil pointer

	zz17ToFn   func(enc *jsontext.Encoder) error
	zz17JFn    func() ([]byte, error)
	zz17AFn    func(b []byte) ([]byte, error)
	zz17TFn    func() ([]byte, error)
	zz17FromFn func(dec *jsontext.Decoder, set func(int8)) error
	zz17UJFn   func(b []byte, set func(int8)) error
	zz17UTFn   func(b []byte, set func(int8)) error
)

var zz17ErrUser = errors.New("zz17 user error")

// zz17WrapUnsup wraps errors.ErrUnsupported (errors.Is sees through it).
type zz17WrapUnsup struct{}

func (zz17WrapUnsup) Error() string { return "zz17 wrapped unsupported" }
func (zz17WrapUnsup) Unwrap() error { return errors.ErrUnsupported }

// zz17Reset installs the benign scripts: every representation is recognisable in the output.
func zz17Reset() {
	zz17Log, zz17Recv, zz17NilRecv = nil, nil, false
	zz17ToFn = func(enc *jsontext.Encoder) error { return enc.WriteToken(jsontext.String("To")) }
	zz17JFn = func() ([]byte, error) { return []byte(`"J"`), nil }
	zz17AFn = func(b []byte) ([]byte, error) { return append(b, 'A'), nil }
	zz17TFn = func() ([]byte, error) { return []byte("T"), nil }
	zz17FromFn = func(dec *jsontext.Decoder, set func(int8)) error { set(zz17TagFrom); return dec.SkipValue() }
	zz17UJFn = func(b []byte, set func(int8)) error { set(zz17TagUJ); return nil }
	zz17UTFn = func(b []byte, set func(int8)) error { set(zz17TagUT); return nil }
}

func zz17To(x int8, enc *jsontext.Encoder) error {
	zz17Log, zz17Recv = append(zz17Log, zz17TagTo), append(zz17Recv, x)
	return zz17ToFn(enc)
}
func zz17J(x int8) ([]byte, error) {
	zz17Log, zz17Recv = append(zz17Log, zz17TagJ), append(zz17Recv, x)
	return zz17JFn()
}
func zz17A(x int8, b []byte) ([]byte, error) {
	zz17Log, zz17Recv = append(zz17Log, zz17TagA), append(zz17Recv, x)
	return zz17AFn(b)
}
func zz17T(x int8) ([]byte, error) {
	zz17Log, zz17Recv = append(zz17Log, zz17TagT), append(zz17Recv, x)
	return zz17TFn()
}
func zz17Nil() { zz17NilRecv = true }

// ---------------------------------------------------------------------------------------------
// The type universe: one Go type per combination of methods and receivers (all int8 underneath:
// the default representation is the decimal number, as a map key the quoted number).
// ---------------------------------------------------------------------------------------------

// 0: all four marshal methods, value receivers.
type zz17VAll int8

func (v zz17VAll) MarshalJSONTo(e *jsontext.Encoder) error { return zz17To(int8(v), e) }
func (v zz17VAll) MarshalJSON() ([]byte, error)            { return zz17J(int8(v)) }
func (v zz17VAll) AppendText(b []byte) ([]byte, error)     { return zz17A(int8(v), b) }
func (v zz17VAll) MarshalText() ([]byte, error)            { return zz17T(int8(v)) }

// 1: all four, pointer receivers.
type zz17PAll int8

func (p *zz17PAll) MarshalJSONTo(e *jsontext.Encoder) error {
	if p == nil {
		zz17Nil()
		return nil
	}
	return zz17To(int8(*p), e)
}
func (p *zz17PAll) MarshalJSON() ([]byte, error) {
	if p == nil {
		zz17Nil()
		return []byte("null"), nil
	}
	return zz17J(int8(*p))
}
func (p *zz17PAll) AppendText(b []byte) ([]byte, error) {
	if p == nil {
		zz17Nil()
		return b, nil
	}
	return zz17A(int8(*p), b)
}
func (p *zz17PAll) MarshalText() ([]byte, error) {
	if p == nil {
		zz17Nil()
		return nil, nil
	}
	return zz17T(int8(*p))
}

// 2: Marshaler + TextMarshaler, value receivers.
type zz17VJT int8

func (v zz17VJT) MarshalJSON() ([]byte, error) { return zz17J(int8(v)) }
func (v zz17VJT) MarshalText() ([]byte, error) { return zz17T(int8(v)) }

// 3: Marshaler + TextMarshaler, pointer receivers.
type zz17PJT int8

func (p *zz17PJT) MarshalJSON() ([]byte, error) {
	if p == nil {
		zz17Nil()
		return []byte("null"), nil
	}
	return zz17J(int8(*p))
}
func (p *zz17PJT) MarshalText() ([]byte, error) {
	if p == nil {
		zz17Nil()
		return nil, nil
	}
	return zz17T(int8(*p))
}

// 4: TextAppender + TextMarshaler, value receivers.
type zz17VAT int8

func (v zz17VAT) AppendText(b []byte) ([]byte, error) { return zz17A(int8(v), b) }
func (v zz17VAT) MarshalText() ([]byte, error)        { return zz17T(int8(v)) }

// 5: TextAppender + TextMarshaler, pointer receivers.
type zz17PAT int8

func (p *zz17PAT) AppendText(b []byte) ([]byte, error) {
	if p == nil {
		zz17Nil()
		return b, nil
	}
	return zz17A(int8(*p), b)
}
func (p *zz17PAT) MarshalText() ([]byte, error) {
	if p == nil {
		zz17Nil()
		return nil, nil
	}
	return zz17T(int8(*p))
}

// 6: TextMarshaler only, value receiver.
type zz17VT int8

func (v zz17VT) MarshalText() ([]byte, error) { return zz17T(int8(v)) }

// 7: TextMarshaler only, pointer receiver.
type zz17PT int8

func (p *zz17PT) MarshalText() ([]byte, error) {
	if p == nil {
		zz17Nil()
		return nil, nil
	}
	return zz17T(int8(*p))
}

// 8: MarshalerTo + TextMarshaler, value receivers (a skipped MarshalerTo falls past the absent ones).
type zz17VToT int8

func (v zz17VToT) MarshalJSONTo(e *jsontext.Encoder) error { return zz17To(int8(v), e) }
func (v zz17VToT) MarshalText() ([]byte, error)            { return zz17T(int8(v)) }

// 9: MarshalerTo + TextAppender, pointer receivers.
type zz17PToA int8

func (p *zz17PToA) MarshalJSONTo(e *jsontext.Encoder) error {
	if p == nil {
		zz17Nil()
		return nil
	}
	return zz17To(int8(*p), e)
}
func (p *zz17PToA) AppendText(b []byte) ([]byte, error) {
	if p == nil {
		zz17Nil()
		return b, nil
	}
	return zz17A(int8(*p), b)
}

// 10: mixed receivers: MarshalerTo on the pointer, Marshaler on the value, TextMarshaler on the pointer.
type zz17MixA int8

func (p *zz17MixA) MarshalJSONTo(e *jsontext.Encoder) error {
	if p == nil {
		zz17Nil()
		return nil
	}
	return zz17To(int8(*p), e)
}
func (v zz17MixA) MarshalJSON() ([]byte, error) { return zz17J(int8(v)) }
func (p *zz17MixA) MarshalText() ([]byte, error) {
	if p == nil {
		zz17Nil()
		return nil, nil
	}
	return zz17T(int8(*p))
}

// 11: mixed receivers: MarshalerTo on the value, Marshaler on the pointer, TextAppender on the value.
type zz17MixB int8

func (v zz17MixB) MarshalJSONTo(e *jsontext.Encoder) error { return zz17To(int8(v), e) }
func (p *zz17MixB) MarshalJSON() ([]byte, error) {
	if p == nil {
		zz17Nil()
		return []byte("null"), nil
	}
	return zz17J(int8(*p))
}
func (v zz17MixB) AppendText(b []byte) ([]byte, error) { return zz17A(int8(v), b) }

// 12: only MarshalerTo, pointer receiver (a skip falls through to the default representation).
type zz17PTo int8

func (p *zz17PTo) MarshalJSONTo(e *jsontext.Encoder) error {
	if p == nil {
		zz17Nil()
		return nil
	}
	return zz17To(int8(*p), e)
}

// 13: no methods at all.
type zz17None int8

const zz17NTypes = 14

// zz17Methods lists, per type, the applicable marshal methods in the DOCUMENTED order
// (MarshalerTo, Marshaler, TextAppender, TextMarshaler); written from the method sets above.
func zz17Methods(typ int) []int {
	switch typ {
	case 0, 1:
		return []int{zz17TagTo, zz17TagJ, zz17TagA, zz17TagT}
	case 2, 3:
		return []int{zz17TagJ, zz17TagT}
	case 4, 5:
		return []int{zz17TagA, zz17TagT}
	case 6, 7:
		return []int{zz17TagT}
	case 8:
		return []int{zz17TagTo, zz17TagT}
	case 9:
		return []int{zz17TagTo, zz17TagA}
	case 10:
		return []int{zz17TagTo, zz17TagJ, zz17TagT}
	case 11:
		return []int{zz17TagTo, zz17TagJ, zz17TagA}
	case 12:
		return []int{zz17TagTo}
	}
	return nil
}

// Positions.
const (
	zz17PTop       = 0  // Marshal(v): non-addressable
	zz17PPtr       = 1  // Marshal(&v)
	zz17PSlice     = 2  // []T{v}
	zz17PMapVal    = 3  // map[string]T{"k": v}: non-addressable
	zz17PField     = 4  // &struct{F T}: addressable field
	zz17PFieldNA   = 5  // map[string]struct{F T}: field of a non-addressable struct
	zz17PAny       = 6  // []any{v}: non-addressable, behind an interface
	zz17PAnyPtr    = 7  // []any{&v}
	zz17PMapKey    = 8  // map[T]int8{v: 1}
	zz17PPtrField  = 9  // struct{P *T}{&v}
	zz17PNilPtr    = 10 // Marshal((*T)(nil))
	zz17PNilField  = 11 // struct{P *T}{nil}
	zz17PNilInAny  = 12 // []any{(*T)(nil)}
	zz17PNilInSl   = 13 // []*T{nil}
	zz17PArray     = 14 // [2]T passed by value: both elements
	zz17NPositions = 15
)

type zz17S[T any] struct {
	F T `json:"f"`
}
type zz17SP[T any] struct {
	P *T `json:"p"`
}

func zz17Place[T comparable](pos int, v T) any {
	switch pos {
	case zz17PTop:
		return v
	case zz17PPtr:
		return &v
	case zz17PSlice:
		return []T{v}
	case zz17PMapVal:
		return map[string]T{"k": v}
	case zz17PField:
		return &zz17S[T]{F: v}
	case zz17PFieldNA:
		return map[string]zz17S[T]{"k": {F: v}}
	case zz17PAny:
		return []any{v}
	case zz17PAnyPtr:
		return []any{&v}
	case zz17PMapKey:
		return map[T]int8{v: 1}
	case zz17PPtrField:
		return zz17SP[T]{P: &v}
	case zz17PNilPtr:
		return (*T)(nil)
	case zz17PNilField:
		return zz17SP[T]{}
	case zz17PNilInAny:
		return []any{(*T)(nil)}
	case zz17PNilInSl:
		return []*T{nil}
	default:
		return [2]T{v, v}
	}
}

// zz17Calls is the number of times the value's representation is produced at a position.
func zz17Calls(pos int) int {
	switch pos {
	case zz17PNilPtr, zz17PNilField, zz17PNilInAny, zz17PNilInSl:
		return 0
	case zz17PArray:
		return 2
	}
	return 1
}

// zz17Wrap is the expected output at a position when the value is represented by r.
func zz17Wrap(pos int, r string) string {
	switch pos {
	case zz17PTop, zz17PPtr:
		return r
	case zz17PSlice, zz17PAny, zz17PAnyPtr:
		return "[" + r + "]"
	case zz17PMapVal:
		return `{"k":` + r + `}`
	case zz17PField:
		return `{"f":` + r + `}`
	case zz17PFieldNA:
		return `{"k":{"f":` + r + `}}`
	case zz17PMapKey:
		return "{" + r + ":1}"
	case zz17PPtrField:
		return `{"p":` + r + `}`
	case zz17PNilPtr:
		return "null"
	case zz17PNilField:
		return `{"p":null}`
	case zz17PNilInAny, zz17PNilInSl:
		return "[null]"
	default:
		return "[" + r + "," + r + "]"
	}
}

func zz17Value(typ, pos int, x int8) any {
	switch typ {
	case 0:
		return zz17Place(pos, zz17VAll(x))
	case 1:
		return zz17Place(pos, zz17PAll(x))
	case 2:
		return zz17Place(pos, zz17VJT(x))
	case 3:
		return zz17Place(pos, zz17PJT(x))
	case 4:
		return zz17Place(pos, zz17VAT(x))
	case 5:
		return zz17Place(pos, zz17PAT(x))
	case 6:
		return zz17Place(pos, zz17VT(x))
	case 7:
		return zz17Place(pos, zz17PT(x))
	case 8:
		return zz17Place(pos, zz17VToT(x))
	case 9:
		return zz17Place(pos, zz17PToA(x))
	case 10:
		return zz17Place(pos, zz17MixA(x))
	case 11:
		return zz17Place(pos, zz17MixB(x))
	case 12:
		return zz17Place(pos, zz17PTo(x))
	default:
		return zz17Place(pos, zz17None(x))
	}
}

// zz17Repr is the benign representation produced by the method with the given tag
// (0: the default representation of the int8 value 5), as a value and as a map key.
func zz17Repr(tag int, asKey bool) string {
	switch tag {
	case zz17TagTo:
		return `"To"`
	case zz17TagJ:
		return `"J"`
	case zz17TagA:
		return `"A"`
	case zz17TagT:
		return `"T"`
	}
	if asKey {
		return `"5"`
	}
	return "5"
}

// VerifC17MOrder: under default options a value of every type of the universe at every
// position is represented by the FIRST applicable method in the documented order, the call is
// made for addressable and non-addressable values alike, never on a nil pointer, and a
// MarshalJSONTo that returns ErrUnsupported (directly or wrapped) without touching the encoder
// falls through to the next applicable representation. Done twice (cold and warm caches).
func VerifC17MOrder(typ, pos int) {
	chain := zz17Methods(typ)
	hasTo := len(chain) > 0 && chain[0] == zz17TagTo
	for round := 0; round < 2; round++ {
		zz17Reset()
		skip := 0
		if hasTo {
			skip = vrt.Choice("skip"+zzItoa17(round), 3)
		}
		switch skip {
		case 1:
			zz17ToFn = func(enc *jsontext.Encoder) error { return errors.ErrUnsupported }
		case 2:
			zz17ToFn = func(enc *jsontext.Encoder) error { return zz17WrapUnsup{} }
		}
		out, err := Marshal(zz17Value(typ, pos, 5))
		n := zz17Calls(pos)
		// expected log: per produced representation, To (if any), then on skip the next one.
		var want []int
		used := 0
		if len(chain) > 0 {
			used = chain[0]
			want = append(want, chain[0])
			if skip != 0 {
				used = 0
				if len(chain) > 1 {
					used = chain[1]
					want = append(want, chain[1])
				}
			}
		}
		vrt.Assert("C17/morder/no-nil-receiver", !zz17NilRecv)
		vrt.Assert("C17/morder/no-error", err == nil)
		vrt.Assert("C17/morder/calls", len(zz17Log) == n*len(want))
		if len(zz17Log) == n*len(want) {
			for i := range zz17Log {
				vrt.Assert("C17/morder/first-applicable", zz17Log[i] == want[i%len(want)])
				vrt.Assert("C17/morder/receiver-value", zz17Recv[i] == 5)
			}
		}
		vrt.Assert("C17/morder/representation", bytes.Equal(out, []byte(zz17Wrap(pos, zz17Repr(used, pos == zz17PMapKey)))))
		if n == 0 {
			vrt.Cover("nil-pointer")
		} else if skip != 0 {
			vrt.Cover("fell-through")
		} else {
			vrt.Cover("first")
		}
	}
}

func zzItoa17(i int) string {
	if i < 10 {
		return string(rune('0' + i))
	}
	return zzItoa17(i/10) + string(rune('0'+i%10))
}

// ---------------------------------------------------------------------------------------------
// Scripted encoder use: arbitrary short sequences of calls whose errors the user code swallows.
// ---------------------------------------------------------------------------------------------

// zz17Eff summarises, from the calls that SUCCEEDED, what user code did to the coder relative
// to the state at entry: an independent count written from the JSON grammar.
type zz17Eff struct {
	any bool // some mutating call succeeded
	neg bool // closed (or read the end of) a container that the user code did not open
	d   int  // containers opened and not closed
	cnt int  // complete values produced/consumed at the entry level
}

func (e *zz17Eff) value() {
	e.any = true
	if e.d == 0 {
		e.cnt++
	}
}
func (e *zz17Eff) open() { e.any = true; e.d++ }
func (e *zz17Eff) close() {
	e.any = true
	e.d--
	if e.d < 0 {
		e.neg = true
	} else if e.d == 0 {
		e.cnt++
	}
}

// zz17KF is the recorded known finding: the "exactly one value" police compares only the
// (depth, length) pair before and after the call, so user code that closes a container of its
// caller and re-opens one is not detected. Region: eff.neg.
const zz17KF = "KF-C17-close-parent-container"

// exactlyOne: the calls amount to exactly one JSON value at the entry level.
func (e *zz17Eff) exactlyOne() bool { return !e.neg && e.d == 0 && e.cnt == 1 }

// zz17RunEnc performs n <= k symbolic calls on enc: null, [, ], {, }, "a", and (rawLen > 0) a
// raw value of rawLen arbitrary bytes. Errors are swallowed (failed calls change nothing: C06).
func zz17RunEnc(enc *jsontext.Encoder, pfx string, k, rawLen int, eff *zz17Eff) {
	n := vrt.IntRange(pfx+"n", 0, k)
	alpha := 6
	if rawLen > 0 {
		alpha = 7
	}
	for i := 0; i < n; i++ {
		switch vrt.Choice(pfx+"op"+zzItoa17(i), alpha) {
		case 0:
			if enc.WriteToken(jsontext.Null) == nil {
				eff.value()
			}
		case 1:
			if enc.WriteToken(jsontext.BeginArray) == nil {
				eff.open()
			}
		case 2:
			if enc.WriteToken(jsontext.EndArray) == nil {
				eff.close()
			}
		case 3:
			if enc.WriteToken(jsontext.BeginObject) == nil {
				eff.open()
			}
		case 4:
			if enc.WriteToken(jsontext.EndObject) == nil {
				eff.close()
			}
		case 5:
			if enc.WriteToken(jsontext.String("a")) == nil {
				eff.value()
			}
		default:
			raw := vrt.Bytes(pfx+"raw"+zzItoa17(i), rawLen)
			if enc.WriteValue(jsontext.Value(raw)) == nil {
				eff.value()
			}
		}
	}
}

// zz17Ret draws what the user code returns: 0 nil, 1 errors.ErrUnsupported, 2 an error that
// wraps ErrUnsupported, 3 its own error.
func zz17Ret(pfx string) (int, error) {
	switch r := vrt.Choice(pfx+"ret", 4); r {
	case 1:
		return r, errors.ErrUnsupported
	case 2:
		return r, zz17WrapUnsup{}
	case 3:
		return r, zz17ErrUser
	}
	return 0, nil
}

// zz17Next is the tag following tag in the chain (0: the default representation).
func zz17Next(chain []int, tag int) int {
	for i, t := range chain {
		if t == tag {
			if i+1 < len(chain) {
				return chain[i+1]
			}
			return 0
		}
	}
	return 0
}

func zz17LogIs(want ...int) bool {
	if len(zz17Log) != len(want) {
		return false
	}
	for i := range want {
		if zz17Log[i] != want[i] {
			return false
		}
	}
	return true
}

// VerifC17MTo: a MarshalJSONTo method (types whose first candidate is MarshalerTo) performs an
// arbitrary sequence of <= k encoder calls (errors swallowed) and returns nil / ErrUnsupported
// (plain or wrapped) / its own error. Marshal must
//   - succeed, with the method's output in place, iff the method returned nil after writing
//     exactly one JSON value;
//   - fall through to the next applicable representation iff it returned ErrUnsupported
//     without any successful write;
//   - report an error in every other case (0 or 2 values, containers left open, a container of
//     the caller closed, ErrUnsupported after a write, the method's own error);
//   - C02: whenever it returns nil the output is exactly one valid JSON value.
func VerifC17MTo(typ, pos, k, rawLen int) {
	chain := zz17Methods(typ)
	zz17Reset()
	var eff zz17Eff
	ret := 0
	calls := 0
	zz17ToFn = func(enc *jsontext.Encoder) error {
		calls++
		if calls > 1 {
			return enc.WriteToken(jsontext.String("To"))
		}
		zz17RunEnc(enc, "", k, rawLen, &eff)
		r, err := zz17Ret("")
		ret = r
		return err
	}
	out, err := Marshal(zz17Value(typ, pos, 5))
	vrt.Assert("C17/mto/called-first", len(zz17Log) >= 1 && zz17Log[0] == zz17TagTo && calls == 1)
	vrt.Assert("C17/mto/no-nil-receiver", !zz17NilRecv)
	vrt.Observe("errnil", err == nil)
	if err == nil {
		vrt.AssertKF("C02/user/valid-output", zzspec.ValidText(out, true, true, 1000), zz17KF, eff.neg)
	}
	switch {
	case ret == 0 && eff.exactlyOne():
		vrt.Cover("one-value")
		vrt.Assert("C17/mto/one-value-accepted", err == nil && zz17LogIs(zz17TagTo))
	case ret == 0:
		if eff.neg {
			vrt.Cover("closed-callers-container")
		} else if eff.d > 0 {
			vrt.Cover("left-open")
		} else if eff.cnt == 0 {
			vrt.Cover("zero-values")
		} else {
			vrt.Cover("two-values")
		}
		vrt.AssertKF("C17/mto/non-singular-rejected", err != nil, zz17KF, eff.neg)
		vrt.AssertKF("C17/mto/no-fallthrough-after-nil", zz17LogIs(zz17TagTo), zz17KF, eff.neg)
	case ret == 3:
		vrt.Cover("user-error")
		vrt.Assert("C17/mto/user-error-reported", err != nil && zz17LogIs(zz17TagTo))
	case !eff.any:
		vrt.Cover("skip")
		next := zz17Next(chain, zz17TagTo)
		if next == 0 {
			vrt.Assert("C17/mto/skip-falls-to-default", zz17LogIs(zz17TagTo))
		} else {
			vrt.Assert("C17/mto/skip-falls-to-next", zz17LogIs(zz17TagTo, next))
		}
		vrt.Assert("C17/mto/skip-representation", err == nil && bytes.Equal(out, []byte(zz17Wrap(pos, zz17Repr(next, pos == zz17PMapKey)))))
	default:
		vrt.Cover("unsupported-after-write")
		vrt.AssertKF("C17/mto/unsupported-after-write-rejected", err != nil && zz17LogIs(zz17TagTo), zz17KF, eff.neg)
	}
}

func zz17SkipTo() {
	zz17ToFn = func(enc *jsontext.Encoder) error { return errors.ErrUnsupported }
}

// zz17WrapParts splits the expected output at a position around the value's representation.
func zz17WrapParts(pos int) (string, string) {
	w := zz17Wrap(pos, "\x00")
	for i := 0; i < len(w); i++ {
		if w[i] == 0 {
			return w[:i], w[i+1:]
		}
	}
	return w, ""
}

// zz17Middle returns out without the position's prefix and suffix (ok=false if they are absent).
func zz17Middle(pos int, out []byte) ([]byte, bool) {
	pre, suf := zz17WrapParts(pos)
	if len(out) < len(pre)+len(suf) || !bytes.HasPrefix(out, []byte(pre)) || !bytes.HasSuffix(out, []byte(suf)) {
		return nil, false
	}
	return out[len(pre) : len(out)-len(suf)], true
}

// VerifC17MJ: a MarshalJSON method (first candidate after a skipping MarshalJSONTo, if any)
// returns ARBITRARY bytes (rawLen full-range bytes, or a template) and nil / an error /
// ErrUnsupported. Marshal succeeds iff the method returned nil and the bytes are exactly one
// JSON value valid under the caller's options (and a string when used as a map key); no other
// method is consulted afterwards; C02: nil error implies valid output.
func VerifC17MJ(typ, pos, rawLen int, tmpl string, allowUTF8, allowDup bool) {
	chain := zz17Methods(typ)
	zz17Reset()
	zz17SkipTo()
	var raw []byte
	if tmpl != "" {
		raw = vrt.Template("raw", tmpl)
	} else {
		raw = vrt.Bytes("raw", rawLen)
	}
	ret, rerr := zz17Ret("")
	zz17JFn = func() ([]byte, error) { return raw, rerr }
	out, err := Marshal(zz17Value(typ, pos, 5), jsontext.AllowInvalidUTF8(allowUTF8), jsontext.AllowDuplicateNames(allowDup))
	vrt.Observe("errnil", err == nil)
	if chain[0] == zz17TagTo {
		vrt.Assert("C17/mj/dispatch", zz17LogIs(zz17TagTo, zz17TagJ))
	} else {
		vrt.Assert("C17/mj/dispatch", zz17LogIs(zz17TagJ))
	}
	vrt.Assert("C17/mj/no-nil-receiver", !zz17NilRecv)
	if err == nil {
		vrt.Assert("C02/user/valid-output", zzspec.ValidText(out, !allowUTF8, !allowDup, 1000))
	}
	if ret != 0 {
		vrt.Cover("error-returned")
		vrt.Assert("C17/mj/error-reported", err != nil)
		return
	}
	valid := zzspec.ValidText(raw, !allowUTF8, !allowDup, 1000)
	if valid && pos == zz17PMapKey {
		valid = raw[zzspec.SkipWS(raw, 0)] == '"'
	}
	if valid {
		vrt.Cover("valid-raw")
	} else {
		vrt.Cover("invalid-raw")
	}
	vrt.Assert("C17/mj/accepted-iff-one-valid-value", (err == nil) == valid)
}

// VerifC17MText: the first text method of the type (AppendText or MarshalText; a
// MarshalJSONTo in front skips) produces n ARBITRARY bytes (ill-formed UTF-8 included) and
// returns nil / an error / ErrUnsupported.
// mode 0: AppendText honours its contract (returns b extended by the text).
// mode 1: AppendText returns a fresh slice holding only the text (contract violated).
// mode 2: AppendText returns b shortened by one byte, then the text (contract violated).
// Marshal succeeds iff the method returned nil and the text is well-formed UTF-8 (or invalid
// UTF-8 is allowed); the output then is the position's frame around a string literal whose
// meaning is the text. C02: no panic, nil error implies valid output (all modes).
func VerifC17MText(typ, pos, n, mode int, allowUTF8 bool) {
	chain := zz17Methods(typ)
	zz17Reset()
	zz17SkipTo()
	text := vrt.Bytes("txt", n)
	ret, rerr := zz17Ret("")
	zz17AFn = func(b []byte) ([]byte, error) {
		switch mode {
		case 1:
			return append([]byte(nil), text...), rerr
		case 2:
			if len(b) > 0 {
				b = b[:len(b)-1]
			}
		}
		return append(b, text...), rerr
	}
	zz17TFn = func() ([]byte, error) { return text, rerr }
	out, err := Marshal(zz17Value(typ, pos, 5), jsontext.AllowInvalidUTF8(allowUTF8))
	vrt.Observe("errnil", err == nil)
	first := chain[0]
	if first == zz17TagTo {
		first = chain[1]
		vrt.Assert("C17/mtext/dispatch", zz17LogIs(zz17TagTo, first))
	} else {
		vrt.Assert("C17/mtext/dispatch", zz17LogIs(first))
	}
	vrt.Assert("C17/mtext/no-nil-receiver", !zz17NilRecv)
	if err == nil {
		vrt.Assert("C02/user/valid-output", zzspec.ValidText(out, !allowUTF8, true, 1000))
	}
	if mode != 0 {
		vrt.Cover("contract-violated")
		return
	}
	if ret != 0 {
		vrt.Cover("error-returned")
		vrt.Assert("C17/mtext/error-reported", err != nil)
		return
	}
	wf := zzspec.UTF8WellFormed(text)
	vrt.Assert("C17/mtext/accepted-iff-encodable", (err == nil) == (wf || allowUTF8))
	if err != nil {
		vrt.Cover("ill-formed-rejected")
		return
	}
	lit, ok := zz17Middle(pos, out)
	vrt.Assert("C17/mtext/framed", ok && len(lit) >= 2 && zzspec.ScanString(lit, 0, !allowUTF8) == len(lit))
	if ok && wf && len(lit) >= 2 {
		vrt.Cover("text-encoded")
		vrt.Assert("C17/mtext/string-means-text", bytes.Equal(zzspec.Unescape(lit), text))
	}
}

// VerifC17MOpts: inside MarshalJSONTo (api 0 Marshal, 1 MarshalWrite, 2 MarshalEncode on an
// encoder built with part of the options, 3 MarshalEncode on an encoder holding all of them) enc.Options() shows exactly the caller's options;
// with reset the method tries enc.Reset, which must panic and leave the outcome untouched.
func VerifC17MOpts(typ, pos, api int, reset bool) {
	zz17Reset()
	bU, bD, bS, bDet := vrt.Bool("u"), vrt.Bool("d"), vrt.Bool("s"), vrt.Bool("det")
	var gU, gD, gS, gDet, okAll, panicked bool
	zz17ToFn = func(enc *jsontext.Encoder) error {
		o := enc.Options()
		var o1, o2, o3, o4 bool
		gU, o1 = GetOption(o, jsontext.AllowInvalidUTF8)
		gD, o2 = GetOption(o, jsontext.AllowDuplicateNames)
		gS, o3 = GetOption(o, StringifyNumbers)
		gDet, o4 = GetOption(o, Deterministic)
		okAll = o1 && o2 && o3 && o4
		if reset {
			panicked = vrt.Misuse(func() { enc.Reset(new(bytes.Buffer)) })
		}
		return enc.WriteToken(jsontext.String("To"))
	}
	v := zz17Value(typ, pos, 5)
	var out []byte
	var err error
	switch api {
	case 0:
		out, err = Marshal(v, jsontext.AllowInvalidUTF8(bU), jsontext.AllowDuplicateNames(bD), StringifyNumbers(bS), Deterministic(bDet))
	case 1:
		var buf bytes.Buffer
		err = MarshalWrite(&buf, v, jsontext.AllowInvalidUTF8(bU), jsontext.AllowDuplicateNames(bD), StringifyNumbers(bS), Deterministic(bDet))
		out = buf.Bytes()
	default:
		var buf bytes.Buffer
		var enc *jsontext.Encoder
		if api == 2 {
			enc = jsontext.NewEncoder(&buf, jsontext.AllowInvalidUTF8(bU), jsontext.AllowDuplicateNames(bD))
			err = MarshalEncode(enc, v, StringifyNumbers(bS), Deterministic(bDet))
		} else { // every option already on the encoder
			enc = jsontext.NewEncoder(&buf, jsontext.AllowInvalidUTF8(bU), jsontext.AllowDuplicateNames(bD), StringifyNumbers(bS), Deterministic(bDet))
			err = MarshalEncode(enc, v)
		}
		out = bytes.TrimSuffix(append([]byte(nil), buf.Bytes()...), []byte("\n"))
		// "cannot be reset from WITHIN": once the call has returned the caller may reset again.
		vrt.Assert("C17/mopts/reset-allowed-after-return", !vrt.Misuse(func() { enc.Reset(new(bytes.Buffer)) }))
	}
	vrt.Assert("C17/mopts/called", zz17LogIs(zz17TagTo))
	vrt.Assert("C17/mopts/options-are-the-callers", okAll && gU == bU && gD == bD && gS == bS && gDet == bDet)
	if reset {
		vrt.Cover("reset-tried")
		vrt.Assert("C17/mopts/reset-panics", panicked)
	}
	want := zz17Wrap(pos, `"To"`)
	if pos == zz17PMapKey && bS {
		want = zz17Wrap(pos, `"To"`)[:len(`{"To":`)] + `"1"}`
	}
	vrt.Assert("C17/mopts/outcome-intact", err == nil && bytes.Equal(out, []byte(want)))
	vrt.Cover("done")
}

// ---------------------------------------------------------------------------------------------
// Caller-supplied functions.
// ---------------------------------------------------------------------------------------------

// zz17Marker is implemented by the pointers of types 0, 1 and 13 (function lists may target it).
type zz17Marker interface{ zz17Mark() }

func (v zz17VAll) zz17Mark()  {}
func (p *zz17PAll) zz17Mark() {}
func (v zz17None) zz17Mark()  {}

// zz17Other is a type that never occurs in the marshalled values.
type zz17Other int8

var (
	zz17FToFn [3]func(enc *jsontext.Encoder) error // behaviour of list element i when built by MarshalToFunc
	zz17FJFn  [3]func() ([]byte, error)            // ... when built by MarshalFunc
)

func zz17FLog(i int, isNil bool) {
	zz17Log = append(zz17Log, zz17TagF1+i)
	if isNil {
		zz17Nil()
	}
}

// zz17MFunc builds list element i: kind 'T' MarshalToFunc / 'J' MarshalFunc, applied to target
// 'v' the type T itself, 'p' *T, 'i' the interface zz17Marker, 'o' an unrelated type.
func zz17MFunc[T any, PT interface {
	*T
	zz17Marker
}](i int, kind, target byte) *Marshalers {
	if kind == 'T' {
		switch target {
		case 'v':
			return MarshalToFunc(func(enc *jsontext.Encoder, v T) error { zz17FLog(i, false); return zz17FToFn[i](enc) })
		case 'p':
			return MarshalToFunc(func(enc *jsontext.Encoder, v *T) error { zz17FLog(i, v == nil); return zz17FToFn[i](enc) })
		case 'i':
			return MarshalToFunc(func(enc *jsontext.Encoder, v zz17Marker) error {
				p, ok := v.(PT)
				zz17FLog(i, !ok || p == nil)
				return zz17FToFn[i](enc)
			})
		default:
			return MarshalToFunc(func(enc *jsontext.Encoder, v zz17Other) error { zz17FLog(i, false); return zz17FToFn[i](enc) })
		}
	}
	switch target {
	case 'v':
		return MarshalFunc(func(v T) ([]byte, error) { zz17FLog(i, false); return zz17FJFn[i]() })
	case 'p':
		return MarshalFunc(func(v *T) ([]byte, error) { zz17FLog(i, v == nil); return zz17FJFn[i]() })
	case 'i':
		return MarshalFunc(func(v zz17Marker) ([]byte, error) {
			p, ok := v.(PT)
			zz17FLog(i, !ok || p == nil)
			return zz17FJFn[i]()
		})
	default:
		return MarshalFunc(func(v *zz17Other) ([]byte, error) { zz17FLog(i, v == nil); return zz17FJFn[i]() })
	}
}

// zz17MList builds the Marshalers for spec (two characters per element: kind, target);
// nest: JoinMarshalers(e0, JoinMarshalers(e1, e2)) instead of the flat list.
func zz17MList[T any, PT interface {
	*T
	zz17Marker
}](spec string, nest bool) *Marshalers {
	var ms []*Marshalers
	for i := 0; 2*i < len(spec); i++ {
		ms = append(ms, zz17MFunc[T, PT](i, spec[2*i], spec[2*i+1]))
	}
	if nest && len(ms) >= 2 {
		return JoinMarshalers(ms[0], JoinMarshalers(ms[1:]...), nil)
	}
	return JoinMarshalers(ms...)
}

func zz17MListFor(typ int, spec string, nest bool) *Marshalers {
	switch typ {
	case 0:
		return zz17MList[zz17VAll](spec, nest)
	case 1:
		return zz17MList[zz17PAll](spec, nest)
	default:
		return zz17MList[zz17None](spec, nest)
	}
}

// zz17FRepr is what list element i writes when it handles the value.
func zz17FRepr(i int) string { return `"F` + zzItoa17(i+1) + `"` }

// VerifC17MFuncs: WithMarshalers(list) for a list of up to three scripted functions (spec, see
// zz17MFunc) and a value of type typ (0, 1 or 13) at position pos. Behaviour of each element
// is symbolic: handle the value / ErrUnsupported untouched / (MarshalToFunc only) write then
// ErrUnsupported, write two values / own error / (MarshalFunc) invalid bytes. Documented:
// functions whose type matches (T, *T for values of T and non-nil *T, an interface that *T
// implements) are called in list order, never with a nil pointer, never for other types; the
// first one that does not return ErrUnsupported decides; a MarshalFunc may not return
// ErrUnsupported (error); if all applicable functions skip, the methods follow in their order.
// Round 2 re-uses the same Marshalers value (warm per-list cache) with every function skipping.
func VerifC17MFuncs(typ, pos int, spec string, nest bool) {
	ms := zz17MListFor(typ, spec, nest)
	chain := zz17Methods(typ)
	n := len(spec) / 2
	for round := 0; round < 2; round++ {
		zz17Reset()
		var beh [3]int
		for i := 0; i < n; i++ {
			i := i
			if spec[2*i] == 'T' {
				if round == 0 {
					beh[i] = vrt.Choice("beh"+zzItoa17(i), 5)
				} else {
					beh[i] = 1
				}
				zz17FToFn[i] = func(enc *jsontext.Encoder) error {
					switch beh[i] {
					case 0:
						return enc.WriteToken(jsontext.String(zz17FRepr(i)[1:3]))
					case 1:
						return errors.ErrUnsupported
					case 2:
						enc.WriteToken(jsontext.String("x"))
						return zz17WrapUnsup{}
					case 3:
						return zz17ErrUser
					default:
						enc.WriteToken(jsontext.String("x"))
						return enc.WriteToken(jsontext.String("y"))
					}
				}
			} else {
				if round == 0 {
					beh[i] = vrt.Choice("beh"+zzItoa17(i), 4)
				}
				zz17FJFn[i] = func() ([]byte, error) {
					switch beh[i] {
					case 0:
						return []byte(zz17FRepr(i)), nil
					case 1:
						return []byte(zz17FRepr(i)), errors.ErrUnsupported
					case 2:
						return nil, zz17ErrUser
					default:
						return []byte(`"x"]`), nil
					}
				}
			}
		}
		out, err := Marshal(zz17Value(typ, pos, 5), WithMarshalers(ms))

		// Expected, straight from the documentation.
		var want []int
		wantErr := false
		repr := ""
		decided := false
		if zz17Calls(pos) > 0 {
			for i := 0; i < n && !decided; i++ {
				if spec[2*i+1] == 'o' {
					continue // other type: not applicable
				}
				want = append(want, zz17TagF1+i)
				if beh[i] == 0 {
					decided, repr = true, zz17FRepr(i)
				} else if spec[2*i] == 'T' && beh[i] == 1 {
					continue // skipped
				} else {
					decided, wantErr = true, true
				}
			}
			if !decided {
				used := 0
				if len(chain) > 0 {
					used = chain[0]
					want = append(want, used)
				}
				repr = zz17Repr(used, pos == zz17PMapKey)
			}
		}
		if zz17Calls(pos) == 2 && !wantErr {
			want = append(want, want...)
		}
		vrt.Assert("C17/mfuncs/no-nil-pointer", !zz17NilRecv)
		vrt.Assert("C17/mfuncs/list-order", zz17LogIs(want...))
		if wantErr {
			vrt.Cover("error")
			vrt.Assert("C17/mfuncs/misbehaviour-reported", err != nil)
		} else {
			if decided {
				vrt.Cover("function-decides")
			} else {
				vrt.Cover("all-skipped")
			}
			vrt.Assert("C17/mfuncs/representation", err == nil && bytes.Equal(out, []byte(zz17Wrap(pos, repr))))
		}
		if err == nil {
			vrt.Assert("C02/user/valid-output", zzspec.ValidText(out, true, true, 1000))
		}
	}
}

// VerifC17MFuncsAny: a function for string values disables the untyped fast path: it is called
// for strings held in any/[]any/map[string]any values (and for the map's keys) in list order.
// single: the list holds only the MarshalToFunc for string.
func VerifC17MFuncsAny(shape int, single bool) {
	zz17Reset()
	beh := vrt.Choice("beh", 2)
	ms := MarshalToFunc(func(enc *jsontext.Encoder, s string) error {
		zz17FLog(0, false)
		if beh == 1 {
			return errors.ErrUnsupported
		}
		return enc.WriteToken(jsontext.String("F1"))
	})
	f2 := `"F2"`
	if single {
		f2 = "true"
		// a list whose LAST member handles a type that can never sit behind the untyped fast
		// path (int16) must not hide that an earlier member (for string) applies to untyped values
		if vrt.Bool("joinother") {
			other := MarshalFunc(func(n int16) ([]byte, error) { return []byte(`"F3"`), nil })
			if vrt.Bool("otherfirst") {
				ms = JoinMarshalers(other, ms)
			} else {
				ms = JoinMarshalers(ms, other)
			}
		}
	} else {
		ms = JoinMarshalers(ms, MarshalFunc(func(b bool) ([]byte, error) { zz17FLog(1, false); return []byte(`"F2"`), nil }))
	}
	var v any
	var want string
	var log []int
	s := `"F1"`
	if beh == 1 {
		s = `"s"`
	}
	switch shape {
	case 0:
		v, want, log = "s", s, []int{zz17TagF1}
	case 1:
		v, want, log = []any{"s", true, nil}, "["+s+`,`+f2+`,null]`, []int{zz17TagF1, zz17TagF2}
	case 2:
		k := `"F1"`
		if beh == 1 {
			k = `"k"`
		}
		v, want, log = map[string]any{"k": true}, "{"+k+`:`+f2+`}`, []int{zz17TagF1, zz17TagF2}
	default:
		v, want, log = &zz17S[any]{F: "s"}, `{"f":`+s+`}`, []int{zz17TagF1}
	}
	if single && len(log) == 2 {
		log = log[:1]
	}
	out, err := Marshal(v, WithMarshalers(ms))
	vrt.Assert("C17/mfuncsany/called-inside-any", zz17LogIs(log...))
	vrt.Assert("C17/mfuncsany/representation", err == nil && bytes.Equal(out, []byte(want)))
	vrt.Cover("done")
}

// VerifC17UFuncsAny: an unmarshal function for *string is called for JSON strings decoded
// into an empty interface (directly, inside []any, inside map[string]any for keys and values).
func VerifC17UFuncsAny(shape int) {
	zz17Reset()
	beh := vrt.Choice("beh", 2)
	us := UnmarshalFromFunc(func(dec *jsontext.Decoder, p *string) error {
		zz17FLog(10, p == nil)
		if beh == 1 {
			return errors.ErrUnsupported
		}
		*p = "F"
		return dec.SkipValue()
	})
	w := "F"
	if beh == 1 {
		w = "s"
	}
	var a any
	var err error
	good := false
	var log []int
	switch shape {
	case 0:
		err = Unmarshal([]byte(`"s"`), &a, WithUnmarshalers(us))
		g, ok := a.(string)
		good, log = ok && g == w, []int{zz17TagU1}
	case 1:
		err = Unmarshal([]byte(`["s",true]`), &a, WithUnmarshalers(us))
		g, ok := a.([]any)
		if ok && len(g) == 2 {
			g0, ok0 := g[0].(string)
			g1, ok1 := g[1].(bool)
			good = ok0 && ok1 && g0 == w && g1
		}
		log = []int{zz17TagU1}
	default:
		err = Unmarshal([]byte(`{"s":"s"}`), &a, WithUnmarshalers(us))
		g, ok := a.(map[string]any)
		if ok && len(g) == 1 {
			g0, ok0 := g[w].(string)
			good = ok0 && g0 == w
		}
		log = []int{zz17TagU1, zz17TagU1}
	}
	vrt.Assert("C17/ufuncsany/called-inside-any", zz17LogIs(log...))
	vrt.Assert("C17/ufuncsany/stored", err == nil && good && !zz17NilRecv)
	vrt.Cover("done")
}

// ---------------------------------------------------------------------------------------------
// Unmarshal side.
// ---------------------------------------------------------------------------------------------

func zz17UFrom(isNil bool, set func(int8), d *jsontext.Decoder) error {
	if isNil {
		zz17Nil()
		return nil
	}
	zz17Log = append(zz17Log, zz17TagFrom)
	return zz17FromFn(d, set)
}
func zz17UJ(isNil bool, set func(int8), b []byte) error {
	if isNil {
		zz17Nil()
		return nil
	}
	zz17Log = append(zz17Log, zz17TagUJ)
	return zz17UJFn(b, set)
}
func zz17UT(isNil bool, set func(int8), b []byte) error {
	if isNil {
		zz17Nil()
		return nil
	}
	zz17Log = append(zz17Log, zz17TagUT)
	return zz17UTFn(b, set)
}

// U0: UnmarshalerFrom, Unmarshaler, TextUnmarshaler.
type zz17UAll int8

func (p *zz17UAll) UnmarshalJSONFrom(d *jsontext.Decoder) error {
	return zz17UFrom(p == nil, func(x int8) { *p = zz17UAll(x) }, d)
}
func (p *zz17UAll) UnmarshalJSON(b []byte) error {
	return zz17UJ(p == nil, func(x int8) { *p = zz17UAll(x) }, b)
}
func (p *zz17UAll) UnmarshalText(b []byte) error {
	return zz17UT(p == nil, func(x int8) { *p = zz17UAll(x) }, b)
}
func (p *zz17UAll) zz17Mark() {}

// U1: Unmarshaler, TextUnmarshaler.
type zz17UJT int8

func (p *zz17UJT) UnmarshalJSON(b []byte) error {
	return zz17UJ(p == nil, func(x int8) { *p = zz17UJT(x) }, b)
}
func (p *zz17UJT) UnmarshalText(b []byte) error {
	return zz17UT(p == nil, func(x int8) { *p = zz17UJT(x) }, b)
}

// U2: TextUnmarshaler only.
type zz17UTx int8

func (p *zz17UTx) UnmarshalText(b []byte) error {
	return zz17UT(p == nil, func(x int8) { *p = zz17UTx(x) }, b)
}

// U3: UnmarshalerFrom only.
type zz17UFr int8

func (p *zz17UFr) UnmarshalJSONFrom(d *jsontext.Decoder) error {
	return zz17UFrom(p == nil, func(x int8) { *p = zz17UFr(x) }, d)
}

// U4: UnmarshalerFrom, TextUnmarshaler.
type zz17UFrT int8

func (p *zz17UFrT) UnmarshalJSONFrom(d *jsontext.Decoder) error {
	return zz17UFrom(p == nil, func(x int8) { *p = zz17UFrT(x) }, d)
}
func (p *zz17UFrT) UnmarshalText(b []byte) error {
	return zz17UT(p == nil, func(x int8) { *p = zz17UFrT(x) }, b)
}

// U5: no methods.
type zz17UNone int8

func (p *zz17UNone) zz17Mark() {}

const zz17NUTypes = 6

func zz17UMethods(typ int) []int {
	switch typ {
	case 0:
		return []int{zz17TagFrom, zz17TagUJ, zz17TagUT}
	case 1:
		return []int{zz17TagUJ, zz17TagUT}
	case 2:
		return []int{zz17TagUT}
	case 3:
		return []int{zz17TagFrom}
	case 4:
		return []int{zz17TagFrom, zz17TagUT}
	}
	return nil
}

const (
	zz17UTop       = 0  // var v T; Unmarshal(X, &v)
	zz17USlice     = 1  // []T            from [X]
	zz17UMapVal    = 2  // map[string]T   from {"k":X}
	zz17UField     = 3  // struct{F T}    from {"f":X}
	zz17UNilField  = 4  // struct{P *T}   from {"p":X}: the pointer is allocated
	zz17UNilTop    = 5  // var p *T; Unmarshal(X, &p)
	zz17UAnyPtr    = 6  // var a any = new(T); Unmarshal(X, &a)
	zz17UMapKey    = 7  // map[T]int8     from {X:1}
	zz17UArray     = 8  // [2]T           from [X,X]
	zz17UMapOld    = 9  // map[string]T{"k": 3} from {"k":X}: existing entry
	zz17UPtrSlice  = 10 // []*T           from [X]
	zz17UMapInSl   = 11 // []map[string]T from [{"k":X},{"a":2}]
	zz17NUPosition = 12
)

func zz17UWrap(pos int, x string) string {
	switch pos {
	case zz17UTop, zz17UNilTop, zz17UAnyPtr:
		return x
	case zz17USlice, zz17UPtrSlice:
		return "[" + x + "]"
	case zz17UMapVal, zz17UMapOld:
		return `{"k":` + x + `}`
	case zz17UField:
		return `{"f":` + x + `}`
	case zz17UNilField:
		return `{"p":` + x + `}`
	case zz17UMapKey:
		return `{` + x + `:1}`
	case zz17UArray:
		return "[" + x + "," + x + "]"
	default:
		return `[{"k":` + x + `},{"a":2}]`
	}
}

func zz17UCalls(pos int) int {
	if pos == zz17UArray {
		return 2
	}
	return 1
}

// zz17URun unmarshals in into the container of position pos and returns the T values found
// afterwards (ok=false: the shape is not the expected one, e.g. a pointer left nil).
func zz17URun[T interface {
	~int8
	comparable
}](pos int, in []byte, opts []Options) (vals []int8, ok bool, err error) {
	switch pos {
	case zz17UTop:
		v := T(3)
		err = Unmarshal(in, &v, opts...)
		return []int8{int8(v)}, true, err
	case zz17USlice:
		var v []T
		err = Unmarshal(in, &v, opts...)
		for _, e := range v {
			vals = append(vals, int8(e))
		}
		return vals, true, err
	case zz17UMapVal, zz17UMapOld:
		var v map[string]T
		if pos == zz17UMapOld {
			v = map[string]T{"k": 3}
		}
		err = Unmarshal(in, &v, opts...)
		e, ok := v["k"]
		return []int8{int8(e)}, ok && len(v) == 1, err
	case zz17UField:
		v := zz17S[T]{F: 3}
		err = Unmarshal(in, &v, opts...)
		return []int8{int8(v.F)}, true, err
	case zz17UNilField:
		var v zz17SP[T]
		err = Unmarshal(in, &v, opts...)
		if v.P == nil {
			return nil, false, err
		}
		return []int8{int8(*v.P)}, true, err
	case zz17UNilTop:
		var p *T
		err = Unmarshal(in, &p, opts...)
		if p == nil {
			return nil, false, err
		}
		return []int8{int8(*p)}, true, err
	case zz17UAnyPtr:
		p := new(T)
		*p = 3
		var a any = p
		err = Unmarshal(in, &a, opts...)
		q, same := a.(*T)
		return []int8{int8(*p)}, same && q == p, err
	case zz17UMapKey:
		var v map[T]int8
		err = Unmarshal(in, &v, opts...)
		for k := range v {
			vals = append(vals, int8(k))
		}
		return vals, true, err
	case zz17UArray:
		var v [2]T
		err = Unmarshal(in, &v, opts...)
		return []int8{int8(v[0]), int8(v[1])}, true, err
	case zz17UPtrSlice:
		var v []*T
		err = Unmarshal(in, &v, opts...)
		for _, e := range v {
			if e == nil {
				return nil, false, err
			}
			vals = append(vals, int8(*e))
		}
		return vals, true, err
	default:
		var v []map[string]T
		err = Unmarshal(in, &v, opts...)
		if len(v) != 2 {
			return nil, false, err
		}
		e, ok := v[0]["k"]
		_, ok2 := v[1]["a"]
		return []int8{int8(e)}, ok && ok2 && len(v[0]) == 1 && len(v[1]) == 1, err
	}
}

func zz17UDo(typ, pos int, in []byte, opts ...Options) ([]int8, bool, error) {
	switch typ {
	case 0:
		return zz17URun[zz17UAll](pos, in, opts)
	case 1:
		return zz17URun[zz17UJT](pos, in, opts)
	case 2:
		return zz17URun[zz17UTx](pos, in, opts)
	case 3:
		return zz17URun[zz17UFr](pos, in, opts)
	case 4:
		return zz17URun[zz17UFrT](pos, in, opts)
	default:
		return zz17URun[zz17UNone](pos, in, opts)
	}
}

func zz17ValsAre(vals []int8, n int, x int8) bool {
	if len(vals) != n {
		return false
	}
	for _, v := range vals {
		if v != x {
			return false
		}
	}
	return true
}

// zz17UInput is a JSON value suitable for the representation tag (0 default: the number 7).
func zz17UInput(tag int, pos int) string {
	if tag == zz17TagUT || pos == zz17UMapKey {
		return `"7"`
	}
	return "7"
}

// zz17UResult is the value a benign representation stores (the default parses the number 7).
func zz17UResult(tag int) int8 {
	if tag == 0 {
		return 7
	}
	return int8(tag)
}

// VerifC17UOrder: Unmarshal into every type of the universe at every position consults the
// FIRST applicable method in the documented order (UnmarshalerFrom, Unmarshaler,
// TextUnmarshaler, default); pointer-receiver methods are called on the addressed element
// (allocated for nil pointers, copied back for map entries), never on a nil pointer; an
// UnmarshalJSONFrom that returns ErrUnsupported without reading falls through. Twice (caches).
func VerifC17UOrder(typ, pos int) {
	chain := zz17UMethods(typ)
	hasFrom := len(chain) > 0 && chain[0] == zz17TagFrom
	for round := 0; round < 2; round++ {
		zz17Reset()
		skip := 0
		if hasFrom {
			skip = vrt.Choice("skip"+zzItoa17(round), 3)
		}
		switch skip {
		case 1:
			zz17FromFn = func(dec *jsontext.Decoder, set func(int8)) error { return errors.ErrUnsupported }
		case 2:
			zz17FromFn = func(dec *jsontext.Decoder, set func(int8)) error { dec.PeekKind(); return zz17WrapUnsup{} }
		}
		var want []int
		used := 0
		if len(chain) > 0 {
			used = chain[0]
			want = append(want, used)
			if skip != 0 {
				used = zz17Next(chain, used)
				if used != 0 {
					want = append(want, used)
				}
			}
		}
		n := zz17UCalls(pos)
		if n == 2 {
			want = append(want, want...)
		}
		vals, ok, err := zz17UDo(typ, pos, []byte(zz17UWrap(pos, zz17UInput(used, pos))))
		vrt.Assert("C17/uorder/no-nil-receiver", !zz17NilRecv)
		vrt.Assert("C17/uorder/no-error", err == nil)
		vrt.Assert("C17/uorder/first-applicable", zz17LogIs(want...))
		vrt.Assert("C17/uorder/stored-through-the-receiver", ok && zz17ValsAre(vals, n, zz17UResult(used)))
		if skip != 0 {
			vrt.Cover("fell-through")
		} else {
			vrt.Cover("first")
		}
	}
}

// zz17RunDec performs n <= k symbolic decoder calls (alpha 3: ReadToken, SkipValue, PeekKind;
// alpha 4: also ReadValue), swallowing errors, and summarises the successful ones.
func zz17RunDec(dec *jsontext.Decoder, pfx string, k, alpha int, eff *zz17Eff) {
	n := vrt.IntRange(pfx+"n", 0, k)
	for i := 0; i < n; i++ {
		switch vrt.Choice(pfx+"op"+zzItoa17(i), alpha) {
		case 0:
			if tok, err := dec.ReadToken(); err == nil {
				switch tok.Kind() {
				case '[', '{':
					eff.open()
				case ']', '}':
					eff.close()
				default:
					eff.value()
				}
			}
		case 1:
			if dec.SkipValue() == nil {
				eff.value()
			}
		case 2:
			dec.PeekKind()
		default:
			if _, err := dec.ReadValue(); err == nil {
				eff.value()
			}
		}
	}
}

// VerifC17UFrom: an UnmarshalJSONFrom method performs an arbitrary sequence of <= k decoder
// calls (errors swallowed) on the concrete input value x and returns nil / ErrUnsupported
// (plain, wrapped) / its own error. Unmarshal must succeed iff the method returned nil after
// consuming exactly one JSON value; fall through to the next representation iff it returned
// ErrUnsupported without consuming anything; report an error otherwise.
func VerifC17UFrom(typ, pos, k, alpha int, x string) {
	chain := zz17UMethods(typ)
	zz17Reset()
	var eff zz17Eff
	ret, calls := 0, 0
	zz17FromFn = func(dec *jsontext.Decoder, set func(int8)) error {
		calls++
		set(zz17TagFrom)
		if calls > 1 {
			return dec.SkipValue()
		}
		zz17RunDec(dec, "", k, alpha, &eff)
		r, err := zz17Ret("")
		ret = r
		return err
	}
	vals, ok, err := zz17UDo(typ, pos, []byte(zz17UWrap(pos, x)))
	vrt.Observe("errnil", err == nil)
	vrt.Assert("C17/ufrom/called-first", len(zz17Log) >= 1 && zz17Log[0] == zz17TagFrom)
	if pos == zz17UMapInSl && len(zz17Log) >= 2 && zz17Log[len(zz17Log)-1] == zz17TagFrom && calls == 2 {
		zz17Log = zz17Log[:len(zz17Log)-1] // the benign second call for the member "a" of the second map
	}
	vrt.Assert("C17/ufrom/no-nil-receiver", !zz17NilRecv)
	switch {
	case ret == 0 && eff.exactlyOne():
		vrt.Cover("one-value")
		vrt.Assert("C17/ufrom/one-value-accepted", err == nil && zz17LogIs(zz17TagFrom) && ok && zz17ValsAre(vals, 1, zz17TagFrom))
	case ret == 0:
		if eff.neg {
			vrt.Cover("left-callers-container")
		} else if eff.d > 0 {
			vrt.Cover("left-open")
		} else if eff.cnt == 0 {
			vrt.Cover("zero-values")
		} else {
			vrt.Cover("two-values")
		}
		vrt.AssertKF("C17/ufrom/non-singular-rejected", err != nil, zz17KF, eff.neg)
		vrt.AssertKF("C17/ufrom/no-fallthrough-after-nil", zz17LogIs(zz17TagFrom), zz17KF, eff.neg)
	case ret == 3:
		vrt.Cover("user-error")
		vrt.Assert("C17/ufrom/user-error-reported", err != nil && zz17LogIs(zz17TagFrom))
	case !eff.any:
		vrt.Cover("skip")
		next := zz17Next(chain, zz17TagFrom)
		if next == 0 || (next == zz17TagUT && x[0] != '"') { // UnmarshalText is not called for non-strings
			vrt.Assert("C17/ufrom/skip-falls-to-default", zz17LogIs(zz17TagFrom))
		} else {
			vrt.Assert("C17/ufrom/skip-falls-to-next", zz17LogIs(zz17TagFrom, next))
		}
		fits := next == zz17TagUJ || (next == zz17TagUT && x[0] == '"') || (next == 0 && (x == "7" || x == `"7"`))
		if fits {
			vrt.Assert("C17/ufrom/skip-next-representation-used", err == nil && ok && zz17ValsAre(vals, 1, zz17UResult(next)))
		} else {
			vrt.Assert("C17/ufrom/skip-next-representation-rejects", err != nil)
		}
	default:
		vrt.Cover("unsupported-after-read")
		vrt.AssertKF("C17/ufrom/unsupported-after-read-rejected", err != nil && zz17LogIs(zz17TagFrom), zz17KF, eff.neg)
	}
}

// VerifC17UJ: UnmarshalJSON (first candidate after a skipping UnmarshalJSONFrom) is handed
// exactly the bytes of the JSON value at its position, for ARBITRARY input bytes x (n
// full-range bytes or a template) at the top level or in a struct member; at the top level
// Unmarshal succeeds iff the input is one valid JSON value and the method returns nil.
func VerifC17UJ(typ, pos, n int, tmpl string) {
	zz17Reset()
	zz17FromFn = func(dec *jsontext.Decoder, set func(int8)) error { return errors.ErrUnsupported }
	var x []byte
	if tmpl != "" {
		x = vrt.Template("x", tmpl)
	} else {
		x = vrt.Bytes("x", n)
	}
	ret, rerr := zz17Ret("")
	var got []byte
	calls := 0
	zz17UJFn = func(b []byte, set func(int8)) error {
		calls++
		if calls == 1 {
			got = append([]byte{}, b...)
		}
		set(zz17TagUJ)
		return rerr
	}
	pre, suf := zz17UWrap(pos, "\x00"), ""
	for i := 0; i < len(pre); i++ {
		if pre[i] == 0 {
			pre, suf = pre[:i], pre[i+1:]
			break
		}
	}
	in := append(append([]byte(pre), x...), suf...)
	vals, ok, err := zz17UDo(typ, pos, in)
	vrt.Observe("errnil", err == nil)
	vrt.Assert("C17/uj/no-nil-receiver", !zz17NilRecv)
	if calls > 0 {
		vrt.Cover("called")
		i := zzspec.SkipWS(in, len(pre))
		e := zzspec.ScanValue(in, i, true, true, 1000)
		vrt.Assert("C17/uj/receives-exactly-the-value", e > i && bytes.Equal(got, in[i:e]))
	}
	if err == nil {
		vrt.Cover("accepted")
		vrt.Assert("C17/uj/consulted", calls >= 1 && ret == 0 && ok && len(vals) >= 1 && vals[0] == zz17TagUJ)
	}
	if pos == zz17UTop {
		valid := zzspec.ValidText(x, true, true, 1000)
		if !valid {
			vrt.Cover("invalid-input")
		}
		vrt.Assert("C17/uj/top-accepted-iff-valid-and-nil", (err == nil) == (valid && ret == 0))
	}
}

// VerifC17UT: UnmarshalText (the only applicable method, or after a skipping
// UnmarshalJSONFrom) is called only for JSON strings, with the string's meaning (escapes
// resolved); for other JSON values Unmarshal reports an error without calling it, except null
// which zeroes the value. Input: ARBITRARY bytes / template.
func VerifC17UT(typ, pos, n int, tmpl string) {
	zz17Reset()
	zz17FromFn = func(dec *jsontext.Decoder, set func(int8)) error { return errors.ErrUnsupported }
	var x []byte
	if tmpl != "" {
		x = vrt.Template("x", tmpl)
	} else {
		x = vrt.Bytes("x", n)
	}
	ret, rerr := zz17Ret("")
	var got []byte
	calls := 0
	zz17UTFn = func(b []byte, set func(int8)) error {
		calls++
		if calls == 1 {
			got = append([]byte{}, b...)
		}
		set(zz17TagUT)
		return rerr
	}
	pre, suf := zz17UWrap(pos, "\x00"), ""
	for i := 0; i < len(pre); i++ {
		if pre[i] == 0 {
			pre, suf = pre[:i], pre[i+1:]
			break
		}
	}
	in := append(append([]byte(pre), x...), suf...)
	vals, ok, err := zz17UDo(typ, pos, in)
	vrt.Observe("errnil", err == nil)
	vrt.Assert("C17/ut/no-nil-receiver", !zz17NilRecv)
	if calls > 0 {
		vrt.Cover("called")
		i := zzspec.SkipWS(in, len(pre))
		e := zzspec.ScanString(in, i, true)
		vrt.Assert("C17/ut/only-for-strings", e > i)
		if e > i {
			vrt.Assert("C17/ut/receives-the-meaning", bytes.Equal(got, zzspec.Unescape(in[i:e])))
		}
	}
	i := zzspec.SkipWS(x, 0)
	if pos == zz17UTop {
		valid := zzspec.ValidText(x, true, true, 1000)
		switch {
		case !valid:
			vrt.Cover("invalid-input")
			vrt.Assert("C17/ut/invalid-rejected", err != nil)
		case x[i] == '"':
			vrt.Assert("C17/ut/string-dispatched", calls == 1 && (err == nil) == (ret == 0))
			if err == nil {
				vrt.Assert("C17/ut/stored", ok && zz17ValsAre(vals, 1, zz17TagUT))
			}
		case x[i] == 'n':
			vrt.Cover("null")
			vrt.Assert("C17/ut/null-zeroes-without-call", calls == 0 && err == nil && ok && zz17ValsAre(vals, 1, 0))
		default:
			vrt.Cover("non-string")
			vrt.Assert("C17/ut/non-string-is-an-error", calls == 0 && err != nil)
		}
	}
}

// VerifC17UOpts: inside UnmarshalJSONFrom (api 0 Unmarshal, 1 UnmarshalRead, 2 UnmarshalDecode
// on a decoder built with part of the options) dec.Options() shows exactly the caller's
// options; with reset the method tries dec.Reset, which must panic and change nothing.
func VerifC17UOpts(typ, pos, api int, reset bool) {
	zz17Reset()
	bU, bD, bS, bR := vrt.Bool("u"), vrt.Bool("d"), vrt.Bool("s"), vrt.Bool("r")
	if pos == zz17UMapKey {
		vrt.Assume(!bS) // the frame {X:1} holds an unquoted number as the map value
	}
	var gU, gD, gS, gR, okAll, panicked bool
	zz17FromFn = func(dec *jsontext.Decoder, set func(int8)) error {
		o := dec.Options()
		var o1, o2, o3, o4 bool
		gU, o1 = GetOption(o, jsontext.AllowInvalidUTF8)
		gD, o2 = GetOption(o, jsontext.AllowDuplicateNames)
		gS, o3 = GetOption(o, StringifyNumbers)
		gR, o4 = GetOption(o, RejectUnknownMembers)
		okAll = o1 && o2 && o3 && o4
		if reset {
			panicked = vrt.Misuse(func() { dec.Reset(bytes.NewReader([]byte("[]"))) })
		}
		set(zz17TagFrom)
		return dec.SkipValue()
	}
	in := []byte(zz17UWrap(pos, zz17UInput(zz17TagFrom, pos)))
	var vals []int8
	var ok bool
	var err error
	switch api {
	case 0:
		vals, ok, err = zz17UDo(typ, pos, in, jsontext.AllowInvalidUTF8(bU), jsontext.AllowDuplicateNames(bD), StringifyNumbers(bS), RejectUnknownMembers(bR))
	case 1:
		var v zz17UAll
		err = UnmarshalRead(bytes.NewReader(in), &v, jsontext.AllowInvalidUTF8(bU), jsontext.AllowDuplicateNames(bD), StringifyNumbers(bS), RejectUnknownMembers(bR))
		vals, ok = []int8{int8(v)}, true
	default:
		var v zz17UAll
		var dec *jsontext.Decoder
		if api == 2 {
			dec = jsontext.NewDecoder(bytes.NewReader(in), jsontext.AllowInvalidUTF8(bU), jsontext.AllowDuplicateNames(bD))
			err = UnmarshalDecode(dec, &v, StringifyNumbers(bS), RejectUnknownMembers(bR))
		} else { // every option already on the decoder
			dec = jsontext.NewDecoder(bytes.NewReader(in), jsontext.AllowInvalidUTF8(bU), jsontext.AllowDuplicateNames(bD), StringifyNumbers(bS), RejectUnknownMembers(bR))
			err = UnmarshalDecode(dec, &v)
		}
		vals, ok = []int8{int8(v)}, true
		vrt.Assert("C17/uopts/reset-allowed-after-return", !vrt.Misuse(func() { dec.Reset(bytes.NewReader(nil)) }))
	}
	vrt.Assert("C17/uopts/called", zz17LogIs(zz17TagFrom))
	vrt.Assert("C17/uopts/options-are-the-callers", okAll && gU == bU && gD == bD && gS == bS && gR == bR)
	if reset {
		vrt.Cover("reset-tried")
		vrt.Assert("C17/uopts/reset-panics", panicked)
	}
	vrt.Assert("C17/uopts/outcome-intact", err == nil && ok && zz17ValsAre(vals, 1, zz17TagFrom))
	vrt.Cover("done")
}

var (
	zz17UFFromFn [3]func(dec *jsontext.Decoder, set func(int8)) error // list element i built by UnmarshalFromFunc
	zz17UFJFn    [3]func(b []byte, set func(int8)) error              // ... by UnmarshalFunc
)

// zz17UFunc builds unmarshal list element i: kind 'T' UnmarshalFromFunc / 'J' UnmarshalFunc on
// target 'p' *T, 'i' the interface zz17Marker (implemented by *T), 'o' an unrelated type.
func zz17UFunc[T ~int8, PT interface {
	*T
	zz17Marker
}](i int, kind, target byte) *Unmarshalers {
	setp := func(p *T) func(int8) { return func(x int8) { *p = T(x) } }
	if kind == 'T' {
		switch target {
		case 'p':
			return UnmarshalFromFunc(func(dec *jsontext.Decoder, v *T) error {
				zz17FLog(10+i, v == nil)
				return zz17UFFromFn[i](dec, setp(v))
			})
		case 'i':
			return UnmarshalFromFunc(func(dec *jsontext.Decoder, v zz17Marker) error {
				p, ok := v.(PT)
				zz17FLog(10+i, !ok || p == nil)
				return zz17UFFromFn[i](dec, setp((*T)(p)))
			})
		default:
			return UnmarshalFromFunc(func(dec *jsontext.Decoder, v *zz17Other) error {
				zz17FLog(10+i, v == nil)
				return zz17UFFromFn[i](dec, func(int8) {})
			})
		}
	}
	switch target {
	case 'p':
		return UnmarshalFunc(func(b []byte, v *T) error {
			zz17FLog(10+i, v == nil)
			return zz17UFJFn[i](b, setp(v))
		})
	case 'i':
		return UnmarshalFunc(func(b []byte, v zz17Marker) error {
			p, ok := v.(PT)
			zz17FLog(10+i, !ok || p == nil)
			return zz17UFJFn[i](b, setp((*T)(p)))
		})
	default:
		return UnmarshalFunc(func(b []byte, v *zz17Other) error {
			zz17FLog(10+i, v == nil)
			return zz17UFJFn[i](b, func(int8) {})
		})
	}
}

func zz17UList[T ~int8, PT interface {
	*T
	zz17Marker
}](spec string, nest bool) *Unmarshalers {
	var us []*Unmarshalers
	for i := 0; 2*i < len(spec); i++ {
		us = append(us, zz17UFunc[T, PT](i, spec[2*i], spec[2*i+1]))
	}
	if nest && len(us) >= 2 {
		return JoinUnmarshalers(nil, us[0], JoinUnmarshalers(us[1:]...))
	}
	return JoinUnmarshalers(us...)
}

// VerifC17UFuncs: WithUnmarshalers(list) of up to three scripted functions for a destination
// of type typ (0: all methods, 5: none) at position pos; the input value is the number 7 (a
// string as a map key). Behaviours: handle (consume the value, store the function's tag) /
// ErrUnsupported untouched / (UnmarshalFromFunc) read then ErrUnsupported, own error, return
// nil without reading / (UnmarshalFunc) ErrUnsupported (not allowed: error), own error.
// Documented: applicable functions (target *T or an interface *T implements) are called in list
// order with a non-nil pointer, the first that does not skip decides, then methods, then the
// default. Round 2: same Unmarshalers value, all functions skip.
func VerifC17UFuncs(typ, pos int, spec string, nest bool) {
	var us *Unmarshalers
	if typ == 0 {
		us = zz17UList[zz17UAll](spec, nest)
	} else {
		us = zz17UList[zz17UNone](spec, nest)
	}
	chain := zz17UMethods(typ)
	n := len(spec) / 2
	for round := 0; round < 2; round++ {
		zz17Reset()
		var beh [3]int
		for i := 0; i < n; i++ {
			i := i
			if spec[2*i] == 'T' {
				if round == 0 {
					beh[i] = vrt.Choice("beh"+zzItoa17(i), 5)
				} else {
					beh[i] = 1
				}
				zz17UFFromFn[i] = func(dec *jsontext.Decoder, set func(int8)) error {
					switch beh[i] {
					case 0:
						set(int8(zz17TagU1 + i))
						return dec.SkipValue()
					case 1:
						return errors.ErrUnsupported
					case 2:
						dec.ReadToken()
						return errors.ErrUnsupported
					case 3:
						return zz17ErrUser
					default:
						return nil
					}
				}
			} else {
				if round == 0 {
					beh[i] = vrt.Choice("beh"+zzItoa17(i), 3)
				}
				zz17UFJFn[i] = func(b []byte, set func(int8)) error {
					switch beh[i] {
					case 0:
						set(int8(zz17TagU1 + i))
						return nil
					case 1:
						return zz17WrapUnsup{}
					default:
						return zz17ErrUser
					}
				}
			}
		}
		var want []int
		wantErr, decided := false, false
		var result int8
		for i := 0; i < n && !decided; i++ {
			if spec[2*i+1] == 'o' {
				continue
			}
			want = append(want, zz17TagU1+i)
			if beh[i] == 0 {
				decided, result = true, int8(zz17TagU1+i)
			} else if spec[2*i] == 'T' && beh[i] == 1 {
				continue
			} else {
				decided, wantErr = true, true
			}
		}
		if !decided {
			used := 0
			if len(chain) > 0 {
				used = chain[0]
				want = append(want, used)
			}
			result = zz17UResult(used)
		}
		calls := zz17UCalls(pos)
		if calls == 2 && !wantErr {
			want = append(want, want...)
		}
		vals, ok, err := zz17UDo(typ, pos, []byte(zz17UWrap(pos, zz17UInput(0, pos))), WithUnmarshalers(us))
		vrt.Assert("C17/ufuncs/no-nil-pointer", !zz17NilRecv)
		vrt.Assert("C17/ufuncs/list-order", zz17LogIs(want...))
		if wantErr {
			vrt.Cover("error")
			vrt.Assert("C17/ufuncs/misbehaviour-reported", err != nil)
		} else {
			if decided {
				vrt.Cover("function-decides")
			} else {
				vrt.Cover("all-skipped")
			}
			vrt.Assert("C17/ufuncs/stored", err == nil && ok && zz17ValsAre(vals, calls, result))
		}
	}
}
