package jsontext

import (
	"bytes"

	"github.com/go-json-experiment/json/internal/zzverif/vrt"
	"github.com/go-json-experiment/json/internal/zzverif/zzspec"
)

func zzC13Minimal(lit, text []byte) bool {
	return bytes.Equal(lit, zzspec.MinimalQuote(text, false, false))
}

// zzC13CanonOpts: the options Canonicalize stands for (see its documentation).
func zzC13CanonOpts() zzC12Opts {
	return zzC12Draw(zzC12CanonInts|zzC12CanonFloats|zzC12Reorder, 0, 0, 0)
}

// VerifC13Canon: Value.Canonicalize on the skeleton tmpl (holes restricted to alphabet alpha,
// numbers with symbolic digits restricted to short integers) succeeds iff the text is valid
// under RFC 7493; the output then has no whitespace, the members of every object strictly
// sorted by the UTF-16 code units of their names, minimal strings, the same meaning (members as
// a multiset), is valid, equals the reference canonical form, and is a fixed point.
func VerifC13Canon(tmpl string, alpha int) {
	tmpl = zzC12Unpct(tmpl)
	b := zzC12Input(0, alpha, tmpl)
	o := zzC13CanonOpts()
	zzC12AssumeNoFloatWork(b, tmpl, &o)
	want := zzspec.ValidText(b, true, true, 10000)
	v := Value(bytes.Clone(b))
	err := v.Canonicalize()
	vrt.Observe("errnil", err == nil)
	vrt.Observe("out", []byte(v))
	vrt.Assert("C13/canon/succeeds-iff-rfc7493-valid", (err == nil) == want)
	if err != nil {
		vrt.Cover("reject")
		vrt.Assert("C13/canon/error-leaves-value", bytes.Equal(v, b))
		return
	}
	vrt.Cover("accept")
	outValid := zzspec.ValidText(v, true, true, 10000)
	vrt.Assert("C13/canon/output-valid", outValid)
	if !outValid {
		return
	}
	tin, tout := zzspec.Parse(b), zzspec.Parse(v)
	vrt.Assert("C13/canon/no-whitespace", zzspec.NoSpace(v))
	vrt.Assert("C13/canon/members-sorted-utf16", zzspec.MembersSorted(tout, true))
	vrt.Assert("C13/canon/strings-minimal", zzspec.AllStrings(tout, zzC13Minimal))
	d := zzspec.Differences{StringSpelling: true, CanonInts: true, CanonFloats: true, MemberOrder: true}
	vrt.Assert("C13/canon/same-value", zzspec.Same(tin, tout, d))
	d.MemberOrder = false
	if !zzspec.Same(tin, tout, d) {
		vrt.Cover("reordered")
	}
	if zzspec.ShortInts(tin) {
		vrt.Assert("C13/canon/is-reference-canonical-form", bytes.Equal(v, zzspec.Canonical(nil, tin)))
	}
	v2 := v.Clone()
	err2 := v2.Canonicalize()
	vrt.Assert("C13/canon/fixed-point", err2 == nil && bytes.Equal(v2, v))
}

// zzC13Fill fills the holes of tmpl: its k-th hole takes holes[perm[k]-'0'] (identity when
// perm is empty).
func zzC13Fill(tmpl string, holes []byte, perm string) []byte {
	b := []byte(tmpl)
	k := 0
	for i := range b {
		if b[i] == '?' {
			j := k
			if perm != "" {
				j = int(perm[k] - '0')
			}
			b[i] = holes[j]
			k++
		}
	}
	return b
}

// VerifC13Class: two texts built from the same symbolic holes that differ only in member
// order / whitespace (skeletons t1 and t2, the k-th hole of t2 is hole perm[k] of t1), then
// optionally (xform bit 0) whitespace injected everywhere it is allowed and (bit 1) every raw
// string character re-spelled as \uXXXX in the second text, canonicalize to identical bytes.
func VerifC13Class(t1, t2, perm string, nholes, xform int) {
	t1, t2 = zzC12Unpct(t1), zzC12Unpct(t2)
	holes := vrt.Bytes("h", nholes)
	in1 := zzC13Fill(t1, holes, "")
	in2 := zzC13Fill(t2, holes, perm)
	o := zzC13CanonOpts()
	zzC12AssumeNoFloatWork(in1, t1, &o)
	zzC12AssumeNoFloatWork(in2, t2, &o)
	valid := zzspec.ValidText(in1, true, true, 10000)
	if valid {
		if xform&1 != 0 {
			in2 = zzspec.Spaced(in2, " \n\r\t")
		}
		if xform&2 != 0 {
			in2 = zzspec.EscapeAll(in2)
		}
	}
	vrt.Observe("in2", in2)
	v1, v2 := Value(bytes.Clone(in1)), Value(bytes.Clone(in2))
	err1 := v1.Canonicalize()
	err2 := v2.Canonicalize()
	vrt.Observe("errnil", err1 == nil)
	vrt.Assert("C13/class/same-verdict", (err1 == nil) == valid && (err2 == nil) == valid)
	if err1 != nil || err2 != nil {
		vrt.Cover("reject")
		return
	}
	vrt.Cover("accept")
	if !bytes.Equal(in1, in2) {
		vrt.Cover("different-texts")
	}
	vrt.Observe("out", []byte(v1))
	vrt.Assert("C13/class/identical-canonical-bytes", bytes.Equal(v1, v2))
}

// VerifC13Num: the decision which number literals are re-spelled, on concrete literals (the
// spelling itself comes from strconv): under the symbolic choice of CanonicalizeRawInts /
// CanonicalizeRawFloats, Format turns lit into canon exactly when the documentation says so
// (-0 under either option; integers under the first, literals with fraction or exponent under
// the second) and copies it verbatim otherwise. table lists the pairs as "lit>canon|lit>canon";
// each literal is placed in the (compact) skeleton tmpl at '#'.
func VerifC13Num(tmpl, table string) {
	ci, cf := vrt.Bool("ints"), vrt.Bool("floats")
	at := bytes.IndexByte([]byte(tmpl), '#')
	for len(table) > 0 {
		row := table
		if k := bytes.IndexByte([]byte(table), '|'); k >= 0 {
			row, table = table[:k], table[k+1:]
		} else {
			table = ""
		}
		k := bytes.IndexByte([]byte(row), '>')
		lit, canon := row[:k], row[k+1:]
		in := []byte(tmpl[:at] + lit + tmpl[at+1:])
		want := lit
		switch {
		case lit == "-0":
			if ci || cf {
				want = "0"
			}
		case bytes.ContainsAny([]byte(lit), ".eE"):
			if cf {
				want = canon
			}
		default:
			if ci {
				want = canon
			}
		}
		v := Value(bytes.Clone(in))
		err := v.Format(CanonicalizeRawInts(ci), CanonicalizeRawFloats(cf))
		vrt.Observe("out", []byte(v))
		if want != lit {
			vrt.Cover("respelled")
		} else {
			vrt.Cover("verbatim")
		}
		vrt.Assert("C13/num/respelled-iff-documented", err == nil && bytes.Equal(v, []byte(tmpl[:at]+want+tmpl[at+1:])))
		if ci && cf {
			w := Value(bytes.Clone(in))
			err := w.Canonicalize()
			vrt.Assert("C13/num/canonicalize-agrees", err == nil && bytes.Equal(w, v))
		}
	}
}
