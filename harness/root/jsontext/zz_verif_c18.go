package jsontext

import (
	"bytes"
	"io"
	"sync"

	"github.com/go-json-experiment/json/internal/jsonwire"
	"github.com/go-json-experiment/json/internal/zzverif/vrt"
	"github.com/go-json-experiment/json/internal/zzverif/zzspec"
)

// zz18Opts returns the option set number k (as passed by a caller of the exported API).
func zz18Opts(k int) []Options {
	switch k {
	case 1:
		return []Options{AllowDuplicateNames(true)}
	case 2:
		return []Options{AllowInvalidUTF8(true), AllowDuplicateNames(true)}
	case 3:
		return []Options{Multiline(true)}
	case 4:
		return []Options{WithIndent(" "), WithIndentPrefix("  "), SpaceAfterComma(true)}
	case 5:
		return []Options{SpaceAfterColon(true), SpaceAfterComma(true)}
	case 6:
		return []Options{EscapeForHTML(true), EscapeForJS(true), PreserveRawStrings(true)}
	case 7:
		return []Options{ReorderRawObjects(true), AllowDuplicateNames(true)}
	}
	return nil
}

// zz18Res is everything one call hands back to its caller.
type zz18Res struct {
	out   []byte // bytes handed back (formatted value, dst of AppendFormat, token trace)
	ok    bool   // IsValid verdict, or err == nil
	n     int    // number of tokens processed (coder loops)
	isSyn bool
	off   int64
	ptr   Pointer
	inner error
}

func zz18Err(r *zz18Res, err error) {
	r.ok = err == nil
	if se, ok := err.(*SyntacticError); ok {
		r.isSyn = true
		r.off = se.ByteOffset
		r.ptr = se.JSONPointer
		r.inner = se.Err
	} else {
		r.inner = err
	}
}

func zz18SameInner(x, y error) bool {
	tx, okx := x.(*jsonwire.InvalidTextError)
	ty, oky := y.(*jsonwire.InvalidTextError)
	if okx || oky {
		return okx && oky && tx.Label == ty.Label && tx.What == ty.What && tx.Where == ty.Where
	}
	return x == y // nil, io.EOF, io.ErrUnexpectedEOF, ErrDuplicateName, errMaxDepth, ... (sentinels)
}

func zz18Same(x, y zz18Res) bool {
	return x.ok == y.ok && x.n == y.n && bytes.Equal(x.out, y.out) && x.isSyn == y.isSyn &&
		x.off == y.off && x.ptr == y.ptr && zz18SameInner(x.inner, y.inner)
}

// Call kinds.
const (
	zz18IsValid      = 0
	zz18Format       = 1
	zz18Compact      = 2
	zz18Indent       = 3
	zz18Canonicalize = 4
	zz18AppendFormat = 5
	zz18AppendFmtStr = 6 // AppendFormat instantiated with a string source
	zz18DecLoop      = 7 // pooled buffered decoder driven token by token (what json.Unmarshal's any-path does)
	zz18EncLoop      = 8 // pooled buffered encoder fed token by token (what json.Marshal does)
	zz18StreamDec    = 9 // pooled streaming decoder (json.UnmarshalRead), ReadValue then tokens
	zz18NumCalls     = 10
)

// zz18Call performs call kind op with option set opt on the buffer in (used in place:
// the caller decides about copies) and returns what the call handed back.
func zz18Call(op, opt int, in []byte) (r zz18Res) {
	opts := zz18Opts(opt)
	switch op {
	case zz18IsValid:
		r.ok = Value(in).IsValid(opts...)
	case zz18Format:
		v := Value(in)
		zz18Err(&r, v.Format(opts...))
		r.out = v
	case zz18Compact:
		v := Value(in)
		zz18Err(&r, v.Compact(opts...))
		r.out = v
	case zz18Indent:
		v := Value(in)
		zz18Err(&r, v.Indent(opts...))
		r.out = v
	case zz18Canonicalize:
		v := Value(in)
		zz18Err(&r, v.Canonicalize(opts...))
		r.out = v
	case zz18AppendFormat:
		out, err := AppendFormat([]byte("#"), in, opts...)
		zz18Err(&r, err)
		r.out = out
	case zz18AppendFmtStr:
		out, err := AppendFormat(nil, string(in), opts...)
		zz18Err(&r, err)
		r.out = out
	case zz18DecLoop:
		d := getBufferedDecoder(in, opts...)
		for {
			t, err := d.ReadToken()
			if err != nil {
				if err != io.EOF {
					zz18Err(&r, err)
				} else {
					r.ok = true
				}
				break
			}
			r.n++
			k := t.Kind()
			r.out = append(r.out, byte(k))
			if k == '"' || k == '0' {
				r.out = append(r.out, t.String()...)
			}
		}
		r.out = append(r.out, d.StackPointer()...)
		putBufferedDecoder(d)
	case zz18EncLoop:
		src := new(Decoder)
		src.s.reset(in, nil, AllowDuplicateNames(true), AllowInvalidUTF8(true))
		e := getBufferedEncoder(opts...)
		r.ok = true
		for {
			t, err := src.ReadToken()
			if err != nil {
				break
			}
			if err := e.WriteToken(t); err != nil {
				zz18Err(&r, err)
				break
			}
			r.n++
		}
		r.out = append(bytes.Clone(e.s.Buf), e.StackPointer()...)
		putBufferedEncoder(e)
	case zz18StreamDec:
		d := getStreamingDecoder(&zz18Reader{data: in, chunk: 2}, opts...)
		v, err := d.ReadValue()
		r.out = append(r.out, v...)
		for err == nil {
			var t Token
			t, err = d.ReadToken()
			if err == nil {
				r.n++
				r.out = append(r.out, byte(t.Kind()))
			}
		}
		if err != io.EOF {
			zz18Err(&r, err)
		} else {
			r.ok = true
		}
		putStreamingDecoder(d)
	}
	return r
}

// zz18FreshPools replaces the package's coder pools by empty ones, so that the next Get of
// each pool calls New: the state of "no earlier call". (Under the engine PoolFresh has the same
// effect for the reference run; natively this makes the replayed run equally independent of
// whatever ran earlier in the test process.)
func zz18FreshPools() {
	bufferedEncoderPool = &sync.Pool{New: func() any { return new(Encoder) }}
	streamingEncoderPool = &sync.Pool{New: func() any { return new(Encoder) }}
	bytesBufferEncoderPool = &sync.Pool{New: func() any { return new(Encoder) }}
	bufferedDecoderPool = &sync.Pool{New: func() any { return new(Decoder) }}
	streamingDecoderPool = &sync.Pool{New: func() any { return new(Decoder) }}
	bytesBufferDecoderPool = bufferedDecoderPool
}

// zz18Reader hands out data in fixed chunks.
type zz18Reader struct {
	data  []byte
	chunk int
}

func (r *zz18Reader) Read(p []byte) (int, error) {
	if len(r.data) == 0 {
		return 0, io.EOF
	}
	n := min(len(p), r.chunk, len(r.data))
	copy(p, r.data[:n])
	r.data = r.data[n:]
	return n, nil
}

// zz18Input draws a symbolic input: the '?' holes of tmpl are symbolic bytes restricted to
// alphabet alpha (0: unrestricted).
func zz18Input(name, tmpl string, alpha int) []byte {
	if len(tmpl) > 0 && tmpl[0] == '@' {
		// "@names<k>@<rest>": an object with k concrete members "a0":0,"a1":0,... followed by rest
		// "@deep<k>@<rest>": rest nested inside k levels of {"":
		i := 1
		for tmpl[i] != '@' {
			i++
		}
		head, rest := tmpl[1:i], zz18Input(name, tmpl[i+1:], alpha)
		k := 0
		for j := 0; j < len(head); j++ {
			if c := head[j]; c >= '0' && c <= '9' {
				k = 10*k + int(c-'0')
			}
		}
		if head[0] == 'd' {
			return zz20Deep(1, 0, k, rest)
		}
		b := []byte{'{'}
		for j := 0; j < k; j++ {
			b = append(b, `"a`...)
			b = append(b, zzItoa(j)...)
			b = append(b, `":0,`...)
		}
		return append(b, rest...)
	}
	cnt := 0
	for i := 0; i < len(tmpl); i++ {
		if tmpl[i] == '?' {
			cnt++
		}
	}
	hs := vrt.Bytes(name, cnt)
	vrt.Assume(zzspec.InAlphabet(hs, alpha))
	b := []byte(tmpl)
	k := 0
	for i := range b {
		if b[i] == '?' {
			b[i] = hs[k]
			k++
		}
	}
	return b
}

// VerifC18Hist: the result of call B on input b (bytes, verdict, error class, error offset and
// pointer) is the same whether B runs on brand-new coders (pool policy: Get always calls New)
// or after an arbitrary earlier call A on an independent input a whose coders B then
// recycles (Get returns the most recently Put coder); A itself starts from empty pools, so
// the history of B is exactly A. opA < 0: the kind of A is chosen by the
// solver among all kinds; optA < 0: its option set among {1, 4, 7, 0}.
func VerifC18Hist(opA, optA int, tmplA string, alphaA int, opB, optB int, tmplB string, alphaB int) {
	if opA < 0 {
		opA = vrt.Choice("opA", zz18NumCalls)
	}
	if optA < 0 {
		optA = [...]int{1, 4, 7, 0}[vrt.Choice("optA", 4)]
	}
	a := zz18Input("a", tmplA, alphaA)
	b := zz18Input("b", tmplB, alphaB)

	zz18FreshPools()
	vrt.PoolPolicy(vrt.PoolFresh)
	r0 := zz18Call(opB, optB, bytes.Clone(b))
	vrt.PoolPolicy(vrt.PoolEither)
	zz18FreshPools()
	ra := zz18Call(opA, optA, a)
	r1 := zz18Call(opB, optB, bytes.Clone(b))

	if ra.ok {
		vrt.Cover("A-ok")
	} else {
		vrt.Cover("A-fails")
	}
	if r0.ok {
		vrt.Cover("B-ok")
	} else {
		vrt.Cover("B-fails")
	}
	vrt.Observe("Aok", ra.ok)
	vrt.Observe("Bok", r1.ok)
	vrt.Observe("Bout", r1.out)
	vrt.Assert("C18/hist/same-verdict", r0.ok == r1.ok)
	vrt.Assert("C18/hist/same-bytes", bytes.Equal(r0.out, r1.out) && r0.n == r1.n)
	vrt.Assert("C18/hist/same-error", r0.isSyn == r1.isSyn && r0.off == r1.off && r0.ptr == r1.ptr && zz18SameInner(r0.inner, r1.inner))
}

// VerifC18Strikes: one call with a large result (more than 4 KiB, so that the pooled
// encoder's buffer falls under the utilisation statistics of putBufferedEncoder), then k
// small calls: each of them gives what it gives on brand-new coders, also when the buffer is
// finally discarded (fifth under-utilised use) and re-allocated.
func VerifC18Strikes(levels, k, opB, optB int, tmplB string) {
	b := zz18Input("b", tmplB, 3)
	zz18FreshPools()
	vrt.PoolPolicy(vrt.PoolFresh)
	r0 := zz18Call(opB, optB, bytes.Clone(b))
	vrt.PoolPolicy(vrt.PoolEither)
	zz18FreshPools()
	big := zz20Deep(1, 0, levels, []byte("1"))
	ra := zz18Call(zz18Format, 1, big)
	vrt.Assert("C18/strikes/big-call-ok", ra.ok && len(ra.out) > 4096)
	for i := 0; i < k; i++ {
		r := zz18Call(opB, optB, bytes.Clone(b))
		vrt.Assert("C18/strikes/same-result", zz18Same(r0, r))
	}
	e := getBufferedEncoder()
	if e.s.Buf != nil && cap(e.s.Buf) < 4096 {
		vrt.Cover("buffer-was-discarded")
	}
	putBufferedEncoder(e)
	vrt.Observe("Bout", r0.out)
	vrt.Cover("end")
}

// VerifC18Hist3: as VerifC18Hist with two earlier calls A1, A2 whose kinds are chosen by the
// solver among {IsValid, Format, Canonicalize, decLoop, encLoop} and whose option sets among
// {1, 4} for A1 and {7, 0} for A2.
func VerifC18Hist3(tmplA1 string, tmplA2 string, alphaA int, opB, optB int, tmplB string, alphaB int) {
	a1 := zz18Input("a1", tmplA1, alphaA)
	a2 := zz18Input("a2", tmplA2, alphaA)
	b := zz18Input("b", tmplB, alphaB)
	kinds := [...]int{zz18IsValid, zz18Format, zz18Canonicalize, zz18DecLoop, zz18EncLoop}
	opA1 := kinds[vrt.Choice("opA1", len(kinds))]
	optA1 := [...]int{1, 4}[vrt.Choice("optA1", 2)]
	opA2 := kinds[vrt.Choice("opA2", len(kinds))]
	optA2 := [...]int{7, 0}[vrt.Choice("optA2", 2)]

	zz18FreshPools()
	vrt.PoolPolicy(vrt.PoolFresh)
	r0 := zz18Call(opB, optB, bytes.Clone(b))
	vrt.PoolPolicy(vrt.PoolEither)
	zz18FreshPools()
	zz18Call(opA1, optA1, a1)
	zz18Call(opA2, optA2, a2)
	r1 := zz18Call(opB, optB, bytes.Clone(b))
	if r0.ok {
		vrt.Cover("B-ok")
	} else {
		vrt.Cover("B-fails")
	}
	vrt.Observe("Bok", r1.ok)
	vrt.Observe("Bout", r1.out)
	vrt.Assert("C18/hist3/same-result", zz18Same(r0, r1))
}

// VerifC18Alias: bytes handed back by Format / Compact / Indent / Canonicalize /
// AppendFormat / Clone stay as they were when (1) later calls recycle the same coders for a
// different input and (2) the caller overwrites the input buffer it had passed (AppendFormat
// and Clone only: the Format family is documented to work in place, there the buffer passed
// in is the buffer handed back).
func VerifC18Alias(opA, optA int, tmplA string, alphaA int, opB, optB int, tmplB string, alphaB int) {
	a := zz18Input("a", tmplA, alphaA)
	b := zz18Input("b", tmplB, alphaB)
	var in, out []byte
	switch opA {
	case zz18AppendFormat:
		in = a
		out, _ = AppendFormat(nil, in, zz18Opts(optA)...)
	case zz18AppendFmtStr:
		out, _ = AppendFormat([]byte("#"), string(a), zz18Opts(optA)...)
	case zz18NumCalls: // Clone
		in = a
		out = Value(in).Clone()
	default:
		out = zz18Call(opA, optA, a).out
	}
	snap := bytes.Clone(out)
	if len(out) > 0 {
		vrt.Cover("nonempty")
	}
	zz18Call(opB, optB, b)
	for i := range in {
		in[i] = '#'
	}
	for i := range b {
		b[i] = '#'
	}
	zz18Call(opB, optB, bytes.Clone(snap))
	vrt.Observe("out", out)
	vrt.Assert("C18/alias/result-unchanged", bytes.Equal(out, snap))
}

// VerifC18AliasB: the result of a later call does not alias the buffers of an earlier
// result either: overwriting the earlier result leaves the later one intact.
func VerifC18AliasB(optA int, tmplA string, alphaA int, optB int, tmplB string, alphaB int) {
	a := zz18Input("a", tmplA, alphaA)
	b := zz18Input("b", tmplB, alphaB)
	out1, _ := AppendFormat(nil, a, zz18Opts(optA)...)
	out2, _ := AppendFormat(nil, b, zz18Opts(optB)...)
	snap2 := bytes.Clone(out2)
	for i := range out1 {
		out1[i] = '#'
	}
	out1 = append(out1, "####"...)
	for i := range a {
		a[i] = '#'
	}
	if len(out2) > 0 {
		vrt.Cover("nonempty")
	}
	vrt.Observe("out2", out2)
	vrt.Assert("C18/alias/later-result-independent", bytes.Equal(out2, snap2))
}

// zz18DecTrace drives d with the call sequence ops (0 ReadToken, 1 ReadValue, 2 SkipValue,
// 3 PeekKind) and records everything observable.
func zz18DecTrace(d *Decoder, ops []int) (tr []byte, steps []zzStep) {
	for _, op := range ops {
		s := zzDo(d, op)
		steps = append(steps, s)
		tr = append(tr, byte(d.StackDepth()), byte(d.InputOffset()))
		tr = append(tr, d.StackPointer()...)
		if op != 3 && !s.errNil {
			break
		}
	}
	return tr, steps
}

// VerifC18ResetDec: a Decoder used on input 1 (any call sequence, stopped anywhere, also
// after an error in the middle of an object) and then Reset to input 2 behaves on input 2
// exactly as a new Decoder: same tokens, values, errors, offsets, depths, pointers.
// rd1/rd2 select the reader kind: 0 chunk reader, 1 *bytes.Buffer.
func VerifC18ResetDec(tmpl1 string, opt1, rd1, calls1 int, tmpl2 string, opt2, rd2, calls2 int) {
	in1 := zz18Input("a", tmpl1, 3)
	in2 := zz18Input("b", tmpl2, 3)
	mk := func(kind int, data []byte) io.Reader {
		if kind == 1 {
			return bytes.NewBuffer(bytes.Clone(data))
		}
		return &zz18Reader{data: bytes.Clone(data), chunk: 3}
	}
	ops1 := make([]int, calls1)
	for i := range ops1 {
		ops1[i] = vrt.Choice("p"+zzItoa(i), 4)
	}
	ops2 := make([]int, calls2)
	for i := range ops2 {
		ops2[i] = vrt.Choice("q"+zzItoa(i), 3)
	}
	d := NewDecoder(mk(rd1, in1), zz18Opts(opt1)...)
	_, st1 := zz18DecTrace(d, ops1)
	if len(st1) > 0 && !st1[len(st1)-1].errNil {
		vrt.Cover("first-use-ended-in-error")
	}
	if d.StackDepth() > 0 {
		vrt.Cover("first-use-left-nested")
	}
	d.Reset(mk(rd2, in2), zz18Opts(opt2)...)
	vrt.Assert("C18/reset/dec/offset-zero", d.InputOffset() == 0 && d.StackDepth() == 0 && d.StackPointer() == "")
	tr1, s1 := zz18DecTrace(d, ops2)
	f := NewDecoder(mk(rd2, in2), zz18Opts(opt2)...)
	tr2, s2 := zz18DecTrace(f, ops2)
	same := len(s1) == len(s2)
	for i := 0; same && i < len(s1); i++ {
		same = zzSameStep(s1[i], s2[i]) && s1[i].synPtr == s2[i].synPtr
	}
	vrt.Observe("trace", tr2)
	vrt.Assert("C18/reset/dec/same-steps", same)
	vrt.Assert("C18/reset/dec/same-state-trace", bytes.Equal(tr1, tr2))
	vrt.Cover("end")
}

// zz18EncDrive transcodes the tokens of in into e (WriteToken; every third accepted call a
// WriteValue of the raw value instead) until the source ends or a call fails.
func zz18EncDrive(e *Encoder, in []byte, useValues bool) (tr []byte, r zz18Res) {
	src := new(Decoder)
	src.s.reset(in, nil, AllowDuplicateNames(true), AllowInvalidUTF8(true))
	r.ok = true
	for {
		var err error
		if useValues && r.n%3 == 2 {
			var v Value
			v, err = src.ReadValue()
			if err != nil {
				break
			}
			err = e.WriteValue(v)
		} else {
			var t Token
			t, err = src.ReadToken()
			if err != nil {
				break
			}
			err = e.WriteToken(t)
		}
		tr = append(tr, byte(e.StackDepth()), byte(e.OutputOffset()))
		tr = append(tr, e.StackPointer()...)
		if err != nil {
			zz18Err(&r, err)
			break
		}
		r.n++
	}
	return tr, r
}

// VerifC18ResetEnc: an Encoder used for output 1 (stopped anywhere, also after a rejected
// call inside an object) and then Reset to a new writer behaves exactly as a new Encoder:
// same bytes delivered, same errors, offsets, depths, pointers.
// w1/w2 select the writer kind: 0 plain sink, 1 *bytes.Buffer.
func VerifC18ResetEnc(tmpl1 string, opt1, w1 int, tmpl2 string, opt2, w2 int, useValues bool) {
	in1 := zz18Input("a", tmpl1, 3)
	in2 := zz18Input("b", tmpl2, 3)
	type sink struct {
		w  io.Writer
		s  *zzSink
		bb *bytes.Buffer
	}
	mk := func(kind int) sink {
		if kind == 1 {
			bb := new(bytes.Buffer)
			return sink{w: bb, bb: bb}
		}
		s := new(zzSink)
		return sink{w: s, s: s}
	}
	got := func(k sink) []byte {
		if k.bb != nil {
			return k.bb.Bytes()
		}
		return k.s.buf
	}
	k1 := mk(w1)
	e := NewEncoder(k1.w, zz18Opts(opt1)...)
	_, ra := zz18EncDrive(e, in1, useValues)
	if !ra.ok {
		vrt.Cover("first-use-ended-in-error")
	}
	if e.StackDepth() > 0 {
		vrt.Cover("first-use-left-nested")
	}
	snap1 := bytes.Clone(got(k1))
	k2 := mk(w2)
	e.Reset(k2.w, zz18Opts(opt2)...)
	vrt.Assert("C18/reset/enc/offset-zero", e.OutputOffset() == 0 && e.StackDepth() == 0 && e.StackPointer() == "")
	if k1.bb != nil {
		// the caller goes on using its first buffer: the encoder has been pointed elsewhere and
		// must neither overwrite this nor be disturbed by it
		k1.bb.WriteString("####")
		snap1 = append(snap1, "####"...)
	}
	tr1, r1 := zz18EncDrive(e, in2, useValues)
	k3 := mk(w2)
	f := NewEncoder(k3.w, zz18Opts(opt2)...)
	tr2, r2 := zz18EncDrive(f, in2, useValues)
	vrt.Observe("delivered", got(k3))
	vrt.Assert("C18/reset/enc/same-result", zz18Same(r1, r2))
	vrt.Assert("C18/reset/enc/same-state-trace", bytes.Equal(tr1, tr2))
	vrt.Assert("C18/reset/enc/same-bytes-delivered", bytes.Equal(got(k2), got(k3)))
	vrt.Assert("C18/reset/enc/same-bytes-pending", bytes.Equal(e.s.Buf, f.s.Buf))
	vrt.Assert("C18/reset/enc/earlier-output-untouched", bytes.Equal(got(k1), snap1))
	vrt.Cover("end")
}
