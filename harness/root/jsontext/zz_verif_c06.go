package jsontext

import (
	"bytes"

	"github.com/go-json-experiment/json/internal/zzverif/vrt"
	"github.com/go-json-experiment/json/internal/zzverif/zzspec"
)

// zzEncCall performs one symbolic encoder call (kind chosen by the solver-forked Choice) on
// the real encoder and on the reference model; returns (error from encoder, model verdict).
func zzEncCall(e *Encoder, m *zzspec.EncModel, step int, strLen, rawLen int) (error, bool) {
	name := "c" + string(rune('0'+step))
	switch vrt.Choice(name, 10) {
	case 0:
		return e.WriteToken(Null), m.Literal("null")
	case 1:
		return e.WriteToken(False), m.Literal("false")
	case 2:
		return e.WriteToken(True), m.Literal("true")
	case 3:
		return e.WriteToken(BeginObject), m.Begin(true)
	case 4:
		return e.WriteToken(EndObject), m.End(true)
	case 5:
		return e.WriteToken(BeginArray), m.Begin(false)
	case 6:
		return e.WriteToken(EndArray), m.End(false)
	case 7:
		s := vrt.Bytes("s"+string(rune('0'+step)), strLen)
		return e.WriteToken(String(string(s))), m.Str(s)
	case 8:
		return e.WriteToken(Uint(7)), m.Number([]byte("7"))
	default:
		v := vrt.Bytes("v"+string(rune('0'+step)), rawLen)
		vrt.Assume(zzspec.InAlphabet(v, 3))
		return e.WriteValue(Value(v)), m.Raw(v)
	}
}

// VerifC06Seq: every sequence of k WriteToken/WriteValue calls. After every call: the call
// succeeded iff the reference model accepts it; the encoder's buffer equals the model's
// serialisation of exactly the accepted calls (so a rejected call changed nothing that any
// later call or the output can reveal); OutputOffset and StackDepth agree with the model.
//
// prelude selects a concrete mid-state built by accepted calls before the symbolic ones:
// 0 none; 1 {"a":7 (name expected next); 2 [{"a" (value expected, nested);
// 3 {"a":[ ; 4 {"a":7,"b":{"a":7 ; 5 [7, ; 6 [{<600 x L>:7,<600 x M>:7,"id":7}  (an object whose
// names exceed 1 KiB was closed: the next object at that depth re-uses its namespace slot)
func VerifC06Seq(prelude, k, strLen, rawLen int, allowDup, allowInvalid bool) {
	w := new(zzSink)
	e := NewEncoder(w, AllowDuplicateNames(allowDup), AllowInvalidUTF8(allowInvalid))
	m := &zzspec.EncModel{AllowDup: allowDup, AllowInvalid: allowInvalid, MaxDepth: 10000}
	pre := func(t Token) {
		err := e.WriteToken(t)
		var ok bool
		switch t.Kind() {
		case '{':
			ok = m.Begin(true)
		case '[':
			ok = m.Begin(false)
		case '"':
			ok = m.Str([]byte(t.String()))
		default:
			ok = m.Number([]byte("7"))
		}
		vrt.Assert("C06/seq/prelude", err == nil && ok)
	}
	switch prelude {
	case 1:
		pre(BeginObject)
		pre(String("a"))
		pre(Uint(7))
	case 2:
		pre(BeginArray)
		pre(BeginObject)
		pre(String("a"))
	case 3:
		pre(BeginObject)
		pre(String("a"))
		pre(BeginArray)
	case 4:
		pre(BeginObject)
		pre(String("a"))
		pre(Uint(7))
		pre(String("b"))
		pre(BeginObject)
		pre(String("a"))
		pre(Uint(7))
	case 5:
		pre(BeginArray)
		pre(Uint(7))
	case 6:
		long := func(c byte) string {
			b := make([]byte, 600)
			for i := range b {
				b[i] = c
			}
			return string(b)
		}
		pre(BeginArray)
		pre(BeginObject)
		pre(String(long('L')))
		pre(Uint(7))
		pre(String(long('M')))
		pre(Uint(7))
		pre(String("id"))
		pre(Uint(7))
		if err := e.WriteToken(EndObject); err != nil || !m.End(true) {
			vrt.Fail("C06/seq/prelude")
		}
	}
	for step := 0; step < k; step++ {
		err, ok := zzEncCall(e, m, step, strLen, rawLen)
		if ok {
			vrt.Cover("accepted")
		} else {
			vrt.Cover("rejected")
		}
		vrt.Observe("ok", err == nil)
		vrt.Assert("C06/seq/accept-iff-model", (err == nil) == ok)
		all := append(append([]byte(nil), w.buf...), e.s.Buf...)
		vrt.Assert("C06/seq/output-equals-model", bytes.Equal(all, m.Out))
		if m.Depth() == 0 {
			vrt.Assert("C06/seq/delivered-at-depth-0", bytes.Equal(w.buf, m.Out))
		}
		vrt.Assert("C06/seq/offset", e.OutputOffset() == int64(len(m.Out)))
		vrt.Assert("C06/seq/depth", e.StackDepth() == m.Depth())
	}
	vrt.Observe("out", w.buf)
}

// zzSink is a writer that accepts everything.
type zzSink struct{ buf []byte }

func (w *zzSink) Write(p []byte) (int, error) {
	w.buf = append(w.buf, p...)
	return len(p), nil
}
