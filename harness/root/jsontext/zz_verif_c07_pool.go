package jsontext

import (
	"bytes"

	"github.com/go-json-experiment/json/internal/jsonflags"
	"github.com/go-json-experiment/json/internal/zzverif/vrt"
)

// VerifC07Pool: two consecutive uses of the pooled streaming encoder, the way two
// json.MarshalWrite calls use it (getStreamingEncoder, OmitTopLevelNewline, calls,
// putStreamingEncoder). The first use (program prog1) meets a failing Write (solver-chosen
// call number <= maxAt, solver-chosen accepted count) and stops at the first error, as
// MarshalWrite does, possibly leaving unflushed bytes in the recycled encoder. The second use
// (program prog2, a fresh writer) must deliver exactly what a brand-new encoder delivers:
// nothing of the failed first use may come out.
func VerifC07Pool(prog1, prog2 string, strLen, alpha, maxAt int) {
	vrt.PoolPolicy(vrt.PoolEither)
	w1 := zz07Sink()
	w1.fault1 = vrt.IntRange("f1", 0, maxAt)
	e1 := getStreamingEncoder(w1)
	e1.s.Flags.Set(jsonflags.OmitTopLevelNewline | 1)
	failed := false
	for i := 0; i < len(prog1); i++ {
		err := zz07Do(e1, zz07Draw(prog1[i], i, strLen, 0, alpha))
		if err != nil { // MarshalWrite returns at the first error of any kind
			_, failed = err.(*ioError)
			break
		}
	}
	if failed {
		vrt.Cover("first-use-failed")
		if len(e1.s.Buf) > 0 {
			vrt.Cover("unflushed-bytes-left-behind")
		}
	}
	putStreamingEncoder(e1)

	w2, wb := zz07Sink(), zz07Sink()
	e2 := getStreamingEncoder(w2)
	e2.s.Flags.Set(jsonflags.OmitTopLevelNewline | 1)
	if e2 == e1 {
		vrt.Cover("recycled")
	}
	eb := zz07New(wb, 256, 0, true)
	for i := 0; i < len(prog2); i++ {
		op := zz07Draw(prog2[i], len(prog1)+i, strLen, 0, alpha)
		err1 := zz07Do(e2, op)
		err2 := zz07Do(eb, op)
		vrt.Assert("C07/pool/same-verdict", (err1 == nil) == (err2 == nil))
		vrt.Assert("C07/pool/nothing-from-previous-use", bytes.Equal(zz07Cat(w2.got, e2.s.Buf), zz07Cat(wb.got, eb.s.Buf)))
		vrt.Assert("C07/pool/offset", e2.OutputOffset() == eb.OutputOffset())
	}
	vrt.Assert("C07/pool/delivered", e2.StackDepth() != 0 || (len(e2.s.Buf) == 0 && bytes.Equal(w2.got, wb.got)))
	vrt.Observe("out", w2.got)
	putStreamingEncoder(e2)
}
