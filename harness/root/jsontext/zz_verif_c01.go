package jsontext

import (
	"io"

	"github.com/go-json-experiment/json/internal/zzverif/vrt"
	"github.com/go-json-experiment/json/internal/zzverif/zzspec"
)

func zzInput(n, alpha int) []byte {
	b := vrt.Bytes("b", n)
	if alpha == 0 {
		vrt.InputBits(8 * n)
	} else {
		vrt.Assume(zzspec.InAlphabet(b, alpha))
	}
	return b
}

// VerifC01IsValid: Value.IsValid accepts exactly the RFC 8259 / RFC 7493 grammar.
func VerifC01IsValid(n, alpha int, allowUTF8, allowDup bool) {
	b := zzInput(n, alpha)
	got := Value(b).IsValid(AllowInvalidUTF8(allowUTF8), AllowDuplicateNames(allowDup))
	want := zzspec.ValidText(b, !allowUTF8, !allowDup, 10000)
	if want {
		vrt.Cover("accept")
	} else {
		vrt.Cover("reject")
	}
	vrt.Observe("got", got)
	vrt.Assert("C01/isvalid-iff-grammar", got == want)
}

// VerifC01Tokens: a Decoder read token by token accepts exactly the concatenations of JSON
// texts; io.EOF is reported only at a value boundary.
func VerifC01Tokens(n, alpha int, allowUTF8, allowDup bool) {
	b := zzInput(n, alpha)
	d := new(Decoder)
	d.s.reset(b, nil, AllowInvalidUTF8(allowUTF8), AllowDuplicateNames(allowDup))
	values := 0
	var err error
	for {
		_, err = d.ReadToken()
		if err != nil {
			break
		}
		if d.StackDepth() == 0 {
			values++
		}
	}
	wantN, tail := zzspec.ScanStream(b, !allowUTF8, !allowDup, 10000)
	vrt.Observe("values", values)
	vrt.Observe("eof", err == io.EOF)
	if tail == 0 {
		vrt.Cover("clean-end")
	} else {
		vrt.Cover("bad-end")
	}
	vrt.Assert("C01/tokens/eof-iff-clean-stream", (err == io.EOF) == (tail == 0))
	vrt.Assert("C01/tokens/value-count", values == wantN)
}

// VerifC01Values: the same through ReadValue.
func VerifC01Values(n, alpha int, allowUTF8, allowDup bool) {
	b := zzInput(n, alpha)
	d := new(Decoder)
	d.s.reset(b, nil, AllowInvalidUTF8(allowUTF8), AllowDuplicateNames(allowDup))
	values := 0
	var err error
	for {
		_, err = d.ReadValue()
		if err != nil {
			break
		}
		values++
	}
	wantN, tail := zzspec.ScanStream(b, !allowUTF8, !allowDup, 10000)
	vrt.Observe("values", values)
	vrt.Observe("eof", err == io.EOF)
	vrt.Assert("C01/values/eof-iff-clean-stream", (err == io.EOF) == (tail == 0))
	vrt.Assert("C01/values/value-count", values == wantN)
}

// Template variants: a concrete skeleton with symbolic holes ('?'), used to reach duplicate
// names and other situations that need more bytes than a fully symbolic input affords.

func VerifC01IsValidT(tmpl string, allowUTF8, allowDup bool) {
	b := vrt.Template("b", tmpl)
	got := Value(b).IsValid(AllowInvalidUTF8(allowUTF8), AllowDuplicateNames(allowDup))
	want := zzspec.ValidText(b, !allowUTF8, !allowDup, 10000)
	if want {
		vrt.Cover("accept")
	} else {
		vrt.Cover("reject")
	}
	vrt.Observe("got", got)
	vrt.Assert("C01/isvalid-iff-grammar", got == want)
}

func VerifC01TokensT(tmpl string, allowUTF8, allowDup bool) {
	b := vrt.Template("b", tmpl)
	d := new(Decoder)
	d.s.reset(b, nil, AllowInvalidUTF8(allowUTF8), AllowDuplicateNames(allowDup))
	values := 0
	var err error
	for {
		_, err = d.ReadToken()
		if err != nil {
			break
		}
		if d.StackDepth() == 0 {
			values++
		}
	}
	wantN, tail := zzspec.ScanStream(b, !allowUTF8, !allowDup, 10000)
	vrt.Observe("values", values)
	vrt.Observe("eof", err == io.EOF)
	vrt.Assert("C01/tokens/eof-iff-clean-stream", (err == io.EOF) == (tail == 0))
	vrt.Assert("C01/tokens/value-count", values == wantN)
}

func VerifC01ValuesT(tmpl string, allowUTF8, allowDup bool) {
	b := vrt.Template("b", tmpl)
	d := new(Decoder)
	d.s.reset(b, nil, AllowInvalidUTF8(allowUTF8), AllowDuplicateNames(allowDup))
	values := 0
	var err error
	for {
		_, err = d.ReadValue()
		if err != nil {
			break
		}
		values++
	}
	wantN, tail := zzspec.ScanStream(b, !allowUTF8, !allowDup, 10000)
	vrt.Observe("values", values)
	vrt.Observe("eof", err == io.EOF)
	vrt.Assert("C01/values/eof-iff-clean-stream", (err == io.EOF) == (tail == 0))
	vrt.Assert("C01/values/value-count", values == wantN)
}

// VerifC01NS: duplicate-name detection across the namespace's switch from linear search to
// a Go map (more than 64 names, or more than 1 KiB of names): an object with `count` concrete
// distinct members a00, a01, ... (optionally preceded by one member whose name is 1100 bytes
// long), followed by one member whose name is 'a' plus holeLen symbolic bytes, then `extra`
// more concrete members b00.. and finally a member named 'b' plus holeLen symbolic bytes. Accepted iff the reference
// recogniser accepts (names unique after unescaping unless duplicates are allowed), on
// IsValid, the token path and the value path.
func VerifC01NS(count int, longName bool, holeLen, extra int, allowDup bool) {
	var b []byte
	b = append(b, '{')
	if longName {
		b = append(b, '"')
		for i := 0; i < 1100; i++ {
			b = append(b, 'L')
		}
		b = append(b, '"', ':', '0', ',')
	}
	for i := 0; i < count; i++ {
		b = append(b, '"', 'a', byte('0'+i/10), byte('0'+i%10), '"', ':', '0', ',')
	}
	h1 := vrt.Bytes("h", holeLen)
	b = append(b, '"', 'a')
	b = append(b, h1...)
	b = append(b, '"', ':', '0')
	for i := 0; i < extra; i++ {
		b = append(b, ',', '"', 'b', byte('0'+i/10), byte('0'+i%10), '"', ':', '0')
	}
	if extra > 0 {
		h2 := vrt.Bytes("g", holeLen)
		b = append(b, ',', '"', 'b')
		b = append(b, h2...)
		b = append(b, '"', ':', '0')
	}
	b = append(b, '}')
	want := zzspec.ValidText(b, true, !allowDup, 10000)
	if want {
		vrt.Cover("accept")
	} else {
		vrt.Cover("reject")
	}
	got := Value(b).IsValid(AllowDuplicateNames(allowDup))
	vrt.Observe("got", got)
	vrt.Assert("C01/ns/isvalid-iff-grammar", got == want)
	d := new(Decoder)
	d.s.reset(b, nil, AllowDuplicateNames(allowDup))
	var err error
	for err == nil {
		_, err = d.ReadToken()
	}
	vrt.Assert("C01/ns/tokens-iff-grammar", (err == io.EOF) == want)
}
