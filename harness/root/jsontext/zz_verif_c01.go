package jsontext

import (
	"io"

	"github.com/go-json-experiment/json/internal/zzverif/vrt"
	"github.com/go-json-experiment/json/internal/zzverif/zzspec"
)

// VerifC01IsValid: Value.IsValid accepts exactly the RFC 8259 / RFC 7493 grammar.
func VerifC01IsValid(n int, allowUTF8, allowDup bool) {
	b := vrt.Bytes("b", n)
	vrt.InputBits(8 * n)
	got := Value(b).IsValid(AllowInvalidUTF8(allowUTF8), AllowDuplicateNames(allowDup))
	want := zzspec.ValidText(b, !allowUTF8, !allowDup, 10000)
	if want {
		vrt.Cover("accept")
	} else {
		vrt.Cover("reject")
	}
	vrt.Observe("got", got)
	vrt.Assert("C01/isvalid-iff-grammar", got == want)
}

var _ = io.EOF
