package jsontext

import (
	"math"
	"strconv"

	"github.com/go-json-experiment/json/internal/zzverif/vrt"
	"github.com/go-json-experiment/json/internal/zzverif/zzspec"
)

// zzNumErr classifies an accessor error: 0 nil, 1 ErrSyntax, 2 ErrRange, 3 other.
func zzNumErr(err error) int {
	if err == nil {
		return 0
	}
	if ne, ok := err.(*numError); ok {
		switch ne.err {
		case strconv.ErrSyntax:
			return 1
		case strconv.ErrRange:
			return 2
		}
	}
	return 3
}

// VerifC10TokRaw: Token.Int / Token.Uint on a raw number token read by a Decoder:
// the literal is an optional '-', nd symbolic decimal digits and a concrete tail ("" for an
// integer, or a fraction/exponent such as ".5", "e2", ".0"). Integers convert exactly or
// saturate with ErrRange precisely at the int64/uint64 bounds; a fraction or exponent is
// ErrSyntax; any minus sign (even -0) is ErrSyntax for Uint.
func VerifC10TokRaw(neg bool, nd int, tail string) {
	digits := vrt.Bytes("d", nd)
	for _, c := range digits {
		vrt.Assume(c >= '0' && c <= '9')
	}
	vrt.Assume(nd == 1 || digits[0] != '0')
	var lit []byte
	if neg {
		lit = append(lit, '-')
	}
	lit = append(lit, digits...)
	lit = append(lit, tail...)
	d := new(Decoder)
	d.s.reset(append([]byte(nil), lit...), nil)
	tok, err := d.ReadToken()
	vrt.Assert("C10/tokraw/token-read", err == nil && tok.Kind() == '0')
	abs, class := zzspec.UintDec(digits) // class 0: value; 1: >= 2^64

	iv, ierr := tok.Int()
	uv, uerr := tok.Uint()
	if tail == "" {
		vrt.Observe("iv", iv) // for non-integers the value comes from strconv.ParseFloat (uninterpreted here)
	}
	vrt.Observe("ierr", zzNumErr(ierr))
	vrt.Observe("uerr", zzNumErr(uerr))
	if tail != "" {
		vrt.Cover("non-integer")
		vrt.Assert("C10/tokraw/int-fraction-or-exponent-is-syntax", zzNumErr(ierr) == 1)
		vrt.Assert("C10/tokraw/uint-fraction-or-exponent-is-syntax", zzNumErr(uerr) == 1)
		return
	}
	vrt.Cover("integer")
	// ---- Int
	switch {
	case !neg && class == 0 && abs <= math.MaxInt64:
		vrt.Assert("C10/tokraw/int-exact", ierr == nil && iv == int64(abs))
	case !neg:
		vrt.Assert("C10/tokraw/int-saturate-max", zzNumErr(ierr) == 2 && iv == math.MaxInt64)
	case class == 0 && abs <= 1<<63:
		vrt.Assert("C10/tokraw/int-exact-negative", ierr == nil && iv == -int64(abs))
	default:
		vrt.Assert("C10/tokraw/int-saturate-min", zzNumErr(ierr) == 2 && iv == math.MinInt64)
	}
	// ---- Uint
	switch {
	case neg:
		vrt.Assert("C10/tokraw/uint-minus-is-syntax", zzNumErr(uerr) == 1)
	case class == 0:
		vrt.Assert("C10/tokraw/uint-exact", uerr == nil && uv == abs)
	default:
		vrt.Assert("C10/tokraw/uint-saturate-max", zzNumErr(uerr) == 2 && uv == math.MaxUint64)
	}
}

// VerifC10TokTyped: Token.Int / Token.Uint on tokens constructed from Go numbers: all int64,
// all uint64 and all finite non-zero float64 bit patterns. Exact values, truncation toward
// zero with ErrSyntax for fractions, saturation with ErrRange outside the destination range.
func VerifC10TokTyped(kind int) {
	switch kind {
	case 0:
		n := vrt.Int64("n")
		tok := Int(n)
		iv, ierr := tok.Int()
		uv, uerr := tok.Uint()
		vrt.Cover("int")
		vrt.Assert("C10/toktyped/int-int", ierr == nil && iv == n)
		if n < 0 {
			vrt.Assert("C10/toktyped/int-uint-negative", zzNumErr(uerr) == 1 && uv == 0)
		} else {
			vrt.Assert("C10/toktyped/int-uint", uerr == nil && uv == uint64(n))
		}
	case 1:
		u := vrt.Uint64("u")
		tok := Uint(u)
		iv, ierr := tok.Int()
		uv, uerr := tok.Uint()
		vrt.Cover("uint")
		vrt.Assert("C10/toktyped/uint-uint", uerr == nil && uv == u)
		if u > math.MaxInt64 {
			vrt.Assert("C10/toktyped/uint-int-saturate", zzNumErr(ierr) == 2 && iv == math.MaxInt64)
		} else {
			vrt.Assert("C10/toktyped/uint-int", ierr == nil && iv == int64(u))
		}
	case 2:
		f := vrt.Float64("f")
		vrt.Assume(!math.IsNaN(f) && !math.IsInf(f, 0) && f != 0)
		tok := Float(f)
		iv, ierr := tok.Int()
		vrt.Cover("float")
		frac := math.Trunc(f) != f
		// Int: documented truncation / saturation / classification
		switch {
		case f >= 9223372036854775808.0:
			vrt.Assert("C10/toktyped/float-int-saturate-max", iv == math.MaxInt64 && zzNumErr(ierr) != 0)
			if !frac {
				vrt.Assert("C10/toktyped/float-int-range-class", zzNumErr(ierr) == 2)
			}
		case f < -9223372036854775808.0:
			vrt.Assert("C10/toktyped/float-int-saturate-min", iv == math.MinInt64 && zzNumErr(ierr) != 0)
			if !frac {
				vrt.Assert("C10/toktyped/float-int-range-class", zzNumErr(ierr) == 2)
			}
		case frac:
			vrt.Assert("C10/toktyped/float-int-fraction-syntax", zzNumErr(ierr) == 1 && float64(iv) == math.Trunc(f))
		default:
			vrt.Assert("C10/toktyped/float-int-exact", ierr == nil && float64(iv) == f)
		}
	default:
		f := vrt.Float64("f")
		vrt.Assume(!math.IsNaN(f) && !math.IsInf(f, 0) && f != 0)
		tok := Float(f)
		uv, uerr := tok.Uint()
		vrt.Cover("float")
		frac := math.Trunc(f) != f
		switch {
		case f >= 18446744073709551616.0:
			vrt.Assert("C10/toktyped/float-uint-saturate-max", uv == math.MaxUint64 && zzNumErr(uerr) != 0)
		case f < 0:
			vrt.Assert("C10/toktyped/float-uint-negative", uv == 0 && zzNumErr(uerr) != 0)
		case frac:
			vrt.Assert("C10/toktyped/float-uint-fraction-syntax", zzNumErr(uerr) == 1 && float64(uv) == math.Trunc(f))
		default:
			vrt.Assert("C10/toktyped/float-uint-exact", uerr == nil && float64(uv) == f)
		}
	}
}
