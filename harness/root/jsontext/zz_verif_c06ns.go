package jsontext

import (
	"github.com/go-json-experiment/json/internal/zzverif/vrt"
	"github.com/go-json-experiment/json/internal/zzverif/zzspec"
)

// VerifC06NamespaceReuse: an object whose names exceeded 1 KiB (so that its namespace went
// into map mode) is closed, and the next object at the same depth re-uses the namespace
// slot. The names written into the new object (two, each with strLen symbolic bytes, the
// candidates including the old short name "id"[:strLen]) are accepted iff the model accepts them: nothing
// of the closed object's names may be remembered. A cheap, dedicated form of prelude 6 of
// VerifC06Seq (which re-executes the long prelude on each of ~10^5 paths).
func VerifC06NamespaceReuse(strLen int, allowDup bool) {
	w := new(zzSink)
	e := NewEncoder(w, AllowDuplicateNames(allowDup))
	m := &zzspec.EncModel{AllowDup: allowDup, MaxDepth: 10000}
	long := func(c byte) []byte {
		b := make([]byte, 600)
		for i := range b {
			b[i] = c
		}
		return b
	}
	str := func(s []byte) bool {
		err := e.WriteToken(String(string(s)))
		ok := m.Str(s)
		vrt.Assert("C06/nsreuse/accept-iff-model", (err == nil) == ok)
		return ok
	}
	tok := func(t Token, ok bool) {
		err := e.WriteToken(t)
		vrt.Assert("C06/nsreuse/prelude", err == nil && ok)
	}
	tok(BeginArray, m.Begin(false))
	tok(BeginObject, m.Begin(true))
	for _, n := range [][]byte{long('L'), long('M'), []byte("id")[:strLen]} {
		if !str(n) {
			vrt.Fail("C06/nsreuse/prelude")
		}
		tok(Uint(7), m.Number([]byte("7")))
	}
	tok(EndObject, m.End(true))
	tok(BeginObject, m.Begin(true))
	s1 := vrt.Bytes("s1", strLen)
	if !str(s1) {
		vrt.Cover("first-rejected")
		return
	}
	tok(Uint(7), m.Number([]byte("7")))
	s2 := vrt.Bytes("s2", strLen)
	if str(s2) {
		vrt.Cover("second-accepted")
	} else {
		vrt.Cover("second-rejected")
	}
	vrt.Assert("C06/nsreuse/depth", e.StackDepth() == m.Depth())
	vrt.Assert("C06/nsreuse/offset", e.OutputOffset() == int64(len(m.Out)))
}
