package jsontext

import (
	"bytes"

	"github.com/go-json-experiment/json/internal/zzverif/vrt"
	"github.com/go-json-experiment/json/internal/zzverif/zzspec"
)

func zzC12Itoa(i int) string {
	if i < 10 {
		return string(rune('0' + i))
	}
	return zzC12Itoa(i/10) + string(rune('0'+i%10))
}

// zzC12Unpct decodes %XX (two upper-case hex digits) in a skeleton to the byte 0xXX, so that
// obligations can name arbitrary bytes in plain ASCII.
func zzC12Unpct(s string) string {
	hv := func(c byte) byte {
		if c >= 'A' {
			return c - 'A' + 10
		}
		return c - '0'
	}
	b := make([]byte, 0, len(s))
	for i := 0; i < len(s); i++ {
		if s[i] == '%' && i+2 < len(s) {
			b = append(b, hv(s[i+1])<<4|hv(s[i+2]))
			i += 2
			continue
		}
		b = append(b, s[i])
	}
	return string(b)
}

// Bits of the option masks taken by the C12/C13 harnesses.
const (
	zzC12AllowUTF8   = 1 << iota // 1
	zzC12AllowDup                // 2
	zzC12Preserve                // 4
	zzC12CanonInts               // 8
	zzC12CanonFloats             // 16
	zzC12Reorder                 // 32
	zzC12HTML                    // 64
	zzC12JS                      // 128
	zzC12SpColon                 // 256
	zzC12SpComma                 // 512
	zzC12Multiline               // 1024
	zzC12NOpts       = 11
)

// zzC12Opts is one set of formatting options: option i is passed (with value val[i]) iff set[i].
// indent: 0 none, 1 WithIndent(" "), 2 WithIndentPrefix(" ")+WithIndent("\t"), 3 WithIndent("").
type zzC12Opts struct {
	set, val [zzC12NOpts]bool
	indent   int
}

// zzC12Draw builds the option set: bits of on are passed as true, bits of off as false, bits
// of sym with a value chosen by the solver; all other options are not passed at all.
func zzC12Draw(on, off, sym, indent int) (o zzC12Opts) {
	for i := 0; i < zzC12NOpts; i++ {
		switch {
		case sym&(1<<i) != 0:
			o.set[i], o.val[i] = true, vrt.Bool("opt"+zzC12Itoa(i))
		case on&(1<<i) != 0:
			o.set[i], o.val[i] = true, true
		case off&(1<<i) != 0:
			o.set[i], o.val[i] = true, false
		}
	}
	o.indent = indent
	return o
}

func (o *zzC12Opts) has(bit int) bool {
	for i := 0; i < zzC12NOpts; i++ {
		if bit == 1<<i {
			return o.set[i] && o.val[i]
		}
	}
	return false
}

func (o *zzC12Opts) list() []Options {
	mk := [zzC12NOpts]func(bool) Options{AllowInvalidUTF8, AllowDuplicateNames, PreserveRawStrings,
		CanonicalizeRawInts, CanonicalizeRawFloats, ReorderRawObjects, EscapeForHTML, EscapeForJS,
		SpaceAfterColon, SpaceAfterComma, Multiline}
	var l []Options
	for i := 0; i < zzC12NOpts; i++ {
		if o.set[i] {
			l = append(l, mk[i](o.val[i]))
		}
	}
	switch o.indent {
	case 1:
		l = append(l, WithIndent(" "))
	case 2:
		l = append(l, WithIndentPrefix(" "), WithIndent("\t"))
	case 3:
		l = append(l, WithIndent(""))
	}
	return l
}

// zzC12Input: n symbolic bytes (alpha 0: full range; else restricted to zzspec alphabet alpha),
// or, when tmpl is not empty, the skeleton tmpl with a symbolic byte for every '?'.
func zzC12Input(n, alpha int, tmpl string) []byte {
	if tmpl != "" {
		b := vrt.Template("b", tmpl)
		if alpha != 0 {
			hs := make([]byte, 0, len(b))
			for i := 0; i < len(tmpl); i++ {
				if tmpl[i] == '?' {
					hs = append(hs, b[i])
				}
			}
			vrt.Assume(zzspec.InAlphabet(hs, alpha))
		}
		return b
	}
	b := vrt.Bytes("b", n)
	if alpha != 0 {
		vrt.Assume(zzspec.InAlphabet(b, alpha))
	}
	return b
}

// zzC12Certify declares the size of the input space (partition certificate) when every draw
// is full range: n free bytes, the symbolic options, and no assumption on number spellings.
func zzC12Certify(n, alpha int, tmpl string, sym int, o *zzC12Opts) {
	if alpha != 0 || tmpl != "" || sym&(zzC12CanonInts|zzC12CanonFloats) != 0 || o.has(zzC12CanonInts) || o.has(zzC12CanonFloats) {
		return
	}
	bits := 8 * n
	for i := 0; i < zzC12NOpts; i++ {
		if sym&(1<<i) != 0 {
			bits++
		}
	}
	vrt.InputBits(bits)
}

// zzC12AssumeNoFloatWork restricts the symbolic bytes, under the CanonicalizeRaw* options, so
// that no number with symbolic digits is re-spelled by strconv (outside this technique; see
// BOUNDS): around every hole no "-0", no digit followed by '.', 'e' or 'E' (with
// CanonicalizeRawFloats), no run of 16 digits through a hole (with CanonicalizeRawInts).
// Concrete numbers of a template are not restricted. The restriction is on bytes, so it also
// applies to holes inside strings.
func zzC12AssumeNoFloatWork(b []byte, tmpl string, o *zzC12Opts) {
	ci, cf := o.has(zzC12CanonInts), o.has(zzC12CanonFloats)
	if !ci && !cf {
		return
	}
	hole := func(i int) bool { return tmpl == "" || tmpl[i] == '?' }
	run, runHole := 0, false
	for i, c := range b {
		if i+1 < len(b) && (hole(i) || hole(i+1)) {
			d := b[i+1]
			vrt.Assume(!(c == '-' && d == '0'))
			if cf {
				vrt.Assume(!(c >= '0' && c <= '9' && (d == '.' || d == 'e' || d == 'E')))
			}
		}
		if c >= '0' && c <= '9' {
			run++
			runHole = runHole || hole(i)
		} else {
			run, runHole = 0, false
		}
		vrt.Assume(!ci || !runHole || run < 16)
	}
}

func zzC12NoRawHTML(lit, _ []byte) bool {
	return bytes.IndexByte(lit, '<') < 0 && bytes.IndexByte(lit, '>') < 0 && bytes.IndexByte(lit, '&') < 0
}

func zzC12NoRawJS(lit, _ []byte) bool {
	return !bytes.Contains(lit, []byte{0xE2, 0x80, 0xA8}) && !bytes.Contains(lit, []byte{0xE2, 0x80, 0xA9})
}

// zzC12Meaning asserts everything C12 says about a successful reformatting of in to out under o.
func zzC12Meaning(tag string, in, out []byte, o *zzC12Opts) bool {
	outValid := zzspec.ValidText(out, !o.has(zzC12AllowUTF8), !o.has(zzC12AllowDup), 10000)
	vrt.Assert("C12/"+tag+"/output-valid", outValid)
	if !outValid {
		return false
	}
	tin, tout := zzspec.Parse(in), zzspec.Parse(out)
	html, js := o.has(zzC12HTML), o.has(zzC12JS)
	d := zzspec.Differences{
		StringSpelling: !o.has(zzC12Preserve) || html || js,
		CanonInts:      o.has(zzC12CanonInts),
		CanonFloats:    o.has(zzC12CanonFloats),
		MemberOrder:    o.has(zzC12Reorder),
	}
	vrt.Assert("C12/"+tag+"/same-meaning", zzspec.Same(tin, tout, d))
	if html {
		vrt.Assert("C12/"+tag+"/html-escaped", zzspec.AllStrings(tout, zzC12NoRawHTML))
	}
	if js {
		vrt.Assert("C12/"+tag+"/js-escaped", zzspec.AllStrings(tout, zzC12NoRawJS))
	}
	return true
}

// VerifC12Format: Value.Format succeeds iff the text is valid under the Allow* options given;
// on error the value is untouched; on success the output is valid, means the same (modulo the
// differences the options permit) and is a fixed point of the same operation.
func VerifC12Format(n, alpha int, tmpl string, on, off, sym, indent int) {
	tmpl = zzC12Unpct(tmpl)
	b := zzC12Input(n, alpha, tmpl)
	o := zzC12Draw(on, off, sym, indent)
	opts := o.list()
	zzC12Certify(n, alpha, tmpl, sym, &o)
	zzC12AssumeNoFloatWork(b, tmpl, &o)
	want := zzspec.ValidText(b, !o.has(zzC12AllowUTF8), !o.has(zzC12AllowDup), 10000)
	v := Value(bytes.Clone(b))
	err := v.Format(opts...)
	vrt.Observe("errnil", err == nil)
	vrt.Observe("out", []byte(v))
	vrt.Assert("C12/format/succeeds-iff-valid", (err == nil) == want)
	if err != nil {
		vrt.Cover("reject")
		vrt.Assert("C12/format/error-leaves-value", bytes.Equal(v, b))
		return
	}
	vrt.Cover("accept")
	if !bytes.Equal(v, b) {
		vrt.Cover("changed")
	}
	if !zzC12Meaning("format", b, v, &o) {
		return
	}
	v2 := v.Clone()
	err2 := v2.Format(opts...)
	vrt.Assert("C12/format/fixed-point", err2 == nil && bytes.Equal(v2, v))
}

// VerifC12Append: AppendFormat succeeds iff the text is valid; on error it returns dst with
// src appended unmodified; on success dst followed by what Value.Format produces.
func VerifC12Append(n, alpha int, tmpl string, on, off, sym, indent int, overlap bool) {
	tmpl = zzC12Unpct(tmpl)
	b := zzC12Input(n, alpha, tmpl)
	o := zzC12Draw(on, off, sym, indent)
	opts := o.list()
	zzC12Certify(n, alpha, tmpl, sym, &o)
	zzC12AssumeNoFloatWork(b, tmpl, &o)
	want := zzspec.ValidText(b, !o.has(zzC12AllowUTF8), !o.has(zzC12AllowDup), 10000)
	var dst, src, pre []byte
	if overlap {
		// dst and src share their backing array: "The dst and src may overlap."
		buf := append([]byte("x:"), b...)
		pre, dst, src = nil, buf[2:2], buf[2:]
	} else {
		pre, dst, src = []byte("x:"), append(make([]byte, 0, 2), "x:"...), bytes.Clone(b)
	}
	got, err := AppendFormat(dst, src, opts...)
	vrt.Observe("errnil", err == nil)
	vrt.Observe("got", got)
	vrt.Assert("C12/append/succeeds-iff-valid", (err == nil) == want)
	if err != nil {
		vrt.Cover("reject")
		vrt.Assert("C12/append/error-appends-src", bytes.Equal(got, append(bytes.Clone(pre), b...)))
		return
	}
	vrt.Cover("accept")
	v := Value(bytes.Clone(b))
	ferr := v.Format(opts...)
	vrt.Assert("C12/append/same-as-format", ferr == nil && bytes.Equal(got, append(bytes.Clone(pre), v...)))
	if !overlap {
		vrt.Assert("C12/append/src-untouched", bytes.Equal(src, b))
		// the string instantiation of the generic function
		got2, err2 := AppendFormat(append(make([]byte, 0, 2), "x:"...), string(b), opts...)
		vrt.Assert("C12/append/string-src-same", err2 == nil && bytes.Equal(got2, got))
	}
}

// VerifC12Wrap: Value.Compact (which 0), Value.Indent (which 1) and Value.Canonicalize
// (which 2) are Format with documented initial options, which the caller's options override.
// Without caller options: Compact removes exactly the whitespace outside strings and keeps
// every token verbatim; Indent keeps every token verbatim and starts every element on its own
// indented line; both accept every RFC 8259 text (duplicate names, invalid UTF-8 included).
func VerifC12Wrap(n, alpha int, tmpl string, which, on, off, sym, indent int) {
	tmpl = zzC12Unpct(tmpl)
	b := zzC12Input(n, alpha, tmpl)
	o := zzC12Draw(on, off, sym, indent)
	opts := o.list()
	// the documented initial set, overridden by the caller's options
	var init int
	switch which {
	case 0:
		init = zzC12AllowDup | zzC12AllowUTF8 | zzC12Preserve
	case 1:
		init = zzC12AllowDup | zzC12AllowUTF8 | zzC12Preserve | zzC12Multiline
	default:
		init = zzC12CanonInts | zzC12CanonFloats | zzC12Reorder
	}
	eff := o
	for i := 0; i < zzC12NOpts; i++ {
		if !o.set[i] && init&(1<<i) != 0 {
			eff.set[i], eff.val[i] = true, true
		}
	}
	zzC12Certify(n, alpha, tmpl, sym, &eff)
	zzC12AssumeNoFloatWork(b, tmpl, &eff)
	want := zzspec.ValidText(b, !eff.has(zzC12AllowUTF8), !eff.has(zzC12AllowDup), 10000)
	v := Value(bytes.Clone(b))
	var err error
	switch which {
	case 0:
		err = v.Compact(opts...)
	case 1:
		err = v.Indent(opts...)
	default:
		err = v.Canonicalize(opts...)
	}
	vrt.Observe("errnil", err == nil)
	vrt.Observe("out", []byte(v))
	vrt.Assert("C12/wrap/succeeds-iff-valid", (err == nil) == want)
	if err != nil {
		vrt.Cover("reject")
		vrt.Assert("C12/wrap/error-leaves-value", bytes.Equal(v, b))
		return
	}
	vrt.Cover("accept")
	if !zzC12Meaning("wrap", b, v, &eff) {
		return
	}
	if len(opts) == 0 {
		switch which {
		case 0:
			vrt.Assert("C12/compact/only-whitespace-removed", bytes.Equal(v, zzspec.StripSpace(b)))
		case 1:
			vrt.Assert("C12/indent/tokens-verbatim", bytes.Equal(zzspec.StripSpace(v), zzspec.StripSpace(b)))
		}
	}
	// Layout, where the documentation fixes it without relying on the defaults that Multiline
	// implies for options passed by the caller of Compact/Indent/Canonicalize (these defaults are
	// not applied there: see demo_compact_multiline_defaults; a layout matter, not a C12 one).
	if indent != 0 || (which == 1 && !o.set[10]) {
		pre, ind := "", "\t"
		switch indent {
		case 1:
			ind = " "
		case 2:
			pre = " "
		case 3:
			ind = ""
		}
		vrt.Assert("C12/wrap/elements-on-indented-lines", zzspec.ElementsIndented(v, pre, ind))
	} else if !eff.has(zzC12Multiline) && !eff.has(zzC12SpColon) && !eff.has(zzC12SpComma) {
		vrt.Assert("C12/wrap/no-whitespace", zzspec.NoSpace(v))
	}
	v2 := v.Clone()
	var err2 error
	switch which {
	case 0:
		err2 = v2.Compact(opts...)
	case 1:
		err2 = v2.Indent(opts...)
	default:
		err2 = v2.Canonicalize(opts...)
	}
	vrt.Assert("C12/wrap/fixed-point", err2 == nil && bytes.Equal(v2, v))
}
