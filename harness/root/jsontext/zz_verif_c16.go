package jsontext

import (
	"bytes"
	"io"

	"github.com/go-json-experiment/json/internal/zzverif/vrt"
	"github.com/go-json-experiment/json/internal/zzverif/zzspec"
)

func zz16Itoa(i int) string {
	if i < 10 {
		return string(rune('0' + i))
	}
	return zz16Itoa(i/10) + string(rune('0'+i%10))
}

// zz16Sigma: SigmaStruct plus the bytes that matter for pointers and names:
// { } [ ] : , " a 1 space  b 2 ~ / \
var zz16Sigma = func() (t [256]bool) {
	for _, c := range []byte("{}[]:,\"a1 b2~/\\") {
		t[c] = true
	}
	return
}()

// zz16NameSigma: bytes of member names and string values written through the encoder.
var zz16NameSigma = func() (t [256]bool) {
	for _, c := range []byte("a~/\"") {
		t[c] = true
	}
	return
}()

// zz16PtrSigma: bytes of JSON Pointers (index 1 adds a two-byte UTF-8 character and 0xFF).
var zz16PtrSigma = func() (t [2][256]bool) {
	for _, c := range []byte("/~01a") {
		t[0][c] = true
		t[1][c] = true
	}
	t[1][0xC3], t[1][0xA9], t[1][0xFF] = true, true, true
	return
}()

func zz16In(c byte, alpha int) bool {
	switch alpha {
	case 0:
		return true
	case 1:
		return zzspec.Sigma24[c]
	case 3:
		return zzspec.SigmaStruct[c]
	}
	return zz16Sigma[c]
}

// zz16Input: the symbolic input. With a template, every '?' is a byte of alphabet alpha
// (0 all bytes, 1 Sigma24, 3 SigmaStruct, 16 zz16Sigma); otherwise every input of 0..n bytes
// of that alphabet (the length is forked).
func zz16Input(tmpl string, n, alpha int) []byte {
	if tmpl == "" {
		b := vrt.Bytes("b", vrt.IntRange("len", 0, n))
		ok := true
		for _, c := range b {
			ok = ok && zz16In(c, alpha)
		}
		vrt.Assume(ok)
		return b
	}
	b := vrt.Template("b", tmpl)
	ok := true
	for i := 0; i < len(tmpl); i++ {
		if tmpl[i] == '?' {
			ok = ok && zz16In(b[i], alpha)
		}
	}
	vrt.Assume(ok)
	return b
}

type zz16Coder interface {
	StackDepth() int
	StackIndex(int) (Kind, int64)
	StackPointer() Pointer
}

// zz16Positions: everything the coder reports about its position equals what the reference
// tracker computed from the bytes consumed or produced so far.
func zz16Positions(lbl string, c zz16Coder, off int64, tr *zzspec.Tracker, wantOff int) {
	vrt.Assert(lbl+"/offset", off == int64(wantOff))
	depth := c.StackDepth()
	vrt.Assert(lbl+"/depth", depth == tr.Depth())
	for i := 0; i <= depth && i <= tr.Depth(); i++ {
		k, n := c.StackIndex(i)
		vrt.Assert(lbl+"/index-kind", byte(k) == tr.Levels[i].Kind)
		vrt.Assert(lbl+"/index-length", n == int64(tr.Levels[i].Len))
	}
	vrt.Assert(lbl+"/pointer", bytes.Equal([]byte(c.StackPointer()), tr.Pointer()))
}

// VerifC16PosD: a buffer-mode decoder over a symbolic input, driven by ReadToken (mix=false)
// or by a solver-chosen mixture of ReadToken and ReadValue. After every successful call the
// reference tracker is advanced over the bytes consumed so far (one token, or one whole value)
// and InputOffset, StackDepth, every StackIndex and StackPointer must equal the tracker's.
// After the first failing call (including io.EOF) nothing more has been consumed, so they must
// still equal the tracker's.
func VerifC16PosD(tmpl string, n, alpha, steps int, mix, allowDup bool) {
	b := zz16Input(tmpl, n, alpha)
	d := new(Decoder)
	d.s.reset(b, nil, AllowDuplicateNames(allowDup))
	tr := zzspec.NewTracker(true, !allowDup)
	for i := 0; i < steps; i++ {
		op := 0
		if mix {
			op = vrt.Choice("op"+zz16Itoa(i), 2)
		}
		var err error
		if op == 0 {
			_, err = d.ReadToken()
		} else {
			_, err = d.ReadValue()
		}
		if err != nil {
			if err == io.EOF {
				vrt.Cover("eof")
			} else {
				vrt.Cover("error")
			}
			zz16Positions("C16/posD/after-failed-call", d, d.InputOffset(), tr, tr.Off)
			return
		}
		off := int(d.InputOffset())
		vrt.Assert("C16/posD/offset-in-input", off >= 0 && off <= len(b))
		pre := b[:off] // the bytes consumed so far
		d0 := tr.Depth()
		r := tr.Next(pre)
		for op == 1 && r == zzspec.TokOK && tr.Depth() > d0 {
			r = tr.Next(pre)
		}
		vrt.Assert("C16/posD/consumed-bytes-are-whole-tokens", r == zzspec.TokOK)
		zz16Positions("C16/posD", d, d.InputOffset(), tr, tr.Off)
		if op == 0 {
			vrt.Cover("token")
		} else {
			vrt.Cover("value")
		}
		if tr.Depth() >= 2 {
			vrt.Cover("nested")
		}
		if tr.Depth() >= 1 && tr.Levels[tr.Depth()].Kind == '{' && tr.Levels[tr.Depth()].Len == 1 {
			vrt.Cover("name-just-read")
		}
	}
	vrt.Cover("steps-exhausted")
}

// VerifC16ErrD: the position carried by the error of the first failing call. Token path:
// ReadToken until it fails; value path: ReadValue until it fails.
//
//   - the error is io.EOF only if the reference accepts the input; otherwise a *SyntacticError
//   - 0 <= ByteOffset <= len(b) and b[:ByteOffset] is a prefix of some JSON stream
//   - the offending token (the first token that no JSON stream can continue with; the end of
//     input for truncated input) starts at or contains ByteOffset: ErrTok <= ByteOffset <= ErrPos,
//     where a ',' directly followed by '}' or ']' may itself be taken as the offending token
//   - JSONPointer is the pointer of the innermost object/array open at ByteOffset, or of its
//     direct child in which the offset lies (the member whose name has been read and whose value
//     is due; the next array element where an element may start: after '[' or ',');
//     for a duplicate name it is container + "/" + escaped name.
func VerifC16ErrD(tmpl string, n, alpha int, valuePath, allowDup bool) {
	b := zz16Input(tmpl, n, alpha)
	d := new(Decoder)
	d.s.reset(b, nil, AllowDuplicateNames(allowDup))
	var err error
	for {
		if valuePath {
			_, err = d.ReadValue()
		} else {
			_, err = d.ReadToken()
		}
		if err != nil {
			break
		}
	}
	full := zzspec.NewTracker(true, !allowDup)
	rf := full.Run(b)
	if err == io.EOF {
		vrt.Cover("clean")
		vrt.Assert("C16/errD/rejected-input-gets-an-error", rf == zzspec.TokEnd)
		return
	}
	se, isSyn := err.(*SyntacticError)
	vrt.Assert("C16/errD/is-syntactic-error", isSyn)
	if !isSyn {
		return
	}
	if se.Err == io.ErrUnexpectedEOF {
		vrt.Cover("truncated")
	} else {
		vrt.Cover("invalid")
	}
	off := int(se.ByteOffset)
	vrt.Observe("off", off)
	vrt.Observe("ptr", string(se.JSONPointer))
	vrt.Assert("C16/errD/offset-in-input", off >= 0 && off <= len(b))
	vrt.Assert("C16/errD/reference-rejects-too", rf != zzspec.TokEnd)
	vrt.Assert("C16/errD/prefix-before-offset-is-viable", zzspec.ViablePrefix(b[:off], true, !allowDup))
	trailingSep := full.ErrSep >= 0 && off == full.ErrSep && full.ErrTok < len(b) && (b[full.ErrTok] == '}' || b[full.ErrTok] == ']')
	vrt.Assert("C16/errD/offending-token-at-offset", full.ErrTok <= off && off <= full.ErrPos || trailingSep)

	at := zzspec.NewTracker(true, !allowDup)
	rat := at.Run(b[:off])
	parent := at.ContainerPointer()
	got := []byte(se.JSONPointer)
	if full.Dup || se.Err == ErrDuplicateName {
		vrt.Cover("duplicate")
		want := zzspec.AppendPointerToken(append(bytes.Clone(parent), '/'), full.DupName)
		vrt.Assert("C16/errD/duplicate-name-pointer", full.Dup && bytes.Equal(got, want))
		return
	}
	// the offset lies behind a ',' (in the whitespace after it or in the token that follows it)
	// when the tracker ran out of input with a separator read
	afterComma := rat == zzspec.Truncated && at.ErrSep >= 0
	child, hasChild := at.NextChildPointer(afterComma)
	okPtr := bytes.Equal(got, parent) || hasChild && bytes.Equal(got, child)
	if at.Depth() >= 2 {
		vrt.Cover("nested")
	}
	// KF-C16-mismatch-close-in-object: token path, a ']' where an object at depth >= 2 expects
	// ',' or '}' after a complete member value.
	top := at.Levels[at.Depth()]
	inRegion := !valuePath && at.Depth() >= 2 && top.Kind == '{' && top.Len > 0 && top.Len%2 == 0 && off < len(b) && b[off] == ']'
	vrt.AssertKF("C16/errD/pointer-is-innermost-container-or-child", okPtr, "KF-C16-mismatch-close-in-object", inRegion)
}

// zz16Sink is a writer that accepts everything.
type zz16Sink struct{ buf []byte }

func (w *zz16Sink) Write(p []byte) (int, error) {
	w.buf = append(w.buf, p...)
	return len(p), nil
}

// zz16EncCall performs one encoder call chosen by the solver.
func zz16EncCall(e *Encoder, step, strLen, rawLen int) error {
	id := zz16Itoa(step)
	switch vrt.Choice("c"+id, 8) {
	case 0:
		return e.WriteToken(Null)
	case 1:
		return e.WriteToken(BeginObject)
	case 2:
		return e.WriteToken(EndObject)
	case 3:
		return e.WriteToken(BeginArray)
	case 4:
		return e.WriteToken(EndArray)
	case 5:
		s := vrt.Bytes("s"+id, strLen)
		ok := true
		for _, c := range s {
			ok = ok && zz16NameSigma[c]
		}
		vrt.Assume(ok)
		return e.WriteToken(String(string(s)))
	case 6:
		return e.WriteToken(Uint(7))
	default:
		v := vrt.Bytes("v"+id, rawLen)
		vrt.Assume(zzspec.InAlphabet(v, 3))
		return e.WriteValue(Value(v))
	}
}

// VerifC16PosE: every sequence of k WriteToken/WriteValue calls after a concrete prelude
// (0 none; 1 {"a":7 ; 2 [{"a~/" ; 3 {"a":[ ; 4 {"a":7,"b":{"a":7 ; 5 [7, ). After every call,
// accepted or rejected, the bytes produced so far (delivered + buffered) are read by the
// reference tracker; OutputOffset is their number, and StackDepth, every StackIndex and
// StackPointer equal the tracker's.
func VerifC16PosE(prelude, k, strLen, rawLen int, allowDup bool) {
	w := new(zz16Sink)
	e := NewEncoder(w, AllowDuplicateNames(allowDup))
	pre := func(t Token) {
		vrt.Assert("C16/posE/prelude", e.WriteToken(t) == nil)
	}
	switch prelude {
	case 1:
		pre(BeginObject)
		pre(String("a"))
		pre(Uint(7))
	case 2:
		pre(BeginArray)
		pre(BeginObject)
		pre(String("a~/"))
	case 3:
		pre(BeginObject)
		pre(String("a"))
		pre(BeginArray)
	case 4:
		pre(BeginObject)
		pre(String("a"))
		pre(Uint(7))
		pre(String("b"))
		pre(BeginObject)
		pre(String("a"))
		pre(Uint(7))
	case 5:
		pre(BeginArray)
		pre(Uint(7))
	}
	for step := 0; step < k; step++ {
		err := zz16EncCall(e, step, strLen, rawLen)
		if err == nil {
			vrt.Cover("accepted")
		} else {
			vrt.Cover("rejected")
		}
		all := append(append([]byte(nil), w.buf...), e.s.Buf...)
		tr := zzspec.NewTracker(true, !allowDup)
		r := tr.Run(all)
		vrt.Assert("C16/posE/output-is-a-token-stream", r == zzspec.TokEnd || r == zzspec.Truncated && tr.ErrTok == len(all))
		vrt.Assert("C16/posE/nothing-but-whitespace-after-last-token", zzspec.SkipWS(all, tr.Off) == len(all))
		zz16Positions("C16/posE", e, e.OutputOffset(), tr, len(all))
		if tr.Depth() >= 2 {
			vrt.Cover("nested")
		}
	}
}

// zz16Pointer draws a string of 0..n bytes (length forked) over the pointer alphabet.
func zz16Pointer(name string, n, alpha int) string {
	p := vrt.String(name, vrt.IntRange(name+"len", 0, n))
	ok := true
	for i := 0; i < len(p); i++ {
		ok = ok && zz16PtrSigma[alpha][p[i]]
	}
	vrt.Assume(ok)
	return p
}

// VerifC16Ptr: Pointer methods on one pointer p of at most n bytes. IsValid is RFC 6901 validity;
// for valid p: Tokens yields the unescaped reference tokens, which re-escaped and joined give
// p back; LastToken is the last of them, Parent is p without its last token, and
// p.Parent().AppendToken(p.LastToken()) == p.
func VerifC16Ptr(n, alpha int) {
	s := zz16Pointer("p", n, alpha)
	p := Pointer(s)
	valid := zzspec.PointerValid([]byte(s))
	vrt.Observe("valid", valid)
	vrt.Assert("C16/ptr/isvalid-iff-rfc6901", p.IsValid() == valid)
	if !valid {
		vrt.Cover("invalid")
		return
	}
	vrt.Cover("valid")
	want := zzspec.PointerTokens([]byte(s))
	var got [][]byte
	p.Tokens()(func(tok string) bool {
		got = append(got, []byte(tok))
		return true
	})
	vrt.Assert("C16/ptr/tokens-count", len(got) == len(want))
	for i := 0; i < len(got) && i < len(want); i++ {
		vrt.Assert("C16/ptr/tokens-unescaped", bytes.Equal(got[i], want[i]))
	}
	vrt.Assert("C16/ptr/tokens-join-back", bytes.Equal(zzspec.PointerJoin(got), []byte(s)))
	// stopping early stops
	cnt := 0
	p.Tokens()(func(string) bool {
		cnt++
		return false
	})
	vrt.Assert("C16/ptr/tokens-stop", cnt == min(1, len(want)))
	if len(want) == 0 {
		vrt.Assert("C16/ptr/empty-parent-and-last", p.Parent() == "" && p.LastToken() == "")
		return
	}
	vrt.Cover("nonempty")
	if len(want) >= 2 {
		vrt.Cover("two-tokens")
	}
	last := want[len(want)-1]
	vrt.Assert("C16/ptr/lasttoken", p.LastToken() == string(last))
	vrt.Assert("C16/ptr/parent", bytes.Equal([]byte(p.Parent()), zzspec.PointerJoin(want[:len(want)-1])))
	vrt.Assert("C16/ptr/parent-append-lasttoken", p.Parent().AppendToken(p.LastToken()) == p)
}

// VerifC16PtrAppend: for a valid pointer p (<= n bytes) and any token t (<= m bytes):
// q = p.AppendToken(t) is valid, q.Parent() == p, q.LastToken() == t, p.Contains(q).
func VerifC16PtrAppend(n, m, alpha int) {
	s := zz16Pointer("p", n, alpha)
	t := zz16Pointer("t", m, alpha)
	vrt.Assume(zzspec.PointerValid([]byte(s)))
	vrt.Assume(zzspec.UTF8WellFormed([]byte(t)))
	p := Pointer(s)
	q := p.AppendToken(t)
	want := zzspec.AppendPointerToken(append([]byte(s), '/'), []byte(t))
	vrt.Assert("C16/ptr/append-escapes", bytes.Equal([]byte(q), want))
	vrt.Assert("C16/ptr/append-valid", q.IsValid())
	vrt.Assert("C16/ptr/append-parent", q.Parent() == p)
	vrt.Assert("C16/ptr/append-lasttoken", q.LastToken() == t)
	vrt.Assert("C16/ptr/append-contained", p.Contains(q) && (!q.Contains(p)))
	vrt.Cover("end")
}

// VerifC16PtrContains: for valid pointers p (<= n bytes) and q (<= m bytes): p.Contains(q) iff the
// reference tokens of p are a prefix of those of q.
func VerifC16PtrContains(n, m, alpha int) {
	s := zz16Pointer("p", n, alpha)
	u := zz16Pointer("q", m, alpha)
	vrt.Assume(zzspec.PointerValid([]byte(s)))
	vrt.Assume(zzspec.PointerValid([]byte(u)))
	want := zzspec.PointerContains([]byte(s), []byte(u))
	if want {
		vrt.Cover("contains")
	} else {
		vrt.Cover("not-contains")
	}
	vrt.Assert("C16/ptr/contains-iff-token-prefix", Pointer(s).Contains(Pointer(u)) == want)
}
