package jsontext

import (
	"bytes"
	"io"

	"github.com/go-json-experiment/json/internal/zzverif/vrt"
	"github.com/go-json-experiment/json/internal/zzverif/zzspec"
)

// zz20Open / zz20Close give the opener and closer of nesting level i for a shape:
// 0 arrays `[`, 1 objects `{"":`, 2 alternating (even levels arrays, odd levels objects),
// 3 alternating starting with an object.
func zz20IsObj(shape, i int) bool {
	switch shape {
	case 0:
		return false
	case 1:
		return true
	case 2:
		return i%2 == 1
	}
	return i%2 == 0
}

// zz20Deep returns open^a hole close^a: a concrete tower of a levels around the hole.
func zz20Deep(shape, from, a int, hole []byte) []byte {
	b := make([]byte, 0, 5*a+len(hole))
	for i := from; i < a; i++ {
		if zz20IsObj(shape, i) {
			b = append(b, '{', '"', '"', ':')
		} else {
			b = append(b, '[')
		}
	}
	b = append(b, hole...)
	for i := a - 1; i >= from; i-- {
		if zz20IsObj(shape, i) {
			b = append(b, '}')
		} else {
			b = append(b, ']')
		}
	}
	return b
}

func zz20Hole(n int) []byte {
	h := vrt.Bytes("h", n)
	vrt.Assume(zzspec.InAlphabet(h, 3))
	return h
}

const zz20Max = 10000

// zz20Want is the reference verdict for the tower b = open^a hole close^a.
// Every outer level wraps exactly one value, so b is a JSON text iff its innermost level
// around the hole is one (decided by the reference recogniser zzspec.ValidText), and its
// nesting depth is a-1 plus the depth of that innermost text: within the limit of 10000 iff the
// innermost text is valid under the limit 10000-(a-1). With fullRef the recursive reference
// recogniser additionally runs on the whole text and must agree.
func zz20Want(b []byte, shape, a int, h []byte, strict, uniq, fullRef bool) (want, wantNoLimit bool) {
	inner := zz20Deep(shape, a-1, a, h)
	wantNoLimit = zzspec.ValidText(inner, strict, uniq, zz20Max)
	want = zz20Max-(a-1) >= 1 && zzspec.ValidText(inner, strict, uniq, zz20Max-(a-1))
	if fullRef {
		vrt.Assert("C20/depth/reference-models-agree", want == zzspec.ValidText(b, strict, uniq, zz20Max))
	}
	return want, wantNoLimit
}

// zz20Covers records which verdict class was exercised for which shape.
func zz20Covers(shape int, want, wantNoLimit bool) {
	sh := [...]string{"/arr", "/obj", "/mix", "/mix2"}[shape]
	if want {
		vrt.Cover("accept" + sh)
	} else if wantNoLimit {
		vrt.Cover("refused-for-depth" + sh)
	} else {
		vrt.Cover("reject")
	}
}

// zz20Pick returns v, or a solver-chosen value in 0..k-1 when v < 0.
func zz20Pick(name string, v, k int) int {
	if v >= 0 {
		return v
	}
	return vrt.Choice(name, k)
}

// VerifC20DepthRead: texts nested a levels deep (a around the limit of 10000) around the
// concrete text inner followed by a symbolic hole, through every reading entry point. The text is accepted exactly when the
// reference grammar with depth limit 10000 accepts it, and nothing panics.
// op: 0 ReadToken loop, 1 ReadValue loop, 2 SkipValue loop, 3 Value.IsValid,
// 4 the first a/2 levels token by token, then ReadValue (a even) / SkipValue (a odd) of the
// remaining tower, then tokens.
func VerifC20DepthRead(op, shape, aLo, aHi int, inner string, holeLen int, allowDup, fullRef bool) {
	op = zz20Pick("op", op, 5)
	shape = zz20Pick("shape", shape, 3)
	a := vrt.IntRange("a", aLo, aHi)
	h := append([]byte(inner), zz20Hole(holeLen)...)
	b := zz20Deep(shape, 0, a, h)
	want, wantNoLimit := zz20Want(b, shape, a, h, true, !allowDup, fullRef)
	zz20Covers(shape, want, wantNoLimit)
	var got bool
	if op == 3 {
		got = Value(b).IsValid(AllowDuplicateNames(allowDup))
	} else {
		d := new(Decoder)
		d.s.reset(b, nil, AllowDuplicateNames(allowDup))
		var err error
		values := 0
		switch op {
		case 0:
			for err == nil {
				_, err = d.ReadToken()
				if err == nil && d.StackDepth() == 0 {
					values++
				}
			}
		case 1:
			for err == nil {
				_, err = d.ReadValue()
				if err == nil {
					values++
				}
			}
		case 2:
			for err == nil {
				err = d.SkipValue()
				if err == nil {
					values++
				}
			}
		case 4:
			for i := 0; i < a/2 && err == nil; i++ {
				_, err = d.ReadToken()
				if zz20IsObj(shape, i) && err == nil {
					_, err = d.ReadToken() // the name
				}
			}
			if err == nil {
				if a%2 == 0 {
					_, err = d.ReadValue()
				} else {
					err = d.SkipValue()
				}
			}
			for err == nil {
				_, err = d.ReadToken()
				if err == nil && d.StackDepth() == 0 {
					values++
				}
			}
		}
		// the tower is one text: it is accepted iff exactly one value is delivered and
		// the stream then ends cleanly.
		got = err == io.EOF && values == 1
		if err != io.EOF {
			_, isSyn := err.(*SyntacticError)
			vrt.Assert("C20/depth/read/refusal-is-an-error-value", isSyn)
		}
	}
	vrt.Observe("got", got)
	vrt.Assert("C20/depth/read/accept-iff-grammar-with-limit-10000", got == want)
}

// VerifC20DepthFormat: the same towers through the formatting entry points
// (reformatObject/reformatArray): op 0 Value.Format, 1 Value.Compact, 2 AppendFormat,
// 3 Encoder.WriteValue, 4 k=a/2 WriteToken pushes then WriteValue of the remaining tower.
func VerifC20DepthFormat(op, shape, aLo, aHi int, inner string, holeLen int, allowDup, fullRef bool) {
	op = zz20Pick("op", op, 5)
	shape = zz20Pick("shape", shape, 3)
	a := vrt.IntRange("a", aLo, aHi)
	h := append([]byte(inner), zz20Hole(holeLen)...)
	b := zz20Deep(shape, 0, a, h)
	uniq := !allowDup
	strict := true
	if op == 1 {
		uniq, strict = false, false
	}
	want, wantNoLimit := zz20Want(b, shape, a, h, strict, uniq, fullRef)
	zz20Covers(shape, want, wantNoLimit)
	var err error
	switch op {
	case 0:
		v := Value(b)
		err = v.Format(AllowDuplicateNames(allowDup))
	case 1:
		v := Value(b)
		err = v.Compact()
	case 2:
		_, err = AppendFormat(nil, b, AllowDuplicateNames(allowDup))
	case 3:
		e := NewEncoder(new(zzSink), AllowDuplicateNames(allowDup))
		err = e.WriteValue(b)
	case 4:
		e := NewEncoder(new(zzSink), AllowDuplicateNames(allowDup))
		k := a / 2
		for i := 0; i < k && err == nil; i++ {
			if zz20IsObj(shape, i) {
				err = e.WriteToken(BeginObject)
				if err == nil {
					err = e.WriteToken(String(""))
				}
			} else {
				err = e.WriteToken(BeginArray)
			}
		}
		vrt.Assert("C20/depth/format/pushes-below-limit-accepted", err == nil)
		rest := zz20Deep(shape, k, a, h)
		err = e.WriteValue(rest)
		// the remaining tower alone is accepted iff the whole text is (the opened levels
		// are valid so far and closing them cannot fail)
	}
	if err != nil {
		_, isSyn := err.(*SyntacticError)
		vrt.Assert("C20/depth/format/refusal-is-an-error-value", isSyn)
	}
	vrt.Observe("ok", err == nil)
	vrt.Assert("C20/depth/format/accept-iff-grammar-with-limit-10000", (err == nil) == want)
}

// VerifC20DepthWrite: a levels opened by WriteToken, then one solver-chosen call. Opening
// level i succeeds iff i <= 10000; the extra call succeeds iff it keeps the depth <= 10000
// (calls that do not open a level always succeed); nothing panics; a refused call leaves the
// depth unchanged.
func VerifC20DepthWrite(shape, aLo, aHi int, allowDup bool) {
	shape = zz20Pick("shape", shape, 3)
	a := vrt.IntRange("a", aLo, aHi)
	e := NewEncoder(new(zzSink), AllowDuplicateNames(allowDup))
	depth := 0
	for i := 0; i < a; i++ {
		var err error
		if zz20IsObj(shape, i) {
			err = e.WriteToken(BeginObject)
			if err == nil {
				vrt.Assert("C20/depth/write/name-accepted", e.WriteToken(String("")) == nil)
			}
		} else {
			err = e.WriteToken(BeginArray)
		}
		if err == nil {
			depth++
		} else {
			vrt.Cover("push-refused")
			_, isSyn := err.(*SyntacticError)
			vrt.Assert("C20/depth/write/refusal-is-an-error-value", isSyn)
		}
		vrt.Assert("C20/depth/write/push-accepted-iff-within-10000", (err == nil) == (i < zz20Max))
	}
	vrt.Assert("C20/depth/write/depth", e.StackDepth() == depth && depth == min(a, zz20Max))
	// if the innermost open level is an object, a name has been written: a value is expected.
	var err error
	adds := 0
	switch vrt.Choice("call", 7) {
	case 0:
		err = e.WriteToken(Null)
	case 1:
		err, adds = e.WriteToken(BeginArray), 1
	case 2:
		err, adds = e.WriteToken(BeginObject), 1
	case 3:
		err, adds = e.WriteValue(Value("[]")), 1
	case 4:
		err, adds = e.WriteValue(Value(`{}`)), 1
	case 5:
		err, adds = e.WriteValue(Value(`[{"":[]}]`)), 3
	default:
		err = e.WriteValue(Value(`"x"`))
	}
	want := depth+adds <= zz20Max
	if want {
		vrt.Cover("call-accepted")
	} else {
		vrt.Cover("call-refused")
	}
	vrt.Observe("ok", err == nil)
	vrt.Assert("C20/depth/write/call-accepted-iff-within-10000", (err == nil) == want)
	if err != nil {
		vrt.Assert("C20/depth/write/refused-call-keeps-depth", e.StackDepth() == depth)
	}
}

// zz20Accessors checks the accessors of t against the documented misuse panics.
// nums: also call Int/Uint/Float (only when the number text is concrete or plain digits).
func zz20Accessors(t Token, nums, floats bool) {
	var k Kind
	vrt.Assert("C20/total/kind-never-panics", !vrt.Misuse(func() { k = t.Kind() }))
	vrt.Observe("kind", byte(k))
	var s string
	vrt.Assert("C20/total/string-never-panics", !vrt.Misuse(func() { s = t.String() }))
	var c Token
	vrt.Assert("C20/total/clone-never-panics", !vrt.Misuse(func() { c = t.Clone() }))
	vrt.Assert("C20/total/clone-same-kind", c.Kind() == k)
	var bv bool
	pb := vrt.Misuse(func() { bv = t.Bool() })
	vrt.Assert("C20/total/bool-panics-iff-not-boolean", pb == (k != 't' && k != 'f'))
	if !pb {
		vrt.Assert("C20/total/bool-value", bv == (k == 't'))
	}
	if nums {
		pi := vrt.Misuse(func() { t.Int() })
		vrt.Assert("C20/total/int-panics-iff-not-number", pi == (k != '0'))
		pu := vrt.Misuse(func() { t.Uint() })
		vrt.Assert("C20/total/uint-panics-iff-not-number", pu == (k != '0'))
	}
	if floats {
		special := k == '"' && (s == "NaN" || s == "Infinity" || s == "-Infinity")
		if special {
			vrt.Cover("special-float-string")
		}
		pf := vrt.Misuse(func() { t.Float() })
		vrt.Assert("C20/total/float-panics-iff-not-number", pf == (k != '0' && !special))
		pf32 := vrt.Misuse(func() { t.Float32() })
		vrt.Assert("C20/total/float32-panics-iff-not-number", pf32 == (k != '0' && !special))
	}
	switch k {
	case '0':
		vrt.Cover("number")
	case '"':
		vrt.Cover("string")
	case 't', 'f':
		vrt.Cover("boolean")
	default:
		vrt.Cover("other")
	}
}

// VerifC20TokenTotal: the last token a Decoder delivers for an arbitrary short input
// (skip tokens first): accessors panic exactly in the documented case (wrong kind).
// numMode: 0 no numeric accessors; 1 Int/Uint (number texts restricted to digits by the
// alphabet); 2 Int/Uint/Float/Float32 (tmpl must make every number text concrete).
func VerifC20TokenTotal(tmpl string, alpha, skip, numMode int, allowUTF8 bool) {
	b := zz18Input("b", tmpl, alpha)
	d := new(Decoder)
	d.s.reset(b, nil, AllowInvalidUTF8(allowUTF8))
	var t Token
	var err error
	for i := 0; i <= skip && err == nil; i++ {
		t, err = d.ReadToken()
	}
	if err != nil {
		vrt.Cover("no-token")
		// the zero Token is what the caller holds now
		vrt.Assert("C20/total/zero-token-kind", !vrt.Misuse(func() { _ = t.Kind() }) && t.Kind() == 0)
		vrt.Assert("C20/total/zero-token-string", !vrt.Misuse(func() { _ = t.String() }))
		return
	}
	vrt.Cover("token")
	zz20Accessors(t, numMode >= 1, numMode >= 2)
}

// VerifC20CtorTotal: tokens made by the constructors from arbitrary payloads.
func VerifC20CtorTotal(which int) {
	var t Token
	floats := true
	switch which {
	case 0:
		t = Int(vrt.Int64("i"))
	case 1:
		t = Uint(vrt.Uint64("u"))
	case 2:
		t = Bool(vrt.Bool("b"))
	case 3:
		t = String(vrt.String("s", 3))
	case 4:
		t = Float(vrt.Float64("f"))
		floats = false // Int/Uint of a float token need Trunc on a symbolic float
	case 5:
		t = Token{}
	case 6:
		t = String(string(vrt.Template("s", "?aN")))
	}
	var k Kind
	vrt.Assert("C20/total/kind-never-panics", !vrt.Misuse(func() { k = t.Kind() }))
	vrt.Observe("kind", byte(k))
	pb := vrt.Misuse(func() { t.Bool() })
	vrt.Assert("C20/total/bool-panics-iff-not-boolean", pb == (k != 't' && k != 'f'))
	vrt.Assert("C20/total/clone-never-panics", !vrt.Misuse(func() { t.Clone() }))
	if which == 4 {
		pf := vrt.Misuse(func() { t.Float() })
		vrt.Assert("C20/total/float-panics-iff-not-number", !pf)
		return
	}
	if which >= 2 {
		vrt.Assert("C20/total/string-never-panics", !vrt.Misuse(func() { _ = t.String() }))
	}
	pi := vrt.Misuse(func() { t.Int() })
	vrt.Assert("C20/total/int-panics-iff-not-number", pi == (k != '0'))
	pu := vrt.Misuse(func() { t.Uint() })
	vrt.Assert("C20/total/uint-panics-iff-not-number", pu == (k != '0'))
	if floats {
		special := false
		if k == '"' {
			s := t.String()
			special = s == "NaN" || s == "Infinity" || s == "-Infinity"
		}
		if special {
			vrt.Cover("special-float-string")
		}
		pf := vrt.Misuse(func() { t.Float() })
		vrt.Assert("C20/total/float-panics-iff-not-number", pf == (k != '0' && !special))
	}
	vrt.Cover("end")
}

// VerifC20Indent: WithIndent / WithIndentPrefix panic exactly when the string contains a
// character other than space and tab; otherwise formatting with them does not panic.
func VerifC20Indent(n int, prefix bool) {
	s := vrt.String("s", n)
	vrt.InputBits(8 * n)
	blank := true
	for i := 0; i < len(s); i++ {
		if s[i] != ' ' && s[i] != '\t' {
			blank = false
		}
	}
	var o Options
	p := vrt.Misuse(func() {
		if prefix {
			o = WithIndentPrefix(s)
		} else {
			o = WithIndent(s)
		}
	})
	if p {
		vrt.Cover("panics")
	} else {
		vrt.Cover("accepted")
	}
	vrt.Observe("panicked", p)
	vrt.Assert("C20/total/indent-panics-iff-non-blank", p == !blank)
	if !p {
		v := Value(`{"a":[1,{}]}`)
		vrt.Assert("C20/total/indent-usable", v.Format(o) == nil)
	}
}

// VerifC20ResetMisuse: the documented misuse panics of NewDecoder/NewEncoder/Reset (nil
// reader or writer) happen, and a proper Reset after them still works.
func VerifC20ResetMisuse() {
	d := NewDecoder(&zz18Reader{data: []byte("[1]"), chunk: 1})
	vrt.Assert("C20/total/reset-nil-reader-panics", vrt.Misuse(func() { d.Reset(nil) }))
	vrt.Assert("C20/total/new-decoder-nil-reader-panics", vrt.Misuse(func() { NewDecoder(nil) }))
	e := NewEncoder(new(zzSink))
	vrt.Assert("C20/total/reset-nil-writer-panics", vrt.Misuse(func() { e.Reset(nil) }))
	vrt.Assert("C20/total/new-encoder-nil-writer-panics", vrt.Misuse(func() { NewEncoder(nil) }))
	var nd *Decoder
	vrt.Assert("C20/total/reset-nil-decoder-panics", vrt.Misuse(func() { nd.Reset(&zz18Reader{}) }))
	_, err := d.ReadValue()
	vrt.Assert("C20/total/decoder-usable-after-refused-reset", err == nil)
	vrt.Assert("C20/total/encoder-usable-after-refused-reset", e.WriteToken(Null) == nil)
	vrt.Cover("end")
}

// VerifC20FlushPointer: an Encoder whose buffer is flushed in the middle of a value (inside
// an object member holding an array of n strings) still answers StackPointer / StackIndex
// without panicking. wkind: 0 plain writer, 1 *bytes.Buffer.
func VerifC20FlushPointer(wkind, n int) {
	var w io.Writer
	bb := new(bytes.Buffer)
	sink := new(zzSink)
	if wkind == 1 {
		w = bb
	} else {
		w = sink
	}
	e := NewEncoder(w)
	c := vrt.Byte("c")
	vrt.Assume(zzspec.InAlphabet([]byte{c}, 3))
	// a first long member pushes the name of the second one far into the buffer
	ok := e.WriteToken(BeginObject) == nil && e.WriteToken(String("pad")) == nil &&
		e.WriteToken(String("0123456789abcdef0123456789abcdef0123456789abcdef0123456789abcdef")) == nil &&
		e.WriteToken(String("k"+string(rune(c)))) == nil && e.WriteToken(BeginArray) == nil
	base := bb.Len() + len(sink.buf)
	for i := 0; i < n && ok && bb.Len()+len(sink.buf) == base; i++ {
		ok = e.WriteToken(String("0123456789abcdef")) == nil
	}
	vrt.Assert("C20/flush/calls-accepted", ok)
	if bb.Len()+len(sink.buf) > base {
		vrt.Cover("flushed-mid-value") // the very last call flushed: the buffer is (nearly) empty now
	}
	var ptr Pointer
	vrt.Assert("C20/flush/stack-pointer-does-not-panic", !vrt.Misuse(func() { ptr = e.StackPointer() }))
	vrt.Observe("ptr", string(ptr))
	vrt.Assert("C20/flush/rest-accepted", e.WriteToken(EndArray) == nil && e.WriteToken(EndObject) == nil)
	vrt.Cover("end")
}
