package jsontext

import (
	"bytes"
	"io"

	"github.com/go-json-experiment/json/internal/zzverif/vrt"
)

func zzItoa(i int) string {
	if i < 10 {
		return string(rune('0' + i))
	}
	return zzItoa(i/10) + string(rune('0'+i%10))
}

// zzChunkReader delivers data in chunks whose sizes are chosen by the solver: every Read
// returns k bytes with 0 <= k <= min(len(p), remaining) (never two empty reads in a row),
// optionally io.EOF together with the last bytes, and (0, io.EOF) afterwards.
// With faultAt >= 0 the Read number faultAt returns (0, errZZTransient) once.
type zzChunkReader struct {
	data     []byte
	pos      int
	nreads   int
	lastZero bool
	symReads int // number of initial Read calls whose size is symbolic
	faultAt  int
	faulted  bool
	taken    []byte // all bytes handed out so far
}

type zzTransient struct{}

func (zzTransient) Error() string { return "transient" }

var errZZTransient error = zzTransient{}

func (r *zzChunkReader) Read(p []byte) (int, error) {
	id := r.nreads
	r.nreads++
	if id == r.faultAt && !r.faulted {
		r.faulted = true
		return 0, errZZTransient
	}
	rest := len(r.data) - r.pos
	if rest == 0 {
		return 0, io.EOF
	}
	hi := min(len(p), rest)
	lo := 0
	if r.lastZero || hi == 0 {
		lo = min(1, hi)
	}
	k := min(1, hi) // after the first symReads reads: one byte at a time
	if id < r.symReads {
		k = vrt.IntRange("rd"+zzItoa(id), lo, hi)
	}
	r.lastZero = k == 0
	copy(p, r.data[r.pos:r.pos+k])
	r.taken = append(r.taken, r.data[r.pos:r.pos+k]...)
	r.pos += k
	if k > 0 && r.pos == len(r.data) && id < r.symReads+2 && vrt.Bool("eofwithdata") {
		return k, io.EOF
	}
	return k, nil
}

type zzStep struct {
	kind    Kind
	text    string
	val     []byte
	errNil  bool
	errEOF  bool
	errUEOF bool
	synOff  int64
	synPtr  Pointer
	isSyn   bool
	isIO    bool
}

func zzErrInfo(s *zzStep, err error) {
	s.errNil = err == nil
	s.errEOF = err == io.EOF
	s.errUEOF = err == io.ErrUnexpectedEOF
	if se, ok := err.(*SyntacticError); ok {
		s.isSyn = true
		s.synOff = se.ByteOffset
		s.synPtr = se.JSONPointer
		s.errUEOF = se.Err == io.ErrUnexpectedEOF
		if _, ok := se.Err.(*ioError); ok {
			// an I/O error met inside an array/object is reported with its position
			s.isIO = true
		}
	}
	if _, ok := err.(*ioError); ok {
		s.isIO = true
	}
}

// zzDo performs read operation op on d.
func zzDo(d *Decoder, op int) (s zzStep) {
	switch op {
	case 0:
		t, err := d.ReadToken()
		zzErrInfo(&s, err)
		if err == nil {
			s.kind = t.Kind()
			if s.kind == '"' || s.kind == '0' {
				s.text = t.String()
			}
		}
	case 1:
		v, err := d.ReadValue()
		zzErrInfo(&s, err)
		if err == nil {
			s.kind = v.Kind()
			s.val = bytes.Clone(v)
		}
	case 2:
		err := d.SkipValue()
		zzErrInfo(&s, err)
	default:
		s.kind = d.PeekKind()
	}
	return s
}

func zzSameStep(a, b zzStep) bool {
	return a.kind == b.kind && a.text == b.text && bytes.Equal(a.val, b.val) &&
		a.errNil == b.errNil && a.errEOF == b.errEOF && a.errUEOF == b.errUEOF &&
		a.isSyn == b.isSyn && a.synOff == b.synOff && a.isIO == b.isIO
}

func zzSameState(a, b *Decoder) bool {
	if a.InputOffset() != b.InputOffset() || a.StackDepth() != b.StackDepth() {
		return false
	}
	for i := 0; i <= a.StackDepth(); i++ {
		k1, n1 := a.StackIndex(i)
		k2, n2 := b.StackIndex(i)
		if k1 != k2 || n1 != n2 {
			return false
		}
	}
	return a.StackPointer() == b.StackPointer()
}

// VerifC05Chunk: a decoder fed through an arbitrary chunking reader with a tiny buffer and a
// decoder over the whole byte slice, driven by the same arbitrary sequence of ReadToken /
// ReadValue / SkipValue / PeekKind calls, agree after every call on the result, the error
// class and offset, InputOffset, StackDepth, every StackIndex and StackPointer; every
// returned value is byte-identical to its input span; and the bytes taken from the reader are
// exactly the first InputOffset bytes followed by UnreadBuffer.
func VerifC05Chunk(tmpl string, capacity, calls, symReads int) {
	b := vrt.Template("b", tmpl)
	r := &zzChunkReader{data: b, faultAt: -1, symReads: symReads}
	ds := new(Decoder)
	ds.s.reset(make([]byte, 0, capacity), r)
	db := new(Decoder)
	db.s.reset(b, nil)
	for i := 0; i < calls; i++ {
		op := vrt.Choice("op"+zzItoa(i), 4)
		s1 := zzDo(ds, op)
		s2 := zzDo(db, op)
		vrt.Observe("errnil", s2.errNil)
		vrt.Observe("kind", byte(s2.kind))
		vrt.Assert("C05/chunk/same-result", zzSameStep(s1, s2))
		vrt.Assert("C05/chunk/same-error-pointer", s1.synPtr == s2.synPtr)
		vrt.Assert("C05/chunk/same-state", zzSameState(ds, db))
		if op == 1 && s1.errNil {
			end := int(ds.InputOffset())
			vrt.Assert("C05/chunk/value-is-input-span", end-len(s1.val) >= 0 && bytes.Equal(s1.val, b[end-len(s1.val):end]))
		}
		off := int(ds.InputOffset())
		vrt.Assert("C05/chunk/no-input-lost", off <= len(r.taken) && bytes.Equal(r.taken[:off], b[:off]) && bytes.Equal(r.taken[off:], ds.UnreadBuffer()))
		if !s2.errNil {
			vrt.Cover("error")
			break
		}
	}
	vrt.Cover("end")
}

// VerifC05Fault: as VerifC05Chunk, but the reader additionally returns a transient error
// (0, err) at a solver-chosen Read. The pending ReadToken/ReadValue/SkipValue call must
// return that error with the observable decoder state unchanged, and retrying the call must
// continue exactly as a decoder that never saw the fault.
func VerifC05Fault(tmpl string, capacity, calls, symReads, maxFaultAt int) {
	b := vrt.Template("b", tmpl)
	r := &zzChunkReader{data: b, symReads: symReads}
	r.faultAt = vrt.IntRange("faultAt", 0, maxFaultAt)
	ds := new(Decoder)
	ds.s.reset(make([]byte, 0, capacity), r)
	db := new(Decoder)
	db.s.reset(b, nil)
	for i := 0; i < calls; i++ {
		op := vrt.Choice("op"+zzItoa(i), 2) // ReadToken or ReadValue (the calls the property names)
		s1 := zzDo(ds, op)
		if s1.isIO {
			vrt.Cover("fault-seen")
			// the buffer-mode twin has not made this call yet: states must still agree
			vrt.Assert("C05/fault/state-unchanged", zzSameState(ds, db))
			off := int(ds.InputOffset())
			vrt.Assert("C05/fault/no-input-lost", off <= len(r.taken) && bytes.Equal(r.taken[:off], b[:off]) && bytes.Equal(r.taken[off:], ds.UnreadBuffer()))
			s1 = zzDo(ds, op) // retry
			vrt.Assert("C05/fault/only-once", !s1.isIO)
		}
		s2 := zzDo(db, op)
		vrt.Observe("errnil", s2.errNil)
		vrt.Assert("C05/fault/same-result", zzSameStep(s1, s2))
		vrt.Assert("C05/fault/same-error-pointer", s1.synPtr == s2.synPtr)
		vrt.Assert("C05/fault/same-state", zzSameState(ds, db))
		if op == 1 && s1.errNil {
			end := int(ds.InputOffset())
			vrt.Assert("C05/fault/value-is-input-span", end-len(s1.val) >= 0 && bytes.Equal(s1.val, b[end-len(s1.val):end]))
		}
		if !s2.errNil {
			break
		}
	}
	vrt.Cover("end")
}
