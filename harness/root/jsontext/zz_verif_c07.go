package jsontext

import (
	"bytes"
	"io"

	"github.com/go-json-experiment/json/internal/jsonflags"
	"github.com/go-json-experiment/json/internal/zzverif/vrt"
	"github.com/go-json-experiment/json/internal/zzverif/zzspec"
)

func zz07Itoa(i int) string {
	if i < 10 {
		return string(rune('0' + i))
	}
	return zz07Itoa(i/10) + string(rune('0'+i%10))
}

type zz07Err struct{}

func (zz07Err) Error() string { return "zz07 write fault" }

var errZZ07 error = zz07Err{}

// zz07Writer is an io.Writer that is not a *bytes.Buffer. It accepts everything, except at
// the Write calls numbered fault1 and fault2 (-1: never), where it accepts a solver-chosen
// n in [0,len(p)] bytes and returns an error.
type zz07Writer struct {
	got            []byte // every byte accepted so far
	ncalls         int
	fault1, fault2 int
	nfaults        int
}

func (w *zz07Writer) Write(p []byte) (int, error) {
	id := w.ncalls
	w.ncalls++
	if id == w.fault1 || id == w.fault2 {
		n := vrt.IntRange("fn"+zz07Itoa(id), 0, len(p))
		w.got = append(w.got, p[:n]...)
		w.nfaults++
		return n, errZZ07
	}
	w.got = append(w.got, p...)
	return len(p), nil
}

func zz07Sink() *zz07Writer { return &zz07Writer{fault1: -1, fault2: -1} }

// zz07Opts: 0 compact; 1 Multiline (tab indent); 2 space after colon and comma.
func zz07Opts(ws int) []Options {
	switch ws {
	case 1:
		return []Options{Multiline(true)}
	case 2:
		return []Options{SpaceAfterColon(true), SpaceAfterComma(true)}
	}
	return nil
}

// zz07New builds an encoder over w the way getStreamingEncoder does, but with an internal
// buffer of capacity c (ignored when w is a *bytes.Buffer, whose spare capacity is used).
// noNL sets the internal flag that json.Marshal/MarshalWrite set.
func zz07New(w io.Writer, c, ws int, noNL bool) *Encoder {
	e := new(Encoder)
	e.s.reset(make([]byte, 0, c), w, zz07Opts(ws)...)
	if noNL {
		e.s.Flags.Set(jsonflags.OmitTopLevelNewline | 1)
	}
	return e
}

// zz07Delivered returns the bytes the destination has received so far.
func zz07Delivered(w io.Writer) []byte {
	if bb, ok := w.(*bytes.Buffer); ok {
		return bb.Bytes()
	}
	return w.(*zz07Writer).got
}

func zz07Cat(a, b []byte) []byte {
	return append(append(make([]byte, 0, len(a)+len(b)), a...), b...)
}

// zz07Op is one encoder call with its symbolic data already drawn.
type zz07Op struct {
	kind byte // '{' '}' '[' ']' 'n' '7' 's' 'v'
	data []byte
}

// zz07Draw decodes program character ch at position i into an operation, drawing its
// symbolic content: '{' '}' '[' ']' tokens, 'n' Null, '7' Uint(7), 's' a string token of
// strLen symbolic bytes, 'a'..'c' that concrete string, 'v' WriteValue of rawLen symbolic
// bytes, '?' any of the eight kinds (solver's choice).
func zz07Draw(ch byte, i, strLen, rawLen, alpha int) zz07Op {
	if ch == '?' {
		ch = "{}[]n7sv"[vrt.Choice("c"+zz07Itoa(i), 8)]
	}
	switch ch {
	case 's':
		s := vrt.Bytes("s"+zz07Itoa(i), strLen)
		vrt.Assume(zzspec.InAlphabet(s, alpha))
		return zz07Op{'s', s}
	case 'v':
		v := vrt.Bytes("v"+zz07Itoa(i), rawLen)
		vrt.Assume(zzspec.InAlphabet(v, 3))
		return zz07Op{'v', v}
	case 'a', 'b', 'c':
		return zz07Op{'s', []byte{ch}}
	}
	return zz07Op{kind: ch}
}

func zz07Do(e *Encoder, op zz07Op) error {
	switch op.kind {
	case '{':
		return e.WriteToken(BeginObject)
	case '}':
		return e.WriteToken(EndObject)
	case '[':
		return e.WriteToken(BeginArray)
	case ']':
		return e.WriteToken(EndArray)
	case 'n':
		return e.WriteToken(Null)
	case '7':
		return e.WriteToken(Uint(7))
	case 's':
		return e.WriteToken(String(string(op.data)))
	default:
		return e.WriteValue(Value(op.data))
	}
}

func zz07SameState(a, b *Encoder) bool {
	if a.StackDepth() != b.StackDepth() {
		return false
	}
	for i := 0; i <= a.StackDepth(); i++ {
		k1, n1 := a.StackIndex(i)
		k2, n2 := b.StackIndex(i)
		if k1 != k2 || n1 != n2 {
			return false
		}
	}
	return true
}

// VerifC07Wr: the same sequence of WriteToken/WriteValue calls (program prog, see zz07Draw)
// goes to (t) an encoder with a tiny buffer of capacity c over the destination selected by
// bbuf (false: a writer that is not a bytes.Buffer; true: a *bytes.Buffer whose initial
// capacity is c, the aliasing path), (b) an encoder with a 256-byte buffer over an
// accept-all writer, (m) an encoder without a writer, configured as json.Marshal does.
// After EVERY call: same verdict; delivered(t)++unflushed(t) == delivered(b)++unflushed(b);
// same OutputOffset and stack (with ptr: same StackPointer after the last call); at depth 0 everything has been delivered; and when the first
// top-level value completes, what (t) delivered is what (m) holds (plus the newline).
func VerifC07Wr(prog string, c, strLen, rawLen, alpha int, bbuf bool, ws int, noNL, ptr bool) {
	var wt io.Writer
	if bbuf {
		wt = bytes.NewBuffer(make([]byte, 0, c))
	} else {
		wt = zz07Sink()
	}
	wb := zz07Sink()
	et := zz07New(wt, c, ws, noNL)
	eb := zz07New(wb, 256, ws, noNL)
	em := zz07New(nil, 256, ws, true)
	tops := 0
	for i := 0; i < len(prog); i++ {
		op := zz07Draw(prog[i], i, strLen, rawLen, alpha)
		err1 := zz07Do(et, op)
		err2 := zz07Do(eb, op)
		err3 := zz07Do(em, op)
		vrt.Observe("ok", err1 == nil)
		vrt.Assert("C07/wr/same-verdict", (err1 == nil) == (err2 == nil) && (err1 == nil) == (err3 == nil))
		if err1 != nil {
			_, isIO := err1.(*ioError)
			vrt.Assert("C07/wr/no-io-error", !isIO)
			vrt.Cover("rejected")
		} else {
			vrt.Cover("accepted")
		}
		dt := zz07Delivered(wt)
		vrt.Assert("C07/wr/output-independent-of-buffering", bytes.Equal(zz07Cat(dt, et.s.Buf), zz07Cat(wb.got, eb.s.Buf)))
		vrt.Assert("C07/wr/offset", et.OutputOffset() == eb.OutputOffset() && et.s.baseOffset == int64(len(dt)))
		vrt.Assert("C07/wr/state", zz07SameState(et, eb))
		if ptr && i == len(prog)-1 {
			// only once, at the end: StackPointer itself copies the names out of the buffer,
			// which would hide name offsets left dangling by an earlier flush
			vrt.Assert("C07/wr/pointer", et.StackPointer() == eb.StackPointer())
		}
		if et.StackDepth() == 0 {
			vrt.Assert("C07/wr/delivered-at-depth-0", len(et.s.Buf) == 0 && bytes.Equal(dt, wb.got))
			if err1 == nil {
				tops++
				if tops == 1 {
					want := em.s.Buf
					if !noNL {
						want = zz07Cat(want, []byte("\n"))
					}
					vrt.Assert("C07/wr/equals-marshal-buffer", bytes.Equal(dt, want))
					vrt.Cover("top-level-done")
				}
			}
		} else {
			if len(dt) > 0 {
				vrt.Cover("flushed-inside-value")
			}
			if len(et.s.Buf) > 3*cap(et.s.Buf)/4 {
				vrt.Cover("flush-avoided")
			}
		}
		if !bbuf && cap(et.s.Buf) > c && len(et.s.Buf) == 0 {
			vrt.Cover("buffer-grown")
		}
	}
	vrt.Observe("out", zz07Delivered(wt))
}

// VerifC07Short: as VerifC07Wr (destination: a writer that is not a bytes.Buffer), but the
// writer of (t) fails at one or two solver-chosen Write calls (numbered <= maxAt), having
// accepted a solver-chosen number n <= len(p) of bytes. The call during which that happened
// returns the I/O error, yet the token was accepted (stack as in the fault-free twin, which
// accepted it). After every call: accepted-by-writer ++ unflushed == fault-free output so
// far (nothing lost, nothing duplicated; in particular what the writer accepted is a prefix
// of the fault-free output); baseOffset counts exactly the accepted bytes. After the faults
// are over and a top-level value completes, the writer holds exactly the fault-free output.
func VerifC07Short(prog string, c, strLen, rawLen, alpha, nfaults, maxAt, ws int, noNL, ptr bool) {
	wt := zz07Sink()
	wt.fault1 = vrt.IntRange("f1", 0, maxAt)
	if nfaults > 1 {
		wt.fault2 = vrt.IntRange("f2", wt.fault1+1, maxAt+1)
	}
	wb := zz07Sink()
	et := zz07New(wt, c, ws, noNL)
	eb := zz07New(wb, 256, ws, noNL)
	step := func(op zz07Op) {
		before := wt.nfaults
		err1 := zz07Do(et, op)
		err2 := zz07Do(eb, op)
		_, isIO := err1.(*ioError)
		vrt.Observe("ok", err1 == nil)
		vrt.Assert("C07/short/io-error-iff-write-failed", isIO == (wt.nfaults > before))
		if isIO {
			vrt.Cover("fault-seen")
			vrt.Assert("C07/short/token-accepted-despite-write-error", err2 == nil)
			if len(et.s.Buf) > 0 && len(wt.got) > 0 {
				vrt.Cover("partial-write-retained")
			}
		} else {
			vrt.Assert("C07/short/same-verdict", (err1 == nil) == (err2 == nil))
		}
		vrt.Assert("C07/short/state", zz07SameState(et, eb))
		vrt.Assert("C07/short/nothing-lost-or-duplicated", bytes.Equal(zz07Cat(wt.got, et.s.Buf), zz07Cat(wb.got, eb.s.Buf)))
		vrt.Assert("C07/short/offset", et.OutputOffset() == eb.OutputOffset() && et.s.baseOffset == int64(len(wt.got)))
		if et.StackDepth() == 0 && err1 == nil {
			vrt.Assert("C07/short/delivered-at-depth-0", len(et.s.Buf) == 0 && bytes.Equal(wt.got, wb.got))
			if wt.nfaults > 0 {
				vrt.Cover("recovered")
			}
		}
	}
	for i := 0; i < len(prog); i++ {
		step(zz07Draw(prog[i], i, strLen, rawLen, alpha))
	}
	if ptr {
		vrt.Assert("C07/short/pointer", et.StackPointer() == eb.StackPointer())
	}
	// later calls deliver what a failed final flush retained
	for i := 0; i < 3 && len(et.s.Buf) > 0 && et.StackDepth() == 0; i++ {
		step(zz07Op{kind: 'n'})
	}
	vrt.Observe("out", wt.got)
}

// zz07Value writes member value number v to e and reports whether it is an empty JSON value
// (null, "", {}, []) in the sense of omitempty. ref: e is the reference encoder, for which
// retracted inner members are simply never written.
func zz07Value(e *Encoder, v int, nsDisabled, ref bool) (empty bool) {
	var err error
	tok := func(ts ...Token) {
		for _, t := range ts {
			if err == nil {
				err = e.WriteToken(t)
			}
		}
	}
	switch v {
	case 0:
		tok(Null)
		empty = true
	case 1:
		tok(String(""))
		empty = true
	case 2:
		tok(BeginObject, EndObject)
		empty = true
	case 3:
		tok(BeginArray, EndArray)
		empty = true
	case 4:
		tok(String("x"))
	case 5:
		tok(Uint(0))
	case 6:
		tok(BeginObject, String("a"), Null, EndObject)
	case 7:
		tok(String(`"`)) // "\"" ends with two quotes but is not empty
	case 8:
		err = e.WriteValue(Value(` null `)) // as a MarshalJSON result would arrive
		empty = true
	case 9:
		err = e.WriteValue(Value(`{ }`))
		empty = true
	case 10:
		err = e.WriteValue(Value(`[""]`))
	case 11:
		tok(BeginArray, BeginArray, EndArray, EndArray)
	case 12:
		err = e.WriteValue(Value(`""`))
		empty = true
	case 13:
		err = e.WriteValue(Value(`[ ]`))
		empty = true
	case 15:
		tok(String("\\\"")) // the two characters \" : the literal "\\\"" ends with an escaped backslash, an escaped quote and the closing quote
	case 16:
		tok(String("\\")) // a lone backslash: the literal "\\" ends with backslash, backslash, quote
	default:
		// a nested struct whose only field is omitempty and empty: {"i":null} -> {}
		tok(BeginObject)
		if nsDisabled {
			e.s.Tokens.Last.DisableNamespace()
		}
		if !ref {
			tok(String("i"), Null)
			vrt.Assert("C07/unwrite/inner-retracted", err == nil && e.s.UnwriteEmptyObjectMember(nil))
		}
		tok(EndObject)
		empty = true
	}
	vrt.Assert("C07/unwrite/value-accepted", err == nil)
	return empty
}

const zz07NumValues = 17

func zz07Name(i, nameLen int, sym bool) string {
	if sym {
		b := vrt.Bytes("n"+zz07Itoa(i), nameLen)
		vrt.Assume(zzspec.InAlphabet(b, 1)) // includes '"', '\\' and '\n', whose escapes TrimSuffixString must skip
		return string(b)
	}
	b := make([]byte, nameLen)
	for j := range b {
		b[j] = byte('a' + i)
	}
	return string(b)
}

// VerifC07Unwrite replays what the struct marshaler (arshal_default.go) does for a struct
// with k fields: BeginObject, (namespace disabled when nsDisabled, as the struct marshaler
// does), then per field: the name token, the value (solver-chosen among zz07NumValues
// kinds), and, when the field is omitempty (solver's choice), UnwriteEmptyObjectMember with
// the name of the previous member that stayed (nil if none); EndObject. The encoder has
// capacity c over a plain writer (bbuf: a *bytes.Buffer of capacity c). Reference: an encoder (capacity 256) to which only the
// members that stayed are written. The retraction happens iff the value is empty; after every
// member both encoders account for the same bytes and the same stack (and pointer, with
// ptr); the delivered output is the reference output. With an active namespace, a final probe
// member named like one of the fields is accepted iff that field was retracted.
func VerifC07Unwrite(pre, k, c, nameLen, ws int, nsDisabled, symNames, ptr, probe, bbuf bool) {
	var wt io.Writer
	if bbuf {
		wt = bytes.NewBuffer(make([]byte, 0, c))
	} else {
		wt = zz07Sink()
	}
	wb := zz07Sink()
	et := zz07New(wt, c, ws, false)
	eb := zz07New(wb, 256, ws, false)
	// pre: what precedes the object, so that flushes may also fall before it:
	// 0 nothing; 1 [7, ; 2 {"p":
	for _, ch := range []string{"", "[7", "{a"}[pre] {
		op := zz07Draw(byte(ch), 0, 0, 0, 0)
		vrt.Assert("C07/unwrite/prelude", zz07Do(et, op) == nil && zz07Do(eb, op) == nil)
	}
	names := make([]string, k)
	kept := make([]bool, k)
	for i := range names {
		names[i] = zz07Name(i, nameLen, symNames)
		for j := 0; j < i; j++ {
			vrt.Assume(names[i] != names[j])
		}
	}
	vrt.Assert("C07/unwrite/begin", et.WriteToken(BeginObject) == nil && eb.WriteToken(BeginObject) == nil)
	if nsDisabled {
		et.s.Tokens.Last.DisableNamespace()
		eb.s.Tokens.Last.DisableNamespace()
	}
	var prev *string
	for i := 0; i < k; i++ {
		err := et.WriteToken(String(names[i]))
		vrt.Assume(err == nil) // symbolic names: only valid UTF-8
		nv := zz07NumValues
		if k > 2 {
			nv = 15 // three members: the two backslash kinds are left to the 1-2 member obligations (budget)
		}
		v := vrt.Choice("v"+zz07Itoa(i), nv)
		empty := zz07Value(et, v, nsDisabled, false)
		removed := false
		if vrt.Bool("omitempty" + zz07Itoa(i)) {
			removed = et.s.UnwriteEmptyObjectMember(prev)
			vrt.Assert("C07/unwrite/retracted-iff-empty", removed == empty)
		}
		if removed {
			vrt.Cover("retracted")
			if len(zz07Delivered(wt)) > 0 {
				vrt.Cover("retracted-after-flush")
			}
		} else {
			vrt.Cover("kept")
			kept[i] = true
			prev = &names[i]
			vrt.Assert("C07/unwrite/ref-name", eb.WriteToken(String(names[i])) == nil)
			zz07Value(eb, v, nsDisabled, true)
		}
		vrt.Assert("C07/unwrite/output-equals-kept-members", bytes.Equal(zz07Cat(zz07Delivered(wt), et.s.Buf), zz07Cat(wb.got, eb.s.Buf)))
		vrt.Assert("C07/unwrite/offset", et.OutputOffset() == eb.OutputOffset() && et.s.baseOffset == int64(len(zz07Delivered(wt))))
		vrt.Assert("C07/unwrite/state", zz07SameState(et, eb))
		if ptr {
			vrt.Assert("C07/unwrite/pointer", et.StackPointer() == eb.StackPointer())
		}
	}
	if probe && !nsDisabled {
		j := vrt.Choice("probe", k)
		err1 := et.WriteToken(String(names[j]))
		err2 := eb.WriteToken(String(names[j]))
		vrt.Assert("C07/unwrite/probe-accepted-iff-retracted", (err1 == nil) == !kept[j] && (err2 == nil) == !kept[j])
		if err1 != nil {
			se, ok := err1.(*SyntacticError)
			vrt.Assert("C07/unwrite/probe-duplicate-name", ok && se.Err == ErrDuplicateName)
			vrt.Cover("probe-duplicate")
		} else {
			vrt.Cover("probe-accepted")
			vrt.Assert("C07/unwrite/probe-value", et.WriteToken(Uint(7)) == nil && eb.WriteToken(Uint(7)) == nil)
		}
	}
	if ptr {
		vrt.Assert("C07/unwrite/pointer-before-end", et.StackPointer() == eb.StackPointer())
	}
	vrt.Assert("C07/unwrite/end", et.WriteToken(EndObject) == nil && eb.WriteToken(EndObject) == nil)
	for _, ch := range []string{"", "]", "}"}[pre] {
		op := zz07Draw(byte(ch), 0, 0, 0, 0)
		vrt.Assert("C07/unwrite/postlude", zz07Do(et, op) == nil && zz07Do(eb, op) == nil)
	}
	vrt.Assert("C07/unwrite/delivered", len(et.s.Buf) == 0 && bytes.Equal(zz07Delivered(wt), wb.got))
	vrt.Observe("out", zz07Delivered(wt))
}

// VerifC07UnwriteName replays the deterministic map marshaler (arshal_default.go): after
// BeginObject each of the n keys is written (token or raw value, solver's choice) and
// immediately retracted with UnwriteOnlyObjectMemberName, which must return the key's text
// and leave no trace; then the members are written for real. Reference: an encoder that only
// sees the real members. Keys are nameLen symbolic bytes each.
func VerifC07UnwriteName(n, c, nameLen, ws int, nsDisabled, ptr bool) {
	wt, wb := zz07Sink(), zz07Sink()
	et := zz07New(wt, c, ws, false)
	eb := zz07New(wb, 256, ws, false)
	vrt.Assert("C07/unwname/begin-array", et.WriteToken(BeginArray) == nil && eb.WriteToken(BeginArray) == nil)
	vrt.Assert("C07/unwname/begin", et.WriteToken(BeginObject) == nil && eb.WriteToken(BeginObject) == nil)
	if nsDisabled {
		et.s.Tokens.Last.DisableNamespace()
		eb.s.Tokens.Last.DisableNamespace()
	}
	keys := make([]string, n)
	for i := range keys {
		keys[i] = string(vrt.Bytes("k"+zz07Itoa(i), nameLen))
		var err error
		if vrt.Bool("raw" + zz07Itoa(i)) {
			vrt.Assume(zzspec.UTF8WellFormed([]byte(keys[i]))) // MinimalQuote would substitute U+FFFD
			q := zzspec.MinimalQuote([]byte(keys[i]), false, false)
			err = et.WriteValue(Value(q))
		} else {
			err = et.WriteToken(String(keys[i]))
		}
		vrt.Assume(err == nil) // valid UTF-8 keys only
		got := et.s.UnwriteOnlyObjectMemberName()
		vrt.Assert("C07/unwname/returns-key", got == keys[i])
		vrt.Assert("C07/unwname/no-trace", bytes.Equal(zz07Cat(wt.got, et.s.Buf), zz07Cat(wb.got, eb.s.Buf)) && zz07SameState(et, eb))
		if ptr {
			vrt.Assert("C07/unwname/pointer", et.StackPointer() == eb.StackPointer())
		}
	}
	for i := range keys {
		err1 := et.WriteToken(String(keys[i]))
		err2 := eb.WriteToken(String(keys[i]))
		vrt.Assert("C07/unwname/same-verdict", (err1 == nil) == (err2 == nil))
		if err1 != nil {
			vrt.Cover("duplicate-key")
			vrt.Assert("C07/unwname/only-real-duplicates", !nsDisabled && i > 0)
			break
		}
		err1 = et.WriteToken(Uint(7))
		err2 = eb.WriteToken(Uint(7))
		vrt.Assert("C07/unwname/value", err1 == nil && err2 == nil)
		vrt.Assert("C07/unwname/output", bytes.Equal(zz07Cat(wt.got, et.s.Buf), zz07Cat(wb.got, eb.s.Buf)) && zz07SameState(et, eb))
		if i == n-1 {
			vrt.Cover("all-written")
			vrt.Assert("C07/unwname/end", et.WriteToken(EndObject) == nil && eb.WriteToken(EndObject) == nil)
			vrt.Assert("C07/unwname/end-array", et.WriteToken(EndArray) == nil && eb.WriteToken(EndArray) == nil)
			vrt.Assert("C07/unwname/delivered", len(et.s.Buf) == 0 && bytes.Equal(wt.got, wb.got))
		}
	}
	vrt.Observe("out", wt.got)
}
