package json

import (
	"time"

	"github.com/go-json-experiment/json/internal/zzverif/vrt"
)

// VerifC04DurBase10: every time.Duration survives appendDurationBase10 / parseDurationBase10
// for the unit pow10 (1 nano, 1e3 micro, 1e6 milli, 1e9 sec).
func VerifC04DurBase10(pow10 int, neg bool) {
	d := time.Duration(vrt.Int64("d"))
	vrt.Assume((d < 0) == neg)
	b := appendDurationBase10(nil, d, uint64(pow10))
	vrt.Observe("text", b)
	d2, err := parseDurationBase10(b, uint64(pow10))
	vrt.Assert("C04/duration/base10-accepts-own-output", err == nil)
	vrt.Assert("C04/duration/base10-restored", d2 == d)
	vrt.Cover("checked")
}

// VerifC04DurISO8601: every time.Duration survives appendDurationISO8601 / parseDurationISO8601.
func VerifC04DurISO8601(neg bool) {
	d := time.Duration(vrt.Int64("d"))
	vrt.Assume((d < 0) == neg)
	b := appendDurationISO8601(nil, d)
	vrt.Observe("text", b)
	d2, err := parseDurationISO8601(b)
	vrt.Assert("C04/duration/iso8601-accepts-own-output", err == nil)
	vrt.Assert("C04/duration/iso8601-restored", d2 == d)
	vrt.Cover("checked")
}

// VerifC04TimeUnix: every instant with |seconds| < 2^bits and any nanosecond survives
// appendTimeUnix / parseTimeUnix for the unit pow10 (1 unix, 1e3 unixmilli, 1e6 unixmicro, 1e9 unixnano).
func VerifC04TimeUnix(pow10, bits int, neg bool) {
	sec := vrt.Int64("sec")
	nsec := int64(vrt.Uint32("nsec"))
	vrt.Assume(nsec < 1e9)
	vrt.Assume((sec < 0) == neg)
	vrt.Assume(sec < int64(1)<<bits && sec >= -(int64(1)<<bits))
	t := time.Unix(sec, nsec).UTC()
	b := appendTimeUnix(nil, t, uint64(pow10))
	vrt.Observe("text", b)
	t2, err := parseTimeUnix(b, uint64(pow10))
	vrt.Assert("C04/time/unix-accepts-own-output", err == nil)
	vrt.Assert("C04/time/unix-restored", err != nil || (t2.Unix() == sec && int64(t2.Nanosecond()) == nsec))
	vrt.Cover("checked")
}
