package json

import (
	"time"

	"github.com/go-json-experiment/json/internal/zzverif/vrt"
)

type zz04TimeUnix struct {
	T time.Time `json:"t,format:unix"`
}

// VerifC04TimeTyped: a struct with a time.Time member formatted as unix seconds round-trips
// through the real Marshal and Unmarshal for every instant with 0 <= seconds < 2^bits.
func VerifC04TimeTyped(bits int) {
	sec := vrt.Int64("sec")
	nsec := int64(vrt.Uint32("nsec"))
	vrt.Assume(nsec < 1e9)
	vrt.Assume(sec >= 0 && sec < int64(1)<<bits)
	opt := ExperimentalSupportFormatTag(true)
	out, err := Marshal(&zz04TimeUnix{time.Unix(sec, nsec).UTC()}, opt)
	vrt.Assert("C04/time/typed-marshal-succeeds", err == nil)
	if err != nil {
		return
	}
	vrt.Observe("out", out)
	var w zz04TimeUnix
	err = Unmarshal(out, &w, opt)
	vrt.Assert("C04/time/typed-unmarshal-accepts-own-output", err == nil)
	vrt.Assert("C04/time/typed-restored", err != nil || (w.T.Unix() == sec && int64(w.T.Nanosecond()) == nsec))
	vrt.Cover("checked")
}
