package json

import (
	"bytes"

	"github.com/go-json-experiment/json/internal/jsonflags"
	"github.com/go-json-experiment/json/internal/zzverif/vrt"
	"github.com/go-json-experiment/json/internal/zzverif/zzspec"
)

type zz04Inner struct {
	U uint8  `json:"u"`
	S string `json:"s"`
}

type zz04T struct {
	I  int8            `json:"i"`
	Q  int8            `json:"q,string"`
	B  bool            `json:"b"`
	S  string          `json:"s"`
	L  []int8          `json:"l"`
	M  map[string]int8 `json:"m"`
	P  *int8           `json:"p"`
	A  [2]bool         `json:"a"`
	N  zz04Inner       `json:"n"`
	Y  []byte          `json:"y"`
	E  any             `json:"e"`
	PS *zz04Inner      `json:"ps"`
}

func zz04Str(name string, n int) string {
	s := vrt.String(name, n)
	vrt.Assume(zzspec.UTF8WellFormed([]byte(s)))
	return s
}

// zz04Value builds a value of zz04T; `shape` selects which part is symbolic (at most one
// symbolic integer per shape: integer formatting forks per value) and which containers are
// nil / empty / populated.
func zz04Value(shape, strLen int) zz04T {
	v := zz04T{I: -7, Q: 12, B: vrt.Bool("b"), A: [2]bool{vrt.Bool("a0"), true}}
	switch shape {
	case 0: // every int8 value, strings
		v.I = int8(vrt.Byte("i"))
		v.S = zz04Str("s", strLen)
	case 1: // populated containers with symbolic key and bytes
		v.L = []int8{3, 5}
		v.M = map[string]int8{zz04Str("k", 1): 9}
		p := int8(-4)
		v.P = &p
		v.Y = []byte{vrt.Byte("y0"), vrt.Byte("y1")}
	case 2: // empty (non-nil) containers, nested pointer and struct with every uint8 value
		v.L = []int8{}
		v.M = map[string]int8{}
		v.Y = []byte{}
		v.PS = &zz04Inner{U: vrt.Byte("u"), S: zz04Str("ns", 1)}
	case 3: // interface holding untyped values
		switch vrt.Choice("ek", 4) {
		case 0:
			v.E = zz04Str("es", 1)
		case 1:
			v.E = vrt.Bool("eb")
		case 2:
			v.E = []any{vrt.Bool("eb"), nil}
		default:
			v.E = map[string]any{zz04Str("ek0", 1): "x"}
		}
	case 4: // every int8 value through the `string` tag (quoted number)
		v.Q = int8(vrt.Byte("q"))
	default: // symbolic elements in slice, map value, pointer target
		v.L = []int8{int8(vrt.Byte("l0"))}
		v.N = zz04Inner{U: 200, S: zz04Str("ns", strLen)}
	}
	return v
}

func zz04EqualAny(x, y any) bool { return zzspec.EqualAny(x, y) }

func zz04Equal(x, y *zz04T) bool {
	if x.I != y.I || x.Q != y.Q || x.B != y.B || x.S != y.S || x.A != y.A || x.N != y.N {
		return false
	}
	if len(x.L) != len(y.L) || len(x.M) != len(y.M) || len(x.Y) != len(y.Y) {
		return false
	}
	for i := range x.L {
		if x.L[i] != y.L[i] {
			return false
		}
	}
	for k, xv := range x.M {
		if yv, ok := y.M[k]; !ok || xv != yv {
			return false
		}
	}
	if !bytes.Equal(x.Y, y.Y) {
		return false
	}
	if (x.P == nil) != (y.P == nil) || (x.P != nil && *x.P != *y.P) {
		return false
	}
	if (x.PS == nil) != (y.PS == nil) || (x.PS != nil && *x.PS != *y.PS) {
		return false
	}
	return zz04EqualAny(x.E, y.E)
}

// VerifC04RoundTrip: for every value of zz04T within the shape (all int8/uint8/bool values,
// all well-formed strings of the given length, nil / empty / populated containers, untyped
// values behind an interface), Unmarshal accepts Marshal(v) under the same options, the decoded
// value equals v (nil and empty containers identified), and marshaling the decoded value
// reproduces the same bytes.
func VerifC04RoundTrip(shape, strLen int, stringify, deterministic bool) {
	v := zz04Value(shape, strLen)
	opts := []Options{StringifyNumbers(stringify), Deterministic(deterministic)}
	out, err := Marshal(&v, opts...)
	vrt.Observe("errnil", err == nil)
	vrt.Assert("C04/marshal-succeeds", err == nil)
	if err != nil {
		return
	}
	if deterministic || shape != 1 {
		vrt.Observe("out", out)
	}
	vrt.Assert("C04/output-valid", zzspec.ValidText(out, true, true, 10000))
	var w zz04T
	err = Unmarshal(out, &w, opts...)
	vrt.Cover("decoded")
	vrt.Assert("C04/unmarshal-accepts-own-output", err == nil)
	if err != nil {
		return
	}
	vrt.Assert("C04/value-restored", zz04Equal(&v, &w))
	out2, err := Marshal(&w, opts...)
	vrt.Assert("C04/remarshal-same-bytes", err == nil && bytes.Equal(out, out2))
}

type zz04Wide struct {
	I int64            `json:"i"`
	U uint64           `json:"u"`
	Q int64            `json:"q,string"`
	M map[int64]uint64 `json:"m"`
}

// VerifC04Wide: full 64-bit integer precision through Marshal and Unmarshal: for every int64
// and uint64 value (as number, as quoted number via the `string` tag, and as map key), the
// decoded value equals the original. (Decimal formatting of the symbolic integers is the
// engine's contract stub: digit bytes constrained to denote the value; what is decided is that
// layout, sign handling, quoting and parsing restore exactly that value.)
func VerifC04Wide(part int, stringify bool) {
	var v zz04Wide
	switch part {
	case 0:
		v.I = vrt.Int64("i")
	case 1:
		v.U = vrt.Uint64("u")
	case 2:
		v.Q = vrt.Int64("q")
	default:
		v.M = map[int64]uint64{vrt.Int64("k"): vrt.Uint64("mv")}
	}
	out, err := Marshal(&v, StringifyNumbers(stringify))
	vrt.Assert("C04/wide/marshal-succeeds", err == nil)
	if err != nil {
		return
	}
	vrt.Observe("out", out)
	var w zz04Wide
	err = Unmarshal(out, &w, StringifyNumbers(stringify))
	vrt.Cover("decoded")
	vrt.Assert("C04/wide/unmarshal-accepts-own-output", err == nil)
	if err != nil {
		return
	}
	same := v.I == w.I && v.U == w.U && v.Q == w.Q && len(v.M) == len(w.M)
	for k, x := range v.M {
		y, ok := w.M[k]
		same = same && ok && x == y
	}
	vrt.Assert("C04/wide/value-restored-64bit", same)
}

type zz04Bytes struct {
	Y [3]byte `json:"y"`
	S []byte  `json:"s"`
}

// VerifC04BytesOptions: byte arrays and slices round-trip under the default options and
// under each v1 representation option set INDIVIDUALLY (the same option on both sides):
// opt 0 none; 1 FormatByteArrayAsArray; 2 FormatBytesWithLegacySemantics; 3 both.
func VerifC04BytesOptions(opt int) {
	v := zz04Bytes{Y: [3]byte{vrt.Byte("y0"), vrt.Byte("y1"), 7}, S: []byte{vrt.Byte("s0")}}
	var opts []Options
	switch opt {
	case 1:
		opts = []Options{jsonflags.FormatByteArrayAsArray | 1}
	case 2:
		opts = []Options{jsonflags.FormatBytesWithLegacySemantics | 1}
	case 3:
		opts = []Options{jsonflags.FormatByteArrayAsArray | 1, jsonflags.FormatBytesWithLegacySemantics | 1}
	}
	out, err := Marshal(&v, opts...)
	vrt.Assert("C04/bytes/marshal-succeeds", err == nil)
	if err != nil {
		return
	}
	vrt.Observe("out", out)
	var w zz04Bytes
	err = Unmarshal(out, &w, opts...)
	vrt.Cover("decoded")
	vrt.Assert("C04/bytes/unmarshal-accepts-own-output", err == nil)
	if err != nil {
		return
	}
	vrt.Assert("C04/bytes/value-restored", v.Y == w.Y && bytes.Equal(v.S, w.S))
}

// VerifC04PtrKeyMap: maps whose keys are pointers (to strings, to integers) round-trip: every
// entry comes back under its own freshly allocated key.
func VerifC04PtrKeyMap(intKeys bool) {
	if intKeys {
		k1, k2 := int8(vrt.Byte("k1")), int8(vrt.Byte("k2"))
		vrt.Assume(k1 != k2)
		m := map[*int8]bool{&k1: true, &k2: false}
		out, err := Marshal(m)
		vrt.Assert("C04/ptrkey/marshal-succeeds", err == nil)
		var w map[*int8]bool
		err = Unmarshal(out, &w)
		vrt.Assert("C04/ptrkey/unmarshal-accepts-own-output", err == nil)
		if err != nil {
			return
		}
		seen1, seen2 := false, false
		for k, v := range w {
			if k != nil && *k == k1 && v {
				seen1 = true
			}
			if k != nil && *k == k2 && !v {
				seen2 = true
			}
		}
		vrt.Assert("C04/ptrkey/value-restored", len(w) == 2 && seen1 && seen2)
		vrt.Cover("decoded")
		return
	}
	s1, s2 := zz04Str("s1", 1), zz04Str("s2", 1)
	vrt.Assume(s1 != s2)
	m := map[*string]int8{&s1: 1, &s2: 2}
	out, err := Marshal(m)
	vrt.Assert("C04/ptrkey/marshal-succeeds", err == nil)
	var w map[*string]int8
	err = Unmarshal(out, &w)
	vrt.Assert("C04/ptrkey/unmarshal-accepts-own-output", err == nil)
	if err != nil {
		return
	}
	seen1, seen2 := false, false
	for k, v := range w {
		if k != nil && *k == s1 && v == 1 {
			seen1 = true
		}
		if k != nil && *k == s2 && v == 2 {
			seen2 = true
		}
	}
	vrt.Assert("C04/ptrkey/value-restored", len(w) == 2 && seen1 && seen2)
	vrt.Cover("decoded")
}
