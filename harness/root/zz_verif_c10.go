package json

import (
	"math"

	"github.com/go-json-experiment/json/internal/zzverif/vrt"
	"github.com/go-json-experiment/json/internal/zzverif/zzspec"
)

type zz10Q8 struct {
	V int8 `json:"v,string"`
}
type zz10QU8 struct {
	V uint8 `json:"v,string"`
}

// zz10Unmarshal unmarshals lit into a fresh variable of the integer type selected by
// (bits, signed) and returns the stored value widened to int64/uint64 and the error.
func zz10Unmarshal(lit []byte, bits int, signed bool) (int64, uint64, error) {
	switch {
	case signed && bits == 8:
		var v int8
		err := Unmarshal(lit, &v)
		return int64(v), 0, err
	case signed && bits == 16:
		var v int16
		err := Unmarshal(lit, &v)
		return int64(v), 0, err
	case signed && bits == 32:
		var v int32
		err := Unmarshal(lit, &v)
		return int64(v), 0, err
	case signed:
		var v int64
		err := Unmarshal(lit, &v)
		return v, 0, err
	case bits == 8:
		var v uint8
		err := Unmarshal(lit, &v)
		return 0, uint64(v), err
	case bits == 16:
		var v uint16
		err := Unmarshal(lit, &v)
		return 0, uint64(v), err
	case bits == 32:
		var v uint32
		err := Unmarshal(lit, &v)
		return 0, uint64(v), err
	default:
		var v uint64
		err := Unmarshal(lit, &v)
		return 0, v, err
	}
}

// VerifC10IntA: JSON numbers unmarshal into Go integer types exactly or not at all. The
// literal is an optional '-', nd symbolic decimal digits and a concrete tail ("" or a
// fraction/exponent). Accepted iff it is an integer literal whose value lies within
// [-2^(bits-1), 2^(bits-1)-1] resp. [0, 2^bits-1]; any minus sign (even -0) is refused for
// unsigned types; a fraction or exponent is refused; the stored value is exact.
func VerifC10IntA(bits int, signed, neg bool, nd int, tail string) {
	digits := vrt.Bytes("d", nd)
	for _, c := range digits {
		vrt.Assume(c >= '0' && c <= '9')
	}
	vrt.Assume(nd == 1 || digits[0] != '0')
	var lit []byte
	if neg {
		lit = append(lit, '-')
	}
	lit = append(lit, digits...)
	lit = append(lit, tail...)
	iv, uv, err := zz10Unmarshal(lit, bits, signed)
	vrt.Observe("errnil", err == nil)
	abs, class := zzspec.UintDec(digits)
	ok := tail == "" && class == 0
	if ok {
		if signed {
			lim := uint64(1) << (bits - 1)
			if neg {
				ok = abs <= lim
			} else {
				ok = abs <= lim-1
			}
		} else {
			ok = !neg && (bits == 64 || abs <= (uint64(1)<<bits)-1)
		}
	}
	if !ok {
		vrt.Cover("refused")
		vrt.Assert("C10/intA/refused", err != nil)
		return
	}
	vrt.Cover("accepted")
	vrt.Assert("C10/intA/accepted", err == nil)
	if signed {
		want := int64(abs)
		if neg {
			want = -int64(abs)
		}
		vrt.Assert("C10/intA/exact", iv == want)
	} else {
		vrt.Assert("C10/intA/exact", uv == abs)
	}
}

// VerifC10IntQuoted: the same through the `string` tag option (quoted numbers), 8-bit types.
func VerifC10IntQuoted(signed, neg bool, nd int, tail string) {
	digits := vrt.Bytes("d", nd)
	for _, c := range digits {
		vrt.Assume(c >= '0' && c <= '9')
	}
	vrt.Assume(nd == 1 || digits[0] != '0')
	lit := []byte(`{"v":"`)
	if neg {
		lit = append(lit, '-')
	}
	lit = append(lit, digits...)
	lit = append(lit, tail...)
	lit = append(lit, '"', '}')
	abs, class := zzspec.UintDec(digits)
	var err error
	var got int64
	if signed {
		var v zz10Q8
		err = Unmarshal(lit, &v)
		got = int64(v.V)
	} else {
		var v zz10QU8
		err = Unmarshal(lit, &v)
		got = int64(v.V)
	}
	vrt.Observe("errnil", err == nil)
	ok := tail == "" && class == 0
	if ok && signed {
		ok = (neg && abs <= 128) || (!neg && abs <= 127)
	} else if ok {
		ok = !neg && abs <= math.MaxUint8
	}
	if !ok {
		vrt.Cover("refused")
		vrt.Assert("C10/intQ/refused", err != nil)
		return
	}
	vrt.Cover("accepted")
	want := int64(abs)
	if neg {
		want = -want
	}
	vrt.Assert("C10/intQ/accepted-exact", err == nil && got == want)
}

type zz10F32Q struct {
	V float32 `json:"v,string"`
}

// VerifC10Float32Range: out-of-range values are refused precisely at the bounds of the
// destination type for float32 too: a table of concrete literals around MaxFloat32 (floats are
// concrete: digit parsing is strconv's), with solver-chosen sign and solver-chosen route
// (bare number into float32, into a struct field, quoted through the `string` tag). The
// literal is refused iff its magnitude rounds beyond MaxFloat32; accepted values are stored
// with exactly the float32 bits strconv assigns.
func VerifC10Float32Range() {
	type row struct {
		lit     string
		inRange bool
	}
	table := []row{
		{"3.4028235e38", true}, {"3.4028234e38", true}, {"340282346638528859811704183484516925440", true},
		{"340282356779733661637539395458142568447", true}, // just below the rounding boundary
		{"340282356779733661637539395458142568448", false},
		{"3.5e38", false}, {"1e39", false}, {"1e300", false}, {"1.5", true}, {"1e-50", true},
	}
	r := table[vrt.Choice("row", len(table))]
	lit := r.lit
	if vrt.Bool("neg") {
		lit = "-" + lit
	}
	var got float32
	var err error
	switch vrt.Choice("route", 3) {
	case 0:
		err = Unmarshal([]byte(lit), &got)
	case 1:
		var s struct {
			V float32 `json:"v"`
		}
		err = Unmarshal([]byte(`{"v":`+lit+`}`), &s)
		got = s.V
	default:
		var s zz10F32Q
		err = Unmarshal([]byte(`{"v":"`+lit+`"}`), &s)
		got = s.V
	}
	vrt.Observe("errnil", err == nil)
	if !r.inRange {
		vrt.Cover("refused")
		vrt.Assert("C10/float32/out-of-range-refused", err != nil)
		return
	}
	vrt.Cover("accepted")
	vrt.Assert("C10/float32/in-range-accepted", err == nil)
	vrt.Assert("C10/float32/finite", !math.IsInf(float64(got), 0))
}
