package json

import (
	"math"

	"github.com/go-json-experiment/json/internal/zzverif/vrt"
	"github.com/go-json-experiment/json/internal/zzverif/zzspec"
)

type zz10Q8 struct {
	V int8 `json:"v,string"`
}
type zz10QU8 struct {
	V uint8 `json:"v,string"`
}

// zz10Unmarshal unmarshals lit into a fresh variable of the integer type selected by
// (bits, signed) and returns the stored value widened to int64/uint64 and the error.
func zz10Unmarshal(lit []byte, bits int, signed bool) (int64, uint64, error) {
	switch {
	case signed && bits == 8:
		var v int8
		err := Unmarshal(lit, &v)
		return int64(v), 0, err
	case signed && bits == 16:
		var v int16
		err := Unmarshal(lit, &v)
		return int64(v), 0, err
	case signed && bits == 32:
		var v int32
		err := Unmarshal(lit, &v)
		return int64(v), 0, err
	case signed:
		var v int64
		err := Unmarshal(lit, &v)
		return v, 0, err
	case bits == 8:
		var v uint8
		err := Unmarshal(lit, &v)
		return 0, uint64(v), err
	case bits == 16:
		var v uint16
		err := Unmarshal(lit, &v)
		return 0, uint64(v), err
	case bits == 32:
		var v uint32
		err := Unmarshal(lit, &v)
		return 0, uint64(v), err
	default:
		var v uint64
		err := Unmarshal(lit, &v)
		return 0, v, err
	}
}

// VerifC10IntA: JSON numbers unmarshal into Go integer types exactly or not at all. The
// literal is an optional '-', nd symbolic decimal digits and a concrete tail ("" or a
// fraction/exponent). Accepted iff it is an integer literal whose value lies within
// [-2^(bits-1), 2^(bits-1)-1] resp. [0, 2^bits-1]; any minus sign (even -0) is refused for
// unsigned types; a fraction or exponent is refused; the stored value is exact.
func VerifC10IntA(bits int, signed, neg bool, nd int, tail string) {
	digits := vrt.Bytes("d", nd)
	for _, c := range digits {
		vrt.Assume(c >= '0' && c <= '9')
	}
	vrt.Assume(nd == 1 || digits[0] != '0')
	var lit []byte
	if neg {
		lit = append(lit, '-')
	}
	lit = append(lit, digits...)
	lit = append(lit, tail...)
	iv, uv, err := zz10Unmarshal(lit, bits, signed)
	vrt.Observe("errnil", err == nil)
	abs, class := zzspec.UintDec(digits)
	ok := tail == "" && class == 0
	if ok {
		if signed {
			lim := uint64(1) << (bits - 1)
			if neg {
				ok = abs <= lim
			} else {
				ok = abs <= lim-1
			}
		} else {
			ok = !neg && (bits == 64 || abs <= (uint64(1)<<bits)-1)
		}
	}
	if !ok {
		vrt.Cover("refused")
		vrt.Assert("C10/intA/refused", err != nil)
		return
	}
	vrt.Cover("accepted")
	vrt.Assert("C10/intA/accepted", err == nil)
	if signed {
		want := int64(abs)
		if neg {
			want = -int64(abs)
		}
		vrt.Assert("C10/intA/exact", iv == want)
	} else {
		vrt.Assert("C10/intA/exact", uv == abs)
	}
}

// VerifC10IntQuoted: the same through the `string` tag option (quoted numbers), 8-bit types.
func VerifC10IntQuoted(signed, neg bool, nd int, tail string) {
	digits := vrt.Bytes("d", nd)
	for _, c := range digits {
		vrt.Assume(c >= '0' && c <= '9')
	}
	vrt.Assume(nd == 1 || digits[0] != '0')
	lit := []byte(`{"v":"`)
	if neg {
		lit = append(lit, '-')
	}
	lit = append(lit, digits...)
	lit = append(lit, tail...)
	lit = append(lit, '"', '}')
	abs, class := zzspec.UintDec(digits)
	var err error
	var got int64
	if signed {
		var v zz10Q8
		err = Unmarshal(lit, &v)
		got = int64(v.V)
	} else {
		var v zz10QU8
		err = Unmarshal(lit, &v)
		got = int64(v.V)
	}
	vrt.Observe("errnil", err == nil)
	ok := tail == "" && class == 0
	if ok && signed {
		ok = (neg && abs <= 128) || (!neg && abs <= 127)
	} else if ok {
		ok = !neg && abs <= math.MaxUint8
	}
	if !ok {
		vrt.Cover("refused")
		vrt.Assert("C10/intQ/refused", err != nil)
		return
	}
	vrt.Cover("accepted")
	want := int64(abs)
	if neg {
		want = -want
	}
	vrt.Assert("C10/intQ/accepted-exact", err == nil && got == want)
}
