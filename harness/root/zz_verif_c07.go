package json

import (
	"bytes"
	"errors"

	"github.com/go-json-experiment/json/internal/zzverif/vrt"
	"github.com/go-json-experiment/json/internal/zzverif/zzspec"
	"github.com/go-json-experiment/json/jsontext"
)

// C07 for typed values: the bytes delivered by MarshalWrite / MarshalEncode equal what
// Marshal returns (plus the newline after each top-level value of an Encoder), for both
// writer kinds; on a failed or short write MarshalWrite returns the error having delivered
// only a prefix of the fault-free output.

type zz07S struct {
	A string          `json:"a"`
	E map[string]int8 `json:"e,omitempty"`
	F []int8          `json:"f,omitempty"`
	G *int8           `json:"g,omitzero"`
	H string          `json:"h,omitempty"`
	Z string          `json:"z"`
}

// zz07W is a writer that is not a *bytes.Buffer; from its failAt-th Write call on it accepts
// only `accept` bytes and reports an error (failAt < 0: never fails).
type zz07W struct {
	buf    []byte
	calls  int
	failAt int
	accept int
}

var zz07ErrW = errors.New("zz07 write fault")

func (w *zz07W) Write(p []byte) (int, error) {
	w.calls++
	if w.failAt >= 0 && w.calls > w.failAt {
		n := w.accept
		if n > len(p) {
			n = len(p)
		}
		w.buf = append(w.buf, p[:n]...)
		return n, zz07ErrW
	}
	w.buf = append(w.buf, p...)
	return len(p), nil
}

func zz07Value(shape, n int) any {
	str := func(name string) string {
		s := vrt.String(name, n)
		vrt.Assume(zzspec.UTF8WellFormed([]byte(s)))
		return s
	}
	switch shape {
	case 0:
		return map[string]int8{}
	case 1:
		return map[string]int8{str("k"): int8(vrt.Byte("x"))}
	case 2:
		return []int8{}
	case 3, 8:
		v := zz07S{A: str("a"), Z: "z"}
		if shape == 8 {
			// the members after A fall around the 75% flush threshold of the 4 KiB pooled buffer
			b := make([]byte, 3050+vrt.IntRange("pad", 0, 24))
			for i := range b {
				b[i] = 'x'
			}
			v.A = string(b)
		}
		if vrt.Bool("e") {
			v.E = map[string]int8{}
		} else {
			v.E = map[string]int8{"k": 1}
		}
		if vrt.Bool("f") {
			v.F = []int8{}
		} else {
			v.F = []int8{2}
		}
		if vrt.Bool("g") {
			g := int8(3)
			v.G = &g
		}
		if vrt.Bool("h") {
			v.H = "h"
		}
		return v
	case 4:
		return []any{str("s"), nil, vrt.Bool("b"), map[string]any{}, []any{}}
	case 5:
		return str("s")
	case 6:
		return (*int8)(nil)
	case 7:
		return struct{}{}
	case 9:
		return map[string]any{}
	case 10:
		return []any{}
	case 11:
		return map[string]map[string]int8{"m": {}}
	case 13:
		var v any = []any{}
		return &v
	case 14:
		var v any = map[string]any{}
		return &v
	default:
		return [0]int8{}
	}
}

// VerifC07Typed: mode 0 MarshalWrite to a *bytes.Buffer; 1 MarshalWrite to another writer;
// 2 two MarshalEncode calls on an Encoder over a *bytes.Buffer; 3 the same over another
// writer; 4 MarshalWrite to a writer whose first Write accepts a solver-chosen 0..3 bytes and
// fails. optset 0 default, 1 Deterministic, 2 Multiline.
func VerifC07Typed(shape, n, mode, optset int) {
	v := zz07Value(shape, n)
	var opts []Options
	switch optset {
	case 1:
		opts = []Options{Deterministic(true)}
	case 2:
		opts = []Options{jsontext.Multiline(true)}
	}
	want, err0 := Marshal(v, opts...)
	vrt.Assert("C07/typed/marshal-succeeds", err0 == nil)
	if err0 != nil {
		return
	}
	vrt.Observe("want", want)
	switch mode {
	case 0:
		b := new(bytes.Buffer)
		err := MarshalWrite(b, v, opts...)
		vrt.Assert("C07/typed/marshalwrite-same-bytes", err == nil && bytes.Equal(b.Bytes(), want))
	case 1:
		w := &zz07W{failAt: -1}
		err := MarshalWrite(w, v, opts...)
		vrt.Assert("C07/typed/marshalwrite-same-bytes", err == nil && bytes.Equal(w.buf, want))
	case 2, 3:
		b := new(bytes.Buffer)
		w := &zz07W{failAt: -1}
		var enc *jsontext.Encoder
		if mode == 2 {
			enc = jsontext.NewEncoder(b, opts...)
		} else {
			enc = jsontext.NewEncoder(w, opts...)
		}
		err := MarshalEncode(enc, v)
		got := w.buf
		if mode == 2 {
			got = b.Bytes()
		}
		exp := append(append([]byte(nil), want...), '\n')
		vrt.Assert("C07/typed/marshalencode-delivers-value-and-newline", err == nil && bytes.Equal(got, exp))
		err = MarshalEncode(enc, int8(7))
		got = w.buf
		if mode == 2 {
			got = b.Bytes()
		}
		exp = append(exp, '7', '\n')
		vrt.Assert("C07/typed/marshalencode-second-value", err == nil && bytes.Equal(got, exp))
	default:
		w := &zz07W{failAt: 0, accept: vrt.IntRange("accept", 0, 3)}
		err := MarshalWrite(w, v, opts...)
		vrt.Assert("C07/typed/fault-reported", err != nil)
		vrt.Assert("C07/typed/fault-delivers-prefix", len(w.buf) <= len(want) && bytes.Equal(w.buf, want[:len(w.buf)]))
	}
	vrt.Cover("checked")
}
