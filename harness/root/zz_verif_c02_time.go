package json

import (
	"time"

	"github.com/go-json-experiment/json/internal/zzverif/vrt"
	"github.com/go-json-experiment/json/internal/zzverif/zzspec"
)

// C02 for time values: text that reaches the output from user-controlled parts of a
// time.Time (the name of its location, printed by layouts with a zone abbreviation) is
// policed like every other string: a nil error implies valid JSON that decodes to a string.

type zz02TimeRFC1123 struct {
	T time.Time `json:"t,format:RFC1123"`
}
type zz02TimeRFC822 struct {
	T time.Time `json:"t,format:RFC822"`
}
type zz02TimeUnixDate struct {
	T time.Time `json:"t,format:UnixDate"`
}
type zz02TimeRFC850 struct {
	T time.Time `json:"t,format:RFC850"`
}
type zz02TimeCustom struct {
	T time.Time `json:"t,format:'2006 MST'"`
}
type zz02TimeDefault struct {
	T time.Time `json:"t"`
}

// VerifC02TimeZone: a time.Time whose location name holds n arbitrary bytes, marshaled with
// layout number `layout`.
func VerifC02TimeZone(layout, n int) {
	name := vrt.String("z", n)
	loc := time.FixedZone(name, 3600)
	tt := time.Date(2020, 3, 4, 5, 6, 7, 0, loc)
	var v any
	switch layout {
	case 0:
		v = zz02TimeRFC1123{tt}
	case 1:
		v = zz02TimeRFC822{tt}
	case 2:
		v = zz02TimeUnixDate{tt}
	case 3:
		v = zz02TimeRFC850{tt}
	case 4:
		v = zz02TimeCustom{tt}
	default:
		v = zz02TimeDefault{tt}
	}
	out, err := Marshal(v, ExperimentalSupportFormatTag(true))
	vrt.Observe("ok", err == nil)
	if err != nil {
		vrt.Cover("refused")
		return
	}
	vrt.Cover("accepted")
	vrt.Observe("out", out)
	vrt.Assert("C02/time/output-is-valid", zzspec.ValidText(out, true, true, 10000))
}
