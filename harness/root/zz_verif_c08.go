package json

import "github.com/go-json-experiment/json/internal/zzverif/vrt"

// VerifC08UintSet: uintSet behaves as a mathematical set of field indices from an ARBITRARY
// pre-state (arbitrary lo word, hiLen arbitrary words): insert(i) reports "first insertion"
// exactly when i was absent, afterwards i is present and the membership of every other
// index j is unchanged. One step from an arbitrary state covers every insertion history.
// This is the bit-set that rejects two members resolving to the same struct field.
func VerifC08UintSet(hiLen int) {
	var s uintSet
	s.lo = uintSet64(vrt.Uint64("lo"))
	for k := 0; k < hiLen; k++ {
		s.hi = append(s.hi, uintSet64(vrt.Uint64("hi"+string(rune('0'+k)))))
	}
	i := uint(vrt.Uint64("i"))
	j := uint(vrt.Uint64("j"))
	vrt.Assume(i < 256 && j < 256)
	hadI, hadJ := s.has(i), s.has(j)
	first := s.insert(i)
	vrt.Observe("first", first)
	vrt.Cover("end")
	vrt.Assert("C08/uset/first-iff-absent", first == !hadI)
	vrt.Assert("C08/uset/present-after", s.has(i))
	if j != i {
		vrt.Assert("C08/uset/others-unchanged", s.has(j) == hadJ)
	}
	vrt.Assert("C08/uset/second-insert-not-first", !s.insert(i))
}
