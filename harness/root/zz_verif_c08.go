package json

import (
	"github.com/go-json-experiment/json/internal/zzverif/vrt"
	"github.com/go-json-experiment/json/internal/zzverif/zzspec"
	"github.com/go-json-experiment/json/jsontext"
)

// VerifC08UintSet: uintSet behaves as a mathematical set of field indices from an ARBITRARY
// pre-state (arbitrary lo word, hiLen arbitrary words): insert(i) reports "first insertion"
// exactly when i was absent, afterwards i is present and the membership of every other
// index j is unchanged. One step from an arbitrary state covers every insertion history.
// This is the bit-set that rejects two members resolving to the same struct field.
func VerifC08UintSet(hiLen int) {
	var s uintSet
	s.lo = uintSet64(vrt.Uint64("lo"))
	for k := 0; k < hiLen; k++ {
		s.hi = append(s.hi, uintSet64(vrt.Uint64("hi"+string(rune('0'+k)))))
	}
	i := uint(vrt.Uint64("i"))
	j := uint(vrt.Uint64("j"))
	vrt.Assume(i < 256 && j < 256)
	hadI, hadJ := s.has(i), s.has(j)
	first := s.insert(i)
	vrt.Observe("first", first)
	vrt.Cover("end")
	vrt.Assert("C08/uset/first-iff-absent", first == !hadI)
	vrt.Assert("C08/uset/present-after", s.has(i))
	if j != i {
		vrt.Assert("C08/uset/others-unchanged", s.has(j) == hadJ)
	}
	vrt.Assert("C08/uset/second-insert-not-first", !s.insert(i))
}

// VerifC08Map: duplicate names are rejected for map targets whether or not the name is
// already a key of the destination map (the map unmarshaler tracks the names seen in the
// input separately from the entries that exist before the call). The destination is
// pre-populated with the key "a" when prefilled; names are symbolic bytes.
func VerifC08Map(tmpl string, prefilled, allowDup bool) {
	b := vrt.Template("b", tmpl)
	m := map[string]int8{}
	if prefilled {
		m["a"] = 9
	}
	var err error
	if allowDup {
		err = Unmarshal(b, &m, jsontextAllowDup())
	} else {
		err = Unmarshal(b, &m)
	}
	valid := zzspecValid(b, !allowDup)
	vrt.Observe("errnil", err == nil)
	if !valid {
		vrt.Cover("reject")
		vrt.Assert("C08/map/duplicate-or-invalid-rejected", err != nil)
		return
	}
	vrt.Cover("accept")
	vrt.Assert("C08/map/valid-accepted", err == nil)
}

func jsontextAllowDup() Options { return jsontext.AllowDuplicateNames(true) }

func zzspecValid(b []byte, unique bool) bool { return zzspec.ValidText(b, true, unique, 10000) }

type zz08Sub struct {
	A int8 `json:"a"`
	B int8 `json:"b"`
}
type zz08TStruct struct {
	X zz08Sub `json:"x"`
}
type zz08TMap struct {
	X map[string]int8 `json:"x"`
}
type zz08TAny struct {
	X any `json:"x"`
}
type zz08TRaw struct {
	X jsontext.Value `json:"x"`
}
type zz08TUnknown struct {
	Y int8 `json:"y"`
}
type zz08TFallbackRaw struct {
	Y int8           `json:"y"`
	F jsontext.Value `json:",embed"`
}
type zz08TFallbackMap struct {
	Y int8           `json:"y"`
	F map[string]any `json:",embed"`
}
type zz08TPtr struct {
	X *map[string]int8 `json:"x"`
}

// VerifC08Targets: an object with two members nested under "x" (names with symbolic bytes,
// raw or escaped) is unmarshaled into a target in which that position is: 0 a struct (both
// names resolve to fields or are unknown), 1 a map, 2 an untyped any, 3 a raw jsontext.Value,
// 4 a skipped unknown member, 5 an embedded raw fallback, 6 an embedded map fallback,
// 7 a pointer to a map. Under default options the call fails iff the two names are equal
// after unescaping (or the text is otherwise invalid); with AllowDuplicateNames it is accepted.
func VerifC08Targets(tmpl string, target int, allowDup bool) {
	b := vrt.Template("b", tmpl)
	var opts []Options
	if allowDup {
		opts = append(opts, jsontextAllowDup())
	}
	var err error
	switch target {
	case 0:
		err = Unmarshal(b, new(zz08TStruct), opts...)
	case 1:
		err = Unmarshal(b, new(zz08TMap), opts...)
	case 2:
		err = Unmarshal(b, new(zz08TAny), opts...)
	case 3:
		err = Unmarshal(b, new(zz08TRaw), opts...)
	case 4:
		err = Unmarshal(b, new(zz08TUnknown), opts...)
	case 5:
		err = Unmarshal(b, new(zz08TFallbackRaw), opts...)
	case 6:
		err = Unmarshal(b, new(zz08TFallbackMap), opts...)
	default:
		err = Unmarshal(b, new(zz08TPtr), opts...)
	}
	valid := zzspecValid(b, !allowDup)
	vrt.Observe("errnil", err == nil)
	if !valid {
		vrt.Cover("reject")
		vrt.Assert("C08/targets/duplicate-or-invalid-rejected", err != nil)
		return
	}
	vrt.Cover("accept")
	vrt.Assert("C08/targets/valid-accepted", err == nil)
}
