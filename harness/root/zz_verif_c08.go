package json

import (
	"github.com/go-json-experiment/json/internal/zzverif/vrt"
	"github.com/go-json-experiment/json/internal/zzverif/zzspec"
	"github.com/go-json-experiment/json/jsontext"
)

// VerifC08UintSet: uintSet behaves as a mathematical set of field indices from an ARBITRARY
// pre-state (arbitrary lo word, hiLen arbitrary words): insert(i) reports "first insertion"
// exactly when i was absent, afterwards i is present and the membership of every other
// index j is unchanged. One step from an arbitrary state covers every insertion history.
// This is the bit-set that rejects two members resolving to the same struct field.
func VerifC08UintSet(hiLen int) {
	var s uintSet
	s.lo = uintSet64(vrt.Uint64("lo"))
	for k := 0; k < hiLen; k++ {
		s.hi = append(s.hi, uintSet64(vrt.Uint64("hi"+string(rune('0'+k)))))
	}
	i := uint(vrt.Uint64("i"))
	j := uint(vrt.Uint64("j"))
	vrt.Assume(i < 256 && j < 256)
	hadI, hadJ := s.has(i), s.has(j)
	first := s.insert(i)
	vrt.Observe("first", first)
	vrt.Cover("end")
	vrt.Assert("C08/uset/first-iff-absent", first == !hadI)
	vrt.Assert("C08/uset/present-after", s.has(i))
	if j != i {
		vrt.Assert("C08/uset/others-unchanged", s.has(j) == hadJ)
	}
	vrt.Assert("C08/uset/second-insert-not-first", !s.insert(i))
}

// VerifC08Map: duplicate names are rejected for map targets whether or not the name is
// already a key of the destination map (the map unmarshaler tracks the names seen in the
// input separately from the entries that exist before the call). The destination is
// pre-populated with the key "a" when prefilled; names are symbolic bytes.
func VerifC08Map(tmpl string, prefilled, allowDup bool) {
	b := vrt.Template("b", tmpl)
	m := map[string]int8{}
	if prefilled {
		m["a"] = 9
	}
	var err error
	if allowDup {
		err = Unmarshal(b, &m, jsontextAllowDup())
	} else {
		err = Unmarshal(b, &m)
	}
	valid := zzspecValid(b, !allowDup)
	vrt.Observe("errnil", err == nil)
	if !valid {
		vrt.Cover("reject")
		vrt.Assert("C08/map/duplicate-or-invalid-rejected", err != nil)
		return
	}
	vrt.Cover("accept")
	vrt.Assert("C08/map/valid-accepted", err == nil)
}

func jsontextAllowDup() Options { return jsontext.AllowDuplicateNames(true) }

func zzspecValid(b []byte, unique bool) bool { return zzspec.ValidText(b, true, unique, 10000) }
