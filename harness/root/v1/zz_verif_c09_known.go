package json

import (
	"bytes"
	stdjson "encoding/json"

	"github.com/go-json-experiment/json/internal/zzverif/vrt"
	"github.com/go-json-experiment/json/internal/zzverif/zzspec"
)

// Three further differences between package v1 and the classic encoding/json, first reported
// by a seeding sub-agent and reproduced natively; each is a recorded known finding whose
// region is stated in the AssertKF call, so any OTHER disagreement in these harnesses is
// still a violation.

type zz09kE struct{ Foo int8 }
type zz09kS struct {
	zz09kE
	FOO int8
}

// VerifC09Diff: tmpl has symbolic holes; kind 0 a 4-byte member name into map[int8]int8 (the name "null"
// is the finding); kind 1 a member name of 3 symbolic bytes into a struct where the embedded
// field Foo and the direct field FOO both fold to it; kind 2 Encoder with SetEscapeHTML(false)
// writing a RawMessage string literal with 3 symbolic bytes (U+2028/U+2029 are the finding).
func VerifC09Diff(kind int, tmpl string) {
	switch kind {
	case 0:
		doc := vrt.Template("doc", tmpl) // {"nul?":1}, {"?ull":1}, {"n?l?":1}
		name := doc[2:6]
		var m1, m2 map[int8]int8
		e1 := Unmarshal(doc, &m1)
		e2 := stdjson.Unmarshal(doc, &m2)
		vrt.AssertKF("C09/diff/mapkey-same-success", (e1 == nil) == (e2 == nil), "KF-C09-map-key-null", string(name) == "null")
		if e1 == nil && e2 == nil {
			vrt.Cover("both-accept")
			same := len(m1) == len(m2)
			for k, v := range m1 {
				if w, ok := m2[k]; !ok || w != v {
					same = false
				}
			}
			vrt.Assert("C09/diff/mapkey-same-value", same)
		}
	case 1:
		doc := vrt.Template("doc", tmpl) // {"?o?":1}, {"f??":1}
		name := doc[2:5]
		var s1, s2 zz09kS
		e1 := Unmarshal(doc, &s1)
		e2 := stdjson.Unmarshal(doc, &s2)
		vrt.Assert("C09/diff/fold-same-success", (e1 == nil) == (e2 == nil))
		if e1 == nil && e2 == nil {
			vrt.Cover("both-accept")
			lower := func(c byte) byte {
				if c >= 'A' && c <= 'Z' {
					return c + 32
				}
				return c
			}
			folds := lower(name[0]) == 'f' && lower(name[1]) == 'o' && lower(name[2]) == 'o'
			exact := string(name) == "Foo" || string(name) == "FOO"
			vrt.AssertKF("C09/diff/fold-same-field", s1 == s2, "KF-C09-fold-precedence", folds && !exact)
		}
	default:
		lit := vrt.Template("lit", tmpl) // "???"
		vrt.Assume(zzspec.ScanString(lit, 0, true) == len(lit))
		var b1, b2 bytes.Buffer
		en1 := NewEncoder(&b1)
		en1.SetEscapeHTML(false)
		en2 := stdjson.NewEncoder(&b2)
		en2.SetEscapeHTML(false)
		e1 := en1.Encode(RawMessage(lit))
		e2 := en2.Encode(stdjson.RawMessage(lit))
		vrt.Assert("C09/diff/raw-same-success", (e1 == nil) == (e2 == nil))
		js := lit[1] == 0xE2 && lit[2] == 0x80 && (lit[3] == 0xA8 || lit[3] == 0xA9)
		vrt.AssertKF("C09/diff/raw-same-bytes", bytes.Equal(b1.Bytes(), b2.Bytes()), "KF-C09-rawmessage-js-escape", js)
		vrt.Cover("encoded")
	}
}

// Pointer-receiver methods on fields of addressable and non-addressable structs, directly and
// promoted through a struct embedded by value: v1 must call them exactly where the classic
// package does.
type zz09kPM struct{ X int8 }

func (p *zz09kPM) MarshalJSON() ([]byte, error) { return []byte(`"called"`), nil }

type zz09kPT struct{ Y int8 }

func (p *zz09kPT) MarshalText() ([]byte, error) { return []byte("text"), nil }

type zz09kInner struct {
	F zz09kPM
	T zz09kPT
}
type zz09kOuter struct {
	zz09kInner
	G zz09kPM
}

// VerifC09PointerMethods: the value sits at a solver-chosen position: 0 passed by value,
// 1 by pointer, 2 map value, 3 slice element, 4 array element of an array passed by value,
// 5 behind an interface, 6 field of a struct passed by value.
func VerifC09PointerMethods() {
	o := zz09kOuter{zz09kInner{zz09kPM{int8(vrt.Byte("x"))}, zz09kPT{2}}, zz09kPM{3}}
	var v any
	switch vrt.Choice("pos", 7) {
	case 0:
		v = o
	case 1:
		v = &o
	case 2:
		v = map[string]zz09kOuter{"k": o}
	case 3:
		v = []zz09kOuter{o}
	case 4:
		v = [1]zz09kOuter{o}
	case 5:
		v = []any{o}
	default:
		v = struct{ O zz09kOuter }{o}
	}
	b1, e1 := Marshal(v)
	b2, e2 := stdjson.Marshal(v)
	vrt.Assert("C09/ptrmethods/same-success", (e1 == nil) == (e2 == nil))
	vrt.Assert("C09/ptrmethods/same-bytes", e1 != nil || e2 != nil || bytes.Equal(b1, b2))
	vrt.Cover("compared")
}
