package json

import (
	"bytes"
	stdjson "encoding/json"

	"github.com/go-json-experiment/json/internal/zzverif/vrt"
	"github.com/go-json-experiment/json/internal/zzverif/zzspec"
)

// zzC09Input draws the common input: tmpl == "" means n symbolic bytes restricted to
// alphabet alpha (0 = all 256 values); otherwise the skeleton tmpl with '?' holes, the holes
// restricted to alphabet alpha.
func zzC09Input(n, alpha int, tmpl string) []byte {
	if tmpl != "" {
		b := vrt.Template("h", tmpl)
		if alpha != 0 {
			hs := make([]byte, 0, len(tmpl))
			for i := 0; i < len(tmpl); i++ {
				if tmpl[i] == '?' {
					hs = append(hs, b[i])
				}
			}
			vrt.Assume(zzspec.InAlphabet(hs, alpha))
		}
		return b
	}
	b := vrt.Bytes("b", n)
	if alpha == 0 {
		vrt.InputBits(8 * n)
	} else {
		vrt.Assume(zzspec.InAlphabet(b, alpha))
	}
	return b
}

// VerifC09Valid: v1.Valid agrees with the classic encoding/json.Valid.
func VerifC09Valid(n, alpha int, tmpl string) {
	b := zzC09Input(n, alpha, tmpl)
	got := Valid(b)
	want := stdjson.Valid(b)
	vrt.Observe("got", got)
	vrt.Observe("want", want)
	if want {
		vrt.Cover("accept")
	} else {
		vrt.Cover("reject")
	}
	vrt.Assert("C09/valid/same-verdict", got == want)
}

// VerifC09Compact: v1.Compact and the classic Compact succeed or fail together and append
// identical bytes on success.
func VerifC09Compact(n, alpha int, tmpl string) {
	b := zzC09Input(n, alpha, tmpl)
	var d1, d2 bytes.Buffer
	d1.WriteString("#")
	d2.WriteString("#")
	err1 := Compact(&d1, b)
	err2 := stdjson.Compact(&d2, b)
	vrt.Observe("err1nil", err1 == nil)
	vrt.Observe("err2nil", err2 == nil)
	vrt.Assert("C09/compact/same-success", (err1 == nil) == (err2 == nil))
	if err2 == nil {
		vrt.Cover("accept")
		vrt.Observe("out1", d1.Bytes())
		vrt.Observe("out2", d2.Bytes())
		vrt.Assert("C09/compact/same-bytes", bytes.Equal(d1.Bytes(), d2.Bytes()))
	} else {
		vrt.Cover("reject")
	}
}

func zzC09Blank(s string) bool {
	for i := 0; i < len(s); i++ {
		if s[i] != ' ' && s[i] != '\t' {
			return false
		}
	}
	return true
}

// zzC09TrailingStart returns the index at which the run of JSON whitespace ending b starts.
func zzC09TrailingStart(b []byte) int {
	t := len(b)
	for t > 0 && (b[t-1] == ' ' || b[t-1] == '\t' || b[t-1] == '\r' || b[t-1] == '\n') {
		t--
	}
	return t
}

// zzC09KFRegion delimits known finding KF-C09-indent-trailing-ws on valid input. It applies
// when prefix or indent contains a character other than space/tab: v1 then formats with
// placeholder spaces and afterwards rewrites the run of spaces after EVERY newline of what it
// appended with prefix+indent+indent+..., and that includes the whitespace preserved from
// the end of the input, which classic encoding/json copies verbatim. In the region = that
// whitespace contains a newline directly followed by k >= 1 spaces and the first k bytes of
// prefix+indent+indent+... are not all spaces. (Checked to be exact, both directions, on the
// skeletons 1?? [1]??? {"a":1}\n?<sp> 1\n<sp>?? 1???? over Sigma24 for nine prefix/indent pairs.)
// Callers must have excluded zzC09MayHang.
func zzC09KFRegion(b []byte, prefix, indent string) (in bool) {
	if zzC09Blank(prefix) && zzC09Blank(indent) {
		return false
	}
	for i := zzC09TrailingStart(b); i < len(b); i++ {
		if b[i] != '\n' {
			continue
		}
		for j := 0; i+1+j < len(b) && b[i+1+j] == ' ' && !in; j++ {
			c := byte(0)
			if j < len(prefix) {
				c = prefix[j]
			} else {
				c = indent[(j-len(prefix))%len(indent)]
			}
			in = c != ' '
		}
	}
	return in
}

// zzC09MayHang over-approximates the sub-region of the same finding in which v1.Indent does
// not return at all: prefix non-blank, indent empty, and a rewritten run has more than
// len(prefix) spaces (the rewrite loop then copies zero bytes forever). On valid input the
// rewritten runs are those of the trailing whitespace; on invalid input AppendFormat hands
// back dst+src, so every newline of the input counts. This predicate does not look at
// validity (it must be decided before v1.Indent is called): any newline followed by more
// than len(prefix) spaces.
func zzC09MayHang(b []byte, prefix, indent string) bool {
	if indent != "" || zzC09Blank(prefix) {
		return false
	}
	for i := 0; i < len(b); i++ {
		if b[i] != '\n' {
			continue
		}
		k := 0
		for i+1+k < len(b) && b[i+1+k] == ' ' {
			k++
		}
		if k > len(prefix) {
			return true
		}
	}
	return false
}

// VerifC09Indent: v1.Indent and the classic Indent succeed or fail together and append
// identical bytes on success (prefix and indent concrete per obligation).
// Disagreements inside zzC09KFRegion are attributed to KF-C09-indent-trailing-ws; anywhere
// else they are violations.
func VerifC09Indent(n, alpha int, tmpl, prefix, indent string) {
	b := zzC09Input(n, alpha, tmpl)
	var d1, d2 bytes.Buffer
	d1.WriteString("#")
	d2.WriteString("#")
	// (Before fix 4952b30 v1.Indent did not return on the inputs of zzC09MayHang; they are no
	// longer cut: a regression shows up as an unwinding failure of this obligation.)
	err1 := Indent(&d1, b, prefix, indent)
	err2 := stdjson.Indent(&d2, b, prefix, indent)
	inKF := err2 == nil && zzC09KFRegion(b, prefix, indent)
	if inKF {
		vrt.Cover("kf-region")
	}
	vrt.Observe("err1nil", err1 == nil)
	vrt.Observe("err2nil", err2 == nil)
	vrt.Assert("C09/indent/same-success", (err1 == nil) == (err2 == nil))
	if err2 == nil {
		vrt.Cover("accept")
		vrt.Observe("out1", d1.Bytes())
		vrt.Observe("out2", d2.Bytes())
		vrt.AssertKF("C09/indent/same-bytes", bytes.Equal(d1.Bytes(), d2.Bytes()), "KF-C09-indent-trailing-ws", inKF)
	} else {
		vrt.Cover("reject")
	}
}

// VerifC09HTML: v1.HTMLEscape and the classic HTMLEscape append identical bytes for every
// byte string (neither validates). In a skeleton the letters X, Y, Z, W stand for the bytes
// 0xE2, 0x80, 0xA8, 0xA9 (U+2028 = E2 80 A8, U+2029 = E2 80 A9).
func VerifC09HTML(n, alpha int, tmpl string) {
	b := zzC09Input(n, alpha, tmpl)
	for i := 0; i < len(tmpl); i++ {
		switch tmpl[i] {
		case 'X':
			b[i] = 0xE2
		case 'Y':
			b[i] = 0x80
		case 'Z':
			b[i] = 0xA8
		case 'W':
			b[i] = 0xA9
		}
	}
	var d1, d2 bytes.Buffer
	d1.WriteString("#")
	d2.WriteString("#")
	HTMLEscape(&d1, b)
	stdjson.HTMLEscape(&d2, b)
	vrt.Observe("out1", d1.Bytes())
	vrt.Observe("out2", d2.Bytes())
	if d2.Len() > 1+len(b) {
		vrt.Cover("escaped")
	} else {
		vrt.Cover("verbatim")
	}
	vrt.Assert("C09/html/same-bytes", bytes.Equal(d1.Bytes(), d2.Bytes()))
}
