package json

import (
	"bytes"
	stdjson "encoding/json"
	"io"
	"math"

	"github.com/go-json-experiment/json/internal/zzverif/vrt"
)

// ---------------------------------------------------------------------------------------
// Type families. Every type is handed, unchanged, to BOTH packages (package v1 and the
// standard library's encoding/json): only types and struct tags with a meaning in both are
// used (no v2-only tag options, no single-quoted names).

// family 0: struct tags
type zz09tTags struct {
	A int8   `json:"a"`
	B string `json:"bee,omitempty"`
	C bool   `json:",omitempty"`
	D int8   `json:"d,omitzero"`
	E int8   `json:"e,string"`
	F string `json:"-"`
	G string `json:"-,"`
	H bool   `json:"h,string"`
	I string `json:"i,string"`
	J int8   `json:"j,omitempty"`
	u int8
}

// family 1: embedding (unexported struct by value, exported struct by pointer, name conflict
// Y at equal depth, shadowing of the promoted Z by the tagged field Z2)
type zz09tEmb struct {
	X int8 `json:"x"`
	Y string
}

type ZZ09tEmbP struct {
	Z int8
	Y string
	V bool `json:"v,omitempty"`
	K int8 `json:"k"`
}

type zz09tOuter struct {
	zz09tEmb
	*ZZ09tEmbP
	W  bool
	Z2 int8 `json:"Z"`
}

// family 2: maps (string keys, integer keys)
type zz09tMaps struct {
	M map[string]int8 `json:"m"`
	N map[int8]string `json:"n"`
	O map[string]bool `json:"o,omitempty"`
}

// family 3: slices and arrays
type zz09tSeq struct {
	Y  []byte   `json:"y"`
	A  [2]int8  `json:"a"`
	L  []int8   `json:"l"`
	BA [2]byte  `json:"ba"`
	S  []string `json:"s,omitempty"`
	Z  [0]int8  `json:"z,omitempty"`
}

// family 4: pointers and interfaces
type zz09tPtr struct {
	P  *int8   `json:"p"`
	Q  *string `json:"q,omitempty"`
	PP **bool  `json:"pp"`
	I  any     `json:"i"`
	J  any     `json:"j,omitempty"`
	PS *int8   `json:"ps,string"`
}

// family 5: user methods
type zz09tMJ struct{ B []byte } // MarshalJSON / UnmarshalJSON, value / pointer receiver

func (m zz09tMJ) MarshalJSON() ([]byte, error) { return append([]byte(nil), m.B...), nil }
func (m *zz09tMJ) UnmarshalJSON(b []byte) error {
	m.B = append([]byte("J:"), b...)
	return nil
}

type zz09tMT struct{ B []byte } // MarshalText / UnmarshalText

func (m zz09tMT) MarshalText() ([]byte, error) { return append([]byte(nil), m.B...), nil }
func (m *zz09tMT) UnmarshalText(b []byte) error {
	m.B = append([]byte("T:"), b...)
	return nil
}

type zz09tPJ struct{ B []byte } // MarshalJSON on the pointer receiver only

func (m *zz09tPJ) MarshalJSON() ([]byte, error) { return append([]byte(nil), m.B...), nil }

type zz09tKey int8 // map key with MarshalText / UnmarshalText

func (k zz09tKey) MarshalText() ([]byte, error) { return []byte{'k', byte('a' + k&3)}, nil }
func (k *zz09tKey) UnmarshalText(b []byte) error {
	if len(b) != 2 || b[0] != 'k' {
		return errZZ09t
	}
	*k = zz09tKey(b[1] - 'a')
	return nil
}

type zz09tErr struct{}

func (*zz09tErr) Error() string { return "zz09t" }

var errZZ09t error = &zz09tErr{}

type zz09tMeth struct {
	J  zz09tMJ          `json:"j"`
	T  zz09tMT          `json:"t"`
	PJ zz09tPJ          `json:"pj"`
	JP *zz09tMJ         `json:"jp,omitempty"`
	K  map[zz09tKey]int `json:"k,omitempty"`
}

// family 6: raw messages (the classic type, which package v1 sees as a []byte type with
// methods, and v1's own type, which the classic package sees the same way)
type zz09tRaw struct {
	R  stdjson.RawMessage  `json:"r"`
	RP *stdjson.RawMessage `json:"rp"`
	RO stdjson.RawMessage  `json:"ro,omitempty"`
	V  RawMessage          `json:"v"`
}

// family 7: strings (escaping) and floats
type zz09tStr struct {
	S string          `json:"s"`
	K map[string]int8 `json:"k,omitempty"`
}

type zz09tFlt struct {
	F float32 `json:"f,string"`
	G float64 `json:"g,string"`
	H float32 `json:"h"`
}

const zz09tDev = false // true (development only): tolerate the known findings silently

func zz09tItoa(i int) string {
	if i < 10 {
		return string(rune('0' + i))
	}
	return zz09tItoa(i/10) + string(rune('0'+i%10))
}

// zz09tText draws the bytes of a skeleton: '?' = unconstrained byte, %XY (two upper-case
// hexadecimal digits) = the byte 0xXY (harness arguments must stay ASCII), e.g. %E2%80%A8 =
// U+2028, %FF = a byte that is never part of well-formed UTF-8.
func zz09tText(name, tmpl string) []byte {
	hex := func(c byte) byte {
		if c >= 'A' {
			return c - 'A' + 10
		}
		return c - '0'
	}
	sk := make([]byte, 0, len(tmpl))
	var pos []int
	var val []byte
	for i := 0; i < len(tmpl); i++ {
		if tmpl[i] == '%' && i+2 < len(tmpl) {
			pos = append(pos, len(sk))
			val = append(val, hex(tmpl[i+1])<<4|hex(tmpl[i+2]))
			sk = append(sk, '#')
			i += 2
		} else {
			sk = append(sk, tmpl[i])
		}
	}
	b := vrt.Template(name, string(sk))
	for j, p := range pos {
		b[p] = val[j]
	}
	return b
}

func zz09tInt8(name string) int8 { return int8(vrt.Byte(name)) }

// zz09tValue builds the value to marshal: family `kind`, `variant` selects which parts are
// symbolic (at most two symbolic integers per variant: decimal formatting forks per sign and
// digit count) and nil / empty / populated containers; text parts come from skeleton tmpl.
func zz09tValue(kind, variant int, tmpl string) any {
	switch kind {
	case 0:
		v := zz09tTags{A: 1, E: -3, F: "f", G: "g", u: 5}
		switch variant {
		case 0:
			v.A = zz09tInt8("a")
			v.B = string(zz09tText("t", tmpl))
			v.C = vrt.Bool("c")
		case 1:
			v.D = zz09tInt8("d")
			v.H = vrt.Bool("h")
			v.G = string(zz09tText("t", tmpl))
		case 2:
			v.E = zz09tInt8("e")
			v.I = string(zz09tText("t", tmpl))
		default:
			v.J = zz09tInt8("j")
			v.F = string(zz09tText("t", tmpl))
		}
		if vrt.Bool("byptr") {
			return &v
		}
		return v
	case 1:
		v := zz09tOuter{zz09tEmb: zz09tEmb{X: zz09tInt8("x"), Y: "y"}, W: vrt.Bool("w"), Z2: 4}
		if variant == 1 {
			v.ZZ09tEmbP = &ZZ09tEmbP{Z: 9, Y: string(zz09tText("t", tmpl)), V: vrt.Bool("v"), K: zz09tInt8("k")}
		}
		return v
	case 2:
		var v zz09tMaps
		switch variant {
		case 0: // nil maps
		case 1: // string keys: one symbolic key next to the concrete key "b" (equal or not)
			v.M = map[string]int8{}
			v.M["b"] = 2
			v.M[string(zz09tText("t", tmpl))] = zz09tInt8("mv")
			v.N = map[int8]string{}
		case 2: // integer keys
			v.N = map[int8]string{}
			v.N[10] = "x"
			v.N[zz09tInt8("nk")] = string(zz09tText("t", tmpl))
		default:
			v.O = map[string]bool{}
			if vrt.Bool("o1") {
				v.O[string(zz09tText("t", tmpl))] = vrt.Bool("ov")
			}
		}
		return v
	case 3:
		var v zz09tSeq
		switch variant {
		case 0: // nil slices, zero arrays
		case 1:
			v.Y = zz09tText("t", tmpl)
			v.A = [2]int8{zz09tInt8("a0"), -1}
			v.L = []int8{}
			v.S = []string{}
		default:
			v.Y = []byte{}
			v.BA = [2]byte{vrt.Byte("ba0"), 7}
			v.L = []int8{zz09tInt8("l0"), 3}
			v.S = []string{string(zz09tText("t", tmpl))}
		}
		return &v
	case 4:
		var v zz09tPtr
		switch variant {
		case 0: // everything nil
		case 1:
			p := zz09tInt8("p")
			q := string(zz09tText("t", tmpl))
			b := vrt.Bool("b")
			pb := &b
			ps := zz09tInt8("ps")
			v.P, v.Q, v.PP, v.PS = &p, &q, &pb, &ps
		default:
			switch vrt.Choice("ik", 4) {
			case 0:
				v.I = vrt.Bool("ib")
				v.J = vrt.Bool("jb")
			case 1:
				v.I = string(zz09tText("t", tmpl))
				v.J = ""
			case 2:
				var pn *bool
				v.I = pn // non-nil interface holding a nil pointer
				v.J = pn
			default:
				v.I = []any{nil, string(zz09tText("t", tmpl))}
				v.J = map[string]any{}
			}
		}
		return v
	case 5:
		t := zz09tText("t", tmpl)
		var v zz09tMeth
		switch variant {
		case 0: // MarshalJSON output = skeleton (valid or not, with blanks, HTML characters)
			v.J.B = t
			v.T.B = []byte("t")
			v.PJ.B = []byte("1")
		case 1: // MarshalText output = skeleton
			v.J.B = []byte("1")
			v.T.B = t
			v.PJ.B = []byte("1")
		case 2: // pointer-receiver method on an addressable / non-addressable field
			v.J.B = []byte("1")
			v.T.B = []byte("t")
			v.PJ.B = t
			if vrt.Bool("byptr") {
				return &v
			}
		default: // methods behind a pointer and on map keys
			v.J.B = []byte("1")
			v.PJ.B = []byte("1")
			v.JP = &zz09tMJ{B: t}
			v.K = map[zz09tKey]int{1: 2}
			v.K[zz09tKey(zz09tInt8("kk"))] = 1
		}
		return v
	case 6:
		t := zz09tText("t", tmpl)
		var v zz09tRaw
		switch variant {
		case 0:
			v.R = stdjson.RawMessage(t)
			v.V = RawMessage("1")
		case 1:
			r := stdjson.RawMessage(t)
			v.R = stdjson.RawMessage("1")
			v.RP = &r
			v.RO = stdjson.RawMessage(t)
			v.V = RawMessage("1")
		case 2:
			v.R = stdjson.RawMessage("1")
			v.V = RawMessage(t)
		default: // nil raw messages
		}
		if vrt.Bool("byptr") {
			return &v
		}
		return v
	default:
		t := string(zz09tText("t", tmpl))
		switch variant {
		case 0:
			return t
		case 1:
			return zz09tStr{S: t}
		case 2:
			return zz09tStr{K: map[string]int8{t: 1}}
		default:
			return []any{t, map[string]any{t: t}}
		}
	}
}

// VerifC09TMarshal: v1.Marshal / MarshalIndent and the classic functions succeed or fail
// together on the same Go value and return identical bytes (mode 0: Marshal; 1:
// MarshalIndent("", "\t"); 2: MarshalIndent(">", "x")).
func VerifC09TMarshal(kind, variant, mode int, tmpl string) {
	v := zz09tValue(kind, variant, tmpl)
	var o1, o2 []byte
	var e1, e2 error
	switch mode {
	case 0:
		o1, e1 = Marshal(v)
		o2, e2 = stdjson.Marshal(v)
	case 1:
		o1, e1 = MarshalIndent(v, "", "\t")
		o2, e2 = stdjson.MarshalIndent(v, "", "\t")
	default:
		o1, e1 = MarshalIndent(v, ">", "x")
		o2, e2 = stdjson.MarshalIndent(v, ">", "x")
	}
	vrt.Observe("e1nil", e1 == nil)
	vrt.Observe("e2nil", e2 == nil)
	vrt.Assert("C09/marshal/same-success", (e1 == nil) == (e2 == nil))
	if e2 == nil {
		vrt.Cover("ok")
		vrt.Observe("o1", o1)
		vrt.Observe("o2", o2)
		zz09tSameBytes("C09/marshal/same-bytes", o1, o2)
	} else {
		vrt.Cover("error")
	}
}

// zz09tLitFFFD returns b with every six-byte escape \\ufffd replaced by the three bytes of
// U+FFFD (escapes are read left to right, so an escaped backslash is skipped as a unit); with
// deep, the same escape quoted a second time by the `string` tag option (\\\\ufffd) is
// replaced too.
func zz09tLitFFFD(b []byte, deep bool) []byte {
	esc := []byte{'\\', 'u', 'f', 'f', 'f', 'd'}
	esc2 := []byte{'\\', '\\', 'u', 'f', 'f', 'f', 'd'}
	out := make([]byte, 0, len(b))
	for i := 0; i < len(b); {
		switch {
		case deep && bytes.HasPrefix(b[i:], esc2):
			out = append(out, 0xEF, 0xBF, 0xBD)
			i += len(esc2)
		case bytes.HasPrefix(b[i:], esc):
			out = append(out, 0xEF, 0xBF, 0xBD)
			i += len(esc)
		case b[i] == '\\' && i+1 < len(b):
			out = append(out, b[i], b[i+1])
			i += 2
		default:
			out = append(out, b[i])
			i++
		}
	}
	return out
}

// zz09tSameBytes asserts o1 (v1) == o2 (classic). Finding KF-C09-invalid-utf8-literal: for
// ill-formed UTF-8 in a Go string the classic package writes the escape \ufffd, v1 the
// character U+FFFD itself; a disagreement is attributed to that finding only if rewriting
// exactly these escapes in the classic output makes the two outputs identical.
func zz09tSameBytes(label string, o1, o2 []byte) {
	same := bytes.Equal(o1, o2)
	inKF := false
	if !same {
		inKF = bytes.Equal(o1, zz09tLitFFFD(o2, false)) || bytes.Equal(o1, zz09tLitFFFD(o2, true))
		if inKF {
			vrt.Cover("kf-ufffd")
		}
	}
	if zz09tDev {
		vrt.Assert(label, same || inKF)
		return
	}
	vrt.AssertKF(label, same, "KF-C09-invalid-utf8-literal", inKF)
}

// ---------------------------------------------------------------------------------------
// Unmarshal

// zz09tNew returns a pointer to a fresh target of family kind: variant 0 = nil containers and
// pointers next to non-zero scalars, variant 1 = everything populated (sentinel values).
func zz09tNew(kind, variant int) any {
	full := variant == 1
	switch kind {
	case 0:
		return &zz09tTags{A: -5, B: "s", C: true, D: 7, E: 9, F: "f", G: "g", H: true, I: "i", J: 3, u: 1}
	case 1:
		v := &zz09tOuter{zz09tEmb: zz09tEmb{X: 6, Y: "y"}, W: true, Z2: 4}
		if full {
			v.ZZ09tEmbP = &ZZ09tEmbP{Z: 9, Y: "py", V: true, K: 8}
		}
		return v
	case 2:
		v := &zz09tMaps{}
		if full {
			v.M = map[string]int8{"b": 2}
			v.N = map[int8]string{10: "x"}
			v.O = map[string]bool{"o": true}
		}
		return v
	case 3:
		v := &zz09tSeq{A: [2]int8{1, 2}, BA: [2]byte{8, 9}}
		if full {
			v.Y = []byte("yy")
			v.L = []int8{1, 2, 3}
			v.S = []string{"s"}
		}
		return v
	case 4:
		v := &zz09tPtr{}
		if full {
			p, q, b, ps, j := int8(5), "q", true, int8(4), int8(2)
			pb := &b
			v.P, v.Q, v.PP, v.PS = &p, &q, &pb, &ps
			v.I = "old"
			v.J = &j // a non-nil pointer inside an interface is decoded into
		}
		return v
	case 5:
		v := &zz09tMeth{J: zz09tMJ{B: []byte("j")}, T: zz09tMT{B: []byte("t")}, PJ: zz09tPJ{B: []byte("p")}}
		if full {
			v.JP = &zz09tMJ{B: []byte("jp")}
			v.K = map[zz09tKey]int{1: 2}
		}
		return v
	case 6:
		v := &zz09tRaw{R: stdjson.RawMessage("0"), V: RawMessage("0")}
		if full {
			r := stdjson.RawMessage("7")
			v.RP = &r
			v.RO = stdjson.RawMessage("8")
		}
		return v
	case 7:
		return &zz09tFlt{F: 1, G: 2, H: 3}
	case 8:
		var x any = "old"
		if full {
			x = map[string]any{"a": "old"}
		}
		return &x
	default:
		v := &zz09tStr{S: "s"}
		if full {
			v.K = map[string]int8{"k": 1}
		}
		return v
	}
}

func zz09tEqBytes(x, y []byte) bool { return (x == nil) == (y == nil) && bytes.Equal(x, y) }

func zz09tEqI8(x, y *int8) bool { return (x == nil) == (y == nil) && (x == nil || *x == *y) }

// zz09tEqAny compares what Unmarshal stores into an interface (Number of either package by
// its text; a pointer to int8 by its target).
func zz09tEqAny(x, y any) bool {
	switch x := x.(type) {
	case nil:
		return y == nil
	case bool:
		y, ok := y.(bool)
		return ok && x == y
	case string:
		y, ok := y.(string)
		return ok && x == y
	case float64:
		y, ok := y.(float64)
		return ok && zz09tF64bits(x) == zz09tF64bits(y)
	case Number:
		switch y := y.(type) {
		case Number:
			return x == y
		case stdjson.Number:
			return string(x) == string(y)
		}
		return false
	case *int8:
		y, ok := y.(*int8)
		return ok && zz09tEqI8(x, y)
	case []any:
		y, ok := y.([]any)
		if !ok || len(x) != len(y) || (x == nil) != (y == nil) {
			return false
		}
		for i := range x {
			if !zz09tEqAny(x[i], y[i]) {
				return false
			}
		}
		return true
	case map[string]any:
		y, ok := y.(map[string]any)
		if !ok || len(x) != len(y) || (x == nil) != (y == nil) {
			return false
		}
		for k, xv := range x {
			yv, ok := y[k]
			if !ok || !zz09tEqAny(xv, yv) {
				return false
			}
		}
		return true
	}
	return false
}

// zz09tEq compares two targets of family kind field by field (nil and empty containers are
// different, as under reflect.DeepEqual).
func zz09tEq(kind int, a, b any) bool {
	switch kind {
	case 0:
		return *a.(*zz09tTags) == *b.(*zz09tTags)
	case 1:
		x, y := a.(*zz09tOuter), b.(*zz09tOuter)
		if x.zz09tEmb != y.zz09tEmb || x.W != y.W || x.Z2 != y.Z2 || (x.ZZ09tEmbP == nil) != (y.ZZ09tEmbP == nil) {
			return false
		}
		return x.ZZ09tEmbP == nil || *x.ZZ09tEmbP == *y.ZZ09tEmbP
	case 2:
		x, y := a.(*zz09tMaps), b.(*zz09tMaps)
		if (x.M == nil) != (y.M == nil) || (x.N == nil) != (y.N == nil) || (x.O == nil) != (y.O == nil) {
			return false
		}
		if len(x.M) != len(y.M) || len(x.N) != len(y.N) || len(x.O) != len(y.O) {
			return false
		}
		for k, xv := range x.M {
			if yv, ok := y.M[k]; !ok || xv != yv {
				return false
			}
		}
		for k, xv := range x.N {
			if yv, ok := y.N[k]; !ok || xv != yv {
				return false
			}
		}
		for k, xv := range x.O {
			if yv, ok := y.O[k]; !ok || xv != yv {
				return false
			}
		}
		return true
	case 3:
		x, y := a.(*zz09tSeq), b.(*zz09tSeq)
		if !zz09tEqBytes(x.Y, y.Y) || x.A != y.A || x.BA != y.BA {
			return false
		}
		if (x.L == nil) != (y.L == nil) || len(x.L) != len(y.L) || (x.S == nil) != (y.S == nil) || len(x.S) != len(y.S) {
			return false
		}
		for i := range x.L {
			if x.L[i] != y.L[i] {
				return false
			}
		}
		for i := range x.S {
			if x.S[i] != y.S[i] {
				return false
			}
		}
		return true
	case 4:
		x, y := a.(*zz09tPtr), b.(*zz09tPtr)
		if !zz09tEqI8(x.P, y.P) || !zz09tEqI8(x.PS, y.PS) {
			return false
		}
		if (x.Q == nil) != (y.Q == nil) || (x.Q != nil && *x.Q != *y.Q) {
			return false
		}
		if (x.PP == nil) != (y.PP == nil) {
			return false
		}
		if x.PP != nil {
			if (*x.PP == nil) != (*y.PP == nil) || (*x.PP != nil && **x.PP != **y.PP) {
				return false
			}
		}
		return zz09tEqAny(x.I, y.I) && zz09tEqAny(x.J, y.J)
	case 5:
		x, y := a.(*zz09tMeth), b.(*zz09tMeth)
		if !zz09tEqBytes(x.J.B, y.J.B) || !zz09tEqBytes(x.T.B, y.T.B) || !zz09tEqBytes(x.PJ.B, y.PJ.B) {
			return false
		}
		if (x.JP == nil) != (y.JP == nil) || (x.JP != nil && !zz09tEqBytes(x.JP.B, y.JP.B)) {
			return false
		}
		if (x.K == nil) != (y.K == nil) || len(x.K) != len(y.K) {
			return false
		}
		for k, xv := range x.K {
			if yv, ok := y.K[k]; !ok || xv != yv {
				return false
			}
		}
		return true
	case 6:
		x, y := a.(*zz09tRaw), b.(*zz09tRaw)
		if !zz09tEqBytes(x.R, y.R) || !zz09tEqBytes(x.RO, y.RO) || !zz09tEqBytes(x.V, y.V) {
			return false
		}
		return (x.RP == nil) == (y.RP == nil) && (x.RP == nil || zz09tEqBytes(*x.RP, *y.RP))
	case 7:
		x, y := a.(*zz09tFlt), b.(*zz09tFlt)
		return zz09tF32bits(x.F) == zz09tF32bits(y.F) && zz09tF64bits(x.G) == zz09tF64bits(y.G) && zz09tF32bits(x.H) == zz09tF32bits(y.H)
	case 8:
		return zz09tEqAny(*a.(*any), *b.(*any))
	default:
		x, y := a.(*zz09tStr), b.(*zz09tStr)
		if x.S != y.S || (x.K == nil) != (y.K == nil) || len(x.K) != len(y.K) {
			return false
		}
		for k, xv := range x.K {
			if yv, ok := y.K[k]; !ok || xv != yv {
				return false
			}
		}
		return true
	}
}

func zz09tF32bits(f float32) uint32 { return math.Float32bits(f) }
func zz09tF64bits(f float64) uint64 { return math.Float64bits(f) }

// zz09tAfter returns the bytes that follow the first occurrence of `"<name>":"` for one of the
// given member names.
func zz09tAfter(in []byte, names ...string) ([]byte, bool) {
	for i := range in {
		for _, n := range names {
			pat := []byte(`"` + n + `":"`)
			if bytes.HasPrefix(in[i:], pat) {
				return in[i+len(pat):], true
			}
		}
	}
	return nil, false
}

// zz09tQuotedLead delimits finding KF-C09-quoted-number-lead: a numeric member with the
// `string` option (e, ps, f, g of the families above) is given a JSON string whose text does not
// start with '-' or a digit: the classic package rejects it before parsing, v1 hands it to
// strconv, which accepts "+1" and, for floats, ".5", "Inf", "NaN", ...
func zz09tQuotedLead(in []byte) bool {
	rest, ok := zz09tAfter(in, "e", "E", "ps", "PS", "Ps", "pS", "f", "F", "g", "G")
	if !ok || len(rest) == 0 {
		return false
	}
	c := rest[0]
	return c != '-' && (c < '0' || c > '9') && c != '"'
}

// zz09tQuotedStrict delimits finding KF-C09-quoted-string-strict: the string member with the
// `string` option (i) is given "null" or a quoted string with a surrogate escape: the classic
// package accepts both (no effect resp. U+FFFD), v1 reports an error.
func zz09tQuotedStrict(in []byte) bool {
	rest, ok := zz09tAfter(in, "i", "I")
	if !ok {
		return false
	}
	if bytes.HasPrefix(rest, []byte(`null"`)) {
		return true
	}
	return bytes.HasPrefix(rest, []byte(`\"`)) && (bytes.Contains(rest, []byte(`\\ud`)) || bytes.Contains(rest, []byte(`\\uD`)))
}

// VerifC09TUnmarshal: v1.Unmarshal and the classic Unmarshal, given the same input text and
// equal targets of family kind, succeed or fail together; when both succeed the targets are
// equal field by field; when the text is not valid JSON both fail and both targets still hold
// the values they held before. (After a reported semantic error the targets are not compared.)
func VerifC09TUnmarshal(kind, variant int, tmpl string) {
	in := zz09tText("h", tmpl)
	t1, t2 := zz09tNew(kind, variant), zz09tNew(kind, variant)
	in2 := append([]byte(nil), in...)
	e1 := Unmarshal(in, t1)
	e2 := stdjson.Unmarshal(in2, t2)
	vrt.Observe("e1nil", e1 == nil)
	vrt.Observe("e2nil", e2 == nil)
	vrt.Assert("C09/unmarshal/input-not-modified", bytes.Equal(in, in2))
	if (e1 == nil) != (e2 == nil) && !zz09tDev {
		// known findings around the `string` tag option (only these exact shapes are attributed)
		if e1 == nil && zz09tQuotedLead(in) {
			vrt.Cover("kf-lead")
			vrt.AssertKF("C09/unmarshal/same-success", false, "KF-C09-quoted-number-lead", true)
		}
		if e2 == nil && zz09tQuotedStrict(in) {
			vrt.Cover("kf-strict")
			vrt.AssertKF("C09/unmarshal/same-success", false, "KF-C09-quoted-string-strict", true)
		}
	}
	vrt.Assert("C09/unmarshal/same-success", (e1 == nil) == (e2 == nil))
	if e2 == nil {
		vrt.Cover("ok")
		vrt.Assert("C09/unmarshal/same-value", zz09tEq(kind, t1, t2))
		return
	}
	if !stdjson.Valid(in) {
		vrt.Cover("syntax-error")
		fresh := zz09tNew(kind, variant)
		vrt.Assert("C09/unmarshal/invalid-input-leaves-target-untouched", zz09tEq(kind, t1, fresh))
		vrt.Assert("C09/unmarshal/invalid-input-leaves-classic-target-untouched", zz09tEq(kind, t2, fresh))
		return
	}
	vrt.Cover("semantic-error")
}

// ---------------------------------------------------------------------------------------
// Decoder

func zz09tSameTok(a Token, b stdjson.Token) bool {
	switch a := a.(type) {
	case nil:
		return b == nil
	case Delim:
		b, ok := b.(stdjson.Delim)
		return ok && rune(a) == rune(b)
	case bool:
		b, ok := b.(bool)
		return ok && a == b
	case string:
		b, ok := b.(string)
		return ok && a == b
	case float64:
		b, ok := b.(float64)
		return ok && zz09tF64bits(a) == zz09tF64bits(b)
	case Number:
		b, ok := b.(stdjson.Number)
		return ok && string(a) == string(b)
	}
	return false
}

// zz09tDecodeSame asserts equal error-ness of the two Decode calls. KF-C09-decode-at-object-name:
// where a member name is due the classic Decode fails ("not at beginning of value"), v1 returns
// the name as a string.
func zz09tDecodeSame(e1, e2 error, atName bool) {
	vrt.AssertKF("C09/decoder/decode-same-success", (e1 == nil) == (e2 == nil), "KF-C09-decode-at-object-name", atName && e1 == nil && e2 != nil)
}

func zz09tBlankTail(b []byte) bool {
	for _, c := range b {
		if c != ' ' && c != '\t' && c != '\r' && c != '\n' {
			return false
		}
	}
	return true
}

// zz09tSepClose: the text contains ',' or ':' followed, after optional blanks, by ']' or '}'.
func zz09tSepClose(in []byte) bool {
	for i := 0; i < len(in); i++ {
		if in[i] != ',' && in[i] != ':' {
			continue
		}
		j := i + 1
		for j < len(in) && (in[j] == ' ' || in[j] == '\t' || in[j] == '\r' || in[j] == '\n') {
			j++
		}
		if j < len(in) && (in[j] == ']' || in[j] == '}') {
			return true
		}
	}
	return false
}

// VerifC09TDecoder drives a v1.Decoder and a classic Decoder over the same input with the
// same call sequence chosen by the solver (per step: Decode, Token or More; InputOffset
// after every step) until the first error: same error-ness, same decoded values, same
// tokens, same More, same InputOffset. target 0 decodes into an any, 1 into zz09tTags, 2 into
// an int8.
func VerifC09TDecoder(tmpl string, steps, target int, useNumber, disallow bool) {
	in := zz09tText("h", tmpl)
	d1 := NewDecoder(bytes.NewReader(in))
	d2 := stdjson.NewDecoder(bytes.NewReader(append([]byte(nil), in...)))
	if useNumber {
		d1.UseNumber()
		d2.UseNumber()
	}
	if disallow {
		d1.DisallowUnknownFields()
		d2.DisallowUnknownFields()
	}
	vrt.Assert("C09/decoder/offset-initial", d1.InputOffset() == d2.InputOffset())
	for i := 0; i < steps; i++ {
		var e1, e2 error
		off := int(d2.InputOffset())
		atName := false // v1's tokenizer is inside an object where a member name is due
		if k, n := d1.dec.StackIndex(d1.dec.StackDepth()); k == '{' && n%2 == 0 {
			atName = true
		}
		switch vrt.Choice("op"+zz09tItoa(i), 3) {
		case 0:
			if atName {
				vrt.Cover("decode-at-name")
			}
			if target == 0 {
				var x1, x2 any
				e1 = d1.Decode(&x1)
				e2 = d2.Decode(&x2)
				zz09tDecodeSame(e1, e2, atName)
				if e2 == nil {
					vrt.Cover("decoded")
					vrt.Assert("C09/decoder/decode-same-value", zz09tEqAny(x1, x2))
				}
			} else if target == 2 {
				x1, x2 := int8(77), int8(77)
				e1 = d1.Decode(&x1)
				e2 = d2.Decode(&x2)
				zz09tDecodeSame(e1, e2, atName)
				if e2 == nil {
					vrt.Cover("decoded")
					vrt.Assert("C09/decoder/decode-same-value", x1 == x2)
				}
			} else {
				t1, t2 := zz09tNew(0, 0), zz09tNew(0, 0)
				e1 = d1.Decode(t1)
				e2 = d2.Decode(t2)
				zz09tDecodeSame(e1, e2, atName)
				if e2 == nil {
					vrt.Cover("decoded")
					vrt.Assert("C09/decoder/decode-same-value", zz09tEq(0, t1, t2))
				}
			}
		case 1:
			var k1 Token
			var k2 stdjson.Token
			k1, e1 = d1.Token()
			k2, e2 = d2.Token()
			vrt.Assert("C09/decoder/token-same-success", (e1 == nil) == (e2 == nil))
			if e2 == nil {
				vrt.Cover("token")
				vrt.Assert("C09/decoder/token-same", zz09tSameTok(k1, k2))
			} else if e2 == io.EOF {
				vrt.Cover("token-eof")
				vrt.Assert("C09/decoder/token-eof-same", e1 == io.EOF)
				vrt.Assert("C09/decoder/offset-after-eof", d1.InputOffset() == d2.InputOffset())
			}
		default:
			m1, m2 := d1.More(), d2.More()
			if m2 {
				vrt.Cover("more")
			} else {
				vrt.Cover("no-more")
			}
			// KF-C09-more-before-invalid-close: invalid input with ',' or ':' directly before a
			// closing bracket: the classic More looks at the separator, v1 at the bracket
			if m1 && !m2 && zz09tBlankTail(in[off:]) {
				// KF-C09-more-at-truncation: the input ends inside an open array/object: classic
				// More says false, v1 says true (the next Token/Decode fails in both)
				vrt.AssertKF("C09/decoder/more-same", false, "KF-C09-more-at-truncation", true)
			}
			vrt.AssertKF("C09/decoder/more-same", m1 == m2, "KF-C09-more-before-invalid-close", !m1 && m2 && zz09tSepClose(in))
		}
		if e1 != nil || e2 != nil {
			vrt.Cover("error")
			return
		}
		vrt.Assert("C09/decoder/offset-same", d1.InputOffset() == d2.InputOffset())
	}
}

// ---------------------------------------------------------------------------------------
// Encoder

// VerifC09TEncoder: a v1.Encoder and a classic Encoder with the same settings (indent 0: none,
// 1: ("", "\t"), 2: (">", "x"); escapeHTML) write identical bytes for the same two values;
// with reset, indentation is switched off and HTML escaping on between the two values.
func VerifC09TEncoder(kind, variant int, tmpl string, indent int, escapeHTML, reset bool) {
	v := zz09tValue(kind, variant, tmpl)
	var b1, b2 bytes.Buffer
	c1, c2 := NewEncoder(&b1), stdjson.NewEncoder(&b2)
	switch indent {
	case 1:
		c1.SetIndent("", "\t")
		c2.SetIndent("", "\t")
	case 2:
		c1.SetIndent(">", "x")
		c2.SetIndent(">", "x")
	}
	c1.SetEscapeHTML(escapeHTML)
	c2.SetEscapeHTML(escapeHTML)
	e1 := c1.Encode(v)
	e2 := c2.Encode(v)
	vrt.Observe("e1nil", e1 == nil)
	vrt.Observe("e2nil", e2 == nil)
	vrt.Assert("C09/encoder/same-success", (e1 == nil) == (e2 == nil))
	if e2 == nil {
		vrt.Cover("ok")
	} else {
		vrt.Cover("error")
	}
	if reset {
		c1.SetIndent("", "")
		c2.SetIndent("", "")
		c1.SetEscapeHTML(true)
		c2.SetEscapeHTML(true)
	}
	w := map[string]any{"<k>": []any{"a&b", true, nil}, "e": []any{}}
	e1 = c1.Encode(w)
	e2 = c2.Encode(w)
	vrt.Assert("C09/encoder/second-same-success", (e1 == nil) == (e2 == nil))
	vrt.Observe("o1", b1.Bytes())
	vrt.Observe("o2", b2.Bytes())
	zz09tSameBytes("C09/encoder/same-bytes", b1.Bytes(), b2.Bytes())
}
