package json

import (
	"reflect"

	"github.com/go-json-experiment/json/internal/zzverif/vrt"
	"github.com/go-json-experiment/json/internal/zzverif/zzspec"
	"github.com/go-json-experiment/json/jsontext"
)

// Property C15: struct fields map to JSON members by the documented resolution rules.
//
// The struct types below are written by hand to exercise each documented rule. For every type
// zz15Table states, BY HAND FROM THE DOCUMENTATION (doc.go), the list of JSON-representable
// fields in marshal ("depth-first") order; zz15Leaves gives the addresses of the Go fields in
// exactly that order, followed by the fields that must never be read or written (shadowed,
// cancelled, ignored, unexported).

type zz15M = zzspec.Member

// ---- T1: the field at the shallowest depth wins; deeper fields of the same name are excluded.
type Zz15L2 struct{ X, Y, Z int8 }
type Zz15L1 struct {
	Zz15L2
	X int8
	Y int8
}
type zz15T1 struct {
	A int8
	Zz15L1
	X int8
	B int8
}

// ---- T2: ties at equal depth: exactly one explicitly named field wins, otherwise all are dropped
// (and fields of that name further down stay excluded).
type Zz15E4 struct {
	K int8 `json:"K"`
	W int8
}
type Zz15E1 struct {
	K  int8
	M  int8 `json:"M"`
	Q  int8 `json:"q"`
	R  int8
	U1 int8
}
type Zz15E2 struct {
	K int8
	M int8
	Q int8 `json:"q"`
	R int8 `json:"R"`
	S int8
}
type Zz15E3 struct {
	R  int8 `json:"R"`
	U3 int8
	Zz15E4
}
type zz15T2 struct {
	Zz15E1
	Zz15E2
	Zz15E3
}

// ---- T3: embedded pointer to struct, embedded struct of unexported type, embedded non-struct
// with an explicit name (a plain member), the `embed` option on an ordinary field.
type Zz15P struct {
	PA int8
	PB int8 `json:"pb"`
}
type zz15u struct {
	UA int8
	ub int8
}
type Zz15I int8
type Zz15N struct {
	NA int8
	C  int8
}
type zz15T3 struct {
	*Zz15P
	zz15u
	Zz15I `json:"I"`
	C     int8
	N     Zz15N `json:",embed"`
}

// ---- T4: ignored fields, renames, odd names, omitzero / omitempty / string on numbers.
type zz15T4 struct {
	A int8 `json:"-"`
	B int8 `json:"-,omitzero"`
	c int8
	D int8 `json:"d"`
	E int8 `json:",omitzero"`
	F int8 `json:"a_b,omitempty"`
	G int8 `json:"g,string"`
	H int8 `json:"h-1,omitzero,string"`
	I int8 `json:"$%/ x"`
	J int8 `json:"t\tb"`
}

// ---- T5: case:ignore / case:strict / caller's option; exact match preferred; ambiguity.
type zz15T5 struct {
	A int8 `json:"ab"`
	B int8 `json:"AB,case:ignore"`
	C int8 `json:"a_b,case:strict"`
	D int8 `json:"Ab"`
	E int8 `json:"xy,case:ignore"`
	F int8 `json:"x-y,case:ignore"`
	G int8 `json:"gz,case:strict"`
}

// ---- T6: embedded fallback of map type.
type zz15T6 struct {
	A int8            `json:"a"`
	B int8            `json:"b_c,case:ignore"`
	X map[string]int8 `json:",embed"`
}

// ---- T7: embedded fallback of type jsontext.Value one level down.
type Zz15FB struct {
	R jsontext.Value `json:",embed"`
	Q int8
}
type zz15T7 struct {
	A int8 `json:"a"`
	Zz15FB
}

// ---- T8: 70 fields: the per-object set of seen fields outgrows one 64-bit word. The three
// embedded fields come first in marshal order but last in breadth-first order.
type Zz15Big0 struct{ G0, G1, G2 int8 }
type zz15T8 struct {
	Zz15Big0
	F00 int8
	F01 int8
	F02 int8
	F03 int8
	F04 int8
	F05 int8
	F06 int8
	F07 int8
	F08 int8
	F09 int8
	F10 int8
	F11 int8
	F12 int8
	F13 int8
	F14 int8
	F15 int8
	F16 int8
	F17 int8
	F18 int8
	F19 int8
	F20 int8
	F21 int8
	F22 int8
	F23 int8
	F24 int8
	F25 int8
	F26 int8
	F27 int8
	F28 int8
	F29 int8
	F30 int8
	F31 int8
	F32 int8
	F33 int8
	F34 int8
	F35 int8
	F36 int8
	F37 int8
	F38 int8
	F39 int8
	F40 int8
	F41 int8
	F42 int8
	F43 int8
	F44 int8
	F45 int8
	F46 int8
	F47 int8
	F48 int8
	F49 int8
	F50 int8
	F51 int8
	F52 int8
	F53 int8
	F54 int8
	F55 int8
	F56 int8
	F57 int8
	F58 int8
	F59 int8
	F60 int8
	F61 int8
	F62 int8
	F63 int8
	F64 int8
	F65 int8
	F66 int8
}

// ---- T9: nested struct values (not promoted): each level resolves names on its own.
type Zz15In2 struct {
	Y int8
	W int8 `json:"w,case:ignore"`
}
type Zz15In struct {
	X int8 `json:"x"`
	Y int8
	Zz15In2
}
type zz15T9 struct {
	A      int8
	S      Zz15In
	Zz15In `json:"in"`
	W      int8 `json:"x"`
}

// ---- T10: a struct type reached twice at the same depth: everything below it ties.
type Zz15DD struct{ Y int8 }
type Zz15DC struct {
	X int8
	Zz15DD
}
type Zz15DA struct{ Zz15DC }
type Zz15DB struct {
	Zz15DC
	V int8
}
type zz15T10 struct {
	Zz15DA
	Zz15DB
	U int8
}

// ---- T11: a struct type reached at two different depths (the shallower occurrence wins at every
// level below it) and a self-embedding type (the search terminates, the outer field wins).
type Zz15SD struct{ Y int8 }
type Zz15SC struct {
	X int8
	Zz15SD
}
type Zz15SB struct{ Zz15SC }
type Zz15Rec struct {
	R int8
	*Zz15Rec
}
type zz15T11 struct {
	Zz15SC
	Zz15SB
	Zz15Rec
}

// ---- T12: 132 fields: the set of seen fields needs a third 64-bit word.
type zz15T12 struct {
	F000 int8
	F001 int8
	F002 int8
	F003 int8
	F004 int8
	F005 int8
	F006 int8
	F007 int8
	F008 int8
	F009 int8
	F010 int8
	F011 int8
	F012 int8
	F013 int8
	F014 int8
	F015 int8
	F016 int8
	F017 int8
	F018 int8
	F019 int8
	F020 int8
	F021 int8
	F022 int8
	F023 int8
	F024 int8
	F025 int8
	F026 int8
	F027 int8
	F028 int8
	F029 int8
	F030 int8
	F031 int8
	F032 int8
	F033 int8
	F034 int8
	F035 int8
	F036 int8
	F037 int8
	F038 int8
	F039 int8
	F040 int8
	F041 int8
	F042 int8
	F043 int8
	F044 int8
	F045 int8
	F046 int8
	F047 int8
	F048 int8
	F049 int8
	F050 int8
	F051 int8
	F052 int8
	F053 int8
	F054 int8
	F055 int8
	F056 int8
	F057 int8
	F058 int8
	F059 int8
	F060 int8
	F061 int8
	F062 int8
	F063 int8
	F064 int8
	F065 int8
	F066 int8
	F067 int8
	F068 int8
	F069 int8
	F070 int8
	F071 int8
	F072 int8
	F073 int8
	F074 int8
	F075 int8
	F076 int8
	F077 int8
	F078 int8
	F079 int8
	F080 int8
	F081 int8
	F082 int8
	F083 int8
	F084 int8
	F085 int8
	F086 int8
	F087 int8
	F088 int8
	F089 int8
	F090 int8
	F091 int8
	F092 int8
	F093 int8
	F094 int8
	F095 int8
	F096 int8
	F097 int8
	F098 int8
	F099 int8
	F100 int8
	F101 int8
	F102 int8
	F103 int8
	F104 int8
	F105 int8
	F106 int8
	F107 int8
	F108 int8
	F109 int8
	F110 int8
	F111 int8
	F112 int8
	F113 int8
	F114 int8
	F115 int8
	F116 int8
	F117 int8
	F118 int8
	F119 int8
	F120 int8
	F121 int8
	F122 int8
	F123 int8
	F124 int8
	F125 int8
	F126 int8
	F127 int8
	F128 int8
	F129 int8
	F130 int8
	F131 int8
}

// ---- T13: three levels of embedding (field index of length 4), several surviving fields at
// every level.
type Zz15D3 struct{ P, Q, R3 int8 }
type Zz15D2 struct {
	Zz15D3
	M int8
}
type Zz15D1 struct {
	Zz15D2
	N int8
}
type zz15T13 struct {
	A int8
	Zz15D1
	B int8
}

// zz15KFDiamond: recorded known finding (see /verif/known_findings.json): a field reachable only
// through a struct type that is met twice at the same depth is not cancelled (type zz15T10).
const zz15KFDiamond = "KF-C15-diamond-embedding"

// zz15Table: the documented resolution, written by hand (NOT derived by running the code).
func zz15Table(t int) []zz15M {
	switch t {
	case 1:
		// depth 0: A X B; depth 1 (L1): X(shadowed) Y; depth 2 (L2): X(shadowed) Y(shadowed) Z
		return []zz15M{{Name: "A"}, {Name: "Z"}, {Name: "Y"}, {Name: "X"}, {Name: "B"}}
	case 2:
		// K: two untagged at depth 1 -> none (E4.K deeper stays excluded); M: only E1.M tagged -> E1.M;
		// q: two tagged -> none; R: E2.R and E3.R tagged -> none; U1, S, U3, W unique.
		return []zz15M{{Name: "M"}, {Name: "U1"}, {Name: "S"}, {Name: "U3"}, {Name: "W"}}
	case 3:
		return []zz15M{{Name: "PA", UnderPtr: true}, {Name: "pb", UnderPtr: true}, {Name: "UA"}, {Name: "I"}, {Name: "C"}, {Name: "NA"}}
	case 4:
		return []zz15M{{Name: "-", OmitZero: true}, {Name: "d"}, {Name: "E", OmitZero: true}, {Name: "a_b"}, {Name: "g", Quoted: true},
			{Name: "h-1", OmitZero: true, Quoted: true}, {Name: "$%/ x"}, {Name: "t\tb"}}
	case 5:
		return []zz15M{{Name: "ab"}, {Name: "AB", Case: 1}, {Name: "a_b", Case: 2}, {Name: "Ab"}, {Name: "xy", Case: 1}, {Name: "x-y", Case: 1}, {Name: "gz", Case: 2}}
	case 6:
		return []zz15M{{Name: "a"}, {Name: "b_c", Case: 1}}
	case 7:
		return []zz15M{{Name: "a"}, {Name: "Q"}}
	case 8:
		return []zz15M{{Name: "G0"}, {Name: "G1"}, {Name: "G2"}, {Name: "F00"}, {Name: "F01"}, {Name: "F02"}, {Name: "F03"}, {Name: "F04"}, {Name: "F05"}, {Name: "F06"}, {Name: "F07"}, {Name: "F08"}, {Name: "F09"}, {Name: "F10"}, {Name: "F11"}, {Name: "F12"}, {Name: "F13"}, {Name: "F14"}, {Name: "F15"}, {Name: "F16"}, {Name: "F17"}, {Name: "F18"}, {Name: "F19"}, {Name: "F20"}, {Name: "F21"}, {Name: "F22"}, {Name: "F23"}, {Name: "F24"}, {Name: "F25"}, {Name: "F26"}, {Name: "F27"}, {Name: "F28"}, {Name: "F29"}, {Name: "F30"}, {Name: "F31"}, {Name: "F32"}, {Name: "F33"}, {Name: "F34"}, {Name: "F35"}, {Name: "F36"}, {Name: "F37"}, {Name: "F38"}, {Name: "F39"}, {Name: "F40"}, {Name: "F41"}, {Name: "F42"}, {Name: "F43"}, {Name: "F44"}, {Name: "F45"}, {Name: "F46"}, {Name: "F47"}, {Name: "F48"}, {Name: "F49"}, {Name: "F50"}, {Name: "F51"}, {Name: "F52"}, {Name: "F53"}, {Name: "F54"}, {Name: "F55"}, {Name: "F56"}, {Name: "F57"}, {Name: "F58"}, {Name: "F59"}, {Name: "F60"}, {Name: "F61"}, {Name: "F62"}, {Name: "F63"}, {Name: "F64"}, {Name: "F65"}, {Name: "F66"}}
	case 9:
		in := []zz15M{{Name: "x"}, {Name: "Y"}, {Name: "w", Case: 1}}
		return []zz15M{{Name: "A"}, {Name: "S", Sub: in}, {Name: "in", Sub: in}, {Name: "x"}}
	case 10:
		// X twice at depth 2 and Y twice at depth 3 (through DA and through DB), none tagged -> none.
		return []zz15M{{Name: "V"}, {Name: "U"}}
	case 11:
		return []zz15M{{Name: "X"}, {Name: "Y"}, {Name: "R"}}
	case 12:
		return []zz15M{{Name: "F000"}, {Name: "F001"}, {Name: "F002"}, {Name: "F003"}, {Name: "F004"}, {Name: "F005"}, {Name: "F006"}, {Name: "F007"}, {Name: "F008"}, {Name: "F009"}, {Name: "F010"}, {Name: "F011"}, {Name: "F012"}, {Name: "F013"}, {Name: "F014"}, {Name: "F015"}, {Name: "F016"}, {Name: "F017"}, {Name: "F018"}, {Name: "F019"}, {Name: "F020"}, {Name: "F021"}, {Name: "F022"}, {Name: "F023"}, {Name: "F024"}, {Name: "F025"}, {Name: "F026"}, {Name: "F027"}, {Name: "F028"}, {Name: "F029"}, {Name: "F030"}, {Name: "F031"}, {Name: "F032"}, {Name: "F033"}, {Name: "F034"}, {Name: "F035"}, {Name: "F036"}, {Name: "F037"}, {Name: "F038"}, {Name: "F039"}, {Name: "F040"}, {Name: "F041"}, {Name: "F042"}, {Name: "F043"}, {Name: "F044"}, {Name: "F045"}, {Name: "F046"}, {Name: "F047"}, {Name: "F048"}, {Name: "F049"}, {Name: "F050"}, {Name: "F051"}, {Name: "F052"}, {Name: "F053"}, {Name: "F054"}, {Name: "F055"}, {Name: "F056"}, {Name: "F057"}, {Name: "F058"}, {Name: "F059"}, {Name: "F060"}, {Name: "F061"}, {Name: "F062"}, {Name: "F063"}, {Name: "F064"}, {Name: "F065"}, {Name: "F066"}, {Name: "F067"}, {Name: "F068"}, {Name: "F069"}, {Name: "F070"}, {Name: "F071"}, {Name: "F072"}, {Name: "F073"}, {Name: "F074"}, {Name: "F075"}, {Name: "F076"}, {Name: "F077"}, {Name: "F078"}, {Name: "F079"}, {Name: "F080"}, {Name: "F081"}, {Name: "F082"}, {Name: "F083"}, {Name: "F084"}, {Name: "F085"}, {Name: "F086"}, {Name: "F087"}, {Name: "F088"}, {Name: "F089"}, {Name: "F090"}, {Name: "F091"}, {Name: "F092"}, {Name: "F093"}, {Name: "F094"}, {Name: "F095"}, {Name: "F096"}, {Name: "F097"}, {Name: "F098"}, {Name: "F099"}, {Name: "F100"}, {Name: "F101"}, {Name: "F102"}, {Name: "F103"}, {Name: "F104"}, {Name: "F105"}, {Name: "F106"}, {Name: "F107"}, {Name: "F108"}, {Name: "F109"}, {Name: "F110"}, {Name: "F111"}, {Name: "F112"}, {Name: "F113"}, {Name: "F114"}, {Name: "F115"}, {Name: "F116"}, {Name: "F117"}, {Name: "F118"}, {Name: "F119"}, {Name: "F120"}, {Name: "F121"}, {Name: "F122"}, {Name: "F123"}, {Name: "F124"}, {Name: "F125"}, {Name: "F126"}, {Name: "F127"}, {Name: "F128"}, {Name: "F129"}, {Name: "F130"}, {Name: "F131"}}
	case 13:
		return []zz15M{{Name: "A"}, {Name: "P"}, {Name: "Q"}, {Name: "R3"}, {Name: "M"}, {Name: "N"}, {Name: "B"}}
	}
	return nil
}

func zz15New(t int) any {
	switch t {
	case 1:
		return new(zz15T1)
	case 2:
		return new(zz15T2)
	case 3:
		return new(zz15T3)
	case 4:
		return new(zz15T4)
	case 5:
		return new(zz15T5)
	case 6:
		return new(zz15T6)
	case 7:
		return new(zz15T7)
	case 8:
		return new(zz15T8)
	case 9:
		return new(zz15T9)
	case 10:
		return new(zz15T10)
	case 11:
		return new(zz15T11)
	case 12:
		return new(zz15T12)
	case 13:
		return new(zz15T13)
	}
	return nil
}

// zz15Leaves: addresses of the scalar Go fields, first those of zz15Table in its depth-first
// order, then the fields that are not JSON-representable. Entries behind a nil embedded pointer
// are nil unless alloc is set.
func zz15Leaves(t int, v any, alloc bool) []*int8 {
	switch x := v.(type) {
	case *zz15T1:
		return []*int8{&x.A, &x.Zz15L1.Zz15L2.Z, &x.Zz15L1.Y, &x.X, &x.B, &x.Zz15L1.Zz15L2.X, &x.Zz15L1.Zz15L2.Y, &x.Zz15L1.X}
	case *zz15T2:
		return []*int8{&x.Zz15E1.M, &x.Zz15E1.U1, &x.Zz15E2.S, &x.Zz15E3.U3, &x.Zz15E3.Zz15E4.W,
			&x.Zz15E1.K, &x.Zz15E1.Q, &x.Zz15E1.R, &x.Zz15E2.K, &x.Zz15E2.M, &x.Zz15E2.Q, &x.Zz15E2.R, &x.Zz15E3.R, &x.Zz15E3.Zz15E4.K}
	case *zz15T3:
		if x.Zz15P == nil && alloc {
			x.Zz15P = new(Zz15P)
		}
		var pa, pb *int8
		if x.Zz15P != nil {
			pa, pb = &x.Zz15P.PA, &x.Zz15P.PB
		}
		return []*int8{pa, pb, &x.zz15u.UA, (*int8)(&x.Zz15I), &x.C, &x.N.NA, &x.zz15u.ub, &x.N.C}
	case *zz15T4:
		return []*int8{&x.B, &x.D, &x.E, &x.F, &x.G, &x.H, &x.I, &x.J, &x.A, &x.c}
	case *zz15T5:
		return []*int8{&x.A, &x.B, &x.C, &x.D, &x.E, &x.F, &x.G}
	case *zz15T6:
		return []*int8{&x.A, &x.B}
	case *zz15T7:
		return []*int8{&x.A, &x.Zz15FB.Q}
	case *zz15T8:
		return []*int8{&x.G0, &x.G1, &x.G2, &x.F00, &x.F01, &x.F02, &x.F03, &x.F04, &x.F05, &x.F06, &x.F07, &x.F08, &x.F09, &x.F10, &x.F11, &x.F12, &x.F13, &x.F14, &x.F15, &x.F16, &x.F17, &x.F18, &x.F19, &x.F20, &x.F21, &x.F22, &x.F23, &x.F24, &x.F25, &x.F26, &x.F27, &x.F28, &x.F29, &x.F30, &x.F31, &x.F32, &x.F33, &x.F34, &x.F35, &x.F36, &x.F37, &x.F38, &x.F39, &x.F40, &x.F41, &x.F42, &x.F43, &x.F44, &x.F45, &x.F46, &x.F47, &x.F48, &x.F49, &x.F50, &x.F51, &x.F52, &x.F53, &x.F54, &x.F55, &x.F56, &x.F57, &x.F58, &x.F59, &x.F60, &x.F61, &x.F62, &x.F63, &x.F64, &x.F65, &x.F66}
	case *zz15T9:
		return []*int8{&x.A, &x.S.X, &x.S.Y, &x.S.Zz15In2.W, &x.Zz15In.X, &x.Zz15In.Y, &x.Zz15In.Zz15In2.W, &x.W, &x.S.Zz15In2.Y, &x.Zz15In.Zz15In2.Y}
	case *zz15T10:
		return []*int8{&x.Zz15DB.V, &x.U, &x.Zz15DA.Zz15DC.X, &x.Zz15DA.Zz15DC.Zz15DD.Y, &x.Zz15DB.Zz15DC.X, &x.Zz15DB.Zz15DC.Zz15DD.Y}
	case *zz15T11:
		return []*int8{&x.Zz15SC.X, &x.Zz15SC.Zz15SD.Y, &x.Zz15Rec.R, &x.Zz15SB.Zz15SC.X, &x.Zz15SB.Zz15SC.Zz15SD.Y}
	case *zz15T13:
		return []*int8{&x.A, &x.P, &x.Q, &x.R3, &x.M, &x.N, &x.B}
	case *zz15T12:
		return []*int8{&x.F000, &x.F001, &x.F002, &x.F003, &x.F004, &x.F005, &x.F006, &x.F007, &x.F008, &x.F009, &x.F010, &x.F011, &x.F012, &x.F013, &x.F014, &x.F015, &x.F016, &x.F017, &x.F018, &x.F019, &x.F020, &x.F021, &x.F022, &x.F023, &x.F024, &x.F025, &x.F026, &x.F027, &x.F028, &x.F029, &x.F030, &x.F031, &x.F032, &x.F033, &x.F034, &x.F035, &x.F036, &x.F037, &x.F038, &x.F039, &x.F040, &x.F041, &x.F042, &x.F043, &x.F044, &x.F045, &x.F046, &x.F047, &x.F048, &x.F049, &x.F050, &x.F051, &x.F052, &x.F053, &x.F054, &x.F055, &x.F056, &x.F057, &x.F058, &x.F059, &x.F060, &x.F061, &x.F062, &x.F063, &x.F064, &x.F065, &x.F066, &x.F067, &x.F068, &x.F069, &x.F070, &x.F071, &x.F072, &x.F073, &x.F074, &x.F075, &x.F076, &x.F077, &x.F078, &x.F079, &x.F080, &x.F081, &x.F082, &x.F083, &x.F084, &x.F085, &x.F086, &x.F087, &x.F088, &x.F089, &x.F090, &x.F091, &x.F092, &x.F093, &x.F094, &x.F095, &x.F096, &x.F097, &x.F098, &x.F099, &x.F100, &x.F101, &x.F102, &x.F103, &x.F104, &x.F105, &x.F106, &x.F107, &x.F108, &x.F109, &x.F110, &x.F111, &x.F112, &x.F113, &x.F114, &x.F115, &x.F116, &x.F117, &x.F118, &x.F119, &x.F120, &x.F121, &x.F122, &x.F123, &x.F124, &x.F125, &x.F126, &x.F127, &x.F128, &x.F129, &x.F130, &x.F131}
	}
	return nil
}

// zz15PtrNil: the embedded pointer of the type (if it has one) is nil.
func zz15PtrNil(v any) bool {
	switch x := v.(type) {
	case *zz15T3:
		return x.Zz15P == nil
	case *zz15T11:
		return x.Zz15Rec.Zz15Rec == nil
	}
	return true
}

func zz15HasFallback(t int) bool { return t == 6 || t == 7 }

// zz15FallbackLeaves: the members held by the embedded fallback, as (unescaped name, raw value).
func zz15FallbackLeaves(v any) (out []zzspec.Leaf, ok bool) {
	switch x := v.(type) {
	case *zz15T6:
		for k, e := range x.X {
			out = append(out, zzspec.Leaf{Path: [][]byte{[]byte(k)}, Raw: []byte(zz15Dec(int(e)))})
		}
		return out, true
	case *zz15T7:
		if len(x.R) == 0 {
			return nil, true
		}
		if !zzspec.ValidText(x.R, true, true, 100) {
			return nil, false
		}
		return zzspec.Flatten(x.R)
	}
	return nil, true
}

func zz15Dec(n int) string {
	if n == 0 {
		return "0"
	}
	s := ""
	for n > 0 {
		s = string(rune('0'+n%10)) + s
		n /= 10
	}
	return s
}

func zz15LeafVal(i int) int { return i%100 + 1 }

// VerifC15Marshal: the members Marshal emits for a value of type number t, and their order, are
// the hand-written table's. state 0: every scalar field holds a distinct non-zero value and the
// embedded pointer is set; 1: the zero value; 2: as 0 with the embedded pointer nil; 3: the zero
// value under OmitZeroStructFields(true). The fallback (if any) holds one member "k":9 in state 0.
func VerifC15Marshal(t, state int) {
	tbl := zz15Table(t)
	v := zz15New(t)
	if state == 0 || state == 2 {
		for i, p := range zz15Leaves(t, v, state == 0) {
			if p != nil {
				*p = int8(zz15LeafVal(i))
			}
		}
	}
	fb := state == 0 && zz15HasFallback(t)
	if fb {
		switch x := v.(type) {
		case *zz15T6:
			x.X = map[string]int8{"k": 9}
		case *zz15T7:
			x.R = jsontext.Value(`{"k":9}`)
		}
	}
	var out []byte
	var err error
	if state == 3 {
		out, err = Marshal(v, OmitZeroStructFields(true))
	} else {
		out, err = Marshal(v)
	}
	vrt.Assert("C15/marshal/no-error", err == nil)
	if err != nil {
		return
	}
	vrt.Observe("out", out)
	vrt.Assert("C15/marshal/valid-json", zzspec.ValidText(out, true, true, 100))
	got, ok := zzspec.Flatten(out)
	vrt.Assert("C15/marshal/is-object", ok)
	vrt.Cover("marshal-done")
	want := zzspec.WantLeaves(tbl, state)
	if state == 3 {
		want = nil // "equivalent to specifying the omitzero tag option on every field": nothing of a zero value is left
	}
	wi, fbSeen := 0, 0
	for _, g := range got {
		if wi < len(want) && zzspec.SamePath(g.Path, want[wi].Path) {
			w := want[wi]
			exp := zz15Dec(zz15LeafVal(w.Leaf))
			if state == 1 || state == 3 {
				exp = "0"
			}
			if w.Quoted {
				exp = `"` + exp + `"`
			}
			vrt.Assert("C15/marshal/member-value-is-its-field", string(g.Raw) == exp)
			wi++
			continue
		}
		// anything else can only be the member of the fallback
		vrt.AssertKF("C15/marshal/only-documented-members", fb && len(g.Path) == 1 && string(g.Path[0]) == "k" && string(g.Raw) == "9",
			zz15KFDiamond, t == 10 && len(g.Path) == 1 && string(g.Path[0]) == "Y")
		fbSeen++
	}
	vrt.Assert("C15/marshal/all-members-in-order", wi == len(want))
	if fb {
		vrt.Assert("C15/marshal/fallback-member-once", fbSeen == 1)
	}
}

func zz15Alpha(b, tmpl []byte, alpha string) {
	var tb [256]bool
	for i := 0; i < len(alpha); i++ {
		tb[alpha[i]] = true
	}
	for i := range tmpl {
		if tmpl[i] == '?' {
			if alpha == "" {
				vrt.Assume(b[i] < 0x80)
			} else {
				vrt.Assume(tb[b[i]])
			}
		}
	}
}

func zz15Unmarshal(in []byte, v any, opt int) error {
	switch opt {
	case 1:
		return Unmarshal(in, v, MatchCaseInsensitiveNames(true))
	case 2:
		return Unmarshal(in, v, RejectUnknownMembers(true))
	case 3:
		return Unmarshal(in, v, MatchCaseInsensitiveNames(true), RejectUnknownMembers(true))
	}
	return Unmarshal(in, v)
}

// zz15ValOf: the number n carried by a raw member value that is `n` or `"n"` (one digit).
func zz15ValOf(raw []byte) (n int8, quoted, ok bool) {
	if len(raw) == 1 && raw[0] >= '0' && raw[0] <= '9' {
		return int8(raw[0] - '0'), false, true
	}
	if len(raw) == 3 && raw[0] == '"' && raw[2] == '"' && raw[1] >= '0' && raw[1] <= '9' {
		return int8(raw[1] - '0'), true, true
	}
	return 0, false, false
}

// VerifC15Unmarshal: the JSON object tmpl (every '?' a symbolic byte drawn from alpha, all ASCII if
// alpha is empty; the holes sit in member NAMES; it has exactly one scalar member whose value is a
// digit or a quoted digit) is unmarshaled into a zero value of type t under options opt (0 default,
// 1 MatchCaseInsensitiveNames, 2 RejectUnknownMembers, 3 both). Exactly the field designated by
// the documented matching rule receives the value; everything else stays untouched; an error is
// returned iff the rules say so.
func VerifC15Unmarshal(t int, tmpl, alpha string, opt int) {
	in := vrt.Template("n", tmpl)
	zz15Alpha(in, []byte(tmpl), alpha)
	tbl := zz15Table(t)
	v := zz15New(t)
	err := zz15Unmarshal(in, v, opt)
	vrt.Observe("errnil", err == nil)
	leaves := zz15Leaves(t, v, false)
	fbGot, fbOK := zz15FallbackLeaves(v)

	if !zzspec.ValidText(in, true, true, 100) {
		vrt.Cover("invalid-json")
		vrt.Assert("C15/unmarshal/invalid-json-rejected", err != nil)
		return
	}
	flat, ok := zzspec.Flatten(in)
	if !ok || len(flat) != 1 {
		vrt.Assert("C15/harness/one-member", false)
		return
	}
	val, isQuoted, okv := zz15ValOf(flat[0].Raw)
	if !okv {
		vrt.Assert("C15/harness/digit-value", false)
		return
	}
	matchCI := opt == 1 || opt == 3
	reject := opt == 2 || opt == 3
	res, m, level := zzspec.Lookup(tbl, flat[0].Path, matchCI)

	wantErr := false
	wantLeaf := -1
	captured := false
	switch {
	case res >= 0:
		if m.Quoted != isQuoted {
			wantErr = true // `string`: a number inside a JSON string is required exactly on the fields that carry the option
			vrt.Cover("string-option-mismatch")
		} else {
			wantLeaf = res
			last := flat[0].Path[len(flat[0].Path)-1]
			if string(last) == m.Name {
				vrt.Cover("exact")
				// the level's table is not at hand here; rivals are only tracked at the top level
				if level == 0 && zzspec.HasFoldedRival(tbl, last, matchCI, zzspec.Resolve(tbl, last, matchCI)) {
					vrt.Cover("exact-preferred-over-folded")
				}
			} else {
				vrt.Cover("folded")
			}
		}
	case res == zzspec.Ambiguous:
		wantErr = true
		vrt.Cover("ambiguous")
	case res == zzspec.Mismatch:
		wantErr = true
		vrt.Cover("shape-mismatch")
	default: // unknown name
		switch {
		case level == 0 && zz15HasFallback(t):
			captured = true
			vrt.Cover("captured")
		case reject:
			wantErr = true
			vrt.Cover("unknown-rejected")
		default:
			vrt.Cover("unknown-ignored")
		}
	}

	// known finding: in the diamond type T10 the name Y (tied at depth 3, hence unknown) is stored into T.A.C.D.Y (leaf 3)
	kf := t == 10 && res == zzspec.Unknown && level == 0 && (string(flat[0].Path[0]) == "Y" || (matchCI && zzspec.SameFolded(flat[0].Path[0], []byte("Y"))))
	vrt.AssertKF("C15/unmarshal/error-iff-documented", (err != nil) == wantErr, zz15KFDiamond, kf)
	for i, p := range leaves {
		if p == nil {
			continue
		}
		if i == wantLeaf {
			vrt.Assert("C15/unmarshal/designated-field-set", *p == val)
		} else {
			vrt.AssertKF("C15/unmarshal/other-fields-untouched", *p == 0, zz15KFDiamond, kf && i == 3)
		}
	}
	if wantLeaf >= 0 {
		vrt.Assert("C15/unmarshal/designated-field-reachable", leaves[wantLeaf] != nil)
	}
	if !wantErr {
		vrt.Assert("C15/unmarshal/embedded-pointer-set-iff-used", zz15PtrNil(v) == !(wantLeaf >= 0 && m.UnderPtr))
	}
	vrt.Assert("C15/unmarshal/fallback-readable", fbOK)
	if captured {
		vrt.Assert("C15/unmarshal/unknown-captured-by-fallback", len(fbGot) == 1 && len(fbGot[0].Path) == 1 &&
			string(fbGot[0].Path[0]) == string(flat[0].Path[0]) && string(fbGot[0].Raw) == string(flat[0].Raw))
	} else {
		vrt.Assert("C15/unmarshal/fallback-untouched", len(fbGot) == 0)
	}
}

// zz15SameLeafSet: got and want hold the same (name, raw value) pairs, in any order.
func zz15SameLeafSet(got, want []zzspec.Leaf) bool {
	if len(got) != len(want) {
		return false
	}
	for _, w := range want {
		found := false
		for _, g := range got {
			if len(g.Path) == 1 && string(g.Path[0]) == string(w.Path[0]) && string(g.Raw) == string(w.Raw) {
				found = true
			}
		}
		if !found {
			return false
		}
	}
	return true
}

// VerifC15Dup: tmpl is an object with exactly two top-level scalar members whose names contain
// the symbolic bytes. Under default duplicate handling Unmarshal must fail iff both names
// designate the same struct field (by exact or, where requested, case-insensitive matching) or
// are equal unknown names -- or one of the single-member error conditions holds. Otherwise both
// values are stored where the rules say.
func VerifC15Dup(t int, tmpl, alpha string, opt int) {
	in := vrt.Template("n", tmpl)
	zz15Alpha(in, []byte(tmpl), alpha)
	tbl := zz15Table(t)
	v := zz15New(t)
	err := zz15Unmarshal(in, v, opt)
	vrt.Observe("errnil", err == nil)
	leaves := zz15Leaves(t, v, false)
	fbGot, fbOK := zz15FallbackLeaves(v)

	if !zzspec.ValidText(in, true, false, 100) {
		vrt.Cover("invalid-json")
		vrt.Assert("C15/dup/invalid-json-rejected", err != nil)
		return
	}
	flat, ok := zzspec.Flatten(in)
	if !ok || len(flat) != 2 || len(flat[0].Path) != 1 || len(flat[1].Path) != 1 {
		vrt.Assert("C15/harness/two-members", false)
		return
	}
	matchCI := opt == 1 || opt == 3
	reject := opt == 2 || opt == 3
	var r [2]int
	var val [2]int8
	otherErr := false
	var wantFB []zzspec.Leaf
	for k := 0; k < 2; k++ {
		name := flat[k].Path[0]
		n, isQuoted, okv := zz15ValOf(flat[k].Raw)
		if !okv {
			vrt.Assert("C15/harness/digit-value", false)
			return
		}
		val[k] = n
		r[k] = zzspec.Resolve(tbl, name, matchCI)
		switch {
		case r[k] >= 0:
			if tbl[r[k]].Sub != nil || tbl[r[k]].Quoted != isQuoted {
				otherErr = true
			}
		case r[k] == zzspec.Ambiguous:
			otherErr = true
		default:
			if zz15HasFallback(t) {
				wantFB = append(wantFB, flat[k])
			} else if reject {
				otherErr = true
			}
		}
	}
	sameField := r[0] >= 0 && r[0] == r[1]
	sameUnknown := r[0] == zzspec.Unknown && r[1] == zzspec.Unknown && string(flat[0].Path[0]) == string(flat[1].Path[0])
	if !otherErr {
		switch {
		case sameField && string(flat[0].Path[0]) == string(flat[1].Path[0]):
			vrt.Cover("dup-same-name-same-field")
		case sameField:
			vrt.Cover("dup-different-names-same-field")
		case sameUnknown:
			vrt.Cover("dup-unknown-name")
		default:
			vrt.Cover("distinct")
		}
	}
	vrt.Assert("C15/dup/error-iff-same-field-or-same-name", (err != nil) == (sameField || sameUnknown || otherErr))
	if err != nil || sameField || sameUnknown || otherErr {
		return
	}
	for i, p := range leaves {
		if p == nil {
			continue
		}
		want := int8(0)
		for k := 0; k < 2; k++ {
			if r[k] >= 0 && i == zzspec.CountLeaves(tbl[:r[k]]) {
				want = val[k]
			}
		}
		vrt.Assert("C15/dup/each-value-in-its-field", *p == want)
	}
	vrt.Assert("C15/dup/fallback-holds-the-unknown-members", fbOK && zz15SameLeafSet(fbGot, wantFB))
}

// VerifC15FallbackDup: marshaling T6 whose fallback map holds one member with a symbolic name of n
// bytes from alpha: the output would carry two members for one struct field exactly when that
// name designates a known field (exactly, or case-insensitively where requested): Marshal must
// fail then (documented at MatchCaseInsensitiveNames), and otherwise emit the member.
func VerifC15FallbackDup(n int, alpha string, matchCI bool) {
	key := vrt.Bytes("k", n)
	tm := make([]byte, n)
	for i := range tm {
		tm[i] = '?'
	}
	zz15Alpha(key, tm, alpha)
	v := &zz15T6{A: 1, B: 2, X: map[string]int8{string(key): 9}}
	var out []byte
	var err error
	if matchCI {
		out, err = Marshal(v, MatchCaseInsensitiveNames(true))
	} else {
		out, err = Marshal(v)
	}
	vrt.Observe("errnil", err == nil)
	r := zzspec.Resolve(zz15Table(6), key, matchCI)
	if r != zzspec.Unknown {
		vrt.Cover("fallback-name-hits-field")
		vrt.Assert("C15/fbdup/rejected", err != nil)
		return
	}
	vrt.Cover("fallback-name-free")
	vrt.Assert("C15/fbdup/accepted", err == nil)
	got, ok := zzspec.Flatten(out)
	vrt.Assert("C15/fbdup/members", ok && len(got) == 3 && zzspec.SamePath(got[0].Path, []string{"a"}) && zzspec.SamePath(got[1].Path, []string{"b_c"}) &&
		len(got[2].Path) == 1 && string(got[2].Path[0]) == string(key) && string(got[2].Raw) == "9")
}

// ---------------------------------------------------------------------------
// omitzero / omitempty

type zz15IZ int8

func (x zz15IZ) IsZero() bool { return x == 7 }

type zz15AllOmit struct {
	V int8 `json:"v,omitzero"`
}

type zz15O struct {
	I  int8            `json:"i,omitzero"`
	S  string          `json:"s,omitzero"`
	L  []int8          `json:"l,omitzero"`
	M  map[string]int8 `json:"m,omitzero"`
	P  *int8           `json:"p,omitzero"`
	N  zz15AllOmit     `json:"n,omitzero"`
	A  any             `json:"a,omitzero"`
	Z  zz15IZ          `json:"z,omitzero"`
	Ie int8            `json:"ie,omitempty"`
	Se string          `json:"se,omitempty"`
	Le []int8          `json:"le,omitempty"`
	Me map[string]int8 `json:"me,omitempty"`
	Pe *string         `json:"pe,omitempty"`
	Ne zz15AllOmit     `json:"ne,omitempty"`
	Ae any             `json:"ae,omitempty"`
	K  int8            `json:"k"`
	Lp []int8          `json:"lp"`
}

const zz15NOmit = 17

var zz15OmitNames = [zz15NOmit]string{"i", "s", "l", "m", "p", "n", "a", "z", "ie", "se", "le", "me", "pe", "ne", "ae", "k", "lp"}

// VerifC15Omit: field number `field` of zz15O takes a symbolic state (nil / empty / non-empty,
// zero / non-zero contents); the other fields are all zero (others=0) or all non-empty
// (others=1). Each member is emitted iff the documented condition of ITS option says so:
// omitzero: the Go value is zero (IsZero() if the type has it); omitempty: the value would
// encode as null, "", {} or []; no option: always.
func VerifC15Omit(field, others int) {
	dc := vrt.Byte("d")
	vrt.Assume(dc >= '0' && dc <= '9')
	d := int8(dc - '0')
	lc := vrt.Byte("c")
	vrt.Assume(lc >= 'a' && lc <= 'z')
	st := vrt.Choice("st", [zz15NOmit]int{1, 2, 3, 3, 2, 1, 3, 1, 1, 2, 3, 3, 3, 1, 5, 1, 3}[field])
	dt := string([]byte{dc})

	var v zz15O
	var emit [zz15NOmit]bool
	var raw [zz15NOmit]string
	one, str := int8(1), "s"
	if others == 1 {
		v = zz15O{I: 1, S: "s", L: []int8{1}, M: map[string]int8{"q": 1}, P: &one, N: zz15AllOmit{1}, A: true, Z: 1,
			Ie: 1, Se: "s", Le: []int8{1}, Me: map[string]int8{"q": 1}, Pe: &str, Ne: zz15AllOmit{1}, Ae: true, K: 1, Lp: []int8{1}}
		for i := range emit {
			emit[i] = true
		}
		raw = [zz15NOmit]string{"1", `"s"`, "[1]", `{"q":1}`, "1", `{"v":1}`, "true", "1", "1", `"s"`, "[1]", `{"q":1}`, `"s"`, `{"v":1}`, "true", "1", "[1]"}
	} else {
		// the zero value: every omitzero member is omitted; omitempty omits "", [], {}, null but not the number 0
		emit[7], raw[7] = true, "0" // z: IsZero() says only 7 is zero
		emit[8], raw[8] = true, "0"
		emit[15], raw[15] = true, "0"
		emit[16], raw[16] = true, "[]"
	}
	f := field
	// the field under test starts from its zero value
	switch field {
	case 1:
		v.S = ""
	case 2:
		v.L = nil
	case 3:
		v.M = nil
	case 4:
		v.P = nil
	case 6:
		v.A = nil
	case 9:
		v.Se = ""
	case 10:
		v.Le = nil
	case 11:
		v.Me = nil
	case 12:
		v.Pe = nil
	case 14:
		v.Ae = nil
	case 16:
		v.Lp = nil
	}
	switch field {
	case 0: // int8, omitzero
		v.I = d
		emit[f], raw[f] = d != 0, dt
	case 1: // string, omitzero
		if st == 1 {
			v.S = string([]byte{lc})
		}
		emit[f], raw[f] = st == 1, `"`+v.S+`"`
	case 2: // slice, omitzero: only nil is zero
		switch st {
		case 1:
			v.L = []int8{}
			raw[f] = "[]"
		case 2:
			v.L = []int8{d}
			raw[f] = "[" + dt + "]"
		}
		emit[f] = st != 0
	case 3: // map, omitzero: only nil is zero
		switch st {
		case 1:
			v.M = map[string]int8{}
			raw[f] = "{}"
		case 2:
			v.M = map[string]int8{"q": d}
			raw[f] = `{"q":` + dt + `}`
		}
		emit[f] = st != 0
	case 4: // pointer, omitzero
		if st == 1 {
			v.P = &d
		}
		emit[f], raw[f] = st == 1, dt
	case 5: // struct, omitzero
		v.N.V = d
		emit[f], raw[f] = d != 0, `{"v":`+dt+`}`
	case 6: // interface, omitzero: only the nil interface is zero
		switch st {
		case 1:
			v.A = false
			raw[f] = "false"
		case 2:
			v.A = ""
			raw[f] = `""`
		}
		emit[f] = st != 0
	case 7: // type with IsZero: zero is what the method says (7), not the Go zero value
		v.Z = zz15IZ(d)
		emit[f], raw[f] = d != 7, dt
	case 8: // int8, omitempty: a number is never empty
		v.Ie = d
		emit[f], raw[f] = true, dt
	case 9: // string, omitempty
		if st == 1 {
			v.Se = string([]byte{lc})
		}
		emit[f], raw[f] = st == 1, `"`+v.Se+`"`
	case 10: // slice, omitempty: nil and empty both encode as []
		switch st {
		case 1:
			v.Le = []int8{}
		case 2:
			v.Le = []int8{d}
			raw[f] = "[" + dt + "]"
		}
		emit[f] = st == 2
	case 11: // map, omitempty
		switch st {
		case 1:
			v.Me = map[string]int8{}
		case 2:
			v.Me = map[string]int8{"q": d}
			raw[f] = `{"q":` + dt + `}`
		}
		emit[f] = st == 2
	case 12: // pointer to string, omitempty: null and "" are empty
		var s string
		switch st {
		case 1:
			v.Pe = &s
		case 2:
			s = string([]byte{lc})
			v.Pe = &s
			raw[f] = `"` + s + `"`
		}
		emit[f] = st == 2
	case 13: // struct, omitempty: empty when all its members are omitted ({})
		v.Ne.V = d
		emit[f], raw[f] = d != 0, `{"v":`+dt+`}`
	case 14: // interface, omitempty: null, "", {} and [] are empty, false is not
		switch st {
		case 1:
			v.Ae = ""
		case 2:
			v.Ae = map[string]any{}
		case 3:
			v.Ae = []any{}
		case 4:
			v.Ae = false
			raw[f] = "false"
		}
		emit[f] = st == 4
	case 15: // no option
		v.K = d
		emit[f], raw[f] = true, dt
	case 16: // no option: a nil slice is emitted as []
		raw[f] = "[]"
		switch st {
		case 1:
			v.Lp = []int8{}
		case 2:
			v.Lp = []int8{d}
			raw[f] = "[" + dt + "]"
		}
		emit[f] = true
	}
	if emit[f] {
		vrt.Cover("emitted")
	} else {
		vrt.Cover("omitted")
	}
	out, err := Marshal(&v)
	vrt.Assert("C15/omit/no-error", err == nil)
	if err != nil {
		return
	}
	vrt.Observe("out", out)
	vrt.Assert("C15/omit/valid-json", zzspec.ValidText(out, true, true, 100))
	// expected members in declaration order; n and ne are objects {"v":d}, which Flatten descends into
	var want []zzspec.Leaf
	for i := 0; i < zz15NOmit; i++ {
		if !emit[i] {
			continue
		}
		if len(raw[i]) > 5 && raw[i][:5] == `{"v":` {
			want = append(want, zzspec.Leaf{Path: [][]byte{[]byte(zz15OmitNames[i]), []byte("v")}, Raw: []byte(raw[i][5 : len(raw[i])-1])})
		} else if len(raw[i]) > 5 && raw[i][:5] == `{"q":` {
			want = append(want, zzspec.Leaf{Path: [][]byte{[]byte(zz15OmitNames[i]), []byte("q")}, Raw: []byte(raw[i][5 : len(raw[i])-1])})
		} else {
			want = append(want, zzspec.Leaf{Path: [][]byte{[]byte(zz15OmitNames[i])}, Raw: []byte(raw[i])})
		}
	}
	got, ok := zzspec.Flatten(out)
	vrt.Assert("C15/omit/is-object", ok)
	same := len(got) == len(want)
	for i := 0; same && i < len(want); i++ {
		if len(got[i].Path) != len(want[i].Path) || string(got[i].Raw) != string(want[i].Raw) {
			same = false
			break
		}
		for k := range want[i].Path {
			if string(got[i].Path[k]) != string(want[i].Path[k]) {
				same = false
			}
		}
	}
	vrt.Assert("C15/omit/member-emitted-iff-documented", same)
}

// ---------------------------------------------------------------------------
// struct types the documentation declares invalid

type zz15Bad1 struct{ a int8 }
type zz15Bad2 struct {
	A int8
	b int8 `json:"b"`
}
type zz15Bad3 struct {
	A int8 `json:"n"`
	B int8 `json:"n"`
}
type zz15Bad4 struct {
	N Zz15N `json:",embed,omitzero"`
}
type zz15Bad5 struct {
	A int8
	Zz15I
}
type zz15Bad6 struct {
	X map[string]int8 `json:",embed"`
	Y jsontext.Value  `json:",embed"`
}
type zz15Bad7 struct {
	S []int8 `json:",string"`
}
type zz15Bad8 struct {
	N Zz15N `json:"n,embed"`
}
type zz15Good1 struct{}
type zz15Good2 struct {
	a int8
	B int8
}

// VerifC15Invalid: struct types that doc.go declares invalid make Marshal and Unmarshal fail
// with a SemanticError; the neighbouring valid types do not.
func VerifC15Invalid(k int) {
	var v any
	in := `{}`
	bad := true
	switch k {
	case 1: // non-empty struct without any JSON representable field
		v = new(zz15Bad1)
	case 2: // unexported field with a json tag other than "-"
		v = new(zz15Bad2)
	case 3: // non-embedded fields of one struct must have unique JSON names
		v = new(zz15Bad3)
	case 4: // embed must not be specified with any other option ...
		v = new(zz15Bad4)
	case 5: // an embedded field must be a struct, jsontext.Value, map[~string]T or pointer to such
		v = new(zz15Bad5)
	case 6: // only one embedded fallback per struct
		v = new(zz15Bad6)
	case 7: // string on an invalid type is a runtime error
		v = &zz15Bad7{S: []int8{1}}
		in = `{"S":[1]}`
	case 8: // ... including the JSON name
		v = new(zz15Bad8)
	case 9:
		v, bad = new(zz15Good1), false
	case 10:
		v, bad = new(zz15Good2), false
	}
	_, errM := Marshal(v)
	errU := Unmarshal([]byte(in), v)
	vrt.Cover("invalid-done")
	if bad {
		_, okM := errM.(*SemanticError)
		_, okU := errU.(*SemanticError)
		vrt.Assert("C15/invalid/marshal-semantic-error", errM != nil && okM)
		vrt.Assert("C15/invalid/unmarshal-semantic-error", errU != nil && okU)
	} else {
		vrt.Assert("C15/invalid/valid-type-accepted", errM == nil && errU == nil)
	}
}

// ---------------------------------------------------------------------------
// the tag grammar

// VerifC15Tag: parseFieldOptions on an exported, non-embedded field F of type int whose struct
// tag is json:"<tmpl>" with every '?' a symbolic byte from alpha: no panic, and the name and
// the options are those of the documented grammar (zzspec.ParseTagRef).
func VerifC15Tag(tmpl, alpha string) {
	t := vrt.Template("t", tmpl)
	zz15Alpha(t, []byte(tmpl), alpha)
	sf := reflect.StructField{Name: "F", Type: reflect.TypeFor[int](), Tag: reflect.StructTag(`json:"` + string(t) + `"`)}
	var out fieldOptions
	var ignored bool
	var err error
	panicked := vrt.Misuse(func() { out, ignored, err = parseFieldOptions(sf) })
	vrt.Assert("C15/tag/no-panic", !panicked)
	if panicked {
		return
	}
	vrt.Observe("errnil", err == nil)
	vrt.Observe("name", out.name)
	ref := zzspec.ParseTagRef(t)
	vrt.Assume(!ref.OutOfModel)
	noOpts := !out.omitzero && !out.omitempty && !out.string && !out.embed && out.casing == 0 && out.format == ""
	switch {
	case !ref.Found:
		vrt.Cover("no-json-tag")
		vrt.Assert("C15/tag/absent-tag-is-go-name", !ignored && err == nil && out.name == "F" && !out.hasName && noOpts)
	case ref.Ignored:
		vrt.Cover("ignored")
		vrt.Assert("C15/tag/dash-ignores", ignored && err == nil)
	case !ref.WellFormed:
		vrt.Cover("malformed")
		vrt.Assert("C15/tag/malformed-reported", err != nil && !ignored)
	default:
		vrt.Cover("well-formed")
		wantName := ref.Name
		if wantName == "" {
			wantName = "F"
		}
		vrt.Assert("C15/tag/not-ignored", !ignored)
		vrt.Assert("C15/tag/name", out.name == wantName && out.hasName == (ref.Name != ""))
		vrt.Assert("C15/tag/quoted-name", out.quotedName == string(zzspec.MinimalQuote([]byte(wantName), false, false)))
		vrt.Assert("C15/tag/options", out.omitzero == ref.OmitZero && out.omitempty == ref.OmitEmpty && out.string == ref.String && out.embed == ref.Embed)
		if ref.BadCase {
			vrt.Cover("bad-case")
			vrt.Assert("C15/tag/bad-case-reported", err != nil)
		} else {
			vrt.Assert("C15/tag/case", out.casing == ref.Case)
		}
		if ref.Clean {
			vrt.Cover("clean")
			vrt.Assert("C15/tag/clean-tag-accepted", err == nil)
		}
	}
}
