package json

import (
	"bytes"
	"errors"
	"github.com/go-json-experiment/json/internal/jsonopts"
	"github.com/go-json-experiment/json/internal/zzverif/vrt"
	"github.com/go-json-experiment/json/internal/zzverif/zzspec"
	"github.com/go-json-experiment/json/jsontext"
)

func zzAnyInput(tmpl string, alpha int) []byte {
	b := vrt.Template("b", tmpl)
	if alpha != 0 {
		holes := 0
		for i := 0; i < len(tmpl); i++ {
			if tmpl[i] == '?' {
				holes++
			}
		}
		// constrain only the holes: re-draw view of them
		k := 0
		for i := 0; i < len(tmpl); i++ {
			if tmpl[i] == '?' {
				vrt.Assume(zzspec.InAlphabet(b[i:i+1], alpha))
				k++
			}
		}
	}
	return b
}

// zzUnmarshalAny runs the untyped fast path the way Unmarshal does for a *any target:
// unmarshalValueAny over a pooled buffered decoder, then the check for trailing data.
func zzUnmarshalAny(b []byte, allowUTF8, allowDup bool) (any, error) {
	dec := export.GetBufferedDecoder(b, jsontext.AllowInvalidUTF8(allowUTF8), jsontext.AllowDuplicateNames(allowDup))
	defer export.PutBufferedDecoder(dec)
	var uo jsonopts.Struct
	uo.Join(jsontext.AllowInvalidUTF8(allowUTF8), jsontext.AllowDuplicateNames(allowDup))
	v, err := unmarshalValueAny(dec, &uo)
	if err == nil {
		err = export.Decoder(dec).CheckEOF()
	}
	return v, err
}

// VerifC01Any: the untyped unmarshal fast path accepts exactly the JSON grammar
// (fourth entry point of C01), and (C03) on acceptance the tree it returns is the exact
// meaning of the text: same shapes, strings by RFC 8259 unescaping, number literals handed
// unchanged to strconv.ParseFloat, array order, exactly the members of each object.
//
// The fast path is only entered by the real caller (arshal_default.go: makeInterfaceArshaler)
// when AllowDuplicateNames is off, so allowDup must be false here (precondition of the unit).
func VerifC01Any(tmpl string, alpha int, allowUTF8, allowDup bool) {
	vrt.Assume(!allowDup)
	b := zzAnyInput(tmpl, alpha)
	got, err := zzUnmarshalAny(b, allowUTF8, allowDup)
	valid := zzspec.ValidText(b, !allowUTF8, !allowDup, 10000)
	vrt.Observe("ok", err == nil)
	if !valid {
		vrt.Cover("reject")
		vrt.Assert("C01/any/reject", err != nil)
		return
	}
	want, inRange := zzspec.ParseAny(b)
	if !inRange {
		vrt.Cover("number-overflow")
		vrt.Assert("C03/any/overflow-is-error", err != nil)
		return
	}
	vrt.Cover("accept")
	vrt.Assert("C01/any/accept", err == nil)
	vrt.Assert("C03/any/exact-meaning", zzspec.EqualAny(got, want))
}

// VerifC03Intern: makeString on an ARBITRARY cache state: whatever string sits in the probed
// slot (same length as b with arbitrary bytes, or a different length), the result equals
// string(b) and the slot holds string(b) afterwards. One step from an arbitrary cache covers
// every history of cache contents. The slot index itself (a hash of b) is computed by the
// real code; the harness fills every slot with the same arbitrary occupant.
func VerifC03Intern(n int, sameLen bool) {
	b := vrt.Bytes("b", n)
	var occ string
	if sameLen {
		occ = vrt.String("occ", n)
	} else {
		occ = vrt.String("occ", n+1)
	}
	var c stringCache
	for i := range c {
		c[i] = occ
	}
	got := makeString(&c, b)
	vrt.Observe("got", got)
	vrt.Cover("end")
	vrt.Assert("C03/intern/result-is-text", got == string(b))
	if n >= 2 && n <= 256 {
		hits := 0
		for i := range c {
			if c[i] == string(b) {
				hits++
			}
		}
		vrt.Assert("C03/intern/cached", hits >= 1)
	}
}

// VerifC03Route: the same tree whichever route is taken through the real Unmarshal:
// target 0: *any (specialised fast path); 1: *any with AllowDuplicateNames(true) (the fast
// path is disabled: generic interface/map/slice arshalers through reflection); 2: a
// map[string]any target; 3: a []any target; 4: UnmarshalRead from a reader into *any; 5: a named
// empty interface; 6: *any with a declining UnmarshalFromFunc for *any.
// Accepted iff the text is valid (and an object/array for the typed targets); on acceptance
// the value equals the reference tree.
type zz03Named interface{}

func VerifC03Route(tmpl string, target int) {
	b := vrt.Template("b", tmpl)
	valid := zzspec.ValidText(b, true, true, 10000)
	var got any
	var err error
	switch target {
	case 0:
		err = Unmarshal(b, &got)
	case 1:
		err = Unmarshal(b, &got, jsontext.AllowDuplicateNames(true))
		if !valid && zzspec.ValidText(b, true, false, 10000) {
			// Text with duplicate names under AllowDuplicateNames: later members are MERGED into
			// earlier ones, which legitimately fails for values of different kinds; its meaning is
			// the subject of C14, not of this route comparison.
			vrt.Cover("duplicates-allowed")
			return
		}
	case 2:
		var m map[string]any
		err = Unmarshal(b, &m)
		if m != nil {
			got = m
		}
	case 3:
		var s []any
		err = Unmarshal(b, &s)
		if s != nil {
			got = s
		}
	case 5: // a named empty interface holding nil
		var n zz03Named
		err = Unmarshal(b, &n)
		got = n
	case 6: // a caller-supplied function for *any that always declines: switches the code path, not the meaning
		err = Unmarshal(b, &got, WithUnmarshalers(UnmarshalFromFunc(func(*jsontext.Decoder, *any) error { return errors.ErrUnsupported })))
	default:
		err = UnmarshalRead(bytes.NewReader(b), &got)
	}
	vrt.Observe("errnil", err == nil)
	if !valid {
		vrt.Cover("reject")
		vrt.Assert("C03/route/invalid-rejected", err != nil)
		return
	}
	want, inRange := zzspec.ParseAny(b)
	if !inRange {
		vrt.Assert("C03/route/overflow-is-error", err != nil)
		return
	}
	// a valid text of the wrong kind for a typed target is a (semantic) error, not a value
	if _, isObj := want.(map[string]any); target == 2 && !isObj && want != nil {
		vrt.Assert("C03/route/kind-mismatch-rejected", err != nil)
		return
	}
	if _, isArr := want.([]any); target == 3 && !isArr && want != nil {
		vrt.Assert("C03/route/kind-mismatch-rejected", err != nil)
		return
	}
	vrt.Cover("accept")
	vrt.Assert("C03/route/valid-accepted", err == nil)
	vrt.Assert("C03/route/same-tree", zzspec.EqualAny(got, want))
}
