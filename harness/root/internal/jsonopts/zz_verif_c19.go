package jsonopts

import (
	"github.com/go-json-experiment/json/internal/jsonflags"
	"github.com/go-json-experiment/json/internal/zzverif/vrt"
)

// zzOpt is one option value of the sequence, together with what the reference needs to
// know about it: which keys it sets and to what.
type zzOpt struct {
	opt    Options
	kind   int
	word   uint64  // Bools word (kind 0)
	s      string  // Indent / IndentPrefix payload
	n      int64   // ByteLimit / DepthLimit payload
	nested *Struct // kind 5
}

func zzIdx(i int) string { return string(rune('0' + i)) }

// zzDrawOpt draws one option of a solver-chosen constructor class.
func zzDrawOpt(i int, allowNested bool) zzOpt {
	k := 6
	if allowNested {
		k = 7
	}
	switch vrt.Choice("kind"+zzIdx(i), k) {
	case 0: // a boolean option: any single flag bit with a true/false value
		bit := uint(vrt.Uint64("bit" + zzIdx(i)))
		vrt.Assume(bit >= 1 && bit <= 42)
		w := uint64(1) << bit
		vrt.Assume(w&uint64(jsonflags.NonBooleanFlags) == 0)
		if vrt.Bool("val" + zzIdx(i)) {
			w |= 1
		}
		return zzOpt{opt: jsonflags.Bools(w), kind: 0, word: w}
	case 1:
		s := vrt.String("ind"+zzIdx(i), 1)
		return zzOpt{opt: Indent(s), kind: 1, s: s}
	case 2:
		s := vrt.String("pre"+zzIdx(i), 1)
		return zzOpt{opt: IndentPrefix(s), kind: 2, s: s}
	case 3:
		n := vrt.Int64("bl" + zzIdx(i))
		return zzOpt{opt: ByteLimit(n), kind: 3, n: n}
	case 4:
		n := vrt.Int64("dl" + zzIdx(i))
		return zzOpt{opt: DepthLimit(int(n)), kind: 4, n: n}
	case 5:
		return zzOpt{opt: nil, kind: 6}
	default: // a nested *Struct built from two further options
		var st Struct
		a, b := zzDrawOpt(i*3+3, false), zzDrawOpt(i*3+4, false)
		st.Join(a.opt, b.opt)
		return zzOpt{opt: &st, kind: 5, nested: &st}
	}
}

// Reference (map model): the value of a key is given by the LAST option in the sequence
// that sets the key; scanning backwards, independent of the forward fold in Struct.Join.

// zzLastBool returns (value, present) of boolean flag bit `bit` after joining seq.
func zzLastBool(seq []zzOpt, bit uint) (bool, bool) {
	m := uint64(1) << bit
	for i := len(seq) - 1; i >= 0; i-- {
		o := seq[i]
		switch o.kind {
		case 0:
			if o.word&m != 0 {
				return o.word&1 != 0, true
			}
		case 1: // Indent also sets Multiline
			if m == uint64(jsonflags.Multiline) {
				return true, true
			}
		case 2: // IndentPrefix also sets Multiline
			if m == uint64(jsonflags.Multiline) {
				return true, true
			}
		case 5:
			if o.nested.Flags.Has(jsonflags.Bools(m)) {
				return o.nested.Flags.Get(jsonflags.Bools(m)), true
			}
		}
	}
	return false, false
}

func zzLastIndent(seq []zzOpt) (string, bool) {
	for i := len(seq) - 1; i >= 0; i-- {
		o := seq[i]
		if o.kind == 1 {
			return o.s, true
		}
		if o.kind == 5 && o.nested.Flags.Has(jsonflags.Indent) {
			return o.nested.Indent, true
		}
	}
	return "", false
}

func zzLastPrefix(seq []zzOpt) (string, bool) {
	for i := len(seq) - 1; i >= 0; i-- {
		o := seq[i]
		if o.kind == 2 {
			return o.s, true
		}
		if o.kind == 5 && o.nested.Flags.Has(jsonflags.IndentPrefix) {
			return o.nested.IndentPrefix, true
		}
	}
	return "", false
}

func zzLastByteLimit(seq []zzOpt) (int64, bool) {
	for i := len(seq) - 1; i >= 0; i-- {
		o := seq[i]
		if o.kind == 3 {
			return o.n, true
		}
		if o.kind == 5 && o.nested.Flags.Has(jsonflags.ByteLimit) {
			return o.nested.ByteLimit, true
		}
	}
	return 0, false
}

func zzLastDepthLimit(seq []zzOpt) (int, bool) {
	for i := len(seq) - 1; i >= 0; i-- {
		o := seq[i]
		if o.kind == 4 {
			return int(o.n), true
		}
		if o.kind == 5 && o.nested.Flags.Has(jsonflags.DepthLimit) {
			return o.nested.DepthLimit, true
		}
	}
	return 0, false
}

func zzAsBool(v bool) Options {
	return nil
}

// VerifC19Join: Struct.Join over every sequence of k options drawn from all constructor
// classes behaves as a last-wins map: for a solver-chosen boolean key and for every
// non-boolean key, presence and value after the join are those of the last option that sets
// the key; passing the options one by one, all at once, or pre-joined in a nested Struct
// gives the same Struct; GetOption returns exactly what the last setter supplied.
func VerifC19Join(k int, allowNested bool) {
	seq := make([]zzOpt, 0, k)
	opts := make([]Options, 0, k)
	for i := 0; i < k; i++ {
		o := zzDrawOpt(i, allowNested)
		seq = append(seq, o)
		opts = append(opts, o.opt)
	}
	var all Struct
	all.Join(opts...)
	var oneByOne Struct
	for _, o := range opts {
		oneByOne.Join(o)
	}
	var nested Struct
	nested.Join(&all)

	bit := uint(vrt.Uint64("key"))
	vrt.Assume(bit >= 1 && bit <= 42 && (uint64(1)<<bit)&uint64(jsonflags.NonBooleanFlags) == 0)
	key := jsonflags.Bools(uint64(1) << bit)
	wantV, wantP := zzLastBool(seq, bit)
	vrt.Cover("end")
	vrt.Assert("C19/join/bool-presence-last-wins", all.Flags.Has(key) == wantP)
	vrt.Assert("C19/join/bool-value-last-wins", all.Flags.Get(key) == (wantP && wantV))
	gv, gok := GetOption(&all, func(v bool) Options {
		if v {
			return key | 1
		}
		return key
	})
	if bit != 0 && key != jsonflags.StringifyNumbers {
		vrt.Assert("C19/join/getoption-bool", gok == wantP && gv == (wantP && wantV))
	}

	ind, indP := zzLastIndent(seq)
	vrt.Assert("C19/join/indent", all.Flags.Has(jsonflags.Indent) == indP && (!indP || all.Indent == ind))
	gi, giok := GetOption(&all, func(s string) Options { return Indent(s) })
	vrt.Assert("C19/join/getoption-indent", giok == indP && (!indP || gi == ind))
	pre, preP := zzLastPrefix(seq)
	vrt.Assert("C19/join/indentprefix", all.Flags.Has(jsonflags.IndentPrefix) == preP && (!preP || all.IndentPrefix == pre))
	bl, blP := zzLastByteLimit(seq)
	vrt.Assert("C19/join/bytelimit", all.Flags.Has(jsonflags.ByteLimit) == blP && (!blP || all.ByteLimit == bl))
	gb, gbok := GetOption(&all, func(n int64) Options { return ByteLimit(n) })
	vrt.Assert("C19/join/getoption-bytelimit", gbok == blP && (!blP || gb == bl))
	dl, dlP := zzLastDepthLimit(seq)
	vrt.Assert("C19/join/depthlimit", all.Flags.Has(jsonflags.DepthLimit) == dlP && (!dlP || all.DepthLimit == dl))

	same := func(a, b *Struct) bool {
		return a.Flags == b.Flags && a.Indent == b.Indent && a.IndentPrefix == b.IndentPrefix &&
			a.ByteLimit == b.ByteLimit && a.DepthLimit == b.DepthLimit
	}
	vrt.Assert("C19/join/separately-equals-joined", same(&all, &oneByOne))
	vrt.Assert("C19/join/nested-equals-joined", same(&all, &nested))
	vrt.Assert("C19/join/invariant", all.Flags.Values&^all.Flags.Presence == 0 && all.Flags.Presence&1 == 0)
}
