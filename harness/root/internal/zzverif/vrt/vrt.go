// Package vrt is the harness run-time. Under the symbolic engine (gosym) every function
// here is intercepted by name and its body never runs. Natively the bodies replay one
// concrete assignment read from the file named by $VERIF_REPLAY (JSON: {"draws":{name:uint}})
// and record assertion failures, covers and observations into $VERIF_REPLAY_OUT.
package vrt

import (
	"encoding/hex"
	"encoding/json"
	"fmt"
	"math"
	"os"
	"sync"
)

type state struct {
	Draws   map[string]uint64 `json:"draws"`
	counts  map[string]int
	obsCnt  map[string]int
	Failed  []string          `json:"failed"`
	Known   []string          `json:"known"`
	CoversL []string          `json:"covers"`
	Obs     map[string]string `json:"obs"`
	Assumed bool              `json:"assume_failed"`
	Panic   string            `json:"panic,omitempty"`
}

var (
	mu sync.Mutex
	st *state
)

// AssumeFailed is the panic value used natively when an assumption does not hold.
type AssumeFailed struct{}

func get() *state {
	if st == nil {
		Reset()
	}
	return st
}

// Reset (re)loads the replay file.
func Reset() {
	st = &state{Draws: map[string]uint64{}, counts: map[string]int{}, obsCnt: map[string]int{}, Obs: map[string]string{}}
	if p := os.Getenv("VERIF_REPLAY"); p != "" {
		b, err := os.ReadFile(p)
		if err != nil {
			panic(err)
		}
		var in struct {
			Draws map[string]uint64 `json:"draws"`
		}
		if err := json.Unmarshal(b, &in); err != nil {
			panic(err)
		}
		if in.Draws != nil {
			st.Draws = in.Draws
		}
	}
}

// LoadDraws installs a concrete assignment directly (batched replay).
func LoadDraws(d map[string]uint64) {
	st = &state{Draws: d, counts: map[string]int{}, obsCnt: map[string]int{}, Obs: map[string]string{}}
}

// Result returns the recorded outcome as JSON.
func Result() []byte {
	b, _ := json.Marshal(get())
	return b
}

func SetPanic(s string) { get().Panic = s }

func draw(name string) uint64 {
	s := get()
	k := s.counts[name]
	s.counts[name] = k + 1
	if k > 0 {
		name = fmt.Sprintf("%s#%d", name, k)
	}
	return s.Draws[name]
}

func Symbolic() bool            { return false }
func Byte(name string) byte     { return byte(draw(name)) }
func Bool(name string) bool     { return draw(name) != 0 }
func Uint16(name string) uint16 { return uint16(draw(name)) }
func Uint32(name string) uint32 { return uint32(draw(name)) }
func Uint64(name string) uint64 { return draw(name) }
func Int64(name string) int64   { return int64(draw(name)) }
func Int32(name string) int32   { return int32(draw(name)) }
func Float64(name string) float64 {
	return math.Float64frombits(draw(name))
}
func Float32(name string) float32 {
	return math.Float32frombits(uint32(draw(name)))
}

func Bytes(name string, n int) []byte {
	b := make([]byte, n)
	for i := range b {
		b[i] = byte(draw(fmt.Sprintf("%s[%d]", name, i)))
	}
	return b
}

func String(name string, n int) string { return string(Bytes(name, n)) }

func IntRange(name string, lo, hi int) int {
	v := int(int64(draw(name)))
	if v < lo || v > hi {
		get().Assumed = true
		panic(AssumeFailed{})
	}
	return v
}

func Choice(name string, k int) int {
	v := int(int64(draw(name)))
	if v < 0 || v >= k {
		get().Assumed = true
		panic(AssumeFailed{})
	}
	return v
}

func Assume(c bool) {
	if !c {
		get().Assumed = true
		panic(AssumeFailed{})
	}
}

func Assert(label string, c bool) {
	if !c {
		s := get()
		s.Failed = append(s.Failed, label)
	}
}

// AssertKF is Assert for a property with a recorded known finding: when the assertion
// fails and inRegion holds, the failure is attributed to the known finding kfid.
func AssertKF(label string, c bool, kfid string, inRegion bool) {
	if !c {
		s := get()
		if inRegion {
			s.Known = append(s.Known, kfid+":"+label)
		} else {
			s.Failed = append(s.Failed, label)
		}
	}
}

func Fail(label string) { Assert(label, false) }

func Cover(label string) {
	s := get()
	s.CoversL = append(s.CoversL, label)
}

// Observe records a value for engine-vs-native comparison.
func Observe(name string, v any) {
	s := get()
	k := s.obsCnt[name]
	s.obsCnt[name] = k + 1
	if k > 0 {
		name = fmt.Sprintf("%s#%d", name, k)
	}
	s.Obs[name] = show(v)
}

func show(v any) string {
	switch v := v.(type) {
	case nil:
		return "nil"
	case bool:
		if v {
			return "true"
		}
		return "false"
	case int:
		return fmt.Sprint(uint64(v))
	case int8:
		return fmt.Sprint(uint8(v))
	case int16:
		return fmt.Sprint(uint16(v))
	case int32:
		return fmt.Sprint(uint32(v))
	case int64:
		return fmt.Sprint(uint64(v))
	case uint:
		return fmt.Sprint(uint64(v))
	case uint8:
		return fmt.Sprint(v)
	case uint16:
		return fmt.Sprint(v)
	case uint32:
		return fmt.Sprint(v)
	case uint64:
		return fmt.Sprint(v)
	case uintptr:
		return fmt.Sprint(uint64(v))
	case string:
		return "x" + hex.EncodeToString([]byte(v))
	case []byte:
		return "x" + hex.EncodeToString(v)
	case float64:
		return fmt.Sprintf("f%016x", math.Float64bits(v))
	case float32:
		return fmt.Sprintf("f%016x", math.Float64bits(float64(v)))
	}
	return fmt.Sprintf("?%T", v)
}

// Misuse runs f and reports whether it panicked (documented API misuse is allowed to).
func Misuse(f func()) (panicked bool) {
	defer func() {
		if r := recover(); r != nil {
			if _, ok := r.(AssumeFailed); ok {
				panic(r)
			}
			panicked = true
		}
	}()
	f()
	return false
}

const (
	PoolEither = 0
	PoolFresh  = 1
	PoolDrop   = 2
)

func PoolPolicy(p int)       {}
func MapOrderNondet(on bool) {}
func InputBits(n int)        {}

// Concretize forces the engine to fork over the values of v; natively the identity.
func Concretize(v int) int { return v }

// Template returns the bytes of t with every '?' replaced by a fresh symbolic byte
// (draws named name[0], name[1], ...). The skeleton is concrete and stated in the evidence.
func Template(name, t string) []byte {
	cnt := 0
	for i := 0; i < len(t); i++ {
		if t[i] == '?' {
			cnt++
		}
	}
	hs := Bytes(name, cnt)
	b := []byte(t)
	k := 0
	for i := range b {
		if b[i] == '?' {
			b[i] = hs[k]
			k++
		}
	}
	return b
}
