package zzspec

// Reference statements of the documented struct-field rules of package json (doc.go,
// "JSON Representation of Go structs"; options.go on MatchCaseInsensitiveNames and
// RejectUnknownMembers). Nothing here inspects Go types: the harness states, by hand, the list
// of JSON-representable fields of each of its struct types as a []Member in marshal order, and
// the functions below say what Marshal must emit for it and where Unmarshal must store a name.

// Member is one JSON-representable field of a struct.
type Member struct {
	Name     string
	Case     int8     // 0: follows the caller's option, 1: `case:ignore`, 2: `case:strict`
	Quoted   bool     // `string` option: the number is written inside a JSON string
	OmitZero bool     // `omitzero` option
	UnderPtr bool     // promoted through an embedded pointer: absent while that pointer is nil
	Sub      []Member // non-nil: the value is a JSON object with these members (a nested struct)
}

const (
	Unknown   = -1 // no field is designated by the name
	Ambiguous = -2 // several fields match without an exact match
	Mismatch  = -3 // a field is designated but the JSON value has the wrong shape for it
)

func isNameSep(c byte) bool { return c == '_' || c == '-' }

func lowerASCII(c byte) byte {
	if c >= 'A' && c <= 'Z' {
		return c + ('a' - 'A')
	}
	return c
}

// SameFolded reports whether x and y are equal under the documented case-insensitive match:
// letters compare without regard to case, dashes and underscores are ignored. ASCII only.
func SameFolded(x, y []byte) bool {
	i, j := 0, 0
	for {
		for i < len(x) && isNameSep(x[i]) {
			i++
		}
		for j < len(y) && isNameSep(y[j]) {
			j++
		}
		if i == len(x) || j == len(y) {
			return i == len(x) && j == len(y)
		}
		if lowerASCII(x[i]) != lowerASCII(y[j]) {
			return false
		}
		i++
		j++
	}
}

// Resolve returns the index in ms of the field that the (unescaped) member name designates:
// an exact match always wins; otherwise the candidates are the fields that match
// case-insensitively where that was requested (by `case:ignore`, or by the caller's option
// unless the field says `case:strict`): one candidate is selected, several are Ambiguous,
// none is Unknown.
func Resolve(ms []Member, name []byte, matchCI bool) int {
	for i := range ms {
		if string(name) == ms[i].Name {
			return i
		}
	}
	found := Unknown
	for i := range ms {
		ci := ms[i].Case == 1 || (matchCI && ms[i].Case != 2)
		if ci && SameFolded(name, []byte(ms[i].Name)) {
			if found != Unknown {
				return Ambiguous
			}
			found = i
		}
	}
	return found
}

// HasFoldedRival reports whether some field other than ms[i] matches name case-insensitively
// under the same request rule (used for cover labels only).
func HasFoldedRival(ms []Member, name []byte, matchCI bool, i int) bool {
	for k := range ms {
		ci := ms[k].Case == 1 || (matchCI && ms[k].Case != 2)
		if k != i && ci && SameFolded(name, []byte(ms[k].Name)) {
			return true
		}
	}
	return false
}

// CountLeaves is the number of scalar leaves below the members ms.
func CountLeaves(ms []Member) int {
	n := 0
	for i := range ms {
		if ms[i].Sub != nil {
			n += CountLeaves(ms[i].Sub)
		} else {
			n++
		}
	}
	return n
}

// Want is one scalar member Marshal must emit: its path of names, the number of the leaf
// (position in a depth-first walk of the table, counting omitted leaves too) and its form.
type Want struct {
	Path   []string
	Leaf   int
	Quoted bool
}

// WantLeaves lists what Marshal must emit, in order ("depth-first order"), for a value in
// one of three states: 0 every field non-zero and every embedded pointer set; 1 the zero value
// (fields with omitzero are omitted, fields behind a nil embedded pointer are absent);
// 2 every field non-zero but embedded pointers nil.
func WantLeaves(ms []Member, state int) []Want {
	var out []Want
	n := 0
	wantWalk(ms, state, nil, &n, &out)
	return out
}

func wantWalk(ms []Member, state int, prefix []string, n *int, out *[]Want) {
	for i := range ms {
		m := &ms[i]
		skip := (state == 1 && m.OmitZero) || (state != 0 && m.UnderPtr)
		if m.Sub != nil {
			if skip {
				*n += CountLeaves(m.Sub)
				continue
			}
			p := append(append([]string{}, prefix...), m.Name)
			wantWalk(m.Sub, state, p, n, out)
			continue
		}
		if !skip {
			*out = append(*out, Want{Path: append(append([]string{}, prefix...), m.Name), Leaf: *n, Quoted: m.Quoted})
		}
		*n++
	}
}

// Lookup follows the path of names of one scalar input member through the tables. It returns
// the leaf number (>= 0) and its Member, or Unknown/Ambiguous/Mismatch and the nesting level
// at which that was decided.
func Lookup(ms []Member, path [][]byte, matchCI bool) (leaf int, m *Member, level int) {
	base := 0
	for level = 0; level < len(path); level++ {
		r := Resolve(ms, path[level], matchCI)
		if r < 0 {
			return r, nil, level
		}
		base += CountLeaves(ms[:r])
		m = &ms[r]
		last := level == len(path)-1
		if m.Sub == nil {
			if !last {
				return Mismatch, m, level
			}
			return base, m, level
		}
		if last {
			return Mismatch, m, level
		}
		ms = m.Sub
	}
	return Mismatch, nil, level
}

// Leaf is one scalar member of a JSON object text: the unescaped names leading to it and its raw value.
type Leaf struct {
	Path [][]byte
	Raw  []byte
}

// Flatten lists the scalar members of the JSON object text b in textual order (nested
// non-empty objects are descended into; "{}" and arrays count as scalars). b must be valid.
func Flatten(b []byte) (out []Leaf, ok bool) {
	i := SkipWS(b, 0)
	if i >= len(b) || b[i] != '{' {
		return nil, false
	}
	e := flattenObject(b, i, nil, &out)
	if e < 0 || SkipWS(b, e) != len(b) {
		return nil, false
	}
	return out, true
}

func flattenObject(b []byte, pos int, prefix [][]byte, out *[]Leaf) int {
	i := SkipWS(b, pos+1)
	if i < len(b) && b[i] == '}' {
		return i + 1
	}
	for {
		e := ScanString(b, i, true)
		if e < 0 {
			return Invalid
		}
		path := append(append([][]byte{}, prefix...), Unescape(b[i:e]))
		i = SkipWS(b, e)
		if i >= len(b) || b[i] != ':' {
			return Invalid
		}
		i = SkipWS(b, i+1)
		if i >= len(b) {
			return Invalid
		}
		if b[i] == '{' && !(i+1 < len(b) && b[i+1] == '}') {
			i = flattenObject(b, i, path, out)
			if i < 0 {
				return Invalid
			}
		} else {
			e := ScanValue(b, i, true, false, 1000)
			if e < 0 {
				return Invalid
			}
			*out = append(*out, Leaf{Path: path, Raw: b[i:e]})
			i = e
		}
		i = SkipWS(b, i)
		if i >= len(b) {
			return Invalid
		}
		if b[i] == '}' {
			return i + 1
		}
		if b[i] != ',' {
			return Invalid
		}
		i = SkipWS(b, i+1)
	}
}

// SamePath reports whether the unescaped names p equal the expected names w.
func SamePath(p [][]byte, w []string) bool {
	if len(p) != len(w) {
		return false
	}
	for i := range p {
		if string(p[i]) != w[i] {
			return false
		}
	}
	return true
}

// ---------------------------------------------------------------------------
// The `json` struct tag, from the documentation: the tag value is a comma separated list of
// options; the first is the JSON name (empty: the Go field name is used); the entire value "-"
// ignores the field; the options after the name are identifiers, of which omitzero, omitempty,
// string, embed and case:ignore / case:strict are documented. A name holds no comma, backslash
// or quote character. The value itself is found by the struct tag convention of package
// reflect: key:"value" with the value written as a Go interpreted string literal.

// TagRef is what the documentation says about one tag.
type TagRef struct {
	OutOfModel bool   // uses an escape this reference does not interpret (octal, \x, \u, \U) or non-ASCII
	Found      bool   // the struct tag carries a conventional json:"..." pair
	Value      []byte // its unquoted value
	Ignored    bool   // the entire value is "-"
	WellFormed bool   // value = [name] { "," option } ; option = identifier | "case:" identifier
	Name       string // the JSON name ("" if none is given)
	OmitZero   bool
	OmitEmpty  bool
	String     bool
	Embed      bool
	Case       int8 // 0, 1 ignore, 2 strict
	BadCase    bool // case with a value other than ignore/strict, or both values
	Clean      bool // well formed, only documented options, none twice
}

// tagValue applies the reflect.StructTag convention to the text json:"<t>" (the harness appends
// the closing quote): the value ends at the first unescaped quote, and is then unquoted.
func tagValue(t []byte) (val []byte, found, outOfModel bool) {
	end := -1
	for i := 0; end < 0; i++ {
		if i == len(t) {
			end = len(t) // the appended quote closes the value
			break
		}
		c := t[i]
		if c >= 0x80 {
			return nil, false, true
		}
		if c == '"' {
			end = i
			break
		}
		if c == '\\' {
			i++ // the next byte is escaped
			if i == len(t) {
				return nil, false, false // ... it is the appended quote: the value never closes
			}
		}
	}
	raw := t[:end]
	for i := 0; i < len(raw); i++ {
		c := raw[i]
		if c == '\n' {
			return nil, false, false
		}
		if c != '\\' {
			val = append(val, c)
			continue
		}
		i++
		switch e := raw[i]; e {
		case 'a':
			val = append(val, 7)
		case 'b':
			val = append(val, 8)
		case 'f':
			val = append(val, 12)
		case 'n':
			val = append(val, 10)
		case 'r':
			val = append(val, 13)
		case 't':
			val = append(val, 9)
		case 'v':
			val = append(val, 11)
		case '\\', '"':
			val = append(val, e)
		case '0', '1', '2', '3', '4', '5', '6', '7', 'x', 'u', 'U':
			return nil, false, true
		default:
			return nil, false, false // not a Go escape (including \'): the pair is not conventional
		}
	}
	return val, true, false
}

func isIdentStart(c byte) bool {
	return c == '_' || (c >= 'a' && c <= 'z') || (c >= 'A' && c <= 'Z')
}

func isIdentPart(c byte) bool { return isIdentStart(c) || (c >= '0' && c <= '9') }

func isReservedInName(c byte) bool {
	return c == ',' || c == '\\' || c == '\'' || c == '"' || c == '`'
}

// ParseTagRef interprets the tag text json:"<t>".
func ParseTagRef(t []byte) (r TagRef) {
	r.Value, r.Found, r.OutOfModel = tagValue(t)
	if !r.Found || r.OutOfModel {
		return r
	}
	v := r.Value
	if string(v) == "-" {
		r.Ignored = true
		return r
	}
	i := 0
	for i < len(v) && !isReservedInName(v[i]) {
		i++
	}
	r.Name = string(v[:i])
	r.Clean = true
	seen := map[string]bool{}
	for i < len(v) {
		if v[i] != ',' {
			return r // malformed
		}
		i++
		s := i
		if i >= len(v) || !isIdentStart(v[i]) {
			return r // empty option or not an identifier
		}
		for i < len(v) && isIdentPart(v[i]) {
			i++
		}
		opt := string(v[s:i])
		if seen[opt] {
			r.Clean = false
		}
		seen[opt] = true
		switch opt {
		case "omitzero":
			r.OmitZero = true
		case "omitempty":
			r.OmitEmpty = true
		case "string":
			r.String = true
		case "embed":
			r.Embed = true
		case "case":
			if i >= len(v) || v[i] != ':' {
				r.BadCase = true
				break
			}
			i++
			s := i
			if i >= len(v) || !isIdentStart(v[i]) {
				r.BadCase = true
				break
			}
			for i < len(v) && isIdentPart(v[i]) {
				i++
			}
			switch string(v[s:i]) {
			case "ignore":
				r.Case |= 1
			case "strict":
				r.Case |= 2
			default:
				r.BadCase = true
			}
			if r.Case == 3 {
				r.BadCase = true
			}
		default:
			r.Clean = false // not a documented option (format is outside this reference)
		}
	}
	if r.BadCase {
		r.Clean = false
	}
	r.WellFormed = true
	return r
}
