package zzspec

// Sigma24 is the JSON-critical alphabet used for the larger input bounds:
// { } [ ] : , " \ / u 0 1 9 - + . e E a n t f l s r space \n
// plus representatives of UTF-8 lead/continuation classes.
var Sigma24 = func() (t [256]bool) {
	for _, c := range []byte("{}[]:,\"\\/u019-+.eEantflsr \n") {
		t[c] = true
	}
	return
}()

// SigmaUTF8 adds byte-class representatives for UTF-8 checks.
var SigmaUTF8 = func() (t [256]bool) {
	t = Sigma24
	for _, c := range []byte{0x80, 0xBF, 0xC2, 0xE0, 0xED, 0xA0, 0xF0, 0xF4, 0x90, 0xFF} {
		t[c] = true
	}
	return
}()

// SigmaStruct is a small structural alphabet: { } [ ] : , " a 1 space
var SigmaStruct = func() (t [256]bool) {
	for _, c := range []byte("{}[]:,\"a1 ") {
		t[c] = true
	}
	return
}()

// InAlphabet reports whether every byte of b is in the alphabet numbered k
// (0 = all bytes, 1 = Sigma24, 2 = SigmaUTF8, 3 = SigmaStruct).
func InAlphabet(b []byte, k int) bool {
	ok := true
	for _, c := range b {
		switch k {
		case 1:
			ok = ok && Sigma24[c]
		case 2:
			ok = ok && SigmaUTF8[c]
		case 3:
			ok = ok && SigmaStruct[c]
		}
	}
	return ok
}
