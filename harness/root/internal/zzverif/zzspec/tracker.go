package zzspec

// Position tracking reference (property C16), written from the documentation of
// Decoder/Encoder.StackDepth, StackIndex, StackPointer, InputOffset/OutputOffset and from
// RFC 6901 / RFC 8259, not from the coder's state machine.
//
// A Tracker reads a JSON token stream from a byte slice, one token per Next call, and keeps
//   - Off: the offset immediately after the most recently read token,
//   - Levels: one entry per open object/array (Levels[0] is the top level, Kind 0) with the
//     number of tokens/values seen so far at that level. Following the StackIndex
//     documentation every name and every value of an object counts separately; a nested
//     object or array counts in its parent as soon as its opening token has been read
//     ("decoded so far": it is the value StackPointer must be able to designate),
//   - per object the (unescaped) member name read most recently.
//
// Next also is a prefix recogniser: it refuses the first token that cannot continue a JSON
// token stream and records where (ErrTok, ErrPos).

// Results of Tracker.Next (besides Invalid and Truncated).
const (
	TokOK  = 1 // one token consumed
	TokEnd = 0 // only whitespace remains and no object or array is open
)

type Level struct {
	Kind  byte // 0 for the top level, '{' or '['
	Len   int
	Name  []byte   // object: the most recently read member name, unescaped
	names [][]byte // object: all member names read so far
}

type Tracker struct {
	Strict bool // strings must be well-formed UTF-8 (RFC 7493)
	Unique bool // member names must be unique per object (RFC 7493)
	Off    int
	Levels []Level

	// Set when Next returns Invalid or Truncated:
	ErrTok  int    // start of the token that cannot continue the stream (== len(b) when b just ends)
	ErrPos  int    // first byte that makes the input a non-prefix of JSON (== len(b) when truncated)
	ErrSep  int    // position of the ',' or ':' read immediately before the refused token, or -1
	Dup     bool   // the refused token is a member name already present in its object
	DupName []byte // its unescaped name
}

func NewTracker(strict, unique bool) *Tracker {
	return &Tracker{Strict: strict, Unique: unique, Levels: []Level{{}}}
}

// Depth is the number of open objects and arrays.
func (t *Tracker) Depth() int { return len(t.Levels) - 1 }

func (t *Tracker) top() *Level { return &t.Levels[len(t.Levels)-1] }

func (t *Tracker) bad(tok, pos int) int {
	t.ErrTok, t.ErrPos = tok, pos
	return Invalid
}

func (t *Tracker) trunc(tok int, b []byte) int {
	t.ErrTok, t.ErrPos = tok, len(b)
	return Truncated
}

// scanScalar scans the string, number or literal token at b[i].
func scanScalar(b []byte, i int, strict bool) int {
	switch c := b[i]; {
	case c == '"':
		return ScanString(b, i, strict)
	case c == '-' || isDigit(c):
		return ScanNumber(b, i)
	}
	return ScanLiteral(b, i)
}

// firstBadByte: the token starting at b[i] is invalid; return the index of the first byte
// that makes it so (every shorter prefix of the token can still be completed).
func firstBadByte(b []byte, i int, strict bool) int {
	for k := i + 1; k < len(b); k++ {
		if scanScalar(b[:k], i, strict) == Invalid {
			return k - 1
		}
	}
	return len(b) - 1
}

// Next reads the next token of b after t.Off (with the ':' or ',' that must precede it).
// It returns TokOK, TokEnd, Truncated (b ends where the grammar needs more) or Invalid.
func (t *Tracker) Next(b []byte) int {
	t.Dup = false
	t.ErrSep = -1
	i := SkipWS(b, t.Off)
	if i >= len(b) {
		if t.Depth() == 0 {
			return TokEnd
		}
		return t.trunc(len(b), b)
	}
	l := t.top()
	switch l.Kind {
	case '{':
		if l.Len%2 == 1 { // a name has been read: ':' value
			if b[i] != ':' {
				return t.bad(i, i)
			}
			t.ErrSep = i
			i = SkipWS(b, i+1)
			return t.value(b, i)
		}
		if b[i] == '}' {
			return t.closeLevel(i)
		}
		if l.Len > 0 {
			if b[i] != ',' {
				return t.bad(i, i)
			}
			t.ErrSep = i
			i = SkipWS(b, i+1)
		}
		if i >= len(b) {
			return t.trunc(len(b), b)
		}
		if b[i] != '"' {
			return t.bad(i, i)
		}
		e := ScanString(b, i, t.Strict)
		if e == Truncated {
			return t.trunc(i, b)
		}
		if e < 0 {
			return t.bad(i, firstBadByte(b, i, t.Strict))
		}
		name := Unescape(b[i:e])
		if t.Unique {
			for _, prev := range l.names {
				if bytesEqual(prev, name) {
					t.Dup, t.DupName = true, name
					return t.bad(i, e-1) // the closing quote completes the duplicate
				}
			}
			l.names = append(l.names, name)
		}
		l.Name = name
		l.Len++
		t.Off = e
		return TokOK
	case '[':
		if b[i] == ']' {
			return t.closeLevel(i)
		}
		if l.Len > 0 {
			if b[i] != ',' {
				return t.bad(i, i)
			}
			t.ErrSep = i
			i = SkipWS(b, i+1)
		}
		return t.value(b, i)
	}
	return t.value(b, i)
}

func (t *Tracker) closeLevel(i int) int {
	t.Levels = t.Levels[:len(t.Levels)-1]
	t.Off = i + 1
	return TokOK
}

// value reads a scalar or the opening token of an object or array at b[i].
func (t *Tracker) value(b []byte, i int) int {
	if i >= len(b) {
		return t.trunc(len(b), b)
	}
	switch c := b[i]; {
	case c == '{' || c == '[':
		t.top().Len++
		t.Levels = append(t.Levels, Level{Kind: c})
		t.Off = i + 1
		return TokOK
	case c == '"' || c == '-' || isDigit(c) || c == 'n' || c == 't' || c == 'f':
		e := scanScalar(b, i, t.Strict)
		if e == Truncated {
			return t.trunc(i, b)
		}
		if e < 0 {
			return t.bad(i, firstBadByte(b, i, t.Strict))
		}
		t.top().Len++
		t.Off = e
		return TokOK
	}
	return t.bad(i, i)
}

// Run reads tokens until Next refuses; it returns that last result.
func (t *Tracker) Run(b []byte) int {
	for {
		if r := t.Next(b); r != TokOK {
			return r
		}
	}
}

// AppendPointerToken appends name as an RFC 6901 reference token ('~' -> "~0", '/' -> "~1").
func AppendPointerToken(dst, name []byte) []byte {
	for _, c := range name {
		switch c {
		case '~':
			dst = append(dst, '~', '0')
		case '/':
			dst = append(dst, '~', '1')
		default:
			dst = append(dst, c)
		}
	}
	return dst
}

func appendDecimal(dst []byte, n int) []byte {
	if n >= 10 {
		dst = appendDecimal(dst, n/10)
	}
	return append(dst, byte('0'+n%10))
}

// pointerTo: the pointer to the container at level upto (1 = the top-level value, pointer "").
func (t *Tracker) pointerTo(upto int) []byte {
	p := []byte{}
	for i := 1; i < upto; i++ {
		p = t.appendMember(p, i, 0)
	}
	return p
}

// appendMember appends the reference token of the member of level i that was read most
// recently (delta 0) or of the array element that would come next (delta 1).
func (t *Tracker) appendMember(p []byte, i, delta int) []byte {
	l := &t.Levels[i]
	p = append(p, '/')
	if l.Kind == '{' {
		return AppendPointerToken(p, l.Name)
	}
	return appendDecimal(p, l.Len-1+delta)
}

// Pointer is the JSON Pointer to the most recently read value (StackPointer documentation):
// the member of the innermost open container read last (for an object whose name has just
// been read, the member of that name), the container itself when nothing has been read in it
// yet, and the empty pointer at the top level.
func (t *Tracker) Pointer() []byte {
	d := t.Depth()
	p := t.pointerTo(d)
	if d >= 1 && t.top().Len > 0 {
		p = t.appendMember(p, d, 0)
	}
	return p
}

// ContainerPointer is the pointer to the innermost open object or array ("" at the top level).
func (t *Tracker) ContainerPointer() []byte { return t.pointerTo(t.Depth()) }

// NextChildPointer returns the pointer to the direct child of the innermost open container
// in which a token at the current position lies: the member whose name has been read and
// whose value is due (object), or the next element when an element may start here (array:
// nothing read yet, or afterComma). ok is false when there is no such child (top level; object
// where a name, ',' or '}' is due; array where ',' or ']' is due).
func (t *Tracker) NextChildPointer(afterComma bool) (p []byte, ok bool) {
	d := t.Depth()
	if d == 0 {
		return nil, false
	}
	l := t.top()
	if l.Kind == '{' {
		if l.Len%2 == 0 {
			return nil, false
		}
		return t.appendMember(t.pointerTo(d), d, 0), true
	}
	if l.Len > 0 && !afterComma {
		return nil, false
	}
	return t.appendMember(t.pointerTo(d), d, 1), true
}

// ViablePrefix reports whether b is a prefix of some concatenation of JSON texts.
func ViablePrefix(b []byte, strictUTF8, uniqueNames bool) bool {
	_, tail := ScanStream(b, strictUTF8, uniqueNames, 1<<30)
	return tail == 0 || tail == Truncated
}

// ---------------------------------------------------------------------------
// RFC 6901 on pointers as strings

// PointerValid: a JSON Pointer is empty or a sequence of '/'-prefixed reference tokens in
// which every '~' is followed by '0' or '1' (RFC 6901 section 3); it is a Unicode string,
// i.e. well-formed UTF-8.
func PointerValid(p []byte) bool {
	if len(p) == 0 {
		return true
	}
	if p[0] != '/' {
		return false
	}
	for i := 0; i < len(p); i++ {
		if p[i] == '~' && (i+1 >= len(p) || (p[i+1] != '0' && p[i+1] != '1')) {
			return false
		}
	}
	return UTF8WellFormed(p)
}

// PointerTokens splits a valid pointer into its unescaped reference tokens (RFC 6901
// section 4: "~1" -> '/', then "~0" -> '~').
func PointerTokens(p []byte) [][]byte {
	var toks [][]byte
	i := 0
	for i < len(p) {
		i++ // the '/'
		tok := []byte{}
		for i < len(p) && p[i] != '/' {
			if p[i] == '~' {
				if p[i+1] == '1' {
					tok = append(tok, '/')
				} else {
					tok = append(tok, '~')
				}
				i += 2
			} else {
				tok = append(tok, p[i])
				i++
			}
		}
		toks = append(toks, tok)
	}
	return toks
}

// PointerJoin is the inverse of PointerTokens.
func PointerJoin(toks [][]byte) []byte {
	p := []byte{}
	for _, t := range toks {
		p = AppendPointerToken(append(p, '/'), t)
	}
	return p
}

// PointerContains: the value p points to is, or contains, the value q points to, i.e. the
// tokens of p are a prefix of the tokens of q.
func PointerContains(p, q []byte) bool {
	if len(q) < len(p) || !bytesEqual(q[:len(p)], p) {
		return false
	}
	return len(q) == len(p) || q[len(p)] == '/'
}
