package zzspec

// Compact returns the canonical compact re-serialisation of the valid JSON value v[pos:end):
// no whitespace, strings re-spelled minimally (with the html/js escapes requested) from their
// meaning, numbers and literals verbatim. v must be valid (as accepted by ScanValue).
func Compact(dst, v []byte, html, js bool) []byte {
	i := 0
	for i < len(v) {
		c := v[i]
		switch {
		case isWS(c):
			i++
		case c == '"':
			e := ScanString(v, i, false)
			dst = append(dst, MinimalQuote(Unescape(v[i:e]), html, js)...)
			i = e
		case c == '-' || isDigit(c):
			e := ScanNumber(v, i)
			dst = append(dst, v[i:e]...)
			i = e
		case c == 'n' || c == 't' || c == 'f':
			e := ScanLiteral(v, i)
			dst = append(dst, v[i:e]...)
			i = e
		default:
			dst = append(dst, c)
			i++
		}
	}
	return dst
}

// EncModel is the reference model of a token/value encoder: a stack of open containers,
// the per-object set of member names, and the serialisation of the accepted calls.
type EncModel struct {
	Out          []byte
	AllowDup     bool
	AllowInvalid bool
	HTML, JS     bool
	MaxDepth     int
	stack        []encFrame
}

type encFrame struct {
	obj   bool
	n     int // tokens/values appended at this level (names and values both count)
	names [][]byte
}

func (m *EncModel) Depth() int { return len(m.stack) }

func (m *EncModel) expectName() bool {
	if len(m.stack) == 0 {
		return false
	}
	f := &m.stack[len(m.stack)-1]
	return f.obj && f.n%2 == 0
}

// delim appends the separator required before the next token at the current position.
func (m *EncModel) delim(out []byte) []byte {
	if len(m.stack) == 0 {
		return out
	}
	f := &m.stack[len(m.stack)-1]
	if f.obj {
		if f.n%2 == 1 {
			return append(out, ':')
		}
		if f.n > 0 {
			return append(out, ',')
		}
		return out
	}
	if f.n > 0 {
		return append(out, ',')
	}
	return out
}

func (m *EncModel) done() {
	if len(m.stack) == 0 {
		m.Out = append(m.Out, '\n')
		return
	}
	m.stack[len(m.stack)-1].n++
}

// Literal: null, true or false.
func (m *EncModel) Literal(lit string) bool {
	if m.expectName() {
		return false
	}
	m.Out = append(m.delim(m.Out), lit...)
	m.done()
	return true
}

func (m *EncModel) Number(lit []byte) bool {
	if m.expectName() {
		return false
	}
	m.Out = append(m.delim(m.Out), lit...)
	m.done()
	return true
}

// Str: a string whose text is s (arbitrary bytes).
func (m *EncModel) Str(s []byte) bool {
	if !m.AllowInvalid && !UTF8WellFormed(s) {
		return false
	}
	lit := MinimalQuote(s, m.HTML, m.JS)
	return m.strLit(lit)
}

func (m *EncModel) strLit(lit []byte) bool {
	if m.expectName() && !m.AllowDup {
		f := &m.stack[len(m.stack)-1]
		name := Unescape(lit)
		for _, p := range f.names {
			if bytesEqual(p, name) {
				return false
			}
		}
		f.names = append(f.names, name)
	}
	m.Out = append(m.delim(m.Out), lit...)
	m.done()
	return true
}

func (m *EncModel) Begin(obj bool) bool {
	if m.expectName() {
		return false
	}
	if len(m.stack)+1 > m.MaxDepth {
		return false
	}
	out := m.delim(m.Out)
	if obj {
		out = append(out, '{')
	} else {
		out = append(out, '[')
	}
	m.Out = out
	m.stack = append(m.stack, encFrame{obj: obj})
	return true
}

func (m *EncModel) End(obj bool) bool {
	if len(m.stack) == 0 {
		return false
	}
	f := &m.stack[len(m.stack)-1]
	if f.obj != obj {
		return false
	}
	if obj && f.n%2 == 1 {
		return false // a member name without its value
	}
	if obj {
		m.Out = append(m.Out, '}')
	} else {
		m.Out = append(m.Out, ']')
	}
	m.stack = m.stack[:len(m.stack)-1]
	m.done()
	return true
}

// Raw: a raw value (text of exactly one JSON value, optional surrounding whitespace).
func (m *EncModel) Raw(v []byte) bool {
	i := SkipWS(v, 0)
	e := ScanValue(v, i, !m.AllowInvalid, !m.AllowDup, m.MaxDepth-len(m.stack))
	if e < 0 || SkipWS(v, e) != len(v) {
		return false
	}
	if m.expectName() {
		if v[i] != '"' {
			return false
		}
		return m.strLit(MinimalQuote(Unescape(v[i:e]), m.HTML, m.JS))
	}
	m.Out = Compact(m.delim(m.Out), v[i:e], m.HTML, m.JS)
	m.done()
	return true
}
