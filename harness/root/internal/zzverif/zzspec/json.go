// Package zzspec holds the reference models (oracles) used by the verification harnesses.
// They are written from the RFCs (8259, 7493, 3629, 6901, 8785) as plain loops and tables,
// and deliberately call nothing from unicode/utf8, jsonwire or jsontext.
package zzspec

// ---------------------------------------------------------------------------
// RFC 3629: UTF-8 well-formedness (Table 3-7 of the Unicode standard)

// UTF8Len returns the length (1..4) of the well-formed UTF-8 sequence starting at b[i],
// or 0 if b[i:] does not start with a well-formed sequence (including truncation).
func UTF8Len(b []byte, i int) int {
	n := len(b) - i
	if n <= 0 {
		return 0
	}
	c0 := b[i]
	if c0 < 0x80 {
		return 1
	}
	if c0 < 0xC2 || c0 > 0xF4 {
		return 0
	}
	if n < 2 {
		return 0
	}
	c1 := b[i+1]
	if c0 <= 0xDF {
		if c1 >= 0x80 && c1 <= 0xBF {
			return 2
		}
		return 0
	}
	lo, hi := byte(0x80), byte(0xBF)
	switch c0 {
	case 0xE0:
		lo = 0xA0
	case 0xED:
		hi = 0x9F
	case 0xF0:
		lo = 0x90
	case 0xF4:
		hi = 0x8F
	}
	if c1 < lo || c1 > hi {
		return 0
	}
	if n < 3 {
		return 0
	}
	c2 := b[i+2]
	if c2 < 0x80 || c2 > 0xBF {
		return 0
	}
	if c0 <= 0xEF {
		return 3
	}
	if n < 4 {
		return 0
	}
	c3 := b[i+3]
	if c3 < 0x80 || c3 > 0xBF {
		return 0
	}
	return 4
}

// UTF8CouldContinue reports whether b[i:] is a proper prefix of some well-formed sequence
// (i.e. more input could make it well formed).
func UTF8CouldContinue(b []byte, i int) bool {
	n := len(b) - i
	if n <= 0 {
		return true
	}
	c0 := b[i]
	if c0 < 0xC2 || c0 > 0xF4 {
		return false
	}
	need := 2
	if c0 >= 0xE0 {
		need = 3
	}
	if c0 >= 0xF0 {
		need = 4
	}
	if n >= need {
		return false
	}
	if n >= 2 {
		c1 := b[i+1]
		lo, hi := byte(0x80), byte(0xBF)
		switch c0 {
		case 0xE0:
			lo = 0xA0
		case 0xED:
			hi = 0x9F
		case 0xF0:
			lo = 0x90
		case 0xF4:
			hi = 0x8F
		}
		if c1 < lo || c1 > hi {
			return false
		}
	}
	if n >= 3 {
		c2 := b[i+2]
		if c2 < 0x80 || c2 > 0xBF {
			return false
		}
	}
	return true
}

// UTF8WellFormed reports whether all of b is well-formed UTF-8.
func UTF8WellFormed(b []byte) bool {
	for i := 0; i < len(b); {
		k := UTF8Len(b, i)
		if k == 0 {
			return false
		}
		i += k
	}
	return true
}

// DecodeRune decodes the well-formed sequence of length k at b[i].
func DecodeRune(b []byte, i, k int) uint32 {
	switch k {
	case 1:
		return uint32(b[i])
	case 2:
		return uint32(b[i]&0x1F)<<6 | uint32(b[i+1]&0x3F)
	case 3:
		return uint32(b[i]&0x0F)<<12 | uint32(b[i+1]&0x3F)<<6 | uint32(b[i+2]&0x3F)
	}
	return uint32(b[i]&0x07)<<18 | uint32(b[i+1]&0x3F)<<12 | uint32(b[i+2]&0x3F)<<6 | uint32(b[i+3]&0x3F)
}

// AppendRune appends the UTF-8 encoding of the scalar value r.
func AppendRune(dst []byte, r uint32) []byte {
	switch {
	case r < 0x80:
		return append(dst, byte(r))
	case r < 0x800:
		return append(dst, 0xC0|byte(r>>6), 0x80|byte(r&0x3F))
	case r < 0x10000:
		return append(dst, 0xE0|byte(r>>12), 0x80|byte((r>>6)&0x3F), 0x80|byte(r&0x3F))
	}
	return append(dst, 0xF0|byte(r>>18), 0x80|byte((r>>12)&0x3F), 0x80|byte((r>>6)&0x3F), 0x80|byte(r&0x3F))
}

// ---------------------------------------------------------------------------
// RFC 8259 scanners. Each returns the end offset of the token starting at pos, or a
// negative class: Invalid or Truncated (the input ends inside a token that more input
// could complete).

const (
	Invalid   = -1
	Truncated = -2
)

func isWS(c byte) bool { return c == ' ' || c == '\t' || c == '\n' || c == '\r' }

func isDigit(c byte) bool { return c >= '0' && c <= '9' }

func SkipWS(b []byte, pos int) int {
	for pos < len(b) && isWS(b[pos]) {
		pos++
	}
	return pos
}

func hexVal(c byte) int {
	switch {
	case c >= '0' && c <= '9':
		return int(c - '0')
	case c >= 'a' && c <= 'f':
		return int(c-'a') + 10
	case c >= 'A' && c <= 'F':
		return int(c-'A') + 10
	}
	return -1
}

// hex4 parses 4 hex digits at b[pos:]; returns value, or Invalid / Truncated.
func hex4(b []byte, pos int) int {
	v := 0
	for k := 0; k < 4; k++ {
		if pos+k >= len(b) {
			return Truncated
		}
		h := hexVal(b[pos+k])
		if h < 0 {
			return Invalid
		}
		v = v<<4 | h
	}
	return v
}

// ScanLiteral scans one of null/true/false at pos.
func ScanLiteral(b []byte, pos int) int {
	var lit string
	switch b[pos] {
	case 'n':
		lit = "null"
	case 't':
		lit = "true"
	case 'f':
		lit = "false"
	default:
		return Invalid
	}
	for k := 0; k < len(lit); k++ {
		if pos+k >= len(b) {
			return Truncated
		}
		if b[pos+k] != lit[k] {
			return Invalid
		}
	}
	return pos + len(lit)
}

// ScanNumber scans the longest number at pos (RFC 8259 section 6). A number followed by
// the end of input is complete (not truncated) when it is grammatical as it stands.
func ScanNumber(b []byte, pos int) int {
	i := pos
	if i < len(b) && b[i] == '-' {
		i++
	}
	if i >= len(b) {
		return Truncated
	}
	if b[i] == '0' {
		i++
	} else if b[i] >= '1' && b[i] <= '9' {
		for i < len(b) && isDigit(b[i]) {
			i++
		}
	} else {
		return Invalid
	}
	if i < len(b) && b[i] == '.' {
		i++
		if i >= len(b) {
			return Truncated
		}
		if !isDigit(b[i]) {
			return Invalid
		}
		for i < len(b) && isDigit(b[i]) {
			i++
		}
	}
	if i < len(b) && (b[i] == 'e' || b[i] == 'E') {
		i++
		if i < len(b) && (b[i] == '+' || b[i] == '-') {
			i++
		}
		if i >= len(b) {
			return Truncated
		}
		if !isDigit(b[i]) {
			return Invalid
		}
		for i < len(b) && isDigit(b[i]) {
			i++
		}
	}
	return i
}

// ScanString scans a string literal starting at the opening quote b[pos].
// With strictUTF8 the raw bytes must be well-formed UTF-8 and \u escapes of surrogates
// must form high+low pairs (RFC 7493 section 2.1).
func ScanString(b []byte, pos int, strictUTF8 bool) int {
	if pos >= len(b) {
		return Truncated
	}
	if b[pos] != '"' {
		return Invalid
	}
	i := pos + 1
	for {
		if i >= len(b) {
			return Truncated
		}
		c := b[i]
		switch {
		case c == '"':
			return i + 1
		case c < 0x20:
			return Invalid
		case c == '\\':
			if i+1 >= len(b) {
				return Truncated
			}
			e := b[i+1]
			switch e {
			case '"', '\\', '/', 'b', 'f', 'n', 'r', 't':
				i += 2
			case 'u':
				v := hex4(b, i+2)
				if v < 0 {
					return v
				}
				i += 6
				if strictUTF8 && v >= 0xD800 && v <= 0xDFFF {
					// A surrogate escape is only valid as high+low pair. When fewer than the
					// 6 bytes of a following escape are present, the input is classed Truncated
					// if they are a viable prefix of \uDC00..\uDFFF (the verdict on a lone low
					// surrogate is deferred likewise; no property distinguishes the two classes
					// for input that can never become valid).
					if len(b)-i < 6 {
						if lowEscapePrefixOK(b, i) {
							return Truncated
						}
						return Invalid
					}
					if v >= 0xDC00 {
						return Invalid // lone low surrogate
					}
					if b[i] != '\\' || b[i+1] != 'u' {
						return Invalid
					}
					v2 := hex4(b, i+2)
					if v2 < 0xDC00 || v2 > 0xDFFF {
						return Invalid
					}
					i += 6
				}
			default:
				return Invalid
			}
		case c < 0x80:
			i++
		default:
			if strictUTF8 {
				k := UTF8Len(b, i)
				if k == 0 {
					if UTF8CouldContinue(b, i) {
						return Truncated
					}
					return Invalid
				}
				i += k
			} else {
				i++
			}
		}
	}
}

// lowEscapePrefixOK: b[pos:] holds fewer than 6 bytes; report whether they are a viable
// prefix of an escape \uDC00..\uDFFF: '\\', 'u', d/D, c..f/C..F, then hex digits.
func lowEscapePrefixOK(b []byte, pos int) bool {
	for k := pos; k < len(b); k++ {
		c := b[k]
		switch k - pos {
		case 0:
			if c != '\\' {
				return false
			}
		case 1:
			if c != 'u' {
				return false
			}
		case 2:
			if hexVal(c) != 0xD {
				return false
			}
		case 3:
			if hexVal(c) < 0xC {
				return false
			}
		default:
			if hexVal(c) < 0 {
				return false
			}
		}
	}
	return true
}

// ---------------------------------------------------------------------------
// Whole-text validation (RFC 8259 grammar, RFC 7493 restrictions as options)

type validator struct {
	b        []byte
	strict   bool
	unique   bool
	maxDepth int
}

// value parses one value at pos; returns the end offset or a negative class.
func (v *validator) value(pos, depth int) int {
	b := v.b
	if pos >= len(b) {
		return Truncated
	}
	switch c := b[pos]; {
	case c == '"':
		return ScanString(b, pos, v.strict)
	case c == '-' || isDigit(c):
		return ScanNumber(b, pos)
	case c == 'n' || c == 't' || c == 'f':
		return ScanLiteral(b, pos)
	case c == '[':
		if depth+1 > v.maxDepth {
			return Invalid
		}
		i := SkipWS(b, pos+1)
		if i >= len(b) {
			return Truncated
		}
		if b[i] == ']' {
			return i + 1
		}
		for {
			i = v.value(i, depth+1)
			if i < 0 {
				return i
			}
			i = SkipWS(b, i)
			if i >= len(b) {
				return Truncated
			}
			if b[i] == ']' {
				return i + 1
			}
			if b[i] != ',' {
				return Invalid
			}
			i = SkipWS(b, i+1)
		}
	case c == '{':
		if depth+1 > v.maxDepth {
			return Invalid
		}
		i := SkipWS(b, pos+1)
		if i >= len(b) {
			return Truncated
		}
		if b[i] == '}' {
			return i + 1
		}
		var names [][]byte
		for {
			if i >= len(b) {
				return Truncated
			}
			if b[i] != '"' {
				return Invalid
			}
			e := ScanString(b, i, v.strict)
			if e < 0 {
				return e
			}
			if v.unique {
				name := Unescape(b[i:e])
				for _, prev := range names {
					if bytesEqual(prev, name) {
						return Invalid
					}
				}
				names = append(names, name)
			}
			i = SkipWS(b, e)
			if i >= len(b) {
				return Truncated
			}
			if b[i] != ':' {
				return Invalid
			}
			i = SkipWS(b, i+1)
			i = v.value(i, depth+1)
			if i < 0 {
				return i
			}
			i = SkipWS(b, i)
			if i >= len(b) {
				return Truncated
			}
			if b[i] == '}' {
				return i + 1
			}
			if b[i] != ',' {
				return Invalid
			}
			i = SkipWS(b, i+1)
		}
	}
	return Invalid
}

func bytesEqual(a, b []byte) bool {
	if len(a) != len(b) {
		return false
	}
	for i := range a {
		if a[i] != b[i] {
			return false
		}
	}
	return true
}

// ScanValue parses one value starting at pos (no leading whitespace skipped).
func ScanValue(b []byte, pos int, strictUTF8, uniqueNames bool, maxDepth int) int {
	v := &validator{b: b, strict: strictUTF8, unique: uniqueNames, maxDepth: maxDepth}
	return v.value(pos, 0)
}

// ValidText reports whether b is exactly one JSON text: ws value ws.
func ValidText(b []byte, strictUTF8, uniqueNames bool, maxDepth int) bool {
	i := SkipWS(b, 0)
	e := ScanValue(b, i, strictUTF8, uniqueNames, maxDepth)
	if e < 0 {
		return false
	}
	return SkipWS(b, e) == len(b)
}

// ScanStream scans a concatenation of JSON texts separated by optional whitespace.
// It returns the number of complete values and the class of what follows them:
// 0 = clean end (only whitespace remains), Invalid, or Truncated.
func ScanStream(b []byte, strictUTF8, uniqueNames bool, maxDepth int) (n int, tail int) {
	i := 0
	for {
		i = SkipWS(b, i)
		if i >= len(b) {
			return n, 0
		}
		e := ScanValue(b, i, strictUTF8, uniqueNames, maxDepth)
		if e < 0 {
			return n, e
		}
		n++
		i = e
	}
}

// ---------------------------------------------------------------------------
// String semantics

// Unescape returns the meaning of a valid string literal lit (including its quotes):
// escapes resolved, surrogate pairs combined, every ill-formed UTF-8 byte and every
// unpaired surrogate escape replaced by U+FFFD.
func Unescape(lit []byte) []byte {
	out := make([]byte, 0, len(lit))
	i := 1
	for i < len(lit)-1 {
		c := lit[i]
		switch {
		case c == '\\':
			e := lit[i+1]
			switch e {
			case '"', '\\', '/':
				out = append(out, e)
				i += 2
			case 'b':
				out = append(out, 8)
				i += 2
			case 'f':
				out = append(out, 12)
				i += 2
			case 'n':
				out = append(out, 10)
				i += 2
			case 'r':
				out = append(out, 13)
				i += 2
			case 't':
				out = append(out, 9)
				i += 2
			default: // 'u'
				v := uint32(hex4(lit, i+2))
				i += 6
				if v >= 0xD800 && v <= 0xDBFF {
					// try to pair with a following \uDC00..\uDFFF
					if i+6 <= len(lit)-1 && lit[i] == '\\' && lit[i+1] == 'u' {
						v2 := hex4(lit, i+2)
						if v2 >= 0xDC00 && v2 <= 0xDFFF {
							v = 0x10000 + (v-0xD800)<<10 + (uint32(v2) - 0xDC00)
							i += 6
							out = AppendRune(out, v)
							continue
						}
					}
					v = 0xFFFD
				} else if v >= 0xDC00 && v <= 0xDFFF {
					v = 0xFFFD
				}
				out = AppendRune(out, v)
			}
		case c < 0x80:
			out = append(out, c)
			i++
		default:
			k := UTF8Len(lit[:len(lit)-1], i)
			if k == 0 {
				out = append(out, 0xEF, 0xBF, 0xBD)
				i++
			} else {
				out = append(out, lit[i:i+k]...)
				i += k
			}
		}
	}
	return out
}

const hexDigits = "0123456789abcdef"

// MinimalQuote is the shortest valid JSON string literal for s (RFC 8785 section 3.2.2.2):
// only '"', '\\' and controls are escaped, controls use the two-character forms where they
// exist and lower-case \u00xx otherwise. With html: '<', '>', '&' are written as \u00xx;
// with js: U+2028 and U+2029 are written as  ,  . Ill-formed bytes become U+FFFD.
func MinimalQuote(s []byte, html, js bool) []byte {
	out := []byte{'"'}
	for i := 0; i < len(s); {
		c := s[i]
		switch {
		case c == '"' || c == '\\':
			out = append(out, '\\', c)
			i++
		case c == 8:
			out = append(out, '\\', 'b')
			i++
		case c == 12:
			out = append(out, '\\', 'f')
			i++
		case c == 10:
			out = append(out, '\\', 'n')
			i++
		case c == 13:
			out = append(out, '\\', 'r')
			i++
		case c == 9:
			out = append(out, '\\', 't')
			i++
		case c < 0x20 || (html && (c == '<' || c == '>' || c == '&')):
			out = append(out, '\\', 'u', '0', '0', hexDigits[c>>4], hexDigits[c&15])
			i++
		case c < 0x80:
			out = append(out, c)
			i++
		default:
			k := UTF8Len(s, i)
			if k == 0 {
				out = append(out, 0xEF, 0xBF, 0xBD)
				i++
				continue
			}
			if js && k == 3 && c == 0xE2 && s[i+1] == 0x80 && (s[i+2] == 0xA8 || s[i+2] == 0xA9) {
				out = append(out, '\\', 'u', '2', '0', '2', hexDigits[s[i+2]&15])
			} else {
				out = append(out, s[i:i+k]...)
			}
			i += k
		}
	}
	return append(out, '"')
}

// ---------------------------------------------------------------------------
// RFC 8785 section 3.2.3: ordering by UTF-16 code units

// utf16Units returns the UTF-16 code units of s, with U+FFFD for ill-formed bytes.
func utf16Units(s []byte) []uint16 {
	var u []uint16
	for i := 0; i < len(s); {
		k := UTF8Len(s, i)
		if k == 0 {
			u = append(u, 0xFFFD)
			i++
			continue
		}
		r := DecodeRune(s, i, k)
		if r >= 0x10000 {
			r -= 0x10000
			u = append(u, uint16(0xD800+(r>>10)), uint16(0xDC00+(r&0x3FF)))
		} else {
			u = append(u, uint16(r))
		}
		i += k
	}
	return u
}

// CmpUTF16 compares x and y lexicographically by UTF-16 code units: -1, 0, +1.
func CmpUTF16(x, y []byte) int {
	a, b := utf16Units(x), utf16Units(y)
	for i := 0; i < len(a) && i < len(b); i++ {
		if a[i] != b[i] {
			if a[i] < b[i] {
				return -1
			}
			return 1
		}
	}
	switch {
	case len(a) < len(b):
		return -1
	case len(a) > len(b):
		return 1
	}
	return 0
}
