package zzspec

const maxUint64Dec = "18446744073709551615"

var pow10tab = [20]uint64{1, 10, 100, 1000, 10000, 100000, 1000000, 10000000, 100000000, 1000000000,
	10000000000, 100000000000, 1000000000000, 10000000000000, 100000000000000, 1000000000000000,
	10000000000000000, 100000000000000000, 1000000000000000000, 10000000000000000000}

// UintDec is the reference for parsing a JSON unsigned integer literal.
// class: 0 = value v, 1 = grammatical but >= 2^64 (overflow), 2 = not an unsigned integer literal.
func UintDec(b []byte) (v uint64, class int) {
	if len(b) == 0 {
		return 0, 2
	}
	for _, c := range b {
		if c < '0' || c > '9' {
			return 0, 2
		}
	}
	if b[0] == '0' && len(b) > 1 {
		return 0, 2
	}
	if len(b) > 20 {
		return 0, 1
	}
	if len(b) == 20 {
		// compare digit strings of equal length lexicographically
		for i := 0; i < 20; i++ {
			if b[i] != maxUint64Dec[i] {
				if b[i] > maxUint64Dec[i] {
					return 0, 1
				}
				break
			}
		}
	}
	// sum of digit * power of ten (cannot overflow here)
	for i := 0; i < len(b); i++ {
		v += uint64(b[i]-'0') * pow10tab[len(b)-1-i]
	}
	return v, 0
}
