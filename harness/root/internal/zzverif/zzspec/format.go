package zzspec

// Reference notions for the reformatting properties (C12, C13): the meaning of a JSON text
// as a tree, equality of meanings modulo the differences an option set permits, and the
// RFC 8785 canonical form for texts whose numbers are short integer literals.

// Node is the meaning of one JSON value together with the spelling of its scalars.
type Node struct {
	Kind  byte    // '{' '[' '"' '0' 'n' 't' 'f'
	Lit   []byte  // scalars: the literal as spelled (strings include their quotes)
	Text  []byte  // strings: the unescaped text (U+FFFD for every ill-formed byte / lone surrogate)
	Names []*Node // objects: member names in textual order (string nodes)
	Elems []*Node // arrays: elements; objects: member values, parallel to Names
}

// Parse returns the tree of b, which must be a valid JSON text (ValidText under some options).
func Parse(b []byte) *Node {
	n, _ := parseValue(b, SkipWS(b, 0))
	return n
}

func parseValue(b []byte, pos int) (*Node, int) {
	c := b[pos]
	switch {
	case c == '"':
		e := ScanString(b, pos, false)
		return &Node{Kind: '"', Lit: b[pos:e], Text: Unescape(b[pos:e])}, e
	case c == '-' || isDigit(c):
		e := ScanNumber(b, pos)
		return &Node{Kind: '0', Lit: b[pos:e]}, e
	case c == '[':
		nd := &Node{Kind: '['}
		i := SkipWS(b, pos+1)
		if b[i] == ']' {
			return nd, i + 1
		}
		for {
			var el *Node
			el, i = parseValue(b, i)
			nd.Elems = append(nd.Elems, el)
			i = SkipWS(b, i)
			if b[i] == ']' {
				return nd, i + 1
			}
			i = SkipWS(b, i+1) // ','
		}
	case c == '{':
		nd := &Node{Kind: '{'}
		i := SkipWS(b, pos+1)
		if b[i] == '}' {
			return nd, i + 1
		}
		for {
			var nm, el *Node
			nm, i = parseValue(b, i)
			i = SkipWS(b, i)
			i = SkipWS(b, i+1) // ':'
			el, i = parseValue(b, i)
			nd.Names = append(nd.Names, nm)
			nd.Elems = append(nd.Elems, el)
			i = SkipWS(b, i)
			if b[i] == '}' {
				return nd, i + 1
			}
			i = SkipWS(b, i+1) // ','
		}
	}
	e := ScanLiteral(b, pos)
	return &Node{Kind: c, Lit: b[pos:e]}, e
}

// Tok is one token of a JSON text: its kind, and for strings the text, for numbers the literal.
type Tok struct {
	Kind byte
	Lit  []byte
	Text []byte
}

// Tokens returns the token sequence of the valid JSON text b.
func Tokens(b []byte) []Tok {
	return appendTokens(nil, Parse(b))
}

func appendTokens(ts []Tok, n *Node) []Tok {
	switch n.Kind {
	case '[':
		ts = append(ts, Tok{Kind: '['})
		for _, e := range n.Elems {
			ts = appendTokens(ts, e)
		}
		return append(ts, Tok{Kind: ']'})
	case '{':
		ts = append(ts, Tok{Kind: '{'})
		for i, e := range n.Elems {
			ts = appendTokens(ts, n.Names[i])
			ts = appendTokens(ts, e)
		}
		return append(ts, Tok{Kind: '}'})
	}
	return append(ts, Tok{Kind: n.Kind, Lit: n.Lit, Text: n.Text})
}

// Differences lists what a reformatting operation may change besides whitespace.
type Differences struct {
	StringSpelling bool // escapes may be re-spelled (the text must stay the same)
	CanonInts      bool // integer literals may be re-spelled as their canonical float64 form
	CanonFloats    bool // literals with fraction/exponent may be re-spelled likewise
	MemberOrder    bool // the members of an object may be permuted
}

func isFloatLit(lit []byte) bool {
	for _, c := range lit {
		if c == '.' || c == 'e' || c == 'E' {
			return true
		}
	}
	return false
}

// numberOK decides whether the number literal out is an allowed re-spelling of in.
// Known canonical spellings: -0 is 0; an integer of at most 15 digits is its own ECMAScript
// form. Anything else under a Canon option is produced by strconv and not judged here.
func numberOK(in, out []byte, d Differences) bool {
	if (d.CanonInts || d.CanonFloats) && len(in) == 2 && in[0] == '-' && in[1] == '0' {
		return len(out) == 1 && out[0] == '0'
	}
	if isFloatLit(in) {
		if d.CanonFloats {
			return true
		}
		return bytesEqual(in, out)
	}
	digits := len(in)
	if in[0] == '-' {
		digits--
	}
	if d.CanonInts && digits > 15 {
		return true
	}
	return bytesEqual(in, out)
}

// Same reports whether out means the same as in, differing at most as d permits.
func Same(in, out *Node, d Differences) bool {
	if in.Kind != out.Kind {
		return false
	}
	switch in.Kind {
	case '"':
		if !d.StringSpelling {
			return bytesEqual(in.Lit, out.Lit)
		}
		return bytesEqual(in.Text, out.Text)
	case '0':
		return numberOK(in.Lit, out.Lit, d)
	case '[':
		if len(in.Elems) != len(out.Elems) {
			return false
		}
		for i := range in.Elems {
			if !Same(in.Elems[i], out.Elems[i], d) {
				return false
			}
		}
		return true
	case '{':
		if len(in.Elems) != len(out.Elems) {
			return false
		}
		if !d.MemberOrder {
			for i := range in.Elems {
				if !Same(in.Names[i], out.Names[i], d) || !Same(in.Elems[i], out.Elems[i], d) {
					return false
				}
			}
			return true
		}
		// multiset equality: match every member of in with a distinct equal member of out
		used := make([]bool, len(out.Elems))
		for i := range in.Elems {
			found := false
			for j := range out.Elems {
				if !used[j] && Same(in.Names[i], out.Names[j], d) && Same(in.Elems[i], out.Elems[j], d) {
					used[j] = true
					found = true
					break
				}
			}
			if !found {
				return false
			}
		}
		return true
	}
	return true // null, true, false: the kind is the value
}

// NoSpace reports whether the valid JSON text b has no whitespace outside string literals.
func NoSpace(b []byte) bool {
	for i := 0; i < len(b); {
		c := b[i]
		if isWS(c) {
			return false
		}
		if c == '"' {
			i = ScanString(b, i, false)
			continue
		}
		i++
	}
	return true
}

// AllStrings reports whether pred holds for every string literal (names and values) of n.
func AllStrings(n *Node, pred func(lit, text []byte) bool) bool {
	switch n.Kind {
	case '"':
		return pred(n.Lit, n.Text)
	case '[', '{':
		for _, m := range n.Names {
			if !pred(m.Lit, m.Text) {
				return false
			}
		}
		for _, e := range n.Elems {
			if !AllStrings(e, pred) {
				return false
			}
		}
	}
	return true
}

// MembersSorted reports whether in every object of n the member names are in ascending
// UTF-16 code-unit order (RFC 8785 section 3.2.3); with strict, equal names are not allowed.
func MembersSorted(n *Node, strict bool) bool {
	for i := 1; i < len(n.Names); i++ {
		c := CmpUTF16(n.Names[i-1].Text, n.Names[i].Text)
		if c > 0 || (strict && c == 0) {
			return false
		}
	}
	for _, e := range n.Elems {
		if !MembersSorted(e, strict) {
			return false
		}
	}
	return true
}

// Canonical returns the RFC 8785 form of a tree whose numbers are integer literals of at
// most 15 digits (their own ECMAScript spelling; -0 is 0): no whitespace, strings spelled
// minimally, members sorted by the UTF-16 code units of their names.
func Canonical(dst []byte, n *Node) []byte {
	switch n.Kind {
	case '"':
		return append(dst, MinimalQuote(n.Text, false, false)...)
	case '0':
		if len(n.Lit) == 2 && n.Lit[0] == '-' && n.Lit[1] == '0' {
			return append(dst, '0')
		}
		return append(dst, n.Lit...)
	case '[':
		dst = append(dst, '[')
		for i, e := range n.Elems {
			if i > 0 {
				dst = append(dst, ',')
			}
			dst = Canonical(dst, e)
		}
		return append(dst, ']')
	case '{':
		// insertion sort of the member indices by name
		idx := make([]int, 0, len(n.Names))
		for i := range n.Names {
			j := len(idx)
			idx = append(idx, i)
			for j > 0 && CmpUTF16(n.Names[idx[j-1]].Text, n.Names[i].Text) > 0 {
				idx[j] = idx[j-1]
				j--
			}
			idx[j] = i
		}
		dst = append(dst, '{')
		for k, i := range idx {
			if k > 0 {
				dst = append(dst, ',')
			}
			dst = append(dst, MinimalQuote(n.Names[i].Text, false, false)...)
			dst = append(dst, ':')
			dst = Canonical(dst, n.Elems[i])
		}
		return append(dst, '}')
	}
	return append(dst, n.Lit...)
}

// ShortInts reports whether every number of n is an integer literal of at most 15 digits.
func ShortInts(n *Node) bool {
	if n.Kind == '0' {
		d := len(n.Lit)
		if n.Lit[0] == '-' {
			d--
		}
		return !isFloatLit(n.Lit) && d <= 15
	}
	for _, e := range n.Elems {
		if !ShortInts(e) {
			return false
		}
	}
	return true
}

// StripSpace returns the valid JSON text b without the whitespace outside string literals:
// every token verbatim, nothing else.
func StripSpace(b []byte) []byte {
	out := make([]byte, 0, len(b))
	for i := 0; i < len(b); {
		c := b[i]
		switch {
		case isWS(c):
			i++
		case c == '"':
			e := ScanString(b, i, false)
			out = append(out, b[i:e]...)
			i = e
		default:
			out = append(out, c)
			i++
		}
	}
	return out
}

// ElementsIndented reports whether in the valid JSON text b every array element and every
// object member begins on a new line that consists of prefix followed by one copy of indent
// per nesting level.
func ElementsIndented(b []byte, prefix, indent string) bool {
	depth := 0
	for i := 0; i < len(b); {
		c := b[i]
		switch {
		case c == '[' || c == '{':
			depth++
			j := SkipWS(b, i+1)
			if b[j] != ']' && b[j] != '}' && !lineStart(b, j, depth, prefix, indent) {
				return false
			}
			i++
		case c == ']' || c == '}':
			depth--
			i++
		case c == ',':
			if !lineStart(b, SkipWS(b, i+1), depth, prefix, indent) {
				return false
			}
			i++
		case c == '"':
			i = ScanString(b, i, false)
		default:
			i++
		}
	}
	return true
}

// lineStart: b[:j] ends with "\n" + prefix + depth*indent.
func lineStart(b []byte, j, depth int, prefix, indent string) bool {
	want := "\n" + prefix
	for k := 0; k < depth; k++ {
		want += indent
	}
	if j < len(want) {
		return false
	}
	for k := 0; k < len(want); k++ {
		if b[j-len(want)+k] != want[k] {
			return false
		}
	}
	return true
}

// Spaced returns the valid JSON text b with ws (whitespace) inserted at the start, at the end
// and on both sides of every structural character: a text that differs from b in whitespace only.
func Spaced(b []byte, ws string) []byte {
	out := append(make([]byte, 0, 4*len(b)), ws...)
	for i := 0; i < len(b); {
		c := b[i]
		switch {
		case c == '"':
			e := ScanString(b, i, false)
			out = append(out, b[i:e]...)
			i = e
		case c == '{' || c == '}' || c == '[' || c == ']' || c == ',' || c == ':':
			out = append(out, ws...)
			out = append(out, c)
			out = append(out, ws...)
			i++
		default:
			out = append(out, c)
			i++
		}
	}
	return append(out, ws...)
}

const hexUpper = "0123456789ABCDEF"

func appendU(dst []byte, u uint32) []byte {
	return append(dst, '\\', 'u', hexUpper[(u>>12)&15], hexUpper[(u>>8)&15], hexUpper[(u>>4)&15], hexUpper[u&15])
}

// EscapeAll returns the JSON text b (valid under RFC 7493) with every character that is
// written raw in a string literal re-spelled as a \uXXXX escape (a surrogate pair above
// U+FFFF, upper-case hex digits); existing escapes are kept: a text that differs from b in
// escape spelling only.
func EscapeAll(b []byte) []byte {
	out := make([]byte, 0, 6*len(b))
	for i := 0; i < len(b); {
		if b[i] != '"' {
			out = append(out, b[i])
			i++
			continue
		}
		e := ScanString(b, i, true)
		out = append(out, '"')
		for j := i + 1; j < e-1; {
			if b[j] == '\\' {
				k := 2
				if b[j+1] == 'u' {
					k = 6
				}
				out = append(out, b[j:j+k]...)
				j += k
				continue
			}
			k := UTF8Len(b, j)
			r := DecodeRune(b, j, k)
			if r >= 0x10000 {
				r -= 0x10000
				out = appendU(out, 0xD800+(r>>10))
				out = appendU(out, 0xDC00+(r&0x3FF))
			} else {
				out = appendU(out, r)
			}
			j += k
		}
		out = append(out, '"')
		i = e
	}
	return out
}
