package zzspec

import (
	"math"
	"strconv"
)

// ParseAny is the reference meaning of a valid JSON text as an untyped Go value:
// nil, bool, string (RFC 8259 unescaping), float64 (strconv.ParseFloat of the literal),
// []any in order, map[string]any with exactly the members (last one wins on duplicates).
// b must be valid (ValidText); ok=false when a number is out of float64 range.
func ParseAny(b []byte) (v any, ok bool) {
	i := SkipWS(b, 0)
	v, _, ok = parseAnyAt(b, i)
	return v, ok
}

func parseAnyAt(b []byte, i int) (v any, end int, ok bool) {
	switch c := b[i]; {
	case c == '"':
		e := ScanString(b, i, false)
		return string(Unescape(b[i:e])), e, true
	case c == 'n':
		return nil, i + 4, true
	case c == 't':
		return true, i + 4, true
	case c == 'f':
		return false, i + 5, true
	case c == '[':
		arr := []any{}
		i = SkipWS(b, i+1)
		if b[i] == ']' {
			return arr, i + 1, true
		}
		for {
			var e any
			e, i, ok = parseAnyAt(b, i)
			if !ok {
				return nil, i, false
			}
			arr = append(arr, e)
			i = SkipWS(b, i)
			if b[i] == ']' {
				return arr, i + 1, true
			}
			i = SkipWS(b, i+1) // ','
		}
	case c == '{':
		obj := map[string]any{}
		i = SkipWS(b, i+1)
		if b[i] == '}' {
			return obj, i + 1, true
		}
		for {
			e := ScanString(b, i, false)
			name := string(Unescape(b[i:e]))
			i = SkipWS(b, e)
			i = SkipWS(b, i+1) // ':'
			var val any
			val, i, ok = parseAnyAt(b, i)
			if !ok {
				return nil, i, false
			}
			obj[name] = val
			i = SkipWS(b, i)
			if b[i] == '}' {
				return obj, i + 1, true
			}
			i = SkipWS(b, i+1) // ','
		}
	default:
		e := ScanNumber(b, i)
		f, err := strconv.ParseFloat(string(b[i:e]), 64)
		if err != nil {
			return nil, e, false
		}
		return f, e, true
	}
}

// EqualAny compares two untyped trees structurally (no reflection): same dynamic shapes,
// same strings, identical float64 bits, arrays in order, maps with exactly the same members.
func EqualAny(x, y any) bool {
	switch x := x.(type) {
	case nil:
		return y == nil
	case bool:
		y, ok := y.(bool)
		return ok && x == y
	case string:
		y, ok := y.(string)
		return ok && x == y
	case float64:
		y, ok := y.(float64)
		return ok && math.Float64bits(x) == math.Float64bits(y)
	case []any:
		y, ok := y.([]any)
		if !ok || len(x) != len(y) {
			return false
		}
		for i := range x {
			if !EqualAny(x[i], y[i]) {
				return false
			}
		}
		return true
	case map[string]any:
		y, ok := y.(map[string]any)
		if !ok || len(x) != len(y) {
			return false
		}
		for k, xv := range x {
			yv, ok := y[k]
			if !ok || !EqualAny(xv, yv) {
				return false
			}
		}
		return true
	}
	return false
}
