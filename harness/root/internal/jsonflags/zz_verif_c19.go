package jsonflags

import "github.com/go-json-experiment/json/internal/zzverif/vrt"

func zzInv(f Flags) bool { return f.Values&^f.Presence == 0 && f.Presence&1 == 0 && f.Values&1 == 0 }

func zzBit(w uint64, i uint) bool { return (w>>i)&1 == 1 }

// VerifC19Flags: Set / Join / Clear / Get / Has implement a last-wins map from flag bit to
// bool, for all 64-bit states satisfying the representation invariant and all arguments.
// The key (bit index) is symbolic as well: one query covers every key.
func VerifC19Flags() {
	fs := Flags{Presence: vrt.Uint64("p"), Values: vrt.Uint64("v")}
	vrt.Assume(zzInv(fs))
	i := uint(vrt.Uint64("i"))
	vrt.Assume(i >= 1 && i <= 63)
	key := Bools(1) << i
	had, val := zzBit(fs.Presence, i), zzBit(fs.Values, i)
	vrt.Assert("C19/flags/has", fs.Has(key) == had)
	vrt.Assert("C19/flags/get", fs.Get(key) == val)

	// Set(f) with an arbitrary argument word: identity bits = f&^1, value = f&1.
	f := Bools(vrt.Uint64("f"))
	g := fs
	g.Set(f)
	inF := zzBit(uint64(f), i)
	fv := uint64(f)&1 == 1
	vrt.Assert("C19/flags/set/invariant", zzInv(g))
	vrt.Assert("C19/flags/set/present", g.Has(key) == (had || inF))
	if inF {
		vrt.Assert("C19/flags/set/value-last-wins", g.Get(key) == fv)
	} else {
		vrt.Assert("C19/flags/set/value-kept", g.Get(key) == val)
	}

	// Join(src) for an arbitrary src satisfying the invariant.
	src := Flags{Presence: vrt.Uint64("sp"), Values: vrt.Uint64("sv")}
	vrt.Assume(zzInv(src))
	h := fs
	h.Join(src)
	sHad, sVal := zzBit(src.Presence, i), zzBit(src.Values, i)
	vrt.Assert("C19/flags/join/invariant", zzInv(h))
	vrt.Assert("C19/flags/join/present", h.Has(key) == (had || sHad))
	if sHad {
		vrt.Assert("C19/flags/join/value-last-wins", h.Get(key) == sVal)
	} else {
		vrt.Assert("C19/flags/join/value-kept", h.Get(key) == val)
	}

	// Clear(c) removes exactly the keys in c.
	c := Bools(vrt.Uint64("c"))
	k := fs
	k.Clear(c)
	inC := zzBit(uint64(c), i)
	vrt.Assert("C19/flags/clear/invariant", k.Values&^k.Presence == 0)
	if inC {
		vrt.Assert("C19/flags/clear/removed", !k.Has(key) && !k.Get(key))
	} else {
		vrt.Assert("C19/flags/clear/kept", k.Has(key) == had && k.Get(key) == val)
	}
	vrt.Cover("end")
}

// VerifC19V1V2: joining DefaultV1 flags, then anything, then DefaultV2 flags leaves every
// v1 default flag false.
func VerifC19V1V2() {
	x := Flags{Presence: vrt.Uint64("p"), Values: vrt.Uint64("v")}
	vrt.Assume(zzInv(x))
	var fs Flags
	fs.Join(Flags{Presence: uint64(DefaultV1Flags), Values: uint64(DefaultV1Flags)})
	fs.Join(x)
	fs.Join(Flags{Presence: uint64(DefaultV1Flags), Values: 0})
	vrt.Assert("C19/v1v2/cancelled", fs.Values&uint64(DefaultV1Flags) == 0)
	vrt.Assert("C19/v1v2/others-from-x", fs.Values&^uint64(DefaultV1Flags) == x.Values&^uint64(DefaultV1Flags))
	vrt.Cover("end")
}
