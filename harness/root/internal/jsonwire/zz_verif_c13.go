package jsonwire

import (
	"github.com/go-json-experiment/json/internal/zzverif/vrt"
	"github.com/go-json-experiment/json/internal/zzverif/zzspec"
)

// zzC13Unpct decodes %XX (two upper-case hex digits) in a skeleton to the byte 0xXX, so that
// obligations can name arbitrary bytes in plain ASCII.
func zzC13Unpct(s string) string {
	hv := func(c byte) byte {
		if c >= 'A' {
			return c - 'A' + 10
		}
		return c - '0'
	}
	b := make([]byte, 0, len(s))
	for i := 0; i < len(s); i++ {
		if s[i] == '%' && i+2 < len(s) {
			b = append(b, hv(s[i+1])<<4|hv(s[i+2]))
			i += 2
			continue
		}
		b = append(b, s[i])
	}
	return string(b)
}

func zzC13Sign(c int) int {
	switch {
	case c < 0:
		return -1
	case c > 0:
		return 1
	}
	return 0
}

// zzC13CmpCheck: on well-formed UTF-8 CompareUTF16 is the order of the UTF-16 code units
// (RFC 8785 section 3.2.3); on all inputs it is reflexive and antisymmetric.
func zzC13CmpCheck(x, y []byte) {
	got := CompareUTF16(x, y)
	rev := CompareUTF16(y, x)
	vrt.Observe("got", got)
	vrt.Assert("C13/cmp/antisymmetric", zzC13Sign(got) == -zzC13Sign(rev))
	vrt.Assert("C13/cmp/reflexive", CompareUTF16(x, x) == 0 && CompareUTF16(y, y) == 0)
	if zzspec.UTF8WellFormed(x) && zzspec.UTF8WellFormed(y) {
		vrt.Cover("well-formed")
		want := zzspec.CmpUTF16(x, y)
		if want < 0 {
			vrt.Cover("less")
		}
		vrt.Assert("C13/cmp/utf16-order", zzC13Sign(got) == want)
	} else {
		vrt.Cover("ill-formed")
	}
}

// VerifC13Cmp: all x of nx bytes and y of ny bytes (full range).
func VerifC13Cmp(nx, ny int) {
	x := vrt.Bytes("x", nx)
	y := vrt.Bytes("y", ny)
	vrt.InputBits(8 * (nx + ny))
	zzC13CmpCheck(x, y)
}

// VerifC13CmpT: skeletons with holes, to reach 3- and 4-byte sequences on both sides (where
// the UTF-16 order differs from the UTF-8 byte order: U+E000..U+FFFF against U+10000 and up).
func VerifC13CmpT(tx, ty string) {
	x := vrt.Template("x", zzC13Unpct(tx))
	y := vrt.Template("y", zzC13Unpct(ty))
	zzC13CmpCheck(x, y)
}

// VerifC13CmpTrans: CompareUTF16 is transitive on well-formed inputs (what sorting needs).
func VerifC13CmpTrans(tx, ty, tz string) {
	x := vrt.Template("x", zzC13Unpct(tx))
	y := vrt.Template("y", zzC13Unpct(ty))
	z := vrt.Template("z", zzC13Unpct(tz))
	vrt.Assume(zzspec.UTF8WellFormed(x) && zzspec.UTF8WellFormed(y) && zzspec.UTF8WellFormed(z))
	xy, yz, xz := CompareUTF16(x, y), CompareUTF16(y, z), CompareUTF16(x, z)
	if xy <= 0 && yz <= 0 {
		vrt.Cover("chain")
		vrt.Assert("C13/cmp/transitive", xz <= 0 && (xz < 0 || (xy == 0 && yz == 0)))
	}
}
