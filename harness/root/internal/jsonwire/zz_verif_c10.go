package jsonwire

import (
	"math"

	"github.com/go-json-experiment/json/internal/zzverif/vrt"
	"github.com/go-json-experiment/json/internal/zzverif/zzspec"
)

// VerifC10ParseUint: ParseUint on every byte string of length n.
func VerifC10ParseUint(n int) {
	b := vrt.Bytes("b", n)
	v, ok := ParseUint(b)
	want, class := zzspec.UintDec(b)
	vrt.Observe("v", v)
	vrt.Observe("ok", ok)
	switch class {
	case 0:
		vrt.Cover("value")
		vrt.Assert("C10/parseuint/ok", ok)
		vrt.Assert("C10/parseuint/value-exact", v == want)
	case 1:
		vrt.Cover("overflow")
		vrt.Assert("C10/parseuint/overflow", !ok && v == math.MaxUint64)
	default:
		vrt.Cover("syntax")
		vrt.Assert("C10/parseuint/syntax", !ok && v == 0)
	}
}
