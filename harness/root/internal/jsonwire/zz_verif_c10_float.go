package jsonwire

import (
	"bytes"
	"math"

	"github.com/go-json-experiment/json/internal/zzverif/vrt"
)

// VerifC10FloatLayout: the ECMA-262 Number::toString LAYOUT of AppendFloat for every finite
// float64 (bits 64) / every float64 value rounded to float32 first (bits 32): exponent form
// exactly when 0 < |x| < 1e-6 or |x| >= 1e21, the exponent without leading zeros and with an
// explicit sign, plain form otherwise, "-0" for negative zero. The digits themselves are
// strconv's (the engine models only the shape of its output, see the stub's contract).
func VerifC10FloatLayout(bits int) {
	x := vrt.Float64("x")
	vrt.Assume(!math.IsNaN(x) && !math.IsInf(x, 0))
	if bits == 32 {
		vrt.Assume(!math.IsInf(float64(float32(x)), 0))
	}
	out := AppendFloat(nil, x, bits)
	var wantE bool
	if bits == 64 {
		abs := math.Abs(x)
		wantE = abs != 0 && (abs < 1e-6 || abs >= 1e21)
	} else {
		abs := float32(math.Abs(float64(float32(x))))
		wantE = abs != 0 && (abs < 1e-6 || abs >= 1e21)
	}
	i := bytes.IndexByte(out, 'e')
	vrt.Assert("C10/floatlayout/exponent-form-iff-ecma-range", (i >= 0) == wantE)
	if i >= 0 {
		vrt.Cover("exponent-form")
		ok := i+2 < len(out) && (out[i+1] == '+' || out[i+1] == '-') && out[i+2] != '0'
		vrt.Assert("C10/floatlayout/exponent-signed-without-leading-zero", ok)
	} else {
		vrt.Cover("plain-form")
	}
	if x == 0 && math.Signbit(x) {
		vrt.Assert("C10/floatlayout/negative-zero-kept", bytes.Equal(out, []byte("-0")))
		vrt.Cover("negative-zero")
	}
}
