package jsonwire

import (
	"bytes"
	"io"

	"github.com/go-json-experiment/json/internal/jsonflags"
	"github.com/go-json-experiment/json/internal/zzverif/vrt"
	"github.com/go-json-experiment/json/internal/zzverif/zzspec"
)

func zzFlags(html, js, allowInvalid, preserve bool) *jsonflags.Flags {
	var f jsonflags.Flags
	if html {
		f.Set(jsonflags.EscapeForHTML | 1)
	}
	if js {
		f.Set(jsonflags.EscapeForJS | 1)
	}
	if allowInvalid {
		f.Set(jsonflags.AllowInvalidUTF8 | 1)
	}
	if preserve {
		f.Set(jsonflags.PreserveRawStrings | 1)
	}
	return &f
}

// zzNoRaw reports whether a string literal contains none of the characters that the escape
// options forbid in raw form.
func zzNoRaw(lit []byte, html, js bool) bool {
	for i := 0; i < len(lit); i++ {
		c := lit[i]
		if html && (c == '<' || c == '>' || c == '&') {
			return false
		}
		if js && c == 0xE2 && i+2 < len(lit) && lit[i+1] == 0x80 && (lit[i+2] == 0xA8 || lit[i+2] == 0xA9) {
			return false
		}
	}
	return true
}

// VerifC11Quote: AppendQuote produces the minimal literal (RFC 8785 3.2.2.2, plus the
// requested HTML/JS escapes), reports invalid UTF-8 exactly when present and not allowed,
// and AppendUnquote of the result returns the text (U+FFFD per ill-formed byte).
func VerifC11Quote(n int, html, js, allowInvalid bool) {
	s := vrt.Bytes("s", n)
	vrt.InputBits(8 * n)
	out, err := AppendQuote(nil, s, zzFlags(html, js, allowInvalid, false))
	want := zzspec.MinimalQuote(s, html, js)
	wf := zzspec.UTF8WellFormed(s)
	vrt.Observe("out", out)
	vrt.Observe("errnil", err == nil)
	if wf {
		vrt.Cover("well-formed")
	} else {
		vrt.Cover("ill-formed")
	}
	vrt.Assert("C11/quote/minimal-literal", bytes.Equal(out, want))
	vrt.Assert("C11/quote/error-iff-invalid-utf8", (err != nil) == (!wf && !allowInvalid))
	vrt.Assert("C11/quote/no-raw-escapable", zzNoRaw(out, html, js))
	// the literal must scan as exactly one valid string
	var vf ValueFlags
	k, cerr := ConsumeString(&vf, out, true)
	vrt.Assert("C11/quote/valid-literal", cerr == nil && k == len(out))
	back, uerr := AppendUnquote(nil, out)
	vrt.Assert("C11/quote/unquote-ok", uerr == nil)
	vrt.Assert("C11/quote/meaning", bytes.Equal(back, zzspec.Unescape(want)))
	if wf {
		vrt.Assert("C11/quote/roundtrip", bytes.Equal(back, s))
	}
	if !html && !js && wf {
		// what AppendQuote emits without escape options is canonical: the scanner must agree
		vrt.Assert("C11/quote/canonical-flag", vf.IsCanonical())
	}
}

// VerifC11Scan: ConsumeString accepts exactly the string grammar (with/without UTF-8
// validation) and classifies truncated input as io.ErrUnexpectedEOF; AppendUnquote yields the
// RFC 8259 meaning; the canonical/verbatim flags are sound.
func VerifC11Scan(n int, validate bool) {
	b := vrt.Bytes("b", n)
	vrt.InputBits(8 * n)
	var vf ValueFlags
	k, err := ConsumeString(&vf, b, validate)
	want := zzspec.ScanString(b, 0, validate)
	vrt.Observe("k", k)
	vrt.Observe("errnil", err == nil)
	switch {
	case want >= 0:
		vrt.Cover("accept")
		vrt.Assert("C11/scan/accept", err == nil && k == want)
		lit := b[:want]
		got, uerr := AppendUnquote(nil, lit)
		ref := zzspec.Unescape(lit)
		vrt.Assert("C11/scan/unquote-meaning", bytes.Equal(got, ref))
		if validate {
			vrt.Assert("C11/scan/unquote-noerror", uerr == nil)
		}
		vrt.Assert("C11/scan/unquote-maycopy", bytes.Equal(UnquoteMayCopy(lit, vf.IsVerbatim()), ref))
		if vf.IsVerbatim() {
			vrt.Assert("C11/scan/verbatim-sound", bytes.Equal(lit[1:len(lit)-1], ref))
		}
		if vf.IsCanonical() {
			vrt.Assert("C11/scan/canonical-sound", bytes.Equal(zzspec.MinimalQuote(ref, false, false), lit))
		}
		if s := ConsumeSimpleString(b); s != 0 {
			vrt.Assert("C11/scan/simple-agrees", s == want)
		}
	case want == zzspec.Truncated:
		vrt.Cover("truncated")
		vrt.Assert("C11/scan/truncated", err == io.ErrUnexpectedEOF)
		vrt.Assert("C11/scan/simple-zero", ConsumeSimpleString(b) == 0)
	default:
		vrt.Cover("invalid")
		vrt.Assert("C11/scan/invalid", err != nil && err != io.ErrUnexpectedEOF)
		vrt.Assert("C11/scan/simple-zero", ConsumeSimpleString(b) == 0)
	}
}

// VerifC11Reformat: ReformatString keeps the meaning of every valid literal under every
// escape/preserve option set, never leaves a raw character the escape options forbid, and
// copies verbatim under PreserveRawStrings without escape options.
func VerifC11Reformat(n int, html, js, allowInvalid, preserve bool) {
	b := vrt.Bytes("b", n)
	vrt.InputBits(8 * n)
	want := zzspec.ScanString(b, 0, !allowInvalid)
	out, k, err := ReformatString(nil, b, zzFlags(html, js, allowInvalid, preserve))
	vrt.Observe("k", k)
	vrt.Observe("out", out)
	if want < 0 {
		vrt.Cover("reject")
		vrt.Assert("C11/reformat/reject", err != nil && len(out) == 0)
		return
	}
	vrt.Cover("accept")
	lit := b[:want]
	vrt.Assert("C11/reformat/accept", err == nil && k == want)
	e := zzspec.ScanString(out, 0, false)
	vrt.Assert("C11/reformat/valid-literal", e == len(out))
	if e != len(out) {
		return
	}
	vrt.Assert("C11/reformat/meaning", bytes.Equal(zzspec.Unescape(out), zzspec.Unescape(lit)))
	vrt.Assert("C11/reformat/no-raw-escapable", zzNoRaw(out, html, js))
	if preserve && !html && !js {
		vrt.Assert("C11/reformat/preserve-verbatim", bytes.Equal(out, lit))
	}
	if !preserve {
		vrt.Assert("C11/reformat/minimal", bytes.Equal(out, zzspec.MinimalQuote(zzspec.Unescape(lit), html, js)))
	}
}

// VerifC11ScanT: as VerifC11Scan on a concrete skeleton with symbolic holes ('?'), to reach
// \uXXXX escapes and surrogate pairs, which need more bytes than a fully symbolic input affords.
func VerifC11ScanT(tmpl string, validate bool) {
	b := vrt.Template("h", tmpl)
	var vf ValueFlags
	k, err := ConsumeString(&vf, b, validate)
	want := zzspec.ScanString(b, 0, validate)
	vrt.Observe("k", k)
	vrt.Observe("errnil", err == nil)
	switch {
	case want >= 0:
		vrt.Cover("accept")
		vrt.Assert("C11/scanT/accept", err == nil && k == want)
		lit := b[:want]
		got, _ := AppendUnquote(nil, lit)
		ref := zzspec.Unescape(lit)
		vrt.Observe("got", got)
		vrt.Assert("C11/scanT/unquote-meaning", bytes.Equal(got, ref))
		vrt.Assert("C11/scanT/unquote-maycopy", bytes.Equal(UnquoteMayCopy(lit, vf.IsVerbatim()), ref))
		if vf.IsVerbatim() {
			vrt.Assert("C11/scanT/verbatim-sound", bytes.Equal(lit[1:len(lit)-1], ref))
		}
		if vf.IsCanonical() {
			vrt.Assert("C11/scanT/canonical-sound", bytes.Equal(zzspec.MinimalQuote(ref, false, false), lit))
		}
		// re-quoting the meaning and unquoting again is the identity on meanings
		rq, _ := AppendQuote(nil, ref, zzFlags(false, false, true, false))
		back, _ := AppendUnquote(nil, rq)
		vrt.Assert("C11/scanT/requote-roundtrip", bytes.Equal(back, ref))
	case want == zzspec.Truncated:
		vrt.Cover("truncated")
		vrt.Assert("C11/scanT/truncated", err == io.ErrUnexpectedEOF)
	default:
		vrt.Cover("invalid")
		vrt.Assert("C11/scanT/invalid", err != nil && err != io.ErrUnexpectedEOF)
	}
}

// VerifC11NeedEscape: the lemma behind every "append raw, re-quote only if NeedEscape says so"
// fast path (Encoder.AppendRaw for text marshalers and map keys, pre-quoted struct member
// names): whenever NeedEscape(s) is false, quoting s under EVERY escape option set yields
// exactly '"' + s + '"' without error - so skipping the re-quote can never leave a raw
// character that EscapeForHTML/EscapeForJS forbid, invalid UTF-8, or a character needing a
// backslash escape.
func VerifC11NeedEscape(n int) {
	s := vrt.Bytes("s", n)
	vrt.InputBits(8 * n)
	if NeedEscape(s) {
		vrt.Cover("needs-escape")
		return
	}
	vrt.Cover("verbatim")
	plain := append(append([]byte{'"'}, s...), '"')
	for _, html := range []bool{false, true} {
		for _, js := range []bool{false, true} {
			out, err := AppendQuote(nil, s, zzFlags(html, js, false, false))
			vrt.Assert("C11/needescape/verbatim-is-safe", err == nil && bytes.Equal(out, plain))
		}
	}
	vrt.Assert("C11/needescape/reference-agrees", bytes.Equal(zzspec.MinimalQuote(s, true, true), plain) && zzspec.UTF8WellFormed(s))
}
