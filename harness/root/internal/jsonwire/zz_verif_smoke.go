package jsonwire

import "github.com/go-json-experiment/json/internal/zzverif/vrt"

// VerifSmokeWS: ConsumeWhitespace returns the length of the longest whitespace prefix.
func VerifSmokeWS(n int) {
	b := vrt.Bytes("b", n)
	vrt.InputBits(8 * n)
	got := ConsumeWhitespace(b)
	want := 0
	for want < len(b) && (b[want] == ' ' || b[want] == '\t' || b[want] == '\r' || b[want] == '\n') {
		want++
	}
	vrt.Observe("got", got)
	vrt.Cover("end")
	vrt.Assert("ws", got == want)
}

func VerifSmokeNum(n int) {
	b := vrt.Bytes("b", n)
	vrt.InputBits(8 * n)
	k, err := ConsumeNumber(b)
	vrt.Observe("k", k)
	vrt.Observe("errnil", err == nil)
	vrt.Assert("range", k >= 0 && k <= n)
}
