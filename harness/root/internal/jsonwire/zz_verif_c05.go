package jsonwire

import (
	"io"

	"github.com/go-json-experiment/json/internal/zzverif/vrt"
)

// VerifC05ResumeString: the resumption contract of the string scanner that streaming
// decoding relies on: for every input b (template with symbolic holes) and every cut point k,
// if scanning the prefix b[:k] reports io.ErrUnexpectedEOF with resume offset n1, then
// resuming on the whole input from n1 returns exactly what a single scan of the whole input
// returns (length, error class); and a prefix of an input that scans successfully is never
// declared invalid (only "need more").
func VerifC05ResumeString(tmpl string, validate bool) {
	b := vrt.Template("b", tmpl)
	var f0 ValueFlags
	n, err := ConsumeStringResumable(&f0, b, 0, validate)
	k := vrt.IntRange("cut", 0, len(b)-1)
	var f1 ValueFlags
	n1, err1 := ConsumeStringResumable(&f1, b[:k], 0, validate)
	vrt.Observe("n", n)
	vrt.Observe("errnil", err == nil)
	if err == nil && k < n {
		vrt.Cover("valid-cut-inside")
		vrt.Assert("C05/resume/prefix-of-valid-needs-more", err1 == io.ErrUnexpectedEOF)
	}
	if err1 != io.ErrUnexpectedEOF {
		return
	}
	vrt.Cover("resumed")
	n2, err2 := ConsumeStringResumable(&f1, b, n1, validate)
	vrt.Assert("C05/resume/same-length", n2 == n)
	vrt.Assert("C05/resume/same-error-class", (err2 == nil) == (err == nil) && (err2 == io.ErrUnexpectedEOF) == (err == io.ErrUnexpectedEOF))
	if err == nil {
		vrt.Assert("C05/resume/same-flags", f1 == f0)
	}
}

// VerifC05ResumeNumber: the same contract for the number scanner (resume offset and state).
func VerifC05ResumeNumber(tmpl string) {
	b := vrt.Template("b", tmpl)
	n, _, err := ConsumeNumberResumable(b, 0, 0)
	k := vrt.IntRange("cut", 0, len(b)-1)
	n1, st1, err1 := ConsumeNumberResumable(b[:k], 0, 0)
	vrt.Observe("n", n)
	if err1 != nil && err1 != io.ErrUnexpectedEOF {
		// a prefix may be declared invalid only if the whole input is invalid at or before it
		vrt.Assert("C05/resumeN/prefix-invalid-implies-invalid", err != nil && err != io.ErrUnexpectedEOF)
		return
	}
	// the streaming decoder resumes both after io.ErrUnexpectedEOF and after a clean stop at the
	// end of the buffer (the number might continue)
	if n1 != k && err1 == nil {
		return // stopped before the cut: the prefix result is final
	}
	vrt.Cover("resumed")
	n2, _, err2 := ConsumeNumberResumable(b, n1, st1)
	vrt.Assert("C05/resumeN/same-length", n2 == n)
	vrt.Assert("C05/resumeN/same-error-class", (err2 == nil) == (err == nil) && (err2 == io.ErrUnexpectedEOF) == (err == io.ErrUnexpectedEOF))
	// (the scanner state returned with a completed number is internal scratch: it is only ever
	// used to resume an incomplete one, so it is not compared)
}
