package json

import (
	"bytes"
	"errors"

	"github.com/go-json-experiment/json/internal/jsonflags"
	"github.com/go-json-experiment/json/internal/zzverif/vrt"
	"github.com/go-json-experiment/json/jsontext"
)

type zz19T struct {
	A int8 `json:"a,string"`
	B int8 `json:"b"`
	C bool `json:"c"`
}

type zz19Sink struct{ buf []byte }

func (w *zz19Sink) Write(p []byte) (int, error) {
	w.buf = append(w.buf, p...)
	return len(p), nil
}

// VerifC19Scope: options passed to UnmarshalDecode / MarshalEncode take precedence for that
// call only; the coder's own options (flags word and the non-boolean values) are intact
// afterwards - also after an error at any point of the input (templates with symbolic holes
// produce type mismatches inside string-tagged and plain fields, syntax errors, unknown
// members) - and a following call on the same coder behaves as on a coder that never saw the
// first call.
func VerifC19Scope(tmpl string, withCallOption, marshalSide bool) {
	if marshalSide {
		w := new(zz19Sink)
		enc := jsontext.NewEncoder(w, jsontext.SpaceAfterComma(true))
		xe := export.Encoder(enc)
		before := xe.Struct
		v := zz19T{A: int8(vrt.Byte("a")), B: 7, C: vrt.Bool("c")}
		var err error
		if withCallOption {
			err = MarshalEncode(enc, &v, StringifyNumbers(true), Deterministic(true))
		} else {
			err = MarshalEncode(enc, &v)
		}
		vrt.Observe("errnil", err == nil)
		vrt.Cover("first-call")
		vrt.Assert("C19/scope/encoder-flags-restored", xe.Struct.Flags == before.Flags)
		vrt.Assert("C19/scope/encoder-values-restored", xe.Struct.Indent == before.Indent && xe.Struct.IndentPrefix == before.IndentPrefix && xe.Struct.Format == before.Format)
		sn, ok := GetOption(enc.Options(), StringifyNumbers)
		vrt.Assert("C19/scope/call-option-not-leaked", !sn && !ok)
		return
	}
	b := vrt.Template("b", tmpl)
	rest := []byte(` {"a":"5","b":7,"c":true}`)
	in := append(append([]byte(nil), b...), rest...)
	dec := jsontext.NewDecoder(bytes.NewReader(in), jsontext.AllowDuplicateNames(true))
	xd := export.Decoder(dec)
	before := xd.Struct
	var v zz19T
	var err error
	if withCallOption {
		err = UnmarshalDecode(dec, &v, RejectUnknownMembers(true), MatchCaseInsensitiveNames(true))
	} else {
		err = UnmarshalDecode(dec, &v)
	}
	vrt.Observe("errnil", err == nil)
	if err == nil {
		vrt.Cover("first-ok")
	} else {
		vrt.Cover("first-error")
	}
	vrt.Assert("C19/scope/decoder-flags-restored", xd.Struct.Flags == before.Flags)
	vrt.Assert("C19/scope/decoder-values-restored", xd.Struct.Format == before.Format && xd.Struct.ByteLimit == before.ByteLimit && xd.Struct.DepthLimit == before.DepthLimit)
	sn, ok := GetOption(dec.Options(), StringifyNumbers)
	vrt.Assert("C19/scope/tag-flag-not-leaked", !sn && !ok)
	vrt.Assert("C19/scope/no-tagflags-left", !xd.Struct.Flags.Has(jsonflags.TagFlags))
	r, ok2 := GetOption(dec.Options(), RejectUnknownMembers)
	vrt.Assert("C19/scope/call-option-not-leaked", !r && !ok2)
}

type zz19emb struct {
	Q int8 `json:"q,string"`
	R int8 `json:"r"`
}

type zz19Nil struct {
	*zz19emb      // nil pointer to an unexported struct type: its fields cannot be set
	B        int8 `json:"b"`
}

// VerifC19ScopeNilEmbedded: as VerifC19Scope for a struct whose string-tagged member lies
// behind a nil embedded pointer to an unexported struct (Unmarshal cannot allocate it and
// reports an error): the decoder's own options are intact after that error too.
func VerifC19ScopeNilEmbedded(tmpl string, withCallOption bool) {
	b := vrt.Template("b", tmpl)
	dec := jsontext.NewDecoder(bytes.NewReader(b))
	xd := export.Decoder(dec)
	before := xd.Struct
	var v zz19Nil
	var err error
	if withCallOption {
		err = UnmarshalDecode(dec, &v, RejectUnknownMembers(true))
	} else {
		err = UnmarshalDecode(dec, &v)
	}
	vrt.Observe("errnil", err == nil)
	if err == nil {
		vrt.Cover("first-ok")
	} else {
		vrt.Cover("first-error")
	}
	vrt.Assert("C19/scope/decoder-flags-restored", xd.Struct.Flags == before.Flags)
	vrt.Assert("C19/scope/decoder-values-restored", xd.Struct.Format == before.Format)
	sn, ok := GetOption(dec.Options(), StringifyNumbers)
	vrt.Assert("C19/scope/tag-flag-not-leaked", !sn && !ok)
}

type zz19Fail struct{ ok bool }

var zz19ErrFail = errors.New("zz19: user marshaler fails")

func (f zz19Fail) MarshalJSONTo(enc *jsontext.Encoder) error {
	if f.ok {
		return enc.WriteToken(jsontext.Uint(1))
	}
	return zz19ErrFail
}

type zz19MF struct {
	A int8     `json:"a,string"`
	F zz19Fail `json:"f,string"`
	B int8     `json:"b"`
}

// VerifC19ScopeMarshalFail: MarshalEncode on a caller-owned Encoder of a struct whose
// string-tagged member fails (or not, as the solver chooses) to marshal: the encoder's own
// options are intact afterwards.
func VerifC19ScopeMarshalFail(withCallOption bool) {
	w := new(zz19Sink)
	enc := jsontext.NewEncoder(w, jsontext.AllowDuplicateNames(true))
	xe := export.Encoder(enc)
	before := xe.Struct
	v := zz19MF{A: 1, F: zz19Fail{ok: vrt.Bool("ok")}, B: 7}
	var err error
	if withCallOption {
		err = MarshalEncode(enc, &v, Deterministic(true))
	} else {
		err = MarshalEncode(enc, &v)
	}
	if err != nil {
		vrt.Cover("failed")
	} else {
		vrt.Cover("succeeded")
	}
	vrt.Assert("C19/scope/encoder-flags-restored", xe.Struct.Flags == before.Flags)
	vrt.Assert("C19/scope/encoder-values-restored", xe.Struct.Format == before.Format)
	sn, ok := GetOption(enc.Options(), StringifyNumbers)
	vrt.Assert("C19/scope/tag-flag-not-leaked", !sn && !ok)
}
