package json

import (
	"bytes"

	"github.com/go-json-experiment/json/internal/zzverif/vrt"
	"github.com/go-json-experiment/json/internal/zzverif/zzspec"
	"github.com/go-json-experiment/json/jsontext"
)

// C11, clause "with EscapeForHTML or EscapeForJS set, no string produced by any encode,
// marshal or format path contains a raw '<', '>', '&' or U+2028/U+2029, while still decoding
// to the same text": the paths by which a string reaches Marshal's output.

type zz11Text struct{ b []byte }

func (t zz11Text) MarshalText() ([]byte, error) { return t.b, nil }

type zz11Key struct{ s string }

func (t zz11Key) MarshalText() ([]byte, error) { return []byte(t.s), nil }

type zz11Appender struct{ b []byte }

func (t zz11Appender) AppendText(dst []byte) ([]byte, error) { return append(dst, t.b...), nil }

type zz11JSON struct{ lit []byte }

func (t zz11JSON) MarshalJSON() ([]byte, error) { return t.lit, nil }

type zz11To struct {
	s   []byte
	raw bool
}

func (t zz11To) MarshalJSONTo(e *jsontext.Encoder) error {
	if t.raw {
		return e.WriteValue(jsontext.Value(t.s))
	}
	return e.WriteToken(jsontext.String(string(t.s)))
}

// Member names each holding ONE of the characters the escape options care about (U+2028
// and U+2029 are written literally inside the raw-string tags), and one holding all.
type zz11Named struct {
	A int8 `json:"x<"`
	B int8 `json:">y"`
	C int8 `json:"&"`
	D int8 `json:"p "`
	E int8 `json:" q"`
	F int8 `json:"a<b>c&d e f"`
}

var zz11Names = []string{"x<", ">y", "&", "p ", " q", "a<b>c&d e f"}

type zz11RawField struct {
	R jsontext.Value `json:"r"`
}

// VerifC11Paths: path 0 string value; 1 map key and map value; 2 struct member name;
// 3 raw jsontext.Value field; 4 MarshalJSON output; 5 MarshalText; 6 AppendText;
// 7 MarshalJSONTo writing a String token; 8 MarshalJSONTo writing a raw value; 9 string
// inside an `any`; 10 text-marshaler map key. s: n symbolic bytes of well-formed UTF-8 (for
// the raw paths 3, 4, 8: a valid string literal with n symbolic bytes between the quotes).
func VerifC11Paths(path, n int, html, js, preserve bool) {
	s := vrt.Bytes("s", n)
	opts := []Options{jsontext.EscapeForHTML(html), jsontext.EscapeForJS(js), jsontext.PreserveRawStrings(preserve)}
	var v any
	var want [][]byte
	rawLit := func() []byte {
		lit := append(append([]byte{'"'}, s...), '"')
		vrt.Assume(zzspec.ScanString(lit, 0, true) == len(lit))
		want = append(want, zzspec.Unescape(lit))
		return lit
	}
	text := func() []byte {
		vrt.Assume(zzspec.UTF8WellFormed(s))
		want = append(want, s)
		return s
	}
	switch path {
	case 0:
		v = string(text())
	case 1:
		t := string(text())
		want = append(want, s)
		v = map[string]string{t: t}
	case 2:
		for _, nm := range zz11Names {
			want = append(want, []byte(nm))
		}
		v = zz11Named{}
	case 3:
		want = append(want, []byte("r"))
		v = zz11RawField{R: rawLit()}
	case 4:
		v = zz11JSON{rawLit()}
	case 5:
		v = zz11Text{text()}
	case 6:
		v = zz11Appender{text()}
	case 7:
		v = zz11To{text(), false}
	case 8:
		v = zz11To{rawLit(), true}
	case 9:
		v = []any{string(text())}
	default:
		v = map[zz11Key]int8{{string(text())}: 1}
	}
	out, err := Marshal(v, opts...)
	vrt.Assert("C11/paths/marshal-succeeds", err == nil)
	if err != nil {
		return
	}
	vrt.Observe("out", out)
	if html {
		vrt.Assert("C11/paths/no-raw-html", bytes.IndexByte(out, '<') < 0 && bytes.IndexByte(out, '>') < 0 && bytes.IndexByte(out, '&') < 0)
	}
	if js {
		ok := true
		for i := 0; i+2 < len(out); i++ {
			if out[i] == 0xE2 && out[i+1] == 0x80 && (out[i+2] == 0xA8 || out[i+2] == 0xA9) {
				ok = false
			}
		}
		vrt.Assert("C11/paths/no-raw-js", ok)
	}
	// every string literal of the output, in order, decodes to the expected text
	k := 0
	for i := 0; i < len(out); {
		if out[i] != '"' {
			i++
			continue
		}
		j := zzspec.ScanString(out, i, true)
		vrt.Assert("C11/paths/literal-valid", j > i)
		if j <= i {
			return
		}
		vrt.Assert("C11/paths/same-text", k < len(want) && bytes.Equal(zzspec.Unescape(out[i:j]), want[k]))
		k++
		i = j
	}
	vrt.Assert("C11/paths/all-strings-present", k == len(want))
	vrt.Cover("checked")
}
