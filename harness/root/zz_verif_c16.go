package json

import (
	"github.com/go-json-experiment/json/internal/zzverif/vrt"
	"github.com/go-json-experiment/json/jsontext"
)

type zz16Inner struct {
	V int8 `json:"v"`
}

type zz16T struct {
	A int8             `json:"a"`
	B []int8           `json:"b"`
	M map[string]bool  `json:"m"`
	S zz16Inner        `json:"s"`
	P *zz16Inner       `json:"p"`
	U uint8            `json:"u"`
	X map[string]uint8 `json:"x"`
}

// VerifC16SemE: a SemanticError from Unmarshal carries the offset and JSON pointer of the value
// that could not be converted. One slot of a fixed document (chosen by the solver) receives a
// value of the wrong kind or out of range (chosen by the solver); a member name on the way is a
// symbolic byte (so RFC 6901 escaping of '~' and '/' in the pointer is exercised). The expected
// offset and pointer are known by construction.
func VerifC16SemE() {
	bad := []string{`true`, `"s"`, `300`, `-1.5`, `[]`, `{}`}[vrt.Choice("bad", 6)]
	k := vrt.Byte("k")
	vrt.Assume((k >= 'a' && k <= 'c') || k == '~' || k == '/')
	key := string([]byte{k})
	esc := key
	switch k {
	case '~':
		esc = "~0"
	case '/':
		esc = "~1"
	}
	slot := vrt.Choice("slot", 6)
	val := func(i int, good string) string {
		if i == slot {
			return bad
		}
		return good
	}
	// document with the slots in order; record where the bad value starts
	doc := `{"a":` + val(0, "1") + `,"b":[2,` + val(1, "3") + `,4],"m":{"` + key + `":` + val(2, "true") + `},"s":{"v":` + val(3, "5") + `},"p":{"v":` + val(4, "6") + `},"x":{"q":` + val(5, "7") + `}}`
	pointers := []string{"/a", "/b/1", "/m/" + esc, "/s/v", "/p/v", "/x/q"}
	prefixes := []string{`{"a":`, `{"a":1,"b":[2,`, `{"a":1,"b":[2,3,4],"m":{"` + key + `":`, `{"a":1,"b":[2,3,4],"m":{"` + key + `":true},"s":{"v":`,
		`{"a":1,"b":[2,3,4],"m":{"` + key + `":true},"s":{"v":5},"p":{"v":`, `{"a":1,"b":[2,3,4],"m":{"` + key + `":true},"s":{"v":5},"p":{"v":6},"x":{"q":`}
	wantPtr := pointers[slot]
	wantOff := int64(len(prefixes[slot]))
	// is the bad value really unacceptable for that slot?
	isBoolSlot := slot == 2
	acceptable := (isBoolSlot && bad == "true")
	var v zz16T
	err := Unmarshal([]byte(doc), &v)
	vrt.Observe("errnil", err == nil)
	if acceptable {
		vrt.Cover("acceptable")
		vrt.Assert("C16/semE/acceptable-value-accepted", err == nil)
		return
	}
	vrt.Cover("conversion-error")
	se, ok := err.(*SemanticError)
	vrt.Assert("C16/semE/is-semantic-error", ok)
	if !ok {
		return
	}
	vrt.Observe("off", se.ByteOffset)
	vrt.Observe("ptr", string(se.JSONPointer))
	vrt.Assert("C16/semE/pointer-designates-the-value", se.JSONPointer == jsontext.Pointer(wantPtr))
	vrt.Assert("C16/semE/offset-designates-the-value", se.ByteOffset == wantOff)
}
