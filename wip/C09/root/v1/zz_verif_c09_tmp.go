package json

import (
	"bytes"
	stdjson "encoding/json"

	"github.com/go-json-experiment/json/internal/zzverif/vrt"
)

// temporary experiment: is zzC09KFRegion exactly the disagreement region?
func VerifC09IndentExact(n, alpha int, tmpl, prefix, indent string) {
	b := zzC09Input(n, alpha, tmpl)
	inKF, hang := zzC09KFRegion(b, prefix, indent)
	vrt.Assume(!hang)
	var d1, d2 bytes.Buffer
	err1 := Indent(&d1, b, prefix, indent)
	err2 := stdjson.Indent(&d2, b, prefix, indent)
	vrt.Assert("X/same-success", (err1 == nil) == (err2 == nil))
	if err2 == nil {
		vrt.Cover("accept")
		vrt.Assert("X/region-exact", bytes.Equal(d1.Bytes(), d2.Bytes()) == !inKF)
	}
}
