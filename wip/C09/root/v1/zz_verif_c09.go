package json

import (
	"bytes"
	stdjson "encoding/json"

	"github.com/go-json-experiment/json/internal/zzverif/vrt"
	"github.com/go-json-experiment/json/internal/zzverif/zzspec"
)

// zzC09Input draws the common input: tmpl == "" means n symbolic bytes restricted to
// alphabet alpha (0 = all 256 values); otherwise the skeleton tmpl with '?' holes, the holes
// restricted to alphabet alpha.
func zzC09Input(n, alpha int, tmpl string) []byte {
	if tmpl != "" {
		b := vrt.Template("h", tmpl)
		if alpha != 0 {
			hs := make([]byte, 0, len(tmpl))
			for i := 0; i < len(tmpl); i++ {
				if tmpl[i] == '?' {
					hs = append(hs, b[i])
				}
			}
			vrt.Assume(zzspec.InAlphabet(hs, alpha))
		}
		return b
	}
	b := vrt.Bytes("b", n)
	if alpha == 0 {
		vrt.InputBits(8 * n)
	} else {
		vrt.Assume(zzspec.InAlphabet(b, alpha))
	}
	return b
}

// VerifC09Valid: v1.Valid agrees with the classic encoding/json.Valid.
func VerifC09Valid(n, alpha int, tmpl string) {
	b := zzC09Input(n, alpha, tmpl)
	got := Valid(b)
	want := stdjson.Valid(b)
	vrt.Observe("got", got)
	vrt.Observe("want", want)
	if want {
		vrt.Cover("accept")
	} else {
		vrt.Cover("reject")
	}
	vrt.Assert("C09/valid/same-verdict", got == want)
}

// VerifC09Compact: v1.Compact and the classic Compact succeed or fail together and append
// identical bytes on success.
func VerifC09Compact(n, alpha int, tmpl string) {
	b := zzC09Input(n, alpha, tmpl)
	var d1, d2 bytes.Buffer
	d1.WriteString("#")
	d2.WriteString("#")
	err1 := Compact(&d1, b)
	err2 := stdjson.Compact(&d2, b)
	vrt.Observe("err1nil", err1 == nil)
	vrt.Observe("err2nil", err2 == nil)
	vrt.Assert("C09/compact/same-success", (err1 == nil) == (err2 == nil))
	if err2 == nil {
		vrt.Cover("accept")
		vrt.Observe("out1", d1.Bytes())
		vrt.Observe("out2", d2.Bytes())
		vrt.Assert("C09/compact/same-bytes", bytes.Equal(d1.Bytes(), d2.Bytes()))
	} else {
		vrt.Cover("reject")
	}
}

func zzC09Blank(s string) bool {
	for i := 0; i < len(s); i++ {
		if s[i] != ' ' && s[i] != '\t' {
			return false
		}
	}
	return true
}

// zzC09TrailingStart returns the index at which the run of JSON whitespace ending b starts.
func zzC09TrailingStart(b []byte) int {
	t := len(b)
	for t > 0 && (b[t-1] == ' ' || b[t-1] == '\t' || b[t-1] == '\r' || b[t-1] == '\n') {
		t--
	}
	return t
}

// zzC09KFRegion delimits known finding KF-C09-indent-trailing-ws: prefix or indent contains
// a character other than space/tab (so v1 formats with placeholder spaces and rewrites the
// spaces after every newline of its output afterwards), and the whitespace preserved from the
// end of the input contains a newline directly followed by k >= 1 spaces such that the first k
// bytes of prefix+indent+indent+... are not all spaces (those spaces get overwritten).
// hang reports the sub-region where the rewrite loop cannot terminate: indent is empty and
// k > len(prefix).
func zzC09KFRegion(b []byte, prefix, indent string) (in, hang bool) {
	if zzC09Blank(prefix) && zzC09Blank(indent) {
		return false, false
	}
	for i := zzC09TrailingStart(b); i < len(b); i++ {
		if b[i] != '\n' {
			continue
		}
		k := 0
		for i+1+k < len(b) && b[i+1+k] == ' ' {
			k++
		}
		if k > len(prefix) && indent == "" {
			return true, true
		}
		for j := 0; j < k; j++ {
			var c byte
			if j < len(prefix) {
				c = prefix[j]
			} else {
				c = indent[(j-len(prefix))%len(indent)]
			}
			if c != ' ' {
				return true, false
			}
		}
	}
	return false, false
}

// VerifC09Indent: v1.Indent and the classic Indent succeed or fail together and append
// identical bytes on success (prefix and indent concrete per obligation).
// Disagreements inside zzC09KFRegion are attributed to KF-C09-indent-trailing-ws; anywhere
// else they are violations.
func VerifC09Indent(n, alpha int, tmpl, prefix, indent string) {
	b := zzC09Input(n, alpha, tmpl)
	inKF, hang := zzC09KFRegion(b, prefix, indent)
	// Inside the hang sub-region of the known finding v1.Indent does not return (natively
	// either); bounded execution cannot report that as a value, so these inputs are cut.
	vrt.Assume(!hang)
	if inKF {
		vrt.Cover("kf-region")
	}
	var d1, d2 bytes.Buffer
	d1.WriteString("#")
	d2.WriteString("#")
	err1 := Indent(&d1, b, prefix, indent)
	err2 := stdjson.Indent(&d2, b, prefix, indent)
	vrt.Observe("err1nil", err1 == nil)
	vrt.Observe("err2nil", err2 == nil)
	vrt.Assert("C09/indent/same-success", (err1 == nil) == (err2 == nil))
	if err2 == nil {
		vrt.Cover("accept")
		vrt.Observe("out1", d1.Bytes())
		vrt.Observe("out2", d2.Bytes())
		vrt.AssertKF("C09/indent/same-bytes", bytes.Equal(d1.Bytes(), d2.Bytes()), "KF-C09-indent-trailing-ws", inKF)
	} else {
		vrt.Cover("reject")
	}
}

// VerifC09HTML: v1.HTMLEscape and the classic HTMLEscape append identical bytes for every
// byte string (neither validates).
func VerifC09HTML(n, alpha int, tmpl string) {
	b := zzC09Input(n, alpha, tmpl)
	var d1, d2 bytes.Buffer
	d1.WriteString("#")
	d2.WriteString("#")
	HTMLEscape(&d1, b)
	stdjson.HTMLEscape(&d2, b)
	vrt.Observe("out1", d1.Bytes())
	vrt.Observe("out2", d2.Bytes())
	if d2.Len() > 1+len(b) {
		vrt.Cover("escaped")
	} else {
		vrt.Cover("verbatim")
	}
	vrt.Assert("C09/html/same-bytes", bytes.Equal(d1.Bytes(), d2.Bytes()))
}
