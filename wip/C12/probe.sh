#!/bin/sh
# usage: probe.sh '["VerifC12Format",3,0,"",0,0,0,0]'
cd /verif && C12_PROBE="$1" VERIF_WIP=/verif/wip/C12 VERIF_VERBOSE=1 ./check ${2:-C12} --tier quick 2>&1 | grep -v "^\s\|^main\.\|^goroutine\|^$\|^created" | tail -${3:-6}
