#!/usr/bin/env python3
"""Regenerates MANIFEST.json from the claims table below."""
import json

GOENV = "PATH=/opt/veriftools/go1.26.8/bin:$PATH GOFLAGS=-mod=mod GOPROXY=off GOTOOLCHAIN=local"
TECH = "bounded symbolic execution of the real Go code (go/ssa) into SMT-LIB2, decided by z3/cvc5; native replay of solver models"

CLAIMS = {
 "C01": dict(ref="5/C01",
   text="For every byte string within the stated length bounds (all 256 byte values for n<=3 quick / n<=4 thorough, a 24-symbol JSON-critical alphabet beyond) and all four AllowInvalidUTF8/AllowDuplicateNames settings, the solver shows that Value.IsValid, a ReadToken loop and a ReadValue loop accept exactly what an independent RFC 8259/7493 recogniser accepts (value counts and io.EOF-only-at-boundary included); every explored path is justified by a solver feasibility verdict and the path set is certified to partition the input space (sum of model counts = 256^n).",
   note="Bounded: inputs longer than the bound, depth-limit behaviour and Unmarshal-into-any are checked by other obligations or are outside this claim. Trusted: gosym's Go semantics (validated each run by replaying sampled solver models natively), z3, the zzspec recogniser."),
 "C02": dict(ref="5/C02",
   text="The mechanisms that make Marshal's output well-formed are decided symbolically: (i) the untyped marshal fast path on trees with symbolic strings, keys and bools under AllowInvalidUTF8 x AllowDuplicateNames x Deterministic (with solver-chosen map iteration orders): success implies exactly one value valid under the effective options (two keys mangling to U+FFFD must be an error), an error only for ill-formed UTF-8, the output denotes the tree; (ii) the Encoder state machine that polices everything user code writes (C06).",
   note="Bounded tree shapes and 1-2 byte strings; typed values with adversarial user marshalers are covered by the C17 harnesses once registered. Trusted: gosym semantics incl. the reflect environment (replay-validated), z3, zzspec."),
 "C03": dict(ref="5/C03",
   text="The untyped unmarshal fast path (unmarshalValueAny + trailing-data check over a pooled decoder) returns, for every byte string within the bound and templates with symbolic holes, exactly the reference tree: shapes, strings by RFC 8259 unescaping, number literals handed unchanged to strconv.ParseFloat (uninterpreted) with its error propagated, array order, exactly the members; rejected iff the reference grammar rejects. makeString is shown correct from an ARBITRARY cache state (one inductive step).",
   note="Correct rounding of numbers is strconv's (uninterpreted function here). The generic map/slice arshaler routes and UnmarshalRead are outside this claim."),
 "C08": dict(ref="5/C08",
   text="Duplicate member names - spelled differently through escapes, at depth 0/1 and inside arrays, or colliding after U+FFFD substitution - are rejected on Value.IsValid, the ReadToken loop, the ReadValue loop and the untyped unmarshal fast path exactly when the reference (names compared after unescaping) says so, for AllowDuplicateNames x AllowInvalidUTF8; the struct-field bit set (uintSet) behaves as a mathematical set from an arbitrary state (z3 and cvc5 agree).",
   note="Struct targets with symbolic member names are exercised by the C15 harnesses; map targets and embedded fallbacks are outside."),
 "C09": dict(ref="5/C09",
   text="Differential symbolic execution of package v1 and the SOURCE of the standard library's encoding/json on the same symbolic data, through the reflect environment for both: Valid/Compact/Indent/HTMLEscape on all byte strings up to the bound, alphabet strings, skeletons and six prefix/indent pairs; Marshal/MarshalIndent on 8 real type families with symbolic contents; Unmarshal on 59 skeletons with symbolic names/values (case-insensitive names, wrong kinds, quoted numbers, null, duplicates, unknown members; targets untouched on invalid syntax) plus concrete float texts; Decoder (solver-chosen sequences of Decode/Token/More with InputOffset after every call, UseNumber, DisallowUnknownFields) and Encoder (SetIndent, SetEscapeHTML): succeed or fail together, identical bytes, equal values.",
   note="Six behavioural differences found on the pinned tree are recorded as known findings and attributed by tight regions; anything else is a violation. Error text, v1.Number vs json.Number, Decoder.Buffered and calls after the first error are outside."),
 "C14": dict(ref="5/C14",
   text="On a real Go struct type holding every merge-capable kind (nested struct, pointer, map, slice, array, interface, scalar) the real Unmarshal is executed symbolically twice: j1 populates all fields, j2 mentions one member as a value, as null or partially; the final Go value must equal the value prescribed by the documented merge rules for all symbolic digits, letters and keys (equal and distinct keys both occur): 21 obligations explored completely.",
   note="One type graph, two texts; the law is conditional on acceptance (a shorter JSON array or a string into an interface holding a map are legitimately refused). reflect is the engine's go/types-backed environment model; the harness replays natively verbatim."),
 "C16": dict(ref="5/C16",
   text="After every decoder call (token path, value path, mixed) and every encoder call within the bound, InputOffset/OutputOffset, StackDepth, every StackIndex and StackPointer equal an independent Tracker over the bytes consumed/produced; for every rejected input the bytes before ByteOffset are a viable prefix, the offending token starts at or contains the offset, and JSONPointer designates the innermost container or a direct child (the duplicated member for ErrDuplicateName); RFC 6901 Pointer methods satisfy their inverse/containment laws on all short pointers.",
   note="SemanticError positions (reflection-driven conversion errors) are outside this claim."),
 "C04": dict(ref="5/C04",
   text="On a real Go struct type with int8, string-tagged int8, bool, string, slices, map, pointers, array, nested struct, []byte and an interface, the real Marshal and Unmarshal are executed symbolically: for every int8/uint8/bool value and every well-formed 1-2 byte string in six shapes (nil / empty / populated containers, untyped values behind the interface), under StringifyNumbers x Deterministic, Unmarshal accepts Marshal(v), the decoded value equals v, and re-marshaling reproduces the same bytes.",
   note="One type; decimal formatting of symbolic integers is a contract stub (digits constrained to denote the value), float digits and time formats are outside. reflect is the engine's go/types-backed environment model; the harness replays natively verbatim."),
 "C07": dict(ref="5/C07",
   text="A token-level Encoder with a tiny buffer (capacity 4/8/16, so flush thresholds fall at every position) is compared after EVERY call with a twin encoder with a large buffer, for call programs with symbolic strings/raw values, to a plain writer and to a *bytes.Buffer (aliasing path): delivered+buffered bytes, OutputOffset and stack agree; with solver-chosen short writes/failures the token is still accepted and nothing is lost or duplicated; members retracted through UnwriteEmptyObjectMember / UnwriteOnlyObjectMemberName (replaying the struct and map marshalers' preconditions) leave exactly the kept members and a consistent name set; a pooled streaming encoder re-used after a failed write starts clean.",
   note="Typed MarshalWrite/MarshalEncode and buffers larger than 16 bytes are outside; at most 2 write faults per sequence."),
 "C12": dict(ref="5/C12",
   text="Value.Format, Compact, Indent, Canonicalize and AppendFormat on all byte strings up to the bound (full range n<=3, Sigma24 n<=4-5, skeletons) under groups of solver-chosen formatting options: success iff the reference validator accepts under the same Allow* options, unmodified on error (also with overlapping dst/src), output valid, same token meaning up to exactly the permitted differences (string spelling unless PreserveRawStrings without escape options, number spelling only under CanonicalizeRaw*, member order only under ReorderRawObjects), required escapes present, fixed point of the same operation.",
   note="Numbers with symbolic digits are kept away from strconv (integers of <= 15 digits, no -0) and concrete literals cover the rest; 'an already formatted value is not rewritten' is checked as the fixed point only."),
 "C13": dict(ref="5/C13",
   text="CompareUTF16 equals the independent UTF-16 code-unit comparison on all byte strings x,y up to the bound (ill-formed included: antisymmetry, reflexivity, transitivity skeletons) and on 3/4-byte skeletons around U+E000..U+FFFF vs supplementary planes; Canonicalize output has no whitespace, members sorted by the reference comparator, members preserved, strings minimal, is valid and a fixed point; texts related by member swap, whitespace, \\uXXXX re-spelling or (concrete) number re-spelling canonicalize to identical bytes.",
   note="The ECMAScript shortest float spelling is produced by strconv (outside); number content is a table of concrete literals plus short symbolic integers."),
 "C18": dict(ref="5/C18",
   text="Sequential-history clause: for call A (10 kinds of jsontext entry points and pooled coder loops, 4 option sets, inputs ending on every kind of exit incl. errors mid-object, a 67-member object forcing the map-backed namespace) followed by call B on an independent symbolic input, B's verdict, bytes, token count and error (offset, pointer) on the RECYCLED pooled coder equal those on fresh coders; results of Format/AppendFormat/Clone and the JSON value inside a SemanticError are not altered by later calls or by overwriting the caller's buffer; Encoder/Decoder.Reset equals a new coder; a Marshal failing >1000 levels deep leaves nothing behind for the next Marshal of the same containers.",
   note="Goroutine interleavings and data races are outside this (sequential) technique, as are 1 MiB documents; sync.Pool is modelled as LIFO re-use."),
 "C20": dict(ref="5/C20",
   text="Depth towers of 9999/10000/10001 levels ([, {\"\":, alternating) with an innermost value from {none, 0, {}, []} and 0-2 symbolic bytes: accepted iff nesting <= 10000 on the ReadToken loop, ReadValue, SkipValue, IsValid, tokens-then-value splits, Format, Compact, AppendFormat, WriteValue, WriteToken pushes, and Marshal of nested []any / map[string]any with solver-chosen leaves incl. empty containers; Token accessors, constructors, WithIndent/WithIndentPrefix and Reset misuse panic exactly when documented; every panic escaping any harness of any property is reported as a violation.",
   note="Deep or cyclic typed Go values beyond []any/map[string]any and wall-clock termination (only the step budget) are outside."),
 "C17": dict(ref="5/C17",
   text="Real Go types implementing every combination of MarshalJSONTo/MarshalJSON/AppendText/MarshalText (and the unmarshal trio) on value and pointer receivers are marshaled/unmarshaled by the real library at 11-15 positions (top level, pointer, struct field, element, map key/value, behind any, nil pointer, non-addressable) while the user methods and caller-supplied functions follow scripts chosen by the solver (which tokens/values they write or read, what they return, Reset inside the call): the first method called is the first applicable in the documented order, ErrUnsupported without coder use falls through, pointer receivers are honoured for addressable and non-addressable values and never called on nil, anything but exactly one value (or ErrUnsupported after use) is an error, nil error implies valid output (C02 clause), options seen inside are the caller's, Reset inside panics; function lists in order with type match and skip rules.",
   note="One known finding (KF-C17-close-parent-container: the one-value police can be escaped by closing the caller's container) is attributed by region; everything else is a violation. Legacy v1 options and retained coders are outside. reflect is the engine's go/types-backed environment model."),
 "C15": dict(ref="5/C15",
   text="A family of 12 real Go struct types (name collisions across embedding depths, ties broken by an explicit name, unbroken ties, embedded pointers and non-structs, unexported fields, '-' tags, renames, omitzero/omitempty/string, case:ignore/case:strict, an embedded fallback, 70- and 132-field types, nested structs) is marshaled and unmarshaled by the real library: the members emitted and their order equal a hand-written table derived from the documentation; for objects whose member NAME bytes are symbolic, exactly the field designated by the documented matching rule (exact match preferred, case-insensitive folding ignoring '_' and '-' only where requested, ambiguity reported, unknown names ignored / rejected / captured by the fallback) receives the value under 4 option sets; two members resolving to one field are rejected (bit-set boundaries 64/128 included); omitzero/omitempty conditions; parseFieldOptions on symbolic tag strings against a reference tag grammar.",
   note="One known finding (KF-C15-diamond-embedding, same behaviour as classic encoding/json) is attributed by region. Types are a fixed family (not generated), names ASCII, values one digit. reflect is the engine's go/types-backed environment model; harnesses replay natively verbatim."),
 "C05": dict(ref="5/C05",
   text="A decoder fed through a reader whose every Read size is chosen by the solver (tiny buffer capacities 2..8 and the real 64-byte buffer, empty reads, EOF delivered with data) is compared call by call with a decoder over the whole slice, for all sequences of ReadToken/ReadValue/SkipValue/PeekKind within the bound and symbolic input bytes (full range and templates): same results, error class/offset/pointer, InputOffset, StackDepth, StackIndex, StackPointer; returned values equal their input span; reader bytes = first InputOffset bytes ++ UnreadBuffer. A second family injects one transient read error at a solver-chosen Read: the pending ReadToken/ReadValue returns it, state is unchanged, the retry continues identically.",
   note="Bounded: inputs of 2-3 fully symbolic bytes and templates of up to 18 bytes with symbolic holes, 2-3 calls, the first 2-9 Read sizes symbolic then 1-byte reads. UnmarshalRead/UnmarshalDecode for typed targets are reflection-driven and outside this claim. Trusted: gosym semantics (replay-validated), z3."),
 "C06": dict(ref="5/C06",
   text="All sequences of 2-4 WriteToken/WriteValue calls (10 call kinds incl. strings with symbolic bytes and raw values with symbolic bytes), from the empty state and from six concrete mid-states, under the four AllowDuplicateNames/AllowInvalidUTF8 settings, against an independent stack-and-name-set model: a call succeeds iff the model accepts it; after every call delivered+buffered bytes equal the model's serialisation of exactly the accepted calls (so a rejected call has no observable effect on anything later), everything is delivered with one newline per top-level value whenever depth returns to 0, and OutputOffset/StackDepth agree.",
   note="Bounded sequence length and string/raw sizes; whitespace options are covered by C12 obligations. Trusted: gosym semantics (replay-validated), z3, zzspec.EncModel."),
 "C10": dict(ref="5/C10",
   text="ParseUint is compared with an independent decimal reference on every byte string of each length 1..22 (all 2^(8n) inputs per length, symbolic): value exact, overflow exactly at 2^64, syntax errors classified; decided by z3 bit-vector queries.",
   note="Claims the integer-parsing kernel and token accessors only; shortest float formatting / correctly rounded parsing live in strconv and are outside this technique's reach."),
 "C11": dict(ref="5/C11",
   text="For every byte string up to the length bound (all 256 values per byte: n<=3 quick / n<=4 thorough for quoting, n<=4/5 for scanning, plus \\uXXXX / surrogate-pair templates with symbolic hex digits) and every EscapeForHTML/EscapeForJS/AllowInvalidUTF8/PreserveRawStrings combination listed, the solver shows AppendQuote equals the independent minimal-literal reference, errors exactly on disallowed ill-formed UTF-8, AppendUnquote/UnquoteMayCopy return the RFC 8259 meaning (one U+FFFD per ill-formed byte), ConsumeString accepts exactly the string grammar with sound verbatim/canonical flags, and ReformatString preserves meaning, leaves no raw escapable character and copies verbatim under PreserveRawStrings.",
   note="Bounded string lengths; paths through the Encoder/Format layers are covered by C06/C12 obligations. Trusted: gosym semantics (replay-validated), z3, zzspec.MinimalQuote/Unescape/ScanString."),
 "C19": dict(ref="5/C19",
   text="Flags.Set/Join/Clear/Get/Has are shown, for all 64-bit presence/value words satisfying the representation invariant, all argument words and a symbolic key, to implement a last-wins map and to preserve the invariant (one inductive step, hence every history); DefaultOptionsV2 cancels every v1 flag after any intermediate join. Both z3 and cvc5 must agree on every assertion query.",
   note="Full 64-bit width, no bound on history length for the flag algebra (inductive step). Behavioural irrelevance of options for typed Marshal/Unmarshal is outside the claim."),
}

# additions made after the first registration (kept separate so that the original claims stay readable)
ALSO = {
 "C02": " Also decided: embedded fallbacks (raw value / map) on two struct shapes incl. one whose visit order differs from its field numbering with omitzero members present or dropped; pointer/interface values and key functions (warm cache) in object-name position; a time.Time whose location name (1-3 symbolic bytes) is printed by named and custom layouts.",
 "C03": " Also decided: seven routes through the real Unmarshal (*any, *any with duplicates allowed, map[string]any, []any, UnmarshalRead, a named empty interface, *any with a declining UnmarshalFromFunc) agree with the reference tree, and literals overflowing float64 at every position are an error on all of them.",
 "C04": " Also decided: every int64/uint64 as number, quoted number and map key; byte arrays/slices under each v1 representation option alone; maps keyed by *string/*int8; every int64 time.Duration through the four decimal units (kernels and typed members with format tags) and non-negative ones through ISO 8601; unix-seconds timestamps with 0 <= sec < 2^40 (kernel and typed member).",
 "C05": " Also decided: json.UnmarshalRead equals json.Unmarshal for first values ending around the 64/128/256-byte buffer boundaries with a symbolic tail, over readers that fill the buffer or trickle, the reader reporting empty-buffer polling as non-termination; UnmarshalDecode of two values over such a reader with the second extending past the buffered data, with and without the v1 pre-validation option.",
 "C07": " Also decided: typed json.MarshalWrite / json.MarshalEncode deliver exactly json.Marshal's bytes for 15 value shapes (empty containers at top level incl. behind a pointer to any, omitempty retractions around the pooled buffer's flush threshold) on both writer kinds, and only a prefix after a failed first write.",
 "C08": " Also decided: a duplicated (possibly escaped) name one level down is rejected by default and accepted with AllowDuplicateNames for eight kinds of target at that position (struct, map, any, raw value, skipped unknown member, embedded raw and map fallbacks, pointer to map); map targets pre-populated or not.",
 "C09": " Also decided: pointer-receiver methods at seven addressable/non-addressable positions (direct and promoted fields); three further recorded differences with exact regions.",
 "C10": " Also decided: the ECMA-262 layout of AppendFloat (exponent form exactly when 0<|x|<1e-6 or |x|>=1e21, signed exponent without leading zeros, -0 kept) for every finite float64 and float32, thresholds in the SMT floating-point theory, strconv's digit generation replaced by a shape stub.",
 "C11": " Also decided: eleven paths by which a string reaches Marshal's output (value, map key, member names, raw value field, MarshalJSON, MarshalText, AppendText, MarshalJSONTo token/raw, inside any, text-marshaler key) under EscapeForHTML/EscapeForJS/PreserveRawStrings: no raw < > & or U+2028/9, same text.",
 "C12": " Also decided: escaped duplicate names under PreserveRawStrings.",
 "C14": " Also decided: null zeroes each of 13 destination kinds and keeps the other fields; arrays shorter than the Go array (JSON array or base64) are refused by default and zero the tail under UnmarshalArrayFromAnyLength.",
 "C15": " A thirteenth type with three levels of embedding was added.",
 "C16": " Also decided: escaped member names on the value path; names written as raw values with duplicates allowed; SemanticError offset/pointer for one conversion error at a solver-chosen slot.",
 "C18": " Also decided: the package-level scratch pools of the Deterministic paths carry nothing across calls (a nested deterministic map marshals identically before and after an unrelated, possibly failing call with an embedded map fallback).",
 "C19": " Also decided: each of 24 boolean options passed as false / true-then-false / v1 defaults followed by v2 defaults gives the same Marshal bytes and Unmarshal value as no option; the nil argument class of WithMarshalers/WithUnmarshalers; option restoration on the nil-embedded-pointer error path and after a failing string-tagged member on the marshal side.",
 "C20": " Also decided: cycles running only through pointers/interfaces (marshal side; the unmarshal side is a known finding); a coder used after a typed call with a differing per-call AllowDuplicateNames failed mid-object never panics; under the v1 error semantics every array/object element is offered to its unmarshaler at most once (termination of the element loops).",
}
NOTE = {
 "C03": "Correct rounding of numbers is strconv's (uninterpreted function on symbolic digits, real code on concrete literals).",
 "C05": "Bounded: inputs of 2-3 fully symbolic bytes and templates of up to 18 bytes with symbolic holes, 2-3 calls, the first 2-9 Read sizes symbolic then 1-byte reads; UnmarshalDecode streams of typed values are outside. Trusted: gosym semantics (replay-validated), z3.",
 "C07": "Other Go types for the typed entry points and buffers between 16 bytes and 4 KiB are outside; at most 2 write faults per sequence.",
 "C08": "Struct targets with symbolic member names are exercised by the C15 harnesses; numerically equal integer keys are outside.",
 "C16": "Bounded input lengths and call sequences; SemanticError positions for one type only.",
 "C04": "Fixed types; decimal formatting of symbolic integers is a contract stub (digits constrained to denote the value); float digits, time layouts, negative/other-unit unix timestamps and negative ISO 8601 durations are outside (solver timeouts are reported, not claimed). reflect is the engine's go/types-backed environment model; harnesses replay natively verbatim.",
 "C20": "One known finding (KF-C20-unmarshal-pointer-cycle) is attributed by region. Cycles through containers past depth 1000 and wall-clock termination (only the step budget) are outside.",
 "C09": "Nine behavioural differences found on the pinned tree are recorded as known findings and attributed by tight regions; anything else is a violation. Error text, v1.Number vs json.Number, Decoder.Buffered and calls after the first error are outside.",
}
for k, v in ALSO.items():
    CLAIMS[k]["text"] += v
for k, v in NOTE.items():
    CLAIMS[k]["note"] = v

NA = {}

def main():
    props = [json.loads(l) for l in open('properties.jsonl')]
    checks = []
    for pid, c in CLAIMS.items():
        checks.append({
            "property_id": pid,
            "quick_cmd": "./check %s --tier quick" % pid,
            "thorough_cmd": "./check %s --tier thorough" % pid,
            "evidence_file": "evidence/%s.json" % pid,
            "replay_cmd_template": "./check --replay {path}",
            "engine": "gosym",
            "level_claimed": {"category": "model_checking", "text": c["text"], "design_ref": c["ref"]},
            "level_note": c["note"],
            "technique": TECH,
        })
    na = []
    for p in props:
        if p["id"] in CLAIMS:
            continue
        na.append({"property_id": p["id"], "reason": NA.get(p["id"], "check not built yet (work in progress; see DESIGN.md section 5)")})
    m = {
        "version": 1,
        "setup_cmd": "cd engine && %s go build -o ../bin/gosym ." % GOENV,
        "hooks": {"guard": "verif", "enable": "none needed: harnesses, vrt and zzspec are injected through go/packages and `go test -overlay` overlays; /repo is never modified",
                  "baseline_off_cmd": "cd /repo && go test -vet=off -count=1 ./...", "source_commits": [], "add_only": True},
        "engines": [{"name": "gosym", "path": "engine", "serves_properties": sorted(CLAIMS), "kind_free_text": "forking symbolic executor for Go over go/ssa emitting SMT-LIB2 to z3/cvc5, with native replay"}],
        "checks": checks,
        "notes": "Exit codes: 0 held; 1 VIOLATION (natively reproduced); 2 inconclusive on this tree (no verdict); 3 engine mismatch (no verdict).",
        "not_applicable": na,
    }
    json.dump(m, open('MANIFEST.json', 'w'), indent=1)

main()
