def ob(id, pkg, fn, args, **kw):
    """One proof obligation: harness function `fn` of package dir `pkg` (relative to /repo) with concrete args.
    Optional keys: solver ('z3' default, 'z3-fresh', 'z3-new', 'cvc5', 'cvc5-int'), second (cross-check solver for assertion
    queries), timeout_ms, step_limit, max_paths, covers (labels that must be reached), sample (paths replayed natively)."""
    d = {"id": id, "pkg": pkg, "fn": fn, "args": list(args), "max_paths": 3000000}
    d.update(kw)
    return d
