package main

// Solver back ends: persistent z3 / cvc5 processes driven over stdin/stdout, a shared
// verdict cache keyed by the structural hash of the (sliced) constraint set.

import (
	"bufio"
	"fmt"
	"io"
	"os"
	"os/exec"
	"sort"
	"strconv"
	"strings"
	"sync"
	"sync/atomic"
	"time"
)

type Verdict int

const (
	Unknown Verdict = iota
	Sat
	Unsat
)

func (v Verdict) String() string { return [...]string{"unknown", "sat", "unsat"}[v] }

type SolverKind struct {
	Name  string
	Argv  []string
	Pre   string // sent once at start (and after every (reset) in fresh mode)
	Fresh bool   // (reset) before every query instead of push/pop
	Z3    bool
}

var solverKinds = map[string]SolverKind{
	"z3":           {Name: "z3", Argv: []string{"z3", "-in"}, Z3: true},
	"z3-fresh":     {Name: "z3-fresh", Argv: []string{"z3", "-in"}, Z3: true, Fresh: true},
	"z3-new":       {Name: "z3-new", Argv: []string{"z3-new", "-in"}, Z3: true},
	"z3-new-fresh": {Name: "z3-new-fresh", Argv: []string{"z3-new", "-in"}, Z3: true, Fresh: true},
	"cvc5":         {Name: "cvc5", Argv: []string{"cvc5", "--incremental", "--produce-models", "--lang=smt2"}, Pre: "(set-logic ALL)\n"},
	// integer encoding of bit-vector arithmetic: decides decimal kernels that bit-blasting cannot
	"cvc5-int": {Name: "cvc5-int", Argv: []string{"cvc5", "--incremental", "--produce-models", "--lang=smt2", "--solve-bv-as-int=sum"}, Pre: "(set-logic ALL)\n"},
}

type SolverProc struct {
	kind    SolverKind
	cmd     *exec.Cmd
	in      io.WriteCloser
	out     *bufio.Reader
	lines   chan string
	dead    bool
	queries int
	started bool
	sinceReset int
	decl    map[string]bool
}

func startSolver(kind SolverKind) (*SolverProc, error) {
	cmd := exec.Command(kind.Argv[0], kind.Argv[1:]...)
	in, err := cmd.StdinPipe()
	if err != nil {
		return nil, err
	}
	outp, err := cmd.StdoutPipe()
	if err != nil {
		return nil, err
	}
	cmd.Stderr = cmd.Stdout
	if err := cmd.Start(); err != nil {
		return nil, err
	}
	sp := &SolverProc{kind: kind, cmd: cmd, in: in, out: bufio.NewReaderSize(outp, 1<<16), lines: make(chan string, 1024)}
	go func() {
		for {
			l, err := sp.out.ReadString('\n')
			if l != "" {
				sp.lines <- strings.TrimRight(l, "\r\n")
			}
			if err != nil {
				close(sp.lines)
				return
			}
		}
	}()
	return sp, nil
}

func (sp *SolverProc) kill() {
	if sp.cmd != nil && sp.cmd.Process != nil {
		sp.cmd.Process.Kill()
		sp.cmd.Wait()
	}
	sp.dead = true
}

// run sends script and collects output lines up to the sentinel.
func (sp *SolverProc) run(script string, deadline time.Duration) ([]string, error) {
	sp.queries++
	_, err := io.WriteString(sp.in, script)
	if err != nil {
		sp.kill()
		return nil, err
	}
	var res []string
	timer := time.NewTimer(deadline)
	defer timer.Stop()
	for {
		select {
		case l, ok := <-sp.lines:
			if !ok {
				sp.kill()
				return res, fmt.Errorf("solver %s exited", sp.kind.Name)
			}
			t := strings.Trim(l, "\"")
			if t == "<<done>>" {
				return res, nil
			}
			res = append(res, l)
		case <-timer.C:
			sp.kill()
			return res, fmt.Errorf("solver %s hard timeout", sp.kind.Name)
		}
	}
}

// ---------------------------------------------------------------------------

type QueryResult struct {
	V     Verdict
	Model Assignment // for Sat when requested
	Note  string
}

type cacheKey struct{ h1, h2 uint64 }

type cacheEnt struct {
	v     Verdict
	model Assignment
}

type SolverStats struct {
	Queries     int64 // solver invocations
	CacheHits   int64
	Sat, Unsat  int64
	Unknown     int64
	TimeNS      int64
	CrossChecks int64
	CrossAgree  int64
	MaxQueryNS  int64
}

type SolverHub struct {
	cache     sync.Map // cacheKey -> *cacheEnt
	Stats     SolverStats
	Primary   string
	Second    string // "" = none
	TimeoutMS int
	LogDir    string
	logN      int64
	mu        sync.Mutex
	Errors    []string
}

func (h *SolverHub) noteError(s string) {
	h.mu.Lock()
	if len(h.Errors) < 50 {
		h.Errors = append(h.Errors, s)
	}
	h.mu.Unlock()
}

// SolverClient is the per-worker handle (owns its processes).
type SolverClient struct {
	hub   *SolverHub
	f     *Factory
	procs map[string]*SolverProc
}

func (h *SolverHub) NewClient(f *Factory) *SolverClient {
	return &SolverClient{hub: h, f: f, procs: map[string]*SolverProc{}}
}

func (c *SolverClient) Close() {
	for _, p := range c.procs {
		if !p.dead {
			io.WriteString(p.in, "(exit)\n")
			p.in.Close()
			done := make(chan struct{})
			go func(p *SolverProc) { p.cmd.Wait(); close(done) }(p)
			select {
			case <-done:
			case <-time.After(2 * time.Second):
				p.kill()
			}
		}
	}
}

func (c *SolverClient) proc(name string) (*SolverProc, error) {
	p := c.procs[name]
	if p != nil && !p.dead {
		return p, nil
	}
	k, ok := solverKinds[name]
	if !ok {
		return nil, fmt.Errorf("unknown solver %q", name)
	}
	p, err := startSolver(k)
	if err != nil {
		return nil, err
	}
	c.procs[name] = p
	return p, nil
}

func keyOf(asserts []*Term) cacheKey {
	hs := make([][2]uint64, len(asserts))
	for i, a := range asserts {
		hs[i] = [2]uint64{a.h1, a.h2}
	}
	sort.Slice(hs, func(i, j int) bool {
		if hs[i][0] != hs[j][0] {
			return hs[i][0] < hs[j][0]
		}
		return hs[i][1] < hs[j][1]
	})
	k := cacheKey{0x1234, 0x5678}
	var prev [2]uint64
	for i, h := range hs {
		if i > 0 && h == prev {
			continue
		}
		prev = h
		k.h1 = mix(k.h1, h[0])
		k.h2 = mix(k.h2*131, h[1])
	}
	return k
}

func parseModel(lines []string, used []VarInfo) Assignment {
	// get-value output: ((v_x #x0a) (v_y true) ...) possibly spread over lines
	txt := strings.Join(lines, " ")
	m := Assignment{}
	byName := map[string]VarInfo{}
	for _, v := range used {
		byName[smtVarName(v.Name)] = v
	}
	toks := strings.Fields(strings.NewReplacer("(", " ( ", ")", " ) ").Replace(txt))
	for i := 0; i+1 < len(toks); i++ {
		vi, ok := byName[toks[i]]
		if !ok {
			continue
		}
		val := toks[i+1]
		switch {
		case val == "true":
			m[vi.Name] = 1
		case val == "false":
			m[vi.Name] = 0
		case strings.HasPrefix(val, "#x"):
			u, _ := strconv.ParseUint(val[2:], 16, 64)
			m[vi.Name] = u
		case strings.HasPrefix(val, "#b"):
			u, _ := strconv.ParseUint(val[2:], 2, 64)
			m[vi.Name] = u
		case val == "(" && i+3 < len(toks) && toks[i+2] == "_" && strings.HasPrefix(toks[i+3], "bv"):
			u, _ := strconv.ParseUint(toks[i+3][2:], 10, 64)
			m[vi.Name] = u
		}
	}
	return m
}

func (c *SolverClient) runOn(name string, q *Query, wantModel bool) QueryResult {
	h := c.hub
	p, err := c.proc(name)
	if err != nil {
		h.noteError(err.Error())
		return QueryResult{V: Unknown, Note: err.Error()}
	}
	var sb strings.Builder
	topt := func() {
		if p.kind.Z3 {
			fmt.Fprintf(&sb, "(set-option :timeout %d)\n", h.TimeoutMS)
		} else {
			fmt.Fprintf(&sb, "(set-option :tlimit-per %d)\n", h.TimeoutMS)
		}
	}
	if p.kind.Fresh {
		sb.WriteString("(reset)\n")
		topt()
		sb.WriteString(p.kind.Pre)
		p.decl = map[string]bool{}
	} else if !p.started {
		topt()
		sb.WriteString(p.kind.Pre)
		p.decl = map[string]bool{}
	} else if p.kind.Z3 && p.sinceReset >= 64 {
		// z3's push/pop mode slows down steadily; a periodic (reset) keeps queries at ~1-2 ms
		sb.WriteString("(reset)\n")
		topt()
		sb.WriteString(p.kind.Pre)
		p.decl = map[string]bool{}
		p.sinceReset = 0
	}
	p.sinceReset++
	p.started = true
	for _, d := range q.Decls {
		if !p.decl[d.Name] {
			p.decl[d.Name] = true
			sb.WriteString(d.Text)
		}
	}
	if !p.kind.Fresh {
		sb.WriteString("(push 1)\n")
	}
	sb.WriteString(q.Body)
	sb.WriteString("(check-sat)\n(echo \"<<cs>>\")\n")
	if wantModel && len(q.Used) > 0 {
		sb.WriteString("(get-value (")
		for _, u := range q.Used {
			sb.WriteString(smtVarName(u.Name))
			sb.WriteByte(' ')
		}
		sb.WriteString("))\n")
	}
	if !p.kind.Fresh {
		sb.WriteString("(pop 1)\n")
	}
	sb.WriteString("(echo \"<<done>>\")\n")
	script := sb.String()
	if h.LogDir != "" {
		n := atomic.AddInt64(&h.logN, 1)
		if n < 20000 {
			os.WriteFile(fmt.Sprintf("%s/q%06d.smt2", h.LogDir, n), []byte(script), 0o644)
		}
	}
	t0 := time.Now()
	lines, err := p.run(script, time.Duration(h.TimeoutMS)*time.Millisecond+15*time.Second)
	dt := time.Since(t0).Nanoseconds()
	atomic.AddInt64(&h.Stats.TimeNS, dt)
	atomic.AddInt64(&h.Stats.Queries, 1)
	for {
		old := atomic.LoadInt64(&h.Stats.MaxQueryNS)
		if dt <= old || atomic.CompareAndSwapInt64(&h.Stats.MaxQueryNS, old, dt) {
			break
		}
	}
	if err != nil {
		h.noteError(err.Error())
		return QueryResult{V: Unknown, Note: err.Error()}
	}
	// split at the <<cs>> marker
	var csLines, mLines []string
	seenCS := false
	for _, l := range lines {
		if strings.Trim(strings.TrimSpace(l), "\"") == "<<cs>>" {
			seenCS = true
			continue
		}
		if seenCS {
			mLines = append(mLines, l)
		} else {
			csLines = append(csLines, l)
		}
	}
	v := Unknown
	for _, l := range csLines {
		if strings.Contains(l, "(error") {
			h.noteError(name + ": " + l)
			// the process state may be inconsistent now: restart it
			p.kill()
			return QueryResult{V: Unknown, Note: l}
		}
	}
	for _, l := range csLines {
		switch strings.TrimSpace(l) {
		case "sat":
			v = Sat
		case "unsat":
			v = Unsat
		}
	}
	res := QueryResult{V: v}
	if v == Sat {
		res.Model = Assignment{}
		if wantModel && len(q.Used) > 0 {
			for _, l := range mLines {
				if strings.Contains(l, "(error") {
					h.noteError(name + ": " + l)
					p.kill()
					return QueryResult{V: Unknown, Note: l}
				}
			}
			res.Model = parseModel(mLines, q.Used)
		}
	}
	return res
}

// Check decides satisfiability of the conjunction of asserts.
func (c *SolverClient) Check(asserts []*Term, wantModel bool, isAssertion bool) QueryResult {
	h := c.hub
	// trivial cases
	n := 0
	for _, a := range asserts {
		if a.op == OpConst {
			if a.c == 0 {
				return QueryResult{V: Unsat}
			}
			continue
		}
		asserts[n] = a
		n++
	}
	asserts = asserts[:n]
	if n == 0 {
		return QueryResult{V: Sat, Model: Assignment{}}
	}
	k := keyOf(asserts)
	if e, ok := h.cache.Load(k); ok {
		ent := e.(*cacheEnt)
		if !(wantModel && ent.v == Sat && ent.model == nil) {
			atomic.AddInt64(&h.Stats.CacheHits, 1)
			return QueryResult{V: ent.v, Model: ent.model}
		}
	}
	q := c.f.BuildQuery(asserts)
	res := c.runOn(h.Primary, q, true)
	if res.V == Unknown && h.Second != "" {
		// fall back to the second back end for a verdict
		r2 := c.runOn(h.Second, q, true)
		if r2.V != Unknown {
			res = r2
		}
	} else if isAssertion && h.Second != "" && res.V != Unknown {
		atomic.AddInt64(&h.Stats.CrossChecks, 1)
		r2 := c.runOn(h.Second, q, false)
		if r2.V == res.V {
			atomic.AddInt64(&h.Stats.CrossAgree, 1)
		} else if r2.V != Unknown {
			h.noteError(fmt.Sprintf("SOLVER DISAGREEMENT %s=%v %s=%v", h.Primary, res.V, h.Second, r2.V))
			res = QueryResult{V: Unknown, Note: "solver disagreement"}
		}
	}
	switch res.V {
	case Sat:
		atomic.AddInt64(&h.Stats.Sat, 1)
	case Unsat:
		atomic.AddInt64(&h.Stats.Unsat, 1)
	default:
		atomic.AddInt64(&h.Stats.Unknown, 1)
	}
	if res.V != Unknown {
		h.cache.Store(k, &cacheEnt{v: res.V, model: res.Model})
	}
	return res
}
