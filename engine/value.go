package main

import (
	"fmt"
	"go/constant"
	"go/types"
	"math"
	"strings"

	"golang.org/x/tools/go/ssa"
)

// Value is the boxed run-time value of the symbolic interpreter. Dynamic types:
//
//	*Term      bool and all integer kinds (bit-vector of the Go width)
//	FloatV     float32/float64: concrete, or symbolic IEEE bit pattern
//	StrV       string (immutable; bytes may be symbolic, length concrete)
//	*Cont      struct or array *value* (aggregate; copied on load/store)
//	Ptr        pointer to a slot of a container
//	SliceV     slice header (container, offset, len, cap; all concrete)
//	*MapV      map
//	IfaceV     interface value
//	*ssa.Function, *Closure, *ssa.Builtin, *Intrinsic   function values
//	TupleV     multi-value results
//	Opaque     value of an unmodelled computation (may be copied, never inspected)
type Value any

type Cont struct {
	v      []Value
	frozen bool // part of the shared post-init heap: copy-on-write per path
}

type Ptr struct {
	c   *Cont
	i   int
	sym *Term // optional symbolic index (64-bit, already bounds-checked) added to i; n = extent
	n   int
}

type SliceV struct {
	c            *Cont
	off, ln, cp  int
}

type StrV struct {
	s string  // valid when b == nil
	b []*Term // non-nil => (possibly) symbolic bytes
}

type FloatV struct {
	f    float64 // valid when t == nil
	t    *Term   // symbolic IEEE bits (width = bits)
	bits uint8   // 32 or 64
}

type IfaceV struct {
	t types.Type
	v Value
}

type TupleV []Value

type Closure struct {
	fn  *ssa.Function
	env []Value
}

type Opaque struct{ what string }

type FuncNil struct{}

type mapEntry struct {
	k, v    Value
	deleted bool
}

type MapV struct {
	kt, vt  types.Type
	ents    []mapEntry
	index   map[string]int // concrete-key fast path: key string -> entry index
	frozen  bool
	live    int
}

// ---------------------------------------------------------------------------

func (s StrV) Len() int {
	if s.b != nil {
		return len(s.b)
	}
	return len(s.s)
}

func (s StrV) IsConcrete() bool {
	if s.b == nil {
		return true
	}
	for _, t := range s.b {
		if t.op != OpConst {
			return false
		}
	}
	return true
}

func (s StrV) Concrete() string {
	if s.b == nil {
		return s.s
	}
	var sb strings.Builder
	for _, t := range s.b {
		sb.WriteByte(byte(t.c))
	}
	return sb.String()
}

func (s StrV) At(i int) *Term {
	if s.b != nil {
		return s.b[i]
	}
	return Const(uint64(s.s[i]), 8)
}

func (s StrV) Bytes() []*Term {
	if s.b != nil {
		return s.b
	}
	r := make([]*Term, len(s.s))
	for i := 0; i < len(s.s); i++ {
		r[i] = Const(uint64(s.s[i]), 8)
	}
	return r
}

func (s StrV) Sub(lo, hi int) StrV {
	if s.b != nil {
		return normStr(s.b[lo:hi:hi])
	}
	return StrV{s: s.s[lo:hi]}
}

func normStr(b []*Term) StrV {
	for _, t := range b {
		if t.op != OpConst {
			return StrV{b: b}
		}
	}
	var sb strings.Builder
	for _, t := range b {
		sb.WriteByte(byte(t.c))
	}
	return StrV{s: sb.String()}
}

func concreteStr(s string) StrV { return StrV{s: s} }

// ---------------------------------------------------------------------------
// type helpers

func widthOf(t types.Type) uint8 {
	switch b := t.Underlying().(type) {
	case *types.Basic:
		switch b.Kind() {
		case types.Bool, types.UntypedBool:
			return 0
		case types.Int8, types.Uint8:
			return 8
		case types.Int16, types.Uint16:
			return 16
		case types.Int32, types.Uint32, types.UntypedRune:
			return 32
		case types.Int, types.Uint, types.Int64, types.Uint64, types.Uintptr, types.UntypedInt:
			return 64
		}
	}
	panic(Unsupported{"widthOf " + t.String()})
}

func isSigned(t types.Type) bool {
	if b, ok := t.Underlying().(*types.Basic); ok {
		return b.Info()&types.IsInteger != 0 && b.Info()&types.IsUnsigned == 0
	}
	return false
}

func isInteger(t types.Type) bool {
	b, ok := t.Underlying().(*types.Basic)
	return ok && b.Info()&types.IsInteger != 0
}
func isBoolean(t types.Type) bool {
	b, ok := t.Underlying().(*types.Basic)
	return ok && b.Info()&types.IsBoolean != 0
}
func isFloat(t types.Type) bool {
	b, ok := t.Underlying().(*types.Basic)
	return ok && b.Info()&types.IsFloat != 0
}
func isString(t types.Type) bool {
	b, ok := t.Underlying().(*types.Basic)
	return ok && b.Info()&types.IsString != 0
}
func floatBits(t types.Type) uint8 {
	if b, ok := t.Underlying().(*types.Basic); ok && b.Kind() == types.Float32 {
		return 32
	}
	return 64
}

func zero(t types.Type) Value {
	switch t := t.(type) {
	case *types.Basic:
		switch {
		case t.Kind() == types.UnsafePointer:
			return Ptr{}
		case t.Kind() == types.UntypedNil:
			panic("untyped nil has no zero value")
		case t.Info()&types.IsBoolean != 0:
			return termFalse
		case t.Info()&types.IsInteger != 0:
			return Const(0, widthOf(t))
		case t.Info()&types.IsFloat != 0:
			return FloatV{f: 0, bits: floatBits(t)}
		case t.Info()&types.IsString != 0:
			return StrV{}
		}
		panic(Unsupported{"zero of basic " + t.String()})
	case *types.Pointer:
		return Ptr{}
	case *types.Slice:
		return SliceV{}
	case *types.Map:
		return (*MapV)(nil)
	case *types.Signature:
		return FuncNil{}
	case *types.Interface:
		return IfaceV{}
	case *types.Chan:
		return Opaque{"nil chan"}
	case *types.Struct:
		c := &Cont{v: make([]Value, t.NumFields())}
		for i := range c.v {
			c.v[i] = zero(t.Field(i).Type())
		}
		return c
	case *types.Array:
		n := int(t.Len())
		c := &Cont{v: make([]Value, n)}
		et := t.Elem()
		if _, agg := et.Underlying().(*types.Struct); !agg {
			if _, agg2 := et.Underlying().(*types.Array); !agg2 {
				z := zero(et)
				for i := range c.v {
					c.v[i] = z
				}
				return c
			}
		}
		for i := range c.v {
			c.v[i] = zero(et)
		}
		return c
	case *types.Named, *types.Alias:
		return zero(t.Underlying())
	case *types.Tuple:
		r := make(TupleV, t.Len())
		for i := range r {
			r[i] = zero(t.At(i).Type())
		}
		return r
	}
	panic(Unsupported{fmt.Sprintf("zero of %T %v", t, t)})
}

// copyVal deep-copies aggregates (value semantics).
func (ex *Exec) copyVal(v Value) Value {
	if c, ok := v.(*Cont); ok {
		src := ex.rd(c)
		n := &Cont{v: make([]Value, len(src.v))}
		for i, e := range src.v {
			if _, ok := e.(*Cont); ok {
				n.v[i] = ex.copyVal(e)
			} else {
				n.v[i] = e
			}
		}
		return n
	}
	return v
}

// freeze marks every container reachable from v as part of the shared heap.
func freeze(v Value, seen map[any]bool) {
	switch v := v.(type) {
	case *Cont:
		if v == nil || seen[v] {
			return
		}
		seen[v] = true
		v.frozen = true
		for _, e := range v.v {
			freeze(e, seen)
		}
	case Ptr:
		if v.c != nil {
			freeze(v.c, seen)
		}
	case SliceV:
		if v.c != nil {
			freeze(v.c, seen)
		}
	case *MapV:
		if v == nil || seen[v] {
			return
		}
		seen[v] = true
		v.frozen = true
		for _, e := range v.ents {
			freeze(e.k, seen)
			freeze(e.v, seen)
		}
	case IfaceV:
		freeze(v.v, seen)
	case *Closure:
		if v == nil || seen[v] {
			return
		}
		seen[v] = true
		for _, e := range v.env {
			freeze(e, seen)
		}
	case TupleV:
		for _, e := range v {
			freeze(e, seen)
		}
	}
}

// ---------------------------------------------------------------------------
// constants

func (eng *Engine) constValue(c *ssa.Const) Value {
	if v, ok := eng.constCache.Load(c); ok {
		return v
	}
	v := constValue0(c)
	eng.constCache.Store(c, v)
	return v
}

func constValue0(c *ssa.Const) Value {
	t := c.Type()
	if c.Value == nil {
		// zero value of any type (nil, or aggregate zero)
		if b, ok := t.(*types.Basic); ok && b.Kind() == types.UntypedNil {
			return IfaceV{}
		}
		return zero(t)
	}
	if tp, ok := t.(*types.TypeParam); ok {
		panic(Unsupported{"const of type parameter " + tp.String()})
	}
	b, ok := t.Underlying().(*types.Basic)
	if !ok {
		panic(Unsupported{"const of non-basic type " + t.String()})
	}
	switch {
	case b.Info()&types.IsBoolean != 0:
		return Bool(constant.BoolVal(c.Value))
	case b.Info()&types.IsInteger != 0:
		w := widthOf(b)
		if b.Info()&types.IsUnsigned != 0 {
			u, _ := constant.Uint64Val(constant.ToInt(c.Value))
			return Const(u, w)
		}
		i, exact := constant.Int64Val(constant.ToInt(c.Value))
		if !exact {
			u, _ := constant.Uint64Val(constant.ToInt(c.Value))
			return Const(u, w)
		}
		return Const(uint64(i), w)
	case b.Info()&types.IsFloat != 0:
		f, _ := constant.Float64Val(c.Value)
		bits := floatBits(b)
		if bits == 32 {
			f32, _ := constant.Float32Val(c.Value)
			f = float64(f32)
		}
		return FloatV{f: f, bits: bits}
	case b.Info()&types.IsString != 0:
		if c.Value.Kind() == constant.String {
			return StrV{s: constant.StringVal(c.Value)}
		}
		// int -> string constant
		i, _ := constant.Int64Val(c.Value)
		return StrV{s: string(rune(i))}
	}
	panic(Unsupported{"const of type " + t.String()})
}

func fval(v Value) FloatV { return v.(FloatV) }

func f32round(f float64) float64 { return float64(float32(f)) }

var _ = math.Inf
