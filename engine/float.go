package main

import (
	"go/token"
	"math"
)

func fbitsOf(v FloatV) *Term {
	if v.t != nil {
		return v.t
	}
	if v.bits == 32 {
		return Const(uint64(math.Float32bits(float32(v.f))), 32)
	}
	return Const(math.Float64bits(v.f), 64)
}

func floatFromBits(t *Term, bits uint8) FloatV {
	if t.op == OpConst {
		if bits == 32 {
			return FloatV{f: float64(math.Float32frombits(uint32(t.c))), bits: 32}
		}
		return FloatV{f: math.Float64frombits(t.c), bits: 64}
	}
	return FloatV{t: t, bits: bits}
}

func (ex *Exec) fneg(x FloatV) Value {
	if x.t == nil {
		return FloatV{f: -x.f, bits: x.bits}
	}
	return FloatV{t: ex.f.FOp(OpFNeg, x.bits, x.t, nil), bits: x.bits}
}

func (ex *Exec) fbinop(op token.Token, x, y FloatV) Value {
	f := ex.f
	if x.t == nil && y.t == nil {
		a, b := x.f, y.f
		r32 := func(v float64) Value {
			if x.bits == 32 {
				return FloatV{f: float64(float32(v)), bits: 32}
			}
			return FloatV{f: v, bits: 64}
		}
		switch op {
		case token.ADD:
			return r32(a + b)
		case token.SUB:
			return r32(a - b)
		case token.MUL:
			return r32(a * b)
		case token.QUO:
			return r32(a / b)
		case token.EQL:
			return Bool(a == b)
		case token.NEQ:
			return Bool(a != b)
		case token.LSS:
			return Bool(a < b)
		case token.LEQ:
			return Bool(a <= b)
		case token.GTR:
			return Bool(a > b)
		case token.GEQ:
			return Bool(a >= b)
		}
		panic(Unsupported{"float binop " + op.String()})
	}
	xa, yb := fbitsOf(x), fbitsOf(y)
	switch op {
	case token.EQL:
		return f.FOp(OpFEq, 0, xa, yb)
	case token.NEQ:
		return f.Not(f.FOp(OpFEq, 0, xa, yb))
	case token.LSS:
		return f.FOp(OpFLt, 0, xa, yb)
	case token.LEQ:
		return f.FOp(OpFLe, 0, xa, yb)
	case token.GTR:
		return f.FOp(OpFLt, 0, yb, xa)
	case token.GEQ:
		return f.FOp(OpFLe, 0, yb, xa)
	case token.ADD:
		return FloatV{t: f.FOp(OpFAdd, x.bits, xa, yb), bits: x.bits}
	case token.SUB:
		return FloatV{t: f.FOp(OpFSub, x.bits, xa, yb), bits: x.bits}
	case token.MUL:
		return FloatV{t: f.FOp(OpFMul, x.bits, xa, yb), bits: x.bits}
	case token.QUO:
		return FloatV{t: f.FOp(OpFDiv, x.bits, xa, yb), bits: x.bits}
	}
	panic(Unsupported{"symbolic float binop " + op.String()})
}

func (ex *Exec) floatToInt(x FloatV, w uint8, signed bool) Value {
	if x.t == nil {
		// Go's conversion of out-of-range values is implementation-defined; on amd64:
		v := x.f
		if signed {
			var i int64
			switch {
			case v != v:
				i = math.MinInt64
			case v >= 9.223372036854775807e18 || v < -9.223372036854775808e18:
				i = math.MinInt64
			default:
				i = int64(v)
			}
			return Const(uint64(i), w)
		}
		var u uint64
		switch {
		case v != v:
			u = 1 << 63
		case v >= 18446744073709551616.0:
			u = 1 << 63
		case v >= 9.223372036854775807e18:
			u = uint64(int64(v-9.223372036854775807e18)) + (1 << 63)
		case v < 0:
			u = uint64(int64(v))
		default:
			u = uint64(v)
		}
		return Const(u, w)
	}
	// symbolic: defined only for in-range values; the harness must guard (as the repo code does)
	f := ex.f
	if signed {
		t := f.FOp(OpFToSI, 64, x.t, nil)
		return f.Resize(t, w, true)
	}
	t := f.FOp(OpFToUI, 64, x.t, nil)
	return f.Resize(t, w, false)
}

func (ex *Exec) intToFloat(x *Term, signed bool, bits uint8) Value {
	if x.op == OpConst {
		var v float64
		if signed {
			v = float64(sext64(x.c, x.w))
		} else {
			v = float64(x.c)
		}
		if bits == 32 {
			if signed {
				v = float64(float32(sext64(x.c, x.w)))
			} else {
				v = float64(float32(x.c))
			}
		}
		return FloatV{f: v, bits: bits}
	}
	op := OpUIToF
	if signed {
		op = OpSIToF
	}
	return FloatV{t: ex.f.FOp(op, bits, x, nil), bits: bits}
}

func (ex *Exec) floatToFloat(x FloatV, bits uint8) Value {
	if x.bits == bits {
		return x
	}
	if x.t == nil {
		if bits == 32 {
			return FloatV{f: float64(float32(x.f)), bits: 32}
		}
		return FloatV{f: x.f, bits: 64}
	}
	return FloatV{t: ex.f.FOp(OpFToF, bits, x.t, nil), bits: bits}
}

func bitsToF(v uint64, w uint8) float64 {
	if w == 32 {
		return float64(math.Float32frombits(uint32(v)))
	}
	return math.Float64frombits(v)
}

func fToBits(v float64, w uint8) uint64 {
	if w == 32 {
		return uint64(math.Float32bits(float32(v)))
	}
	return math.Float64bits(v)
}

func evalFP(f *Factory, t *Term, asg Assignment, memo map[uint32]uint64) uint64 {
	b2u := func(b bool) uint64 {
		if b {
			return 1
		}
		return 0
	}
	a := f.Eval(t.a, asg, memo)
	var b uint64
	if t.b != nil {
		b = f.Eval(t.b, asg, memo)
	}
	switch t.op {
	case OpFLt:
		return b2u(bitsToF(a, t.a.w) < bitsToF(b, t.b.w))
	case OpFLe:
		return b2u(bitsToF(a, t.a.w) <= bitsToF(b, t.b.w))
	case OpFEq:
		return b2u(bitsToF(a, t.a.w) == bitsToF(b, t.b.w))
	case OpFIsNaN:
		v := bitsToF(a, t.a.w)
		return b2u(v != v)
	case OpFToSI:
		return uint64(int64(bitsToF(a, t.a.w))) & mask(t.w)
	case OpFToUI:
		return uint64(bitsToF(a, t.a.w)) & mask(t.w)
	case OpSIToF:
		if t.w == 32 {
			return uint64(math.Float32bits(float32(sext64(a, t.a.w))))
		}
		return math.Float64bits(float64(sext64(a, t.a.w)))
	case OpUIToF:
		if t.w == 32 {
			return uint64(math.Float32bits(float32(a)))
		}
		return math.Float64bits(float64(a))
	case OpFToF:
		return fToBits(bitsToF(a, t.a.w), t.w)
	case OpFAbs:
		return a & (mask(t.w) >> 1)
	case OpFNeg:
		return a ^ (uint64(1) << (t.w - 1))
	case OpFTrunc:
		return fToBits(math.Trunc(bitsToF(a, t.w)), t.w)
	case OpFAdd:
		return fToBits(bitsToF(a, t.w)+bitsToF(b, t.w), t.w)
	case OpFSub:
		return fToBits(bitsToF(a, t.w)-bitsToF(b, t.w), t.w)
	case OpFMul:
		return fToBits(bitsToF(a, t.w)*bitsToF(b, t.w), t.w)
	case OpFDiv:
		return fToBits(bitsToF(a, t.w)/bitsToF(b, t.w), t.w)
	}
	panic("evalFP: unhandled op " + opNames[t.op])
}
