package main

// Symbolic terms: hash-consed DAG of SMT bit-vector / Bool expressions with eager
// constant folding, a concrete evaluator and an SMT-LIB2 printer.

import (
	"fmt"
	"math/bits"
	"sort"
	"strings"
)

type Op uint8

const (
	OpConst Op = iota
	OpVar
	OpAdd
	OpSub
	OpMul
	OpUDiv
	OpURem
	OpSDiv
	OpSRem
	OpAnd
	OpOr
	OpXor
	OpShl
	OpLShr
	OpAShr
	OpNot // bvnot
	OpNeg
	OpZExt
	OpSExt
	OpTrunc // low w bits of a
	OpEq    // bool result; operands same sort (bv or bool)
	OpULt
	OpULe
	OpSLt
	OpSLe
	OpBAnd
	OpBOr
	OpBNot
	OpIte
	OpTbl // table select: c = table id, a = index
	// floating point (operands are bit-vectors holding IEEE bits; w = 32/64)
	OpFLt
	OpFLe
	OpFEq
	OpFIsNaN
	OpFToSI // a: fp bits (width a.w) -> signed int of width w, RTZ (only defined when in range)
	OpFToUI
	OpSIToF // a: signed int -> fp bits of width w (RNE)
	OpUIToF
	OpFToF  // a: fp bits width a.w -> fp bits width w (RNE)
	OpFAbs
	OpFNeg
	OpFAdd
	OpFSub
	OpFMul
	OpFDiv
	OpFTrunc // round to integral, toward zero
)

var opNames = [...]string{
	OpConst: "const", OpVar: "var", OpAdd: "bvadd", OpSub: "bvsub", OpMul: "bvmul", OpUDiv: "bvudiv",
	OpURem: "bvurem", OpSDiv: "bvsdiv", OpSRem: "bvsrem", OpAnd: "bvand", OpOr: "bvor", OpXor: "bvxor",
	OpShl: "bvshl", OpLShr: "bvlshr", OpAShr: "bvashr", OpNot: "bvnot", OpNeg: "bvneg",
	OpZExt: "zext", OpSExt: "sext", OpTrunc: "trunc", OpEq: "=", OpULt: "bvult", OpULe: "bvule",
	OpSLt: "bvslt", OpSLe: "bvsle", OpBAnd: "and", OpBOr: "or", OpBNot: "not", OpIte: "ite", OpTbl: "tbl",
	OpFLt: "fp.lt", OpFLe: "fp.leq", OpFEq: "fp.eq", OpFIsNaN: "fp.isNaN", OpFToSI: "fp.to_sbv", OpFToUI: "fp.to_ubv",
	OpSIToF: "si_to_fp", OpUIToF: "ui_to_fp", OpFToF: "fp_to_fp", OpFAbs: "fp.abs", OpFNeg: "fp.neg",
	OpFAdd: "fp.add", OpFSub: "fp.sub", OpFMul: "fp.mul", OpFDiv: "fp.div", OpFTrunc: "fp.roundToIntegral",
}

// Term is an immutable expression node. w == 0 means sort Bool, otherwise a
// bit-vector of width w (1..64).
type Term struct {
	op      Op
	w       uint8
	c       uint64 // constant value (masked) / var index / table id
	a, b, d *Term
	id      uint32 // 0 for constants
	h1, h2  uint64 // structural hash (name-based for vars): stable across factories
	vars    []uint16
	varsOK  bool
}

func (t *Term) IsConst() bool { return t.op == OpConst }
func (t *Term) IsBool() bool  { return t.w == 0 }

func mask(w uint8) uint64 {
	if w >= 64 {
		return ^uint64(0)
	}
	return (uint64(1) << w) - 1
}

func sext64(v uint64, w uint8) int64 {
	if w >= 64 {
		return int64(v)
	}
	sh := 64 - uint(w)
	return int64(v<<sh) >> sh
}

var termTrue = &Term{op: OpConst, w: 0, c: 1, h1: 0x9e3779b97f4a7c15, h2: 0x1234567}
var termFalse = &Term{op: OpConst, w: 0, c: 0, h1: 0x7f4a7c159e3779b9, h2: 0x7654321}

// small constant cache (shared, immutable)
var smallConsts [65][300]*Term

func init() {
	for _, w := range []uint8{8, 16, 32, 64} {
		for v := 0; v < 300; v++ {
			if uint64(v)&mask(w) != uint64(v) {
				continue
			}
			smallConsts[w][v] = newConst(uint64(v), w)
		}
	}
}

func mix(a, b uint64) uint64 {
	a ^= b + 0x9e3779b97f4a7c15 + (a << 6) + (a >> 2)
	a *= 0xff51afd7ed558ccd
	a ^= a >> 33
	return a
}

func newConst(v uint64, w uint8) *Term {
	return &Term{op: OpConst, w: w, c: v, h1: mix(v, uint64(w)+77), h2: mix(uint64(w)*31+5, v)}
}

func Const(v uint64, w uint8) *Term {
	if w == 0 {
		if v != 0 {
			return termTrue
		}
		return termFalse
	}
	v &= mask(w)
	if v < 300 && w <= 64 {
		if t := smallConsts[w][v]; t != nil {
			return t
		}
	}
	return newConst(v, w)
}

func Bool(b bool) *Term {
	if b {
		return termTrue
	}
	return termFalse
}

type VarInfo struct {
	Name string
	W    uint8
}

type Table struct {
	ID    int
	Name  string
	Vals  []uint64
	W     uint8 // element width
	IdxW  uint8
	h     uint64
	IsBool bool
}

type tkey struct {
	op      Op
	w       uint8
	c       uint64
	a, b, d uint32
	ac, bc  uint64 // constant operand values (when operand is const, id==0)
	aw, bw  uint8
}

// Factory hash-conses symbolic terms. One per worker (not goroutine safe).
type Factory struct {
	tab    map[tkey]*Term
	nextID uint32
	vars   []VarInfo
	varIdx map[string]int
	tables []*Table
	tblIdx map[string]*Table
	contTables map[any]*Table
}

func NewFactory() *Factory {
	return &Factory{tab: map[tkey]*Term{}, nextID: 1, varIdx: map[string]int{}, tblIdx: map[string]*Table{}}
}

func hashStr(s string) uint64 {
	h := uint64(14695981039346656037)
	for i := 0; i < len(s); i++ {
		h ^= uint64(s[i])
		h *= 1099511628211
	}
	return h
}

func (f *Factory) Var(name string, w uint8) *Term {
	if i, ok := f.varIdx[name]; ok {
		if f.vars[i].W != w {
			panic("var redeclared with different width: " + name)
		}
		return f.mk(OpVar, w, uint64(i), nil, nil, nil)
	}
	i := len(f.vars)
	f.vars = append(f.vars, VarInfo{name, w})
	f.varIdx[name] = i
	return f.mk(OpVar, w, uint64(i), nil, nil, nil)
}

func (f *Factory) TableFor(name string, vals []uint64, w uint8, idxW uint8) *Table {
	if t, ok := f.tblIdx[name]; ok {
		return t
	}
	h := hashStr(name)
	for _, v := range vals {
		h = mix(h, v)
	}
	t := &Table{ID: len(f.tables), Name: name, Vals: vals, W: w, IdxW: idxW, h: h}
	f.tables = append(f.tables, t)
	f.tblIdx[name] = t
	return t
}

func (f *Factory) mk(op Op, w uint8, c uint64, a, b, d *Term) *Term {
	k := tkey{op: op, w: w, c: c}
	if a != nil {
		k.a, k.ac, k.aw = a.id, 0, a.w
		if a.id == 0 {
			k.ac = a.c
		}
	}
	if b != nil {
		k.b, k.bc, k.bw = b.id, 0, b.w
		if b.id == 0 {
			k.bc = b.c
		}
	}
	if d != nil {
		if d.id == 0 {
			// fold constant third operand into c-space: rare; disambiguate by hash
			k.d = uint32(d.h1) | 0x80000000
		} else {
			k.d = d.id
		}
	}
	if t, ok := f.tab[k]; ok {
		return t
	}
	t := &Term{op: op, w: w, c: c, a: a, b: b, d: d, id: f.nextID}
	f.nextID++
	// structural hash
	var h1, h2 uint64
	switch op {
	case OpVar:
		hs := hashStr(f.vars[c].Name)
		h1, h2 = mix(hs, uint64(w)), mix(uint64(w)+99, hs)
	case OpTbl:
		tb := f.tables[c]
		h1, h2 = mix(tb.h, 0x7777), mix(0x3333, tb.h)
	default:
		h1, h2 = mix(uint64(op)*131+uint64(w), c), mix(c+17, uint64(op)*977+uint64(w))
	}
	for _, x := range []*Term{a, b, d} {
		if x != nil {
			h1 = mix(h1, x.h1)
			h2 = mix(h2*31, x.h2)
		} else {
			h1 = mix(h1, 1)
			h2 = mix(h2, 2)
		}
	}
	t.h1, t.h2 = h1, h2
	f.tab[k] = t
	return t
}

// Vars returns the sorted set of variable indices occurring in t.
func (f *Factory) Vars(t *Term) []uint16 {
	if t.varsOK {
		return t.vars
	}
	if t.op == OpConst {
		return nil
	}
	seen := map[uint32]bool{}
	set := map[uint16]bool{}
	var walk func(x *Term)
	walk = func(x *Term) {
		if x == nil || x.op == OpConst || seen[x.id] {
			return
		}
		seen[x.id] = true
		if x.varsOK {
			for _, v := range x.vars {
				set[v] = true
			}
			return
		}
		if x.op == OpVar {
			set[uint16(x.c)] = true
			return
		}
		walk(x.a)
		walk(x.b)
		walk(x.d)
	}
	walk(t)
	vs := make([]uint16, 0, len(set))
	for v := range set {
		vs = append(vs, v)
	}
	sort.Slice(vs, func(i, j int) bool { return vs[i] < vs[j] })
	t.vars, t.varsOK = vs, true
	return vs
}

// ---------------------------------------------------------------------------
// constructors with folding

func foldBin(op Op, w uint8, x, y uint64) (uint64, bool) {
	m := mask(w)
	switch op {
	case OpAdd:
		return (x + y) & m, true
	case OpSub:
		return (x - y) & m, true
	case OpMul:
		return (x * y) & m, true
	case OpUDiv:
		if y == 0 {
			return m, true
		}
		return x / y, true
	case OpURem:
		if y == 0 {
			return x, true
		}
		return x % y, true
	case OpSDiv:
		sx, sy := sext64(x, w), sext64(y, w)
		if sy == 0 {
			if sx < 0 {
				return 1, true
			}
			return m, true
		}
		if sy == -1 {
			return uint64(-sx) & m, true
		}
		return uint64(sx/sy) & m, true
	case OpSRem:
		sx, sy := sext64(x, w), sext64(y, w)
		if sy == 0 {
			return x, true
		}
		if sy == -1 {
			return 0, true
		}
		return uint64(sx%sy) & m, true
	case OpAnd:
		return x & y, true
	case OpOr:
		return x | y, true
	case OpXor:
		return x ^ y, true
	case OpShl:
		if y >= uint64(w) {
			return 0, true
		}
		return (x << y) & m, true
	case OpLShr:
		if y >= uint64(w) {
			return 0, true
		}
		return x >> y, true
	case OpAShr:
		sx := sext64(x, w)
		if y >= uint64(w) {
			y = uint64(w) - 1
		}
		return uint64(sx>>y) & m, true
	}
	return 0, false
}

func foldCmp(op Op, w uint8, x, y uint64) bool {
	switch op {
	case OpEq:
		return x == y
	case OpULt:
		return x < y
	case OpULe:
		return x <= y
	case OpSLt:
		return sext64(x, w) < sext64(y, w)
	case OpSLe:
		return sext64(x, w) <= sext64(y, w)
	}
	panic("foldCmp")
}

func (f *Factory) Bin(op Op, a, b *Term) *Term {
	if a.w != b.w {
		panic(fmt.Sprintf("Bin %s width mismatch %d vs %d", opNames[op], a.w, b.w))
	}
	w := a.w
	if a.op == OpConst && b.op == OpConst {
		v, _ := foldBin(op, w, a.c, b.c)
		return Const(v, w)
	}
	m := mask(w)
	switch op {
	case OpAdd:
		if a.op == OpConst && a.c == 0 {
			return b
		}
		if b.op == OpConst && b.c == 0 {
			return a
		}
		if a.op == OpConst { // canonical: const on the right
			a, b = b, a
		}
		// (x + c1) + c2
		if b.op == OpConst && a.op == OpAdd && a.b.op == OpConst {
			return f.Bin(OpAdd, a.a, Const(a.b.c+b.c, w))
		}
	case OpSub:
		if b.op == OpConst && b.c == 0 {
			return a
		}
		if a == b {
			return Const(0, w)
		}
		if b.op == OpConst {
			return f.Bin(OpAdd, a, Const(-b.c, w))
		}
	case OpMul:
		if a.op == OpConst {
			a, b = b, a
		}
		if b.op == OpConst {
			if b.c == 0 {
				return b
			}
			if b.c == 1 {
				return a
			}
			if b.c == m && w > 1 { // x * -1: negation (much cheaper than a product for the integer back end)
				return f.Neg(a)
			}
		}
	case OpAnd:
		if a.op == OpConst {
			a, b = b, a
		}
		if b.op == OpConst {
			if b.c == 0 {
				return b
			}
			if b.c == m {
				return a
			}
			// x & (2^k-1): extract and zero-extend (identical for bit-blasting, and plain
			// mod 2^k for the integer back end instead of a bit-by-bit sum)
			if b.c&(b.c+1) == 0 && w > 1 {
				k := uint8(bits.Len64(b.c))
				if k >= 1 && k < w {
					return f.Resize(f.Resize(a, k, false), w, false)
				}
			}
		}
		if a == b {
			return a
		}
	case OpOr:
		if a.op == OpConst {
			a, b = b, a
		}
		if b.op == OpConst {
			if b.c == 0 {
				return a
			}
			if b.c == m {
				return b
			}
		}
		if a == b {
			return a
		}
	case OpXor:
		if a.op == OpConst {
			a, b = b, a
		}
		if b.op == OpConst && b.c == 0 {
			return a
		}
		if a == b {
			return Const(0, w)
		}
	case OpShl, OpLShr, OpAShr:
		if b.op == OpConst && b.c == 0 {
			return a
		}
		if a.op == OpConst && a.c == 0 {
			return a
		}
		if b.op == OpConst && b.c >= uint64(w) && op != OpAShr {
			return Const(0, w)
		}
	case OpUDiv:
		if b.op == OpConst && b.c == 1 {
			return a
		}
	}
	return f.mk(op, w, 0, a, b, nil)
}

func (f *Factory) Cmp(op Op, a, b *Term) *Term {
	if a.w != b.w {
		panic(fmt.Sprintf("Cmp %s width mismatch %d vs %d", opNames[op], a.w, b.w))
	}
	if a.op == OpConst && b.op == OpConst {
		return Bool(foldCmp(op, a.w, a.c, b.c))
	}
	if a == b && a.id != 0 {
		switch op {
		case OpEq, OpULe, OpSLe:
			return termTrue
		default:
			return termFalse
		}
	}
	if op == OpEq {
		if a.w == 0 {
			// boolean equality
			if a.op == OpConst {
				a, b = b, a
			}
			if b.op == OpConst {
				if b.c == 1 {
					return a
				}
				return f.Not(a)
			}
		}
		if a.op == OpConst {
			a, b = b, a
		}
		// zext(x) == c  ->  x == c' or false
		if b.op == OpConst && a.op == OpZExt {
			if b.c > mask(a.a.w) {
				return termFalse
			}
			return f.Cmp(OpEq, a.a, Const(b.c, a.a.w))
		}
		// ite(c, k1, k2) == k  with constants
		if b.op == OpConst && a.op == OpIte && a.b.op == OpConst && a.d.op == OpConst {
			t1, t2 := a.b.c == b.c, a.d.c == b.c
			switch {
			case t1 && t2:
				return termTrue
			case t1:
				return a.a
			case t2:
				return f.Not(a.a)
			default:
				return termFalse
			}
		}
		if a.id > b.id && b.op != OpConst {
			a, b = b, a
		}
	}
	// unsigned comparisons on zero-extended operands against constants
	if (op == OpULt || op == OpULe) && a.op == OpZExt && b.op == OpConst {
		mw := mask(a.a.w)
		if b.c > mw {
			return termTrue
		}
		return f.Cmp(op, a.a, Const(b.c, a.a.w))
	}
	if (op == OpULt || op == OpULe) && b.op == OpZExt && a.op == OpConst {
		mw := mask(b.a.w)
		if a.c > mw {
			return termFalse
		}
		return f.Cmp(op, Const(a.c, b.a.w), b.a)
	}
	// signed comparisons on zero-extended (hence non-negative) operands against constants
	if (op == OpSLt || op == OpSLe) && a.op == OpZExt && b.op == OpConst && a.a.w < a.w {
		if sext64(b.c, a.w) < 0 {
			return termFalse
		}
		uop := OpULt
		if op == OpSLe {
			uop = OpULe
		}
		return f.Cmp(uop, a, b)
	}
	if (op == OpSLt || op == OpSLe) && b.op == OpZExt && a.op == OpConst && b.a.w < b.w {
		if sext64(a.c, b.w) < 0 {
			return termTrue
		}
		uop := OpULt
		if op == OpSLe {
			uop = OpULe
		}
		return f.Cmp(uop, a, b)
	}
	if op == OpULt && b.op == OpConst && b.c == 0 {
		return termFalse
	}
	if op == OpULe && a.op == OpConst && a.c == 0 {
		return termTrue
	}
	return f.mk(op, 0, 0, a, b, nil)
}

func (f *Factory) Not(a *Term) *Term {
	if a.w != 0 {
		panic("Not on non-bool")
	}
	if a.op == OpConst {
		return Bool(a.c == 0)
	}
	if a.op == OpBNot {
		return a.a
	}
	return f.mk(OpBNot, 0, 0, a, nil, nil)
}

func (f *Factory) And(a, b *Term) *Term {
	if a.op == OpConst {
		if a.c == 0 {
			return termFalse
		}
		return b
	}
	if b.op == OpConst {
		if b.c == 0 {
			return termFalse
		}
		return a
	}
	if a == b {
		return a
	}
	if a.id > b.id {
		a, b = b, a
	}
	return f.mk(OpBAnd, 0, 0, a, b, nil)
}

func (f *Factory) Or(a, b *Term) *Term {
	if a.op == OpConst {
		if a.c != 0 {
			return termTrue
		}
		return b
	}
	if b.op == OpConst {
		if b.c != 0 {
			return termTrue
		}
		return a
	}
	if a == b {
		return a
	}
	if a.id > b.id {
		a, b = b, a
	}
	return f.mk(OpBOr, 0, 0, a, b, nil)
}

func (f *Factory) Ite(c, a, b *Term) *Term {
	if c.w != 0 || a.w != b.w {
		panic("Ite sort mismatch")
	}
	if c.op == OpConst {
		if c.c != 0 {
			return a
		}
		return b
	}
	if a == b {
		return a
	}
	if a.op == OpConst && b.op == OpConst && a.c == b.c {
		return a
	}
	if a.w == 0 && a.op == OpConst && b.op == OpConst {
		if a.c == 1 {
			return c
		}
		return f.Not(c)
	}
	return f.mk(OpIte, a.w, 0, c, a, b)
}

func (f *Factory) BVNot(a *Term) *Term {
	if a.op == OpConst {
		return Const(^a.c, a.w)
	}
	if a.op == OpNot {
		return a.a
	}
	return f.mk(OpNot, a.w, 0, a, nil, nil)
}

func (f *Factory) Neg(a *Term) *Term {
	if a.op == OpConst {
		return Const(-a.c, a.w)
	}
	return f.mk(OpNeg, a.w, 0, a, nil, nil)
}

// Resize converts a bit-vector to width w (truncate, or extend signed/unsigned).
func (f *Factory) Resize(a *Term, w uint8, signed bool) *Term {
	if a.w == 0 {
		panic("Resize on bool")
	}
	if a.w == w {
		return a
	}
	if w < a.w {
		if a.op == OpConst {
			return Const(a.c, w)
		}
		switch a.op {
		case OpZExt, OpSExt:
			if a.a.w == w {
				return a.a
			}
			if a.a.w > w {
				return f.Resize(a.a, w, false)
			}
			return f.Resize(a.a, w, a.op == OpSExt)
		case OpTrunc:
			return f.Resize(a.a, w, false)
		}
		return f.mk(OpTrunc, w, 0, a, nil, nil)
	}
	if a.op == OpConst {
		if signed {
			return Const(uint64(sext64(a.c, a.w)), w)
		}
		return Const(a.c, w)
	}
	if signed {
		if a.op == OpZExt { // already non-negative
			return f.mk(OpZExt, w, 0, a.a, nil, nil)
		}
		if a.op == OpSExt {
			return f.mk(OpSExt, w, 0, a.a, nil, nil)
		}
		return f.mk(OpSExt, w, 0, a, nil, nil)
	}
	if a.op == OpZExt {
		return f.mk(OpZExt, w, 0, a.a, nil, nil)
	}
	return f.mk(OpZExt, w, 0, a, nil, nil)
}

func (f *Factory) TblSel(t *Table, idx *Term) *Term {
	if idx.op == OpConst {
		if idx.c < uint64(len(t.Vals)) {
			if t.IsBool {
				return Bool(t.Vals[idx.c] != 0)
			}
			return Const(t.Vals[idx.c], t.W)
		}
		panic("table index out of range")
	}
	if idx.w != t.IdxW {
		idx = f.Resize(idx, t.IdxW, false)
	}
	r := f.mk(OpTbl, t.W, uint64(t.ID), idx, nil, nil)
	if t.IsBool {
		return f.Cmp(OpEq, r, Const(1, 1))
	}
	return r
}

// generic unary/binary FP ops over bit patterns
func (f *Factory) FOp(op Op, w uint8, a, b *Term) *Term {
	return f.mk(op, w, 0, a, b, nil)
}

// BoolToBV / helpers
func (f *Factory) Eq(a, b *Term) *Term { return f.Cmp(OpEq, a, b) }

// ---------------------------------------------------------------------------
// evaluation under an assignment (var index -> value)

type Assignment map[string]uint64

func (f *Factory) Eval(t *Term, asg Assignment, memo map[uint32]uint64) uint64 {
	if t.op == OpConst {
		return t.c
	}
	if v, ok := memo[t.id]; ok {
		return v
	}
	var r uint64
	switch t.op {
	case OpVar:
		r = asg[f.vars[t.c].Name] & maskOrBool(t.w)
	case OpAdd, OpSub, OpMul, OpUDiv, OpURem, OpSDiv, OpSRem, OpAnd, OpOr, OpXor, OpShl, OpLShr, OpAShr:
		r, _ = foldBin(t.op, t.w, f.Eval(t.a, asg, memo), f.Eval(t.b, asg, memo))
	case OpNot:
		r = ^f.Eval(t.a, asg, memo) & mask(t.w)
	case OpNeg:
		r = -f.Eval(t.a, asg, memo) & mask(t.w)
	case OpZExt:
		r = f.Eval(t.a, asg, memo)
	case OpSExt:
		r = uint64(sext64(f.Eval(t.a, asg, memo), t.a.w)) & mask(t.w)
	case OpTrunc:
		r = f.Eval(t.a, asg, memo) & mask(t.w)
	case OpEq, OpULt, OpULe, OpSLt, OpSLe:
		if foldCmp(t.op, t.a.w, f.Eval(t.a, asg, memo), f.Eval(t.b, asg, memo)) {
			r = 1
		}
	case OpBAnd:
		if f.Eval(t.a, asg, memo) != 0 && f.Eval(t.b, asg, memo) != 0 {
			r = 1
		}
	case OpBOr:
		if f.Eval(t.a, asg, memo) != 0 || f.Eval(t.b, asg, memo) != 0 {
			r = 1
		}
	case OpBNot:
		if f.Eval(t.a, asg, memo) == 0 {
			r = 1
		}
	case OpIte:
		if f.Eval(t.a, asg, memo) != 0 {
			r = f.Eval(t.b, asg, memo)
		} else {
			r = f.Eval(t.d, asg, memo)
		}
	case OpTbl:
		tb := f.tables[t.c]
		i := f.Eval(t.a, asg, memo)
		if i < uint64(len(tb.Vals)) {
			r = tb.Vals[i]
		}
	default:
		r = evalFP(f, t, asg, memo)
	}
	memo[t.id] = r
	return r
}

func maskOrBool(w uint8) uint64 {
	if w == 0 {
		return 1
	}
	return mask(w)
}

// ---------------------------------------------------------------------------
// SMT-LIB printing

type smtPrinter struct {
	f      *Factory
	defs   strings.Builder
	names  map[uint32]string
	vars   map[uint16]bool
	tables map[int]bool
	refs   map[uint32]int
}

func sortOf(w uint8) string {
	if w == 0 {
		return "Bool"
	}
	return fmt.Sprintf("(_ BitVec %d)", w)
}

func constStr(v uint64, w uint8) string {
	if w == 0 {
		if v != 0 {
			return "true"
		}
		return "false"
	}
	if w%4 == 0 {
		return fmt.Sprintf("#x%0*x", int(w/4), v)
	}
	return fmt.Sprintf("#b%0*b", int(w), v)
}

func smtVarName(name string) string {
	var sb strings.Builder
	sb.WriteString("v_")
	for i := 0; i < len(name); i++ {
		c := name[i]
		if c >= 'a' && c <= 'z' || c >= 'A' && c <= 'Z' || c >= '0' && c <= '9' || c == '_' {
			sb.WriteByte(c)
		} else {
			fmt.Fprintf(&sb, "_%02x", c)
		}
	}
	return sb.String()
}

func (p *smtPrinter) countRefs(t *Term) {
	if t == nil || t.op == OpConst {
		return
	}
	p.refs[t.id]++
	if p.refs[t.id] > 1 {
		return
	}
	p.countRefs(t.a)
	p.countRefs(t.b)
	p.countRefs(t.d)
}

func fpSort(w uint8) string {
	if w == 32 {
		return "(_ FloatingPoint 8 24)"
	}
	return "(_ FloatingPoint 11 53)"
}
func fpConv(w uint8) string {
	if w == 32 {
		return "(_ to_fp 8 24)"
	}
	return "(_ to_fp 11 53)"
}

func (p *smtPrinter) expr(t *Term) string {
	if t.op == OpConst {
		return constStr(t.c, t.w)
	}
	if n, ok := p.names[t.id]; ok {
		return n
	}
	var s string
	switch t.op {
	case OpVar:
		p.vars[uint16(t.c)] = true
		s = smtVarName(p.f.vars[t.c].Name)
		p.names[t.id] = s
		return s
	case OpZExt:
		s = fmt.Sprintf("((_ zero_extend %d) %s)", t.w-t.a.w, p.expr(t.a))
	case OpSExt:
		s = fmt.Sprintf("((_ sign_extend %d) %s)", t.w-t.a.w, p.expr(t.a))
	case OpTrunc:
		s = fmt.Sprintf("((_ extract %d 0) %s)", t.w-1, p.expr(t.a))
	case OpNot, OpNeg, OpBNot:
		s = fmt.Sprintf("(%s %s)", opNames[t.op], p.expr(t.a))
	case OpIte:
		s = fmt.Sprintf("(ite %s %s %s)", p.expr(t.a), p.expr(t.b), p.expr(t.d))
	case OpTbl:
		p.tables[int(t.c)] = true
		s = fmt.Sprintf("(%s %s)", tableName(p.f.tables[t.c]), p.expr(t.a))
	case OpFLt, OpFLe, OpFEq:
		s = fmt.Sprintf("(%s (%s %s) (%s %s))", opNames[t.op], fpConv(t.a.w), p.expr(t.a), fpConv(t.b.w), p.expr(t.b))
	case OpFIsNaN:
		s = fmt.Sprintf("(fp.isNaN (%s %s))", fpConv(t.a.w), p.expr(t.a))
	case OpFToSI:
		s = fmt.Sprintf("((_ fp.to_sbv %d) RTZ (%s %s))", t.w, fpConv(t.a.w), p.expr(t.a))
	case OpFToUI:
		s = fmt.Sprintf("((_ fp.to_ubv %d) RTZ (%s %s))", t.w, fpConv(t.a.w), p.expr(t.a))
	case OpSIToF, OpUIToF, OpFToF, OpFAbs, OpFNeg, OpFAdd, OpFSub, OpFMul, OpFDiv, OpFTrunc:
		// results are FP values that must be turned back into bit patterns: introduce a fresh
		// bit-vector constant constrained by to_fp equality (the standard SMT-LIB idiom).
		nm := fmt.Sprintf("_fpb%d", t.id)
		var fe string
		switch t.op {
		case OpSIToF:
			fe = fmt.Sprintf("(%s RNE %s)", fpConv(t.w), p.expr(t.a))
		case OpUIToF:
			fe = fmt.Sprintf("((_ to_fp_unsigned %s) RNE %s)", fpEB(t.w), p.expr(t.a))
		case OpFToF:
			fe = fmt.Sprintf("(%s RNE (%s %s))", fpConv(t.w), fpConv(t.a.w), p.expr(t.a))
		case OpFTrunc:
			fe = fmt.Sprintf("(fp.roundToIntegral RTZ (%s %s))", fpConv(t.a.w), p.expr(t.a))
		case OpFAbs, OpFNeg:
			fe = fmt.Sprintf("(%s (%s %s))", opNames[t.op], fpConv(t.a.w), p.expr(t.a))
		default:
			fe = fmt.Sprintf("(%s RNE (%s %s) (%s %s))", opNames[t.op], fpConv(t.a.w), p.expr(t.a), fpConv(t.b.w), p.expr(t.b))
		}
		fmt.Fprintf(&p.defs, "(declare-const %s (_ BitVec %d))\n", nm, t.w)
		if t.op == OpFAbs || t.op == OpFNeg {
			// exact bit operations, keep NaN payloads
			if t.op == OpFAbs {
				fmt.Fprintf(&p.defs, "(assert (= %s (bvand %s %s)))\n", nm, p.expr(t.a), constStr(mask(t.w)>>1, t.w))
			} else {
				fmt.Fprintf(&p.defs, "(assert (= %s (bvxor %s %s)))\n", nm, p.expr(t.a), constStr(uint64(1)<<(t.w-1), t.w))
			}
		} else {
			fmt.Fprintf(&p.defs, "(assert (= (%s %s) %s))\n", fpConv(t.w), nm, fe)
		}
		p.names[t.id] = nm
		return nm
	default:
		s = fmt.Sprintf("(%s %s %s)", opNames[t.op], p.expr(t.a), p.expr(t.b))
	}
	if p.refs[t.id] > 1 {
		nm := fmt.Sprintf("_t%d", t.id)
		fmt.Fprintf(&p.defs, "(define-fun %s () %s %s)\n", nm, sortOf(t.w), s)
		p.names[t.id] = nm
		return nm
	}
	return s
}

func fpEB(w uint8) string {
	if w == 32 {
		return "8 24"
	}
	return "11 53"
}

func tableDef(tb *Table) string {
	// balanced decision tree over the index
	var rec func(lo, hi int) string
	rec = func(lo, hi int) string {
		// all equal?
		same := true
		for i := lo + 1; i < hi; i++ {
			if tb.Vals[i] != tb.Vals[lo] {
				same = false
				break
			}
		}
		if same {
			return constStr(tb.Vals[lo], tb.W)
		}
		mid := (lo + hi) / 2
		return fmt.Sprintf("(ite (bvult i %s) %s %s)", constStr(uint64(mid), tb.IdxW), rec(lo, mid), rec(mid, hi))
	}
	return fmt.Sprintf("(define-fun %s ((i (_ BitVec %d))) (_ BitVec %d) %s)\n", tableName(tb), tb.IdxW, tb.W, rec(0, len(tb.Vals)))
}

type Decl struct{ Name, Text string }

type Query struct {
	Decls []Decl // global declarations (variables, tables): sent once per solver process
	Body  string // scoped definitions and assertions
	Used  []VarInfo
}

// BuildQuery renders `asserts` (conjunction) as SMT-LIB text.
func (f *Factory) BuildQuery(asserts []*Term) *Query {
	p := &smtPrinter{f: f, names: map[uint32]string{}, vars: map[uint16]bool{}, tables: map[int]bool{}, refs: map[uint32]int{}}
	for _, a := range asserts {
		p.countRefs(a)
	}
	var as strings.Builder
	for _, a := range asserts {
		fmt.Fprintf(&as, "(assert %s)\n", p.expr(a))
	}
	q := &Query{}
	vidx := make([]int, 0, len(p.vars))
	for v := range p.vars {
		vidx = append(vidx, int(v))
	}
	sort.Ints(vidx)
	for _, v := range vidx {
		vi := f.vars[v]
		q.Used = append(q.Used, vi)
		nm := smtVarName(vi.Name)
		q.Decls = append(q.Decls, Decl{nm, fmt.Sprintf("(declare-const %s %s)\n", nm, sortOf(vi.W))})
	}
	tids := make([]int, 0, len(p.tables))
	for t := range p.tables {
		tids = append(tids, t)
	}
	sort.Ints(tids)
	for _, t := range tids {
		tb := f.tables[t]
		q.Decls = append(q.Decls, Decl{tableName(tb), tableDef(tb)})
	}
	q.Body = p.defs.String() + as.String()
	return q
}

func tableName(tb *Table) string { return fmt.Sprintf("tbl_%d_%d_%x", tb.W, len(tb.Vals), tb.h) }

func (f *Factory) String(t *Term) string {
	p := &smtPrinter{f: f, names: map[uint32]string{}, vars: map[uint16]bool{}, tables: map[int]bool{}, refs: map[uint32]int{}}
	return p.expr(t)
}

var _ = bits.Len64
