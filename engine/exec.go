package main

import (
	"fmt"
	"go/token"
	"go/types"
	"sync"

	"golang.org/x/tools/go/ssa"
)

// ---------------------------------------------------------------------------
// control-flow signals (Go panics used by the interpreter)

type Unsupported struct{ msg string }      // path ends: construct not modelled
type PathEnd struct{ kind, msg string }    // path ends: infeasible assume, etc.
type StepBudget struct{}                   // unwinding failure
type TargetPanic struct {                  // a Go panic in the interpreted program
	v       Value
	runtime bool
	msg     string
	misuse  bool
}

type fnInfo struct {
	idx   map[ssa.Value]int
	n     int
	tmpl  []Value
	hasDefer bool
	firstNonPhi map[*ssa.BasicBlock]int
}

type Engine struct {
	prog       *ssa.Program
	fset       *token.FileSet
	globals    map[*ssa.Global]*Cont
	sizes      types.Sizes
	constCache sync.Map
	fnInfos    sync.Map // *ssa.Function -> *fnInfo
	intrinsics map[string]Intrinsic
	stubs      map[string]*ssa.Function // callee name -> replacement (harness-tree Go code)
	inInit     bool
	initPkgs   map[string]bool
	rtErrType  types.Type
	stringerCache sync.Map
	methodCache sync.Map
	implCache  sync.Map
	InitFailures []string
	refl       *reflectEnv
}

type deferred struct {
	fn   Value
	args []Value
	tail *deferred
	instr *ssa.Defer
}

type frame struct {
	ex        *Exec
	caller    *frame
	fn        *ssa.Function
	info      *fnInfo
	block     *ssa.BasicBlock
	prevBlock *ssa.BasicBlock
	regs      []Value
	defers    *deferred
	result    Value
	panicking bool
	panicV    any
}

func (eng *Engine) info(fn *ssa.Function) *fnInfo {
	if v, ok := eng.fnInfos.Load(fn); ok {
		return v.(*fnInfo)
	}
	fi := &fnInfo{idx: map[ssa.Value]int{}, firstNonPhi: map[*ssa.BasicBlock]int{}}
	add := func(v ssa.Value) {
		if _, ok := fi.idx[v]; !ok {
			fi.idx[v] = fi.n
			fi.n++
		}
	}
	for _, p := range fn.Params {
		add(p)
	}
	for _, p := range fn.FreeVars {
		add(p)
	}
	for _, b := range fn.Blocks {
		fnp := len(b.Instrs)
		for i, ins := range b.Instrs {
			if _, ok := ins.(*ssa.Phi); !ok && i < fnp {
				fnp = i
			}
			if _, ok := ins.(*ssa.Defer); ok {
				fi.hasDefer = true
			}
			if v, ok := ins.(ssa.Value); ok {
				add(v)
			}
		}
		fi.firstNonPhi[b] = fnp
	}
	v, _ := eng.fnInfos.LoadOrStore(fn, fi)
	return v.(*fnInfo)
}

func (fr *frame) get(key ssa.Value) Value {
	switch key := key.(type) {
	case nil:
		return nil
	case *ssa.Const:
		return fr.ex.eng.constValue(key)
	case *ssa.Function:
		return key
	case *ssa.Builtin:
		return key
	case *ssa.Global:
		c, ok := fr.ex.eng.globals[key]
		if !ok {
			panic(Unsupported{"global of unloaded package: " + key.String()})
		}
		if key.Pkg != nil && !fr.ex.eng.initPkgs[key.Pkg.Pkg.Path()] && !fr.ex.eng.inInit {
			panic(Unsupported{"global of uninitialised package: " + key.String()})
		}
		return Ptr{c: c}
	}
	i, ok := fr.info.idx[key]
	if !ok {
		panic(fmt.Sprintf("get: no slot for %T %v in %v", key, key.Name(), fr.fn))
	}
	v := fr.regs[i]
	if v == nil {
		panic(fmt.Sprintf("get: unset value %v in %v", key.Name(), fr.fn))
	}
	return v
}

func (fr *frame) set(key ssa.Value, v Value) {
	fr.regs[fr.info.idx[key]] = v
}

// ---------------------------------------------------------------------------
// memory

func (ex *Exec) rd(c *Cont) *Cont {
	if c.frozen {
		if s, ok := ex.shadow[c]; ok {
			return s
		}
	}
	return c
}

func (ex *Exec) wr(c *Cont) *Cont {
	if c.frozen {
		if ex.eng.inInit {
			return c
		}
		if s, ok := ex.shadow[c]; ok {
			return s
		}
		s := &Cont{v: append([]Value(nil), c.v...)}
		ex.shadow[c] = s
		return s
	}
	return c
}

// concPtr resolves a pointer with a symbolic index by forking over its feasible values.
func (ex *Exec) concPtr(p Ptr) Ptr {
	if p.sym == nil {
		return p
	}
	v := ex.concretize(p.sym, "symbolic element address")
	return Ptr{c: p.c, i: p.i + int(v)}
}

func (ex *Exec) load(p Ptr) Value {
	if p.c == nil {
		ex.rtPanic("invalid memory address or nil pointer dereference")
	}
	if p.sym != nil {
		if tb := ex.tableOfRange(p.c, p.i, p.n); tb != nil {
			return ex.f.TblSel(tb, ex.f.Resize(p.sym, tb.IdxW, false))
		}
		p = ex.concPtr(p)
	}
	v := ex.rd(p.c).v[p.i]
	if _, ok := v.(*Cont); ok {
		return ex.copyVal(v)
	}
	return v
}

// loadRef returns the slot content without copying (for address computations).
func (ex *Exec) loadRef(p Ptr) Value {
	if p.c == nil {
		ex.rtPanic("invalid memory address or nil pointer dereference")
	}
	p = ex.concPtr(p)
	return ex.rd(p.c).v[p.i]
}

func (ex *Exec) copyInto(dst *Cont, src *Cont) {
	d := ex.wr(dst)
	s := ex.rd(src)
	if len(d.v) != len(s.v) {
		panic(fmt.Sprintf("copyInto: shape mismatch %d vs %d", len(d.v), len(s.v)))
	}
	for i, e := range s.v {
		if sc, ok := e.(*Cont); ok {
			if dc, ok := d.v[i].(*Cont); ok {
				ex.copyInto(dc, sc)
				continue
			}
			d.v[i] = ex.copyVal(sc)
			continue
		}
		d.v[i] = e
	}
}

func (ex *Exec) store(p Ptr, v Value) {
	if p.c == nil {
		ex.rtPanic("invalid memory address or nil pointer dereference")
	}
	p = ex.concPtr(p)
	if sc, ok := v.(*Cont); ok {
		if dc, ok := ex.rd(p.c).v[p.i].(*Cont); ok && len(ex.rd(dc).v) == len(ex.rd(sc).v) {
			ex.copyInto(dc, sc)
			return
		}
		ex.wr(p.c).v[p.i] = ex.copyVal(sc)
		return
	}
	ex.wr(p.c).v[p.i] = v
}

func (ex *Exec) where() string {
	if ex.curInstr == nil {
		return ""
	}
	pos := ex.curInstr.Pos()
	fn := ""
	if b := ex.curInstr.Block(); b != nil {
		fn = b.Parent().String()
		if !pos.IsValid() {
			for _, in := range b.Instrs {
				if in.Pos().IsValid() {
					pos = in.Pos()
					break
				}
			}
		}
	}
	return fmt.Sprintf(" [in %s at %v]", fn, ex.eng.fset.Position(pos))
}

func (ex *Exec) rtPanic(msg string) {
	panic(TargetPanic{runtime: true, msg: msg + ex.where()})
}

func (ex *Exec) newObj(v Value) Ptr {
	return Ptr{c: &Cont{v: []Value{v}}}
}

// ---------------------------------------------------------------------------

func (ex *Exec) step(n int) {
	ex.steps += n
	if ex.steps > ex.stepLimit {
		panic(StepBudget{})
	}
}

func (ex *Exec) callSSA(caller *frame, fn *ssa.Function, args []Value, env []Value) Value {
	eng := ex.eng
	if fn.Blocks == nil {
		panic(Unsupported{"no code for function: " + fn.String()})
	}
	if fn.TypeParams().Len() > 0 && len(fn.TypeArgs()) == 0 {
		panic(Unsupported{"uninstantiated generic: " + fn.String()})
	}
	ex.depth++
	if ex.depth > ex.depthLimit {
		panic(Unsupported{"call depth limit exceeded in " + fn.String()})
	}
	defer func() { ex.depth-- }()
	fi := eng.info(fn)
	if ex.trackFuncs {
		ex.funcsSeen[fn]++
	}
	fr := &frame{ex: ex, caller: caller, fn: fn, info: fi}
	fr.regs = make([]Value, fi.n)
	for i, p := range fn.Params {
		fr.regs[fi.idx[p]] = args[i]
	}
	for i, fv := range fn.FreeVars {
		fr.regs[fi.idx[fv]] = env[i]
	}
	fr.block = fn.Blocks[0]
	for fr.block != nil {
		ex.runFrame(fr)
	}
	return fr.result
}

func isControl(r any) bool {
	switch r.(type) {
	case Unsupported, PathEnd, StepBudget:
		return true
	case TargetPanic:
		return false
	}
	return true // interpreter bug / Go runtime error: never swallowed by target recover
}

func (ex *Exec) runFrame(fr *frame) {
	if fr.info.hasDefer || fr.fn.Recover != nil {
		defer func() {
			if fr.block == nil {
				return
			}
			r := recover()
			if r == nil {
				return
			}
			if isControl(r) {
				panic(r)
			}
			fr.panicking = true
			fr.panicV = r
			ex.runDefers(fr)
			fr.block = fr.fn.Recover
			if fr.block == nil {
				// recovered, no named results: return zero value
				fr.result = zero(fr.fn.Signature.Results())
				if t, ok := fr.result.(TupleV); ok {
					switch len(t) {
					case 0:
						fr.result = nil
					case 1:
						fr.result = t[0]
					}
				}
			}
		}()
	}
	for {
		b := fr.block
		fnp := fr.info.firstNonPhi[b]
		if fnp > 0 {
			predIndex := -1
			for i, p := range b.Preds {
				if p == fr.prevBlock {
					predIndex = i
					break
				}
			}
			var tmp [8]Value
			temps := tmp[:0]
			for _, phi := range b.Instrs[:fnp] {
				temps = append(temps, fr.get(phi.(*ssa.Phi).Edges[predIndex]))
			}
			for i, phi := range b.Instrs[:fnp] {
				fr.set(phi.(*ssa.Phi), temps[i])
			}
		}
		instrs := b.Instrs[fnp:]
		ex.step(len(instrs))
		if ex.eng.inInit {
			for _, instr := range instrs {
				if ex.visitInstrInit(fr, instr) {
					return
				}
			}
			continue
		}
		for _, instr := range instrs {
			ex.curInstr = instr
			if ex.visitInstr(fr, instr) {
				return
			}
		}
	}
}

func (ex *Exec) runDefers(fr *frame) {
	for d := fr.defers; d != nil; d = d.tail {
		ex.runDefer(fr, d)
	}
	fr.defers = nil
	if fr.panicking {
		panic(fr.panicV)
	}
}

func (ex *Exec) runDefer(fr *frame, d *deferred) {
	var ok bool
	defer func() {
		if !ok {
			r := recover()
			if isControl(r) {
				panic(r)
			}
			fr.panicking = true
			fr.panicV = r
		}
	}()
	ex.call(fr, d.fn, d.args)
	ok = true
}

func (ex *Exec) doRecover(caller *frame) Value {
	if caller != nil && !caller.panicking && caller.caller != nil && caller.caller.panicking {
		caller.caller.panicking = false
		p := caller.caller.panicV
		caller.caller.panicV = nil
		switch p := p.(type) {
		case TargetPanic:
			if p.runtime {
				return ex.runtimeErrorValue(p.msg)
			}
			return p.v
		}
		panic(fmt.Sprintf("unexpected panic value in recover: %T", p))
	}
	return IfaceV{}
}

func (ex *Exec) runtimeErrorValue(msg string) Value {
	if ex.eng.rtErrType != nil {
		return IfaceV{t: ex.eng.rtErrType, v: StrV{s: msg}}
	}
	return IfaceV{t: types.Typ[types.String], v: StrV{s: "runtime error: " + msg}}
}

// visitInstr returns true when the frame returns.
func (ex *Exec) visitInstr(fr *frame, instr ssa.Instruction) bool {
	switch instr := instr.(type) {
	case *ssa.DebugRef:
	case *ssa.UnOp:
		fr.set(instr, ex.unop(fr, instr, fr.get(instr.X)))
	case *ssa.BinOp:
		fr.set(instr, ex.binop(instr.Op, instr.X.Type(), instr.Y.Type(), fr.get(instr.X), fr.get(instr.Y)))
	case *ssa.Call:
		fn, args := ex.prepareCall(fr, &instr.Call)
		r := ex.call(fr, fn, args)
		fr.set(instr, orUnit(r))
	case *ssa.ChangeInterface:
		fr.set(instr, fr.get(instr.X))
	case *ssa.ChangeType:
		fr.set(instr, fr.get(instr.X))
	case *ssa.Convert:
		fr.set(instr, ex.conv(instr.Type(), instr.X.Type(), fr.get(instr.X)))
	case *ssa.SliceToArrayPointer:
		s := fr.get(instr.X).(SliceV)
		n := int(instr.Type().Underlying().(*types.Pointer).Elem().Underlying().(*types.Array).Len())
		if s.ln < n {
			ex.rtPanic("cannot convert slice to array pointer: length too short")
		}
		if s.c == nil {
			fr.set(instr, Ptr{})
		} else {
			// an array pointer into the middle of a container is modelled by a view container
			panic(Unsupported{"SliceToArrayPointer"})
		}
	case *ssa.MakeInterface:
		fr.set(instr, IfaceV{t: instr.X.Type(), v: fr.get(instr.X)})
	case *ssa.Extract:
		fr.set(instr, fr.get(instr.Tuple).(TupleV)[instr.Index])
	case *ssa.Slice:
		fr.set(instr, ex.slice(instr, fr.get(instr.X), fr.get(instr.Low), fr.get(instr.High), fr.get(instr.Max)))
	case *ssa.Return:
		switch len(instr.Results) {
		case 0:
		case 1:
			fr.result = fr.get(instr.Results[0])
		default:
			res := make(TupleV, len(instr.Results))
			for i, r := range instr.Results {
				res[i] = fr.get(r)
			}
			fr.result = res
		}
		fr.block = nil
		return true
	case *ssa.RunDefers:
		ex.runDefers(fr)
	case *ssa.Panic:
		panic(TargetPanic{v: fr.get(instr.X)})
	case *ssa.Store:
		ex.store(fr.get(instr.Addr).(Ptr), fr.get(instr.Val))
	case *ssa.If:
		succ := 1
		if ex.decide(fr.get(instr.Cond).(*Term), instr) {
			succ = 0
		}
		fr.prevBlock, fr.block = fr.block, fr.block.Succs[succ]
	case *ssa.Jump:
		fr.prevBlock, fr.block = fr.block, fr.block.Succs[0]
	case *ssa.Defer:
		fn, args := ex.prepareCall(fr, &instr.Call)
		if instr.DeferStack != nil {
			panic(Unsupported{"defer with explicit stack (range-over-func)"})
		}
		fr.defers = &deferred{fn: fn, args: args, tail: fr.defers, instr: instr}
	case *ssa.Alloc:
		fr.set(instr, ex.newObj(zero(instr.Type().Underlying().(*types.Pointer).Elem())))
	case *ssa.MakeSlice:
		ln := ex.concInt(fr.get(instr.Len), "make len")
		cp := ex.concInt(fr.get(instr.Cap), "make cap")
		if ln < 0 || cp < ln {
			ex.rtPanic("makeslice: len out of range")
		}
		if cp > 1<<24 {
			panic(Unsupported{"make: slice too large"})
		}
		et := instr.Type().Underlying().(*types.Slice).Elem()
		fr.set(instr, ex.makeSlice(et, ln, cp))
	case *ssa.MakeMap:
		mt := instr.Type().Underlying().(*types.Map)
		fr.set(instr, &MapV{kt: mt.Key(), vt: mt.Elem(), index: map[string]int{}})
	case *ssa.Range:
		fr.set(instr, ex.rangeIter(fr.get(instr.X), instr.X.Type()))
	case *ssa.Next:
		fr.set(instr, fr.get(instr.Iter).(iterator).next(ex))
	case *ssa.FieldAddr:
		p := fr.get(instr.X).(Ptr)
		s, ok := ex.loadRef(p).(*Cont)
		if !ok {
			panic(fmt.Sprintf("FieldAddr: slot is %T", ex.loadRef(p)))
		}
		fr.set(instr, Ptr{c: s, i: instr.Field})
	case *ssa.Field:
		x := fr.get(instr.X)
		if o, ok := x.(Opaque); ok {
			fr.set(instr, o)
			break
		}
		fr.set(instr, ex.rd(x.(*Cont)).v[instr.Field])
	case *ssa.IndexAddr:
		x := fr.get(instr.X)
		switch x := x.(type) {
		case SliceV:
			idx := fr.get(instr.Index).(*Term)
			if idx.op != OpConst {
				fr.set(instr, Ptr{c: x.c, i: x.off, sym: ex.indexSym(idx, instr.Index.Type(), x.ln), n: x.ln})
				break
			}
			i := ex.index(idx, instr.Index.Type(), x.ln)
			fr.set(instr, Ptr{c: x.c, i: x.off + i})
		case Ptr: // *array
			arr, ok := ex.loadRef(x).(*Cont)
			if !ok {
				panic(fmt.Sprintf("IndexAddr: slot is %T", ex.loadRef(x)))
			}
			idx := fr.get(instr.Index).(*Term)
			if idx.op != OpConst {
				fr.set(instr, Ptr{c: arr, i: 0, sym: ex.indexSym(idx, instr.Index.Type(), len(arr.v)), n: len(arr.v)})
				break
			}
			i := ex.index(idx, instr.Index.Type(), len(arr.v))
			fr.set(instr, Ptr{c: arr, i: i})
		default:
			panic(fmt.Sprintf("IndexAddr on %T", x))
		}
	case *ssa.Index:
		fr.set(instr, ex.indexVal(fr.get(instr.X), fr.get(instr.Index).(*Term), instr.Index.Type()))
	case *ssa.Lookup:
		fr.set(instr, ex.lookup(instr, fr.get(instr.X), fr.get(instr.Index)))
	case *ssa.MapUpdate:
		m, _ := fr.get(instr.Map).(*MapV)
		if m == nil {
			ex.rtPanic("assignment to entry in nil map")
		}
		ex.mapSet(m, fr.get(instr.Key), fr.get(instr.Value))
	case *ssa.TypeAssert:
		fr.set(instr, ex.typeAssert(instr, fr.get(instr.X)))
	case *ssa.MakeClosure:
		env := make([]Value, len(instr.Bindings))
		for i, b := range instr.Bindings {
			env[i] = fr.get(b)
		}
		fr.set(instr, &Closure{instr.Fn.(*ssa.Function), env})
	case *ssa.Phi:
		panic("phi in body")
	default:
		panic(Unsupported{fmt.Sprintf("instruction %T", instr)})
	}
	return false
}

type unit struct{}

func orUnit(v Value) Value {
	if v == nil {
		return unit{}
	}
	return v
}

func (ex *Exec) prepareCall(fr *frame, call *ssa.CallCommon) (fn Value, args []Value) {
	v := fr.get(call.Value)
	if call.Method == nil {
		fn = v
		args = make([]Value, 0, len(call.Args))
	} else {
		if o, ok := v.(Opaque); ok {
			if ex.eng.inInit {
				return o, nil
			}
			panic(Unsupported{"method " + call.Method.Name() + " invoked on opaque value " + o.what})
		}
		recv := v.(IfaceV)
		if recv.t == nil {
			ex.rtPanic("invalid memory address or nil pointer dereference (method on nil interface)")
		}
		if rt, ok := recv.v.(RTypeV); ok {
			// reflect.Type method on the go/types-backed environment model
			args = make([]Value, 0, len(call.Args))
			for _, a := range call.Args {
				args = append(args, fr.get(a))
			}
			return &rtypeBound{rt: rt, marker: recv.t, name: call.Method.Name()}, args
		}
		f := ex.eng.lookupMethod(recv.t, call.Method)
		if f == nil {
			panic(Unsupported{fmt.Sprintf("no method %s for dynamic type %v", call.Method.Name(), recv.t)})
		}
		fn = f
		args = make([]Value, 0, len(call.Args)+1)
		args = append(args, recv.v)
	}
	for _, a := range call.Args {
		args = append(args, fr.get(a))
	}
	return
}

type methKey struct {
	t types.Type
	m *types.Func
}

func (eng *Engine) lookupMethod(t types.Type, m *types.Func) *ssa.Function {
	k := methKey{t, m}
	if f, ok := eng.methodCache.Load(k); ok {
		return f.(*ssa.Function)
	}
	f := eng.prog.LookupMethod(t, m.Pkg(), m.Name())
	eng.methodCache.Store(k, f)
	return f
}

func (ex *Exec) call(caller *frame, fn Value, args []Value) Value {
	switch fn := fn.(type) {
	case *ssa.Function:
		if fn == nil {
			ex.rtPanic("call of nil function")
		}
		return ex.callFunc(caller, fn, args, nil)
	case *Closure:
		return ex.callFunc(caller, fn.fn, args, fn.env)
	case *ssa.Builtin:
		return ex.callBuiltin(caller, fn, args)
	case FuncNil:
		ex.rtPanic("call of nil function")
	case *rtypeBound:
		return ex.rtypeMethod(fn.rt, fn.marker, fn.name, args)
	case Opaque:
		if ex.eng.inInit {
			return Opaque{"call of opaque"}
		}
		panic(Unsupported{"call of opaque function value " + fn.what})
	}
	panic(fmt.Sprintf("cannot call %T", fn))
}

func (ex *Exec) callFunc(caller *frame, fn *ssa.Function, args []Value, env []Value) Value {
	eng := ex.eng
	name := fn.String()
	if fn.Parent() == nil {
		if ex.run != nil && ex.run.OpaqueFns[name] {
			// a declared cut: the function's textual result is not modelled
			if fn.Signature.Results().Len() == 1 && isString(fn.Signature.Results().At(0).Type()) {
				return StrV{s: "\x00opaque:" + name}
			}
			panic(Unsupported{"opaque function with non-string result: " + name})
		}
		if in, ok := eng.intrinsics[name]; ok {
			return in(ex, caller, fn, args)
		}
		if o := fn.Origin(); o != nil {
			if in, ok := eng.intrinsics[o.String()]; ok {
				return in(ex, caller, fn, args)
			}
		}
		if fn.Pkg != nil && !eng.inInit {
			if pp := fn.Pkg.Pkg.Path(); pp == "reflect" || pp == "internal/reflectlite" {
				if !reflectPure[fn.Name()] {
					panic(Unsupported{"reflect operation not modelled: " + name})
				}
			}
		}
		if st, ok := eng.stubs[name]; ok && !ex.inStub[name] {
			return ex.callSSA(caller, st, args, nil)
		}
		if eng.inInit {
			if fn.Pkg != nil && !eng.initPkgs[fn.Pkg.Pkg.Path()] {
				if fn.Name() == "init" {
					return nil
				}
				return opaqueResult(fn)
			}
		}
	}
	if fn.Blocks == nil {
		if eng.inInit {
			return opaqueResult(fn)
		}
		panic(Unsupported{"no code for function: " + name})
	}
	return ex.callSSA(caller, fn, args, env)
}

type rtypeBound struct {
	rt     RTypeV
	marker types.Type
	name   string
}

func opaqueResult(fn *ssa.Function) Value {
	res := fn.Signature.Results()
	switch res.Len() {
	case 0:
		return nil
	case 1:
		return Opaque{fn.String()}
	}
	t := make(TupleV, res.Len())
	for i := range t {
		t[i] = Opaque{fn.String()}
	}
	return t
}

// visitInstrInit executes one instruction during package initialisation. A value that
// cannot be computed because it depends on an unmodelled (opaque) value becomes opaque
// itself; control flow on an opaque value is an initialisation failure.
func (ex *Exec) visitInstrInit(fr *frame, instr ssa.Instruction) (ret bool) {
	defer func() {
		if r := recover(); r != nil {
			switch r.(type) {
			case TargetPanic, PathEnd, StepBudget:
				panic(r)
			}
			switch instr.(type) {
			case *ssa.If, *ssa.Jump, *ssa.Return, *ssa.Panic, *ssa.RunDefers:
				if u, ok := r.(Unsupported); ok {
					panic(u)
				}
				panic(Unsupported{fmt.Sprintf("init: control flow on unmodelled value in %v: %v", fr.fn, r)})
			}
			if v, ok := instr.(ssa.Value); ok {
				fr.set(v, Opaque{fmt.Sprintf("init:%v", r)})
			}
			ret = false
		}
	}()
	return ex.visitInstr(fr, instr)
}

// reflect functions that are plain Go code over their arguments and may run from source
var reflectPure = map[string]bool{"Lookup": true, "Get": true, "IsExported": true}
