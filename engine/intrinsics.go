package main

import (
	"fmt"
	"go/types"
	"math"
	"strings"

	"golang.org/x/tools/go/ssa"
)

type Intrinsic func(ex *Exec, caller *frame, fn *ssa.Function, args []Value) Value

const vrtPath = "github.com/go-json-experiment/json/internal/zzverif/vrt"

func (ex *Exec) strArg(v Value, what string) string {
	s, ok := v.(StrV)
	if !ok || !s.IsConcrete() {
		panic(Unsupported{what + ": string argument must be concrete"})
	}
	return s.Concrete()
}

func (ex *Exec) cells(v Value) []*Term {
	switch v := v.(type) {
	case StrV:
		return v.Bytes()
	case SliceV:
		if v.ln == 0 {
			return nil
		}
		c := ex.rd(v.c)
		r := make([]*Term, v.ln)
		for i := range r {
			r[i] = c.v[v.off+i].(*Term)
		}
		return r
	}
	panic(fmt.Sprintf("cells of %T", v))
}

func (ex *Exec) bytesSlice(ts []*Term) SliceV {
	c := &Cont{v: make([]Value, len(ts))}
	for i, t := range ts {
		c.v[i] = t
	}
	return SliceV{c: c, ln: len(ts), cp: len(ts)}
}

// indexByte: first i with s[i]==b, forking on symbolic comparisons.
func (ex *Exec) indexByte(s []*Term, b *Term) int {
	for i, c := range s {
		if ex.decide(ex.f.Eq(c, b), nil) {
			return i
		}
	}
	return -1
}

func intV(i int) *Term { return Const(uint64(int64(i)), 64) }

func (ex *Exec) seqEq(a, b []*Term) *Term {
	if len(a) != len(b) {
		return termFalse
	}
	r := termTrue
	for i := range a {
		r = ex.f.And(r, ex.f.Eq(a[i], b[i]))
		if r == termFalse {
			break
		}
	}
	return r
}

func (ex *Exec) seqCompare(a, b []*Term) int {
	n := min(len(a), len(b))
	for i := 0; i < n; i++ {
		if ex.decide(ex.f.Eq(a[i], b[i]), nil) {
			continue
		}
		if ex.decide(ex.f.Cmp(OpULt, a[i], b[i]), nil) {
			return -1
		}
		return 1
	}
	switch {
	case len(a) < len(b):
		return -1
	case len(a) > len(b):
		return 1
	}
	return 0
}

func (ex *Exec) indexSeq(s, sep []*Term) int {
	if len(sep) == 0 {
		return 0
	}
	for i := 0; i+len(sep) <= len(s); i++ {
		if ex.decide(ex.seqEq(s[i:i+len(sep)], sep), nil) {
			return i
		}
	}
	return -1
}

func noop(ex *Exec, caller *frame, fn *ssa.Function, args []Value) Value { return nil }

func concFloat(v Value, what string) float64 {
	f := v.(FloatV)
	if f.t != nil {
		panic(Unsupported{what + " on symbolic float"})
	}
	return f.f
}

func (eng *Engine) initIntrinsics() {
	in := map[string]Intrinsic{}
	eng.intrinsics = in

	// ---- internal/bytealg and friends
	in["internal/bytealg.IndexByte"] = func(ex *Exec, _ *frame, _ *ssa.Function, a []Value) Value {
		return intV(ex.indexByte(ex.cells(a[0]), a[1].(*Term)))
	}
	in["internal/bytealg.IndexByteString"] = in["internal/bytealg.IndexByte"]
	in["internal/bytealg.LastIndexByte"] = func(ex *Exec, _ *frame, _ *ssa.Function, a []Value) Value {
		s := ex.cells(a[0])
		for i := len(s) - 1; i >= 0; i-- {
			if ex.decide(ex.f.Eq(s[i], a[1].(*Term)), nil) {
				return intV(i)
			}
		}
		return intV(-1)
	}
	in["internal/bytealg.LastIndexByteString"] = in["internal/bytealg.LastIndexByte"]
	in["internal/bytealg.Count"] = func(ex *Exec, _ *frame, _ *ssa.Function, a []Value) Value {
		n := 0
		for _, c := range ex.cells(a[0]) {
			if ex.decide(ex.f.Eq(c, a[1].(*Term)), nil) {
				n++
			}
		}
		return intV(n)
	}
	in["internal/bytealg.CountString"] = in["internal/bytealg.Count"]
	in["internal/bytealg.Equal"] = func(ex *Exec, _ *frame, _ *ssa.Function, a []Value) Value {
		return ex.seqEq(ex.cells(a[0]), ex.cells(a[1]))
	}
	in["internal/bytealg.Compare"] = func(ex *Exec, _ *frame, _ *ssa.Function, a []Value) Value {
		return intV(ex.seqCompare(ex.cells(a[0]), ex.cells(a[1])))
	}
	in["internal/bytealg.CompareString"] = in["internal/bytealg.Compare"]
	in["internal/bytealg.Index"] = func(ex *Exec, _ *frame, _ *ssa.Function, a []Value) Value {
		return intV(ex.indexSeq(ex.cells(a[0]), ex.cells(a[1])))
	}
	in["internal/bytealg.IndexString"] = in["internal/bytealg.Index"]
	in["internal/bytealg.MakeNoZero"] = func(ex *Exec, _ *frame, _ *ssa.Function, a []Value) Value {
		n := ex.concInt(a[0], "MakeNoZero")
		return ex.makeSlice(types.Typ[types.Uint8], n, n)
	}
	in["bytes.Equal"] = in["internal/bytealg.Equal"]
	in["bytes.Compare"] = in["internal/bytealg.Compare"]
	in["strings.Compare"] = in["internal/bytealg.Compare"]
	in["bytes.IndexByte"] = in["internal/bytealg.IndexByte"]
	in["strings.IndexByte"] = in["internal/bytealg.IndexByte"]
	in["internal/stringslite.IndexByte"] = in["internal/bytealg.IndexByte"]
	in["bytes.Index"] = in["internal/bytealg.Index"]
	in["strings.Index"] = in["internal/bytealg.Index"]
	in["internal/stringslite.Index"] = in["internal/bytealg.Index"]
	in["strings.Contains"] = func(ex *Exec, _ *frame, _ *ssa.Function, a []Value) Value {
		return Bool(ex.indexSeq(ex.cells(a[0]), ex.cells(a[1])) >= 0)
	}
	in["bytes.Contains"] = in["strings.Contains"]
	in["strings.HasPrefix"] = func(ex *Exec, _ *frame, _ *ssa.Function, a []Value) Value {
		s, p := ex.cells(a[0]), ex.cells(a[1])
		if len(s) < len(p) {
			return termFalse
		}
		return ex.seqEq(s[:len(p)], p)
	}
	in["bytes.HasPrefix"] = in["strings.HasPrefix"]
	in["internal/stringslite.HasPrefix"] = in["strings.HasPrefix"]
	in["strings.HasSuffix"] = func(ex *Exec, _ *frame, _ *ssa.Function, a []Value) Value {
		s, p := ex.cells(a[0]), ex.cells(a[1])
		if len(s) < len(p) {
			return termFalse
		}
		return ex.seqEq(s[len(s)-len(p):], p)
	}
	in["bytes.HasSuffix"] = in["strings.HasSuffix"]
	in["internal/stringslite.HasSuffix"] = in["strings.HasSuffix"]
	in["strings.Clone"] = func(ex *Exec, _ *frame, _ *ssa.Function, a []Value) Value { return a[0] }
	in["internal/stringslite.Clone"] = in["strings.Clone"]

	// ---- abi / runtime no-ops
	ident := func(ex *Exec, _ *frame, _ *ssa.Function, a []Value) Value { return a[0] }
	in["internal/abi.NoEscape"] = ident
	in["internal/abi.Escape"] = ident
	in["runtime.KeepAlive"] = noop
	in["runtime.SetFinalizer"] = noop
	in["runtime.GC"] = noop
	in["runtime.Gosched"] = noop
	in["internal/race.Enable"] = noop
	in["internal/race.Disable"] = noop
	in["internal/race.Acquire"] = noop
	in["internal/race.Release"] = noop
	in["internal/race.ReleaseMerge"] = noop
	in["internal/race.ReadRange"] = noop
	in["internal/race.WriteRange"] = noop
	in["internal/race.Read"] = noop
	in["internal/race.Write"] = noop
	in["(*strings.Builder).copyCheck"] = noop
	in["(*sync.noCopy).Lock"] = noop
	in["(*sync.noCopy).Unlock"] = noop

	// ---- sync
	in["(*sync.Mutex).Lock"] = noop
	in["(*sync.Mutex).Unlock"] = noop
	in["(*sync.Mutex).TryLock"] = func(ex *Exec, _ *frame, _ *ssa.Function, a []Value) Value { return termTrue }
	in["(*sync.RWMutex).Lock"] = noop
	in["(*sync.RWMutex).Unlock"] = noop
	in["(*sync.RWMutex).RLock"] = noop
	in["(*sync.RWMutex).RUnlock"] = noop
	in["(*sync.Once).Do"] = func(ex *Exec, caller *frame, _ *ssa.Function, a []Value) Value {
		p := a[0].(Ptr)
		key := ex.loadRef(p).(*Cont)
		if ex.onceDone[key] {
			return nil
		}
		ex.onceDone[key] = true
		ex.call(caller, a[1], nil)
		return nil
	}
	in["(*sync.Pool).Get"] = func(ex *Exec, caller *frame, _ *ssa.Function, a []Value) Value {
		p := a[0].(Ptr)
		key := ex.loadRef(p).(*Cont)
		st := ex.pools[key]
		if n := len(st); n > 0 && ex.poolPolicy != poolFresh {
			v := st[n-1]
			ex.pools[key] = st[:n-1]
			return v
		}
		// field "New" is the last field of sync.Pool
		pc := ex.rd(key)
		nf := pc.v[len(pc.v)-1]
		if isNilVal(nf) {
			return IfaceV{}
		}
		return ex.call(caller, nf, nil)
	}
	in["(*sync.Pool).Put"] = func(ex *Exec, _ *frame, _ *ssa.Function, a []Value) Value {
		p := a[0].(Ptr)
		key := ex.loadRef(p).(*Cont)
		if iv, ok := a[1].(IfaceV); ok && iv.t == nil {
			return nil
		}
		if ex.poolPolicy == poolDrop {
			return nil
		}
		ex.pools[key] = append(ex.pools[key], a[1])
		return nil
	}
	// sync.Map backed by an engine map keyed on `any`
	smap := func(ex *Exec, a []Value) *MapV {
		key := ex.loadRef(a[0].(Ptr)).(*Cont)
		m := ex.syncMaps[key]
		if m == nil {
			anyT := types.NewInterfaceType(nil, nil)
			m = &MapV{kt: anyT, vt: anyT, index: map[string]int{}}
			ex.syncMaps[key] = m
		}
		return m
	}
	in["(*sync.Map).Load"] = func(ex *Exec, _ *frame, _ *ssa.Function, a []Value) Value {
		m := smap(ex, a)
		if i := ex.mapFind(m, a[1]); i >= 0 {
			return TupleV{m.ents[i].v, termTrue}
		}
		return TupleV{IfaceV{}, termFalse}
	}
	in["(*sync.Map).Store"] = func(ex *Exec, _ *frame, _ *ssa.Function, a []Value) Value {
		ex.mapSet(smap(ex, a), a[1], a[2])
		return nil
	}
	in["(*sync.Map).LoadOrStore"] = func(ex *Exec, _ *frame, _ *ssa.Function, a []Value) Value {
		m := smap(ex, a)
		if i := ex.mapFind(m, a[1]); i >= 0 {
			return TupleV{m.ents[i].v, termTrue}
		}
		ex.mapSet(m, a[1], a[2])
		return TupleV{a[2], termFalse}
	}
	in["(*sync.Map).Delete"] = func(ex *Exec, _ *frame, _ *ssa.Function, a []Value) Value {
		ex.mapDelete(smap(ex, a), a[1])
		return nil
	}

	// ---- sync/atomic (sequential semantics)
	for _, ty := range []string{"Int32", "Int64", "Uint32", "Uint64", "Uintptr", "Pointer"} {
		in["sync/atomic.Load"+ty] = func(ex *Exec, _ *frame, _ *ssa.Function, a []Value) Value { return ex.load(a[0].(Ptr)) }
		in["sync/atomic.Store"+ty] = func(ex *Exec, _ *frame, _ *ssa.Function, a []Value) Value {
			ex.store(a[0].(Ptr), a[1])
			return nil
		}
		if ty != "Pointer" {
			in["sync/atomic.Add"+ty] = func(ex *Exec, _ *frame, _ *ssa.Function, a []Value) Value {
				v := ex.f.Bin(OpAdd, ex.load(a[0].(Ptr)).(*Term), a[1].(*Term))
				ex.store(a[0].(Ptr), v)
				return v
			}
		}
		in["sync/atomic.CompareAndSwap"+ty] = func(ex *Exec, _ *frame, _ *ssa.Function, a []Value) Value {
			cur := ex.load(a[0].(Ptr))
			var eq *Term
			if ct, ok := cur.(*Term); ok {
				eq = ex.f.Eq(ct, a[1].(*Term))
			} else {
				eq = Bool(ptrEq(cur.(Ptr), a[1].(Ptr)))
			}
			if ex.decide(eq, nil) {
				ex.store(a[0].(Ptr), a[2])
				return termTrue
			}
			return termFalse
		}
	}

	// ---- math
	in["math.Float64bits"] = func(ex *Exec, _ *frame, _ *ssa.Function, a []Value) Value { return fbitsOf(a[0].(FloatV)) }
	in["math.Float32bits"] = in["math.Float64bits"]
	in["math.Float64frombits"] = func(ex *Exec, _ *frame, _ *ssa.Function, a []Value) Value {
		return floatFromBits(a[0].(*Term), 64)
	}
	in["math.Float32frombits"] = func(ex *Exec, _ *frame, _ *ssa.Function, a []Value) Value {
		return floatFromBits(a[0].(*Term), 32)
	}
	in["math.Abs"] = func(ex *Exec, _ *frame, _ *ssa.Function, a []Value) Value {
		x := a[0].(FloatV)
		if x.t == nil {
			return FloatV{f: math.Abs(x.f), bits: 64}
		}
		return FloatV{t: ex.f.FOp(OpFAbs, 64, x.t, nil), bits: 64}
	}
	in["math.IsNaN"] = func(ex *Exec, _ *frame, _ *ssa.Function, a []Value) Value {
		x := a[0].(FloatV)
		if x.t == nil {
			return Bool(math.IsNaN(x.f))
		}
		return ex.f.FOp(OpFIsNaN, 0, x.t, nil)
	}
	in["math.IsInf"] = func(ex *Exec, _ *frame, _ *ssa.Function, a []Value) Value {
		x := a[0].(FloatV)
		sign := ex.concInt(a[1], "IsInf sign")
		if x.t == nil {
			return Bool(math.IsInf(x.f, sign))
		}
		f := ex.f
		pinf := f.Eq(x.t, Const(math.Float64bits(math.Inf(1)), 64))
		ninf := f.Eq(x.t, Const(math.Float64bits(math.Inf(-1)), 64))
		switch {
		case sign > 0:
			return pinf
		case sign < 0:
			return ninf
		}
		return f.Or(pinf, ninf)
	}
	in["math.Inf"] = func(ex *Exec, _ *frame, _ *ssa.Function, a []Value) Value {
		return FloatV{f: math.Inf(ex.concInt(a[0], "Inf sign")), bits: 64}
	}
	in["math.NaN"] = func(ex *Exec, _ *frame, _ *ssa.Function, a []Value) Value { return FloatV{f: math.NaN(), bits: 64} }
	in["math.Signbit"] = func(ex *Exec, _ *frame, _ *ssa.Function, a []Value) Value {
		x := a[0].(FloatV)
		if x.t == nil {
			return Bool(math.Signbit(x.f))
		}
		return ex.f.Cmp(OpSLt, x.t, Const(0, 64))
	}
	in["math.Trunc"] = func(ex *Exec, _ *frame, _ *ssa.Function, a []Value) Value {
		x := a[0].(FloatV)
		if x.t == nil {
			return FloatV{f: math.Trunc(x.f), bits: 64}
		}
		return FloatV{t: ex.f.FOp(OpFTrunc, 64, x.t, nil), bits: 64}
	}
	for name, fn := range map[string]func(float64) float64{"math.Floor": math.Floor, "math.Ceil": math.Ceil, "math.Sqrt": math.Sqrt, "math.Log10": math.Log10, "math.Log2": math.Log2, "math.Round": math.Round} {
		fn := fn
		nm := name
		in[name] = func(ex *Exec, _ *frame, _ *ssa.Function, a []Value) Value {
			return FloatV{f: fn(concFloat(a[0], nm)), bits: 64}
		}
	}
	in["math.Pow"] = func(ex *Exec, _ *frame, _ *ssa.Function, a []Value) Value {
		return FloatV{f: math.Pow(concFloat(a[0], "Pow"), concFloat(a[1], "Pow")), bits: 64}
	}
	in["math.Mod"] = func(ex *Exec, _ *frame, _ *ssa.Function, a []Value) Value {
		return FloatV{f: math.Mod(concFloat(a[0], "Mod"), concFloat(a[1], "Mod")), bits: 64}
	}
	in["math.Modf"] = func(ex *Exec, _ *frame, _ *ssa.Function, a []Value) Value {
		i, fr := math.Modf(concFloat(a[0], "Modf"))
		return TupleV{FloatV{f: i, bits: 64}, FloatV{f: fr, bits: 64}}
	}

	// ---- math/bits leaf operations with SMT counterparts
	in["math/bits.Mul64"] = func(ex *Exec, fr *frame, fn *ssa.Function, a []Value) Value {
		x, y := a[0].(*Term), a[1].(*Term)
		if x.op == OpConst && y.op == OpConst {
			hi, lo := mul64(x.c, y.c)
			return TupleV{Const(hi, 64), Const(lo, 64)}
		}
		// symbolic x constant below 2^32: hi = (x1*c + (x0*c)>>32) >> 32 with x = x1*2^32 + x0,
		// written with extract/zero-extend and shifts only (no bit masks), which the
		// integer-blasting back end turns into linear div/mod constraints
		if x.op == OpConst {
			x, y = y, x
		}
		if y.op == OpConst && y.c < 1<<32 {
			f := ex.f
			x0 := f.Resize(f.Resize(x, 32, false), 64, false)
			x1 := f.Bin(OpLShr, x, Const(32, 64))
			w0 := f.Bin(OpMul, x0, y)
			t := f.Bin(OpAdd, f.Bin(OpMul, x1, y), f.Bin(OpLShr, w0, Const(32, 64)))
			return TupleV{f.Bin(OpLShr, t, Const(32, 64)), f.Bin(OpMul, x, y)}
		}
		// symbolic operand: the branch-free Go source (32-bit limbs) is executed as is
		if len(fn.Blocks) == 0 {
			panic(Unsupported{"bits.Mul64 on symbolic operands (no source body)"})
		}
		return ex.callSSA(fr, fn, a, nil)
	}

	// bits.Add64: the library computes the carry with a bit trick ((x&y | (x|y)&^sum) >> 63);
	// the equivalent unsigned comparisons keep the query arithmetic (no bitwise operators on
	// symbolic words), which matters for the integer-blasting back end
	in["math/bits.Add64"] = func(ex *Exec, _ *frame, _ *ssa.Function, a []Value) Value {
		x, y, c := a[0].(*Term), a[1].(*Term), a[2].(*Term)
		f := ex.f
		s1 := f.Bin(OpAdd, x, y)
		s := f.Bin(OpAdd, s1, c)
		carry := f.Or(f.Cmp(OpULt, s1, x), f.Cmp(OpULt, s, s1))
		return TupleV{s, f.Ite(carry, Const(1, 64), Const(0, 64))}
	}

	// ---- fmt / errors formatting: opaque text
	opaqueStr := func(tag string) Intrinsic {
		return func(ex *Exec, _ *frame, _ *ssa.Function, a []Value) Value { return StrV{s: "\x00" + tag} }
	}
	// fmt.Errorf: an error with opaque text; %w keeps the wrapped error reachable by Unwrap
	in["fmt.Errorf"] = func(ex *Exec, _ *frame, fn *ssa.Function, a []Value) Value {
		format := ""
		if s, ok := a[0].(StrV); ok && s.IsConcrete() {
			format = s.Concrete()
		}
		fmtPkg := fn.Pkg
		if strings.Contains(format, "%w") {
			if args, ok := a[1].(SliceV); ok && args.ln > 0 {
				c := ex.rd(args.c)
				var wrapped Value
				errIface := types.Universe.Lookup("error").Type().Underlying().(*types.Interface)
				for i := 0; i < args.ln; i++ {
					if iv, ok := c.v[args.off+i].(IfaceV); ok && iv.t != nil && ex.eng.implements(iv.t, errIface) {
						wrapped = iv
						break
					}
				}
				if wt := fmtPkg.Type("wrapError"); wrapped != nil && wt != nil {
					st := &Cont{v: []Value{StrV{s: "\x00fmt.Errorf"}, wrapped}}
					return IfaceV{t: types.NewPointer(wt.Type()), v: ex.newObj(st)}
				}
			}
		}
		if ep := ex.eng.prog.ImportedPackage("errors"); ep != nil {
			if et := ep.Type("errorString"); et != nil {
				st := &Cont{v: []Value{StrV{s: "\x00fmt.Errorf"}}}
				return IfaceV{t: types.NewPointer(et.Type()), v: ex.newObj(st)}
			}
		}
		panic(Unsupported{"fmt.Errorf: errors.errorString not loaded"})
	}
	in["fmt.Sprintf"] = opaqueStr("fmt.Sprintf")
	in["fmt.Sprint"] = opaqueStr("fmt.Sprint")
	in["fmt.Sprintln"] = opaqueStr("fmt.Sprintln")
	in["strconv.Quote"] = opaqueStr("strconv.Quote")
	in["strconv.QuoteRune"] = opaqueStr("strconv.QuoteRune")
	in["strconv.QuoteToASCII"] = opaqueStr("strconv.QuoteToASCII")
	in["strconv.AppendQuote"] = func(ex *Exec, _ *frame, _ *ssa.Function, a []Value) Value { return a[0] }

	eng.initVrt()
	for _, f := range extraIntrinsics {
		f(eng)
	}
}

var extraIntrinsics []func(*Engine)

func mul64(x, y uint64) (hi, lo uint64) {
	const mask32 = 1<<32 - 1
	x0 := x & mask32
	x1 := x >> 32
	y0 := y & mask32
	y1 := y >> 32
	w0 := x0 * y0
	t := x1*y0 + w0>>32
	w1 := t & mask32
	w2 := t >> 32
	w1 += x0 * y1
	hi = x1*y1 + w2 + w1>>32
	lo = x * y
	return
}

const (
	poolEither = iota // reuse the most recently Put object if any (LIFO), else New
	poolFresh         // always New
	poolDrop          // Put discards
)

// ---------------------------------------------------------------------------
// vrt: the harness run-time API

func (eng *Engine) initVrt() {
	in := eng.intrinsics
	p := vrtPath + "."
	in[p+"Symbolic"] = func(ex *Exec, _ *frame, _ *ssa.Function, a []Value) Value { return termTrue }
	in[p+"Byte"] = func(ex *Exec, _ *frame, _ *ssa.Function, a []Value) Value {
		return ex.drawVar(ex.strArg(a[0], "vrt.Byte"), 8)
	}
	in[p+"Bool"] = func(ex *Exec, _ *frame, _ *ssa.Function, a []Value) Value {
		return ex.drawVar(ex.strArg(a[0], "vrt.Bool"), 0)
	}
	in[p+"Uint16"] = func(ex *Exec, _ *frame, _ *ssa.Function, a []Value) Value {
		return ex.drawVar(ex.strArg(a[0], "vrt.Uint16"), 16)
	}
	in[p+"Uint32"] = func(ex *Exec, _ *frame, _ *ssa.Function, a []Value) Value {
		return ex.drawVar(ex.strArg(a[0], "vrt.Uint32"), 32)
	}
	in[p+"Uint64"] = func(ex *Exec, _ *frame, _ *ssa.Function, a []Value) Value {
		return ex.drawVar(ex.strArg(a[0], "vrt.Uint64"), 64)
	}
	in[p+"Int64"] = in[p+"Uint64"]
	in[p+"Int32"] = in[p+"Uint32"]
	in[p+"Float64"] = func(ex *Exec, _ *frame, _ *ssa.Function, a []Value) Value {
		return FloatV{t: ex.drawVar(ex.strArg(a[0], "vrt.Float64"), 64), bits: 64}
	}
	in[p+"Float32"] = func(ex *Exec, _ *frame, _ *ssa.Function, a []Value) Value {
		return FloatV{t: ex.drawVar(ex.strArg(a[0], "vrt.Float32"), 32), bits: 32}
	}
	in[p+"Bytes"] = func(ex *Exec, _ *frame, _ *ssa.Function, a []Value) Value {
		name := ex.strArg(a[0], "vrt.Bytes")
		n := ex.concInt(a[1], "vrt.Bytes n")
		ts := make([]*Term, n)
		for i := range ts {
			ts[i] = ex.drawVar(fmt.Sprintf("%s[%d]", name, i), 8)
		}
		s := ex.bytesSlice(ts)
		if n == 0 {
			s = SliceV{c: &Cont{}, ln: 0, cp: 0}
		}
		return s
	}
	in[p+"String"] = func(ex *Exec, _ *frame, _ *ssa.Function, a []Value) Value {
		name := ex.strArg(a[0], "vrt.String")
		n := ex.concInt(a[1], "vrt.String n")
		ts := make([]*Term, n)
		for i := range ts {
			ts[i] = ex.drawVar(fmt.Sprintf("%s[%d]", name, i), 8)
		}
		if n == 0 {
			return StrV{}
		}
		return StrV{b: ts}
	}
	in[p+"IntRange"] = func(ex *Exec, _ *frame, _ *ssa.Function, a []Value) Value {
		name := ex.strArg(a[0], "vrt.IntRange")
		lo, hi := ex.concInt(a[1], "lo"), ex.concInt(a[2], "hi")
		t := ex.drawVar(name, 64)
		f := ex.f
		ex.addAssume(f.And(f.Cmp(OpSLe, intV(lo), t), f.Cmp(OpSLe, t, intV(hi))))
		v := ex.concretize(t, "IntRange "+name)
		return Const(v, 64)
	}
	in[p+"Choice"] = func(ex *Exec, _ *frame, _ *ssa.Function, a []Value) Value {
		name := ex.strArg(a[0], "vrt.Choice")
		k := ex.concInt(a[1], "k")
		t := ex.drawVar(name, 64)
		ex.addAssume(ex.f.Cmp(OpULt, t, intV(k)))
		v := ex.concretize(t, "Choice "+name)
		return Const(v, 64)
	}
	in[p+"Assume"] = func(ex *Exec, _ *frame, _ *ssa.Function, a []Value) Value {
		ex.addAssume(a[0].(*Term))
		return nil
	}
	in[p+"Assert"] = func(ex *Exec, _ *frame, _ *ssa.Function, a []Value) Value {
		ex.assert(ex.strArg(a[0], "vrt.Assert"), a[1].(*Term), "", false)
		return nil
	}
	in[p+"AssertKF"] = func(ex *Exec, _ *frame, _ *ssa.Function, a []Value) Value {
		// AssertKF(label, cond, kfid, inRegion)
		inR := a[3].(*Term)
		r := false
		if inR.op == OpConst {
			r = inR.c != 0
		} else {
			r = ex.decide(inR, nil)
		}
		ex.assert(ex.strArg(a[0], "vrt.AssertKF"), a[1].(*Term), ex.strArg(a[2], "kf id"), r)
		return nil
	}
	in[p+"Cover"] = func(ex *Exec, _ *frame, _ *ssa.Function, a []Value) Value {
		ex.covers[ex.strArg(a[0], "vrt.Cover")] = true
		return nil
	}
	in[p+"Observe"] = func(ex *Exec, _ *frame, _ *ssa.Function, a []Value) Value {
		v := a[1]
		if iv, ok := v.(IfaceV); ok {
			v = iv.v
			if iv.t == nil {
				v = IfaceV{}
			}
		}
		if sv, ok := v.(SliceV); ok && sv.ln > 0 {
			// snapshot the bytes now
			v = ex.bytesSlice(ex.cells(sv))
		}
		ex.obs = append(ex.obs, Obs{ex.strArg(a[0], "vrt.Observe"), v})
		return nil
	}
	in[p+"Misuse"] = func(ex *Exec, caller *frame, _ *ssa.Function, a []Value) (ret Value) {
		ex.misuseDepth++
		defer func() {
			ex.misuseDepth--
			if r := recover(); r != nil {
				if tp, ok := r.(TargetPanic); ok {
					_ = tp
					ret = termTrue
					return
				}
				panic(r)
			}
		}()
		ex.call(caller, a[0], nil)
		return termFalse
	}
	in[p+"PoolPolicy"] = func(ex *Exec, _ *frame, _ *ssa.Function, a []Value) Value {
		ex.poolPolicy = ex.concInt(a[0], "PoolPolicy")
		return nil
	}
	in[p+"MapOrderNondet"] = func(ex *Exec, _ *frame, _ *ssa.Function, a []Value) Value {
		ex.mapOrderNondet = a[0].(*Term).c != 0
		return nil
	}
	in[p+"InputBits"] = func(ex *Exec, _ *frame, _ *ssa.Function, a []Value) Value {
		n := ex.concInt(a[0], "InputBits")
		ex.run.resMu.Lock()
		ex.run.MassBits = n
		ex.run.resMu.Unlock()
		return nil
	}
	in[p+"Concretize"] = func(ex *Exec, _ *frame, _ *ssa.Function, a []Value) Value {
		t := a[0].(*Term)
		return Const(ex.concretize(t, "vrt.Concretize"), t.w)
	}
	in[p+"Fail"] = func(ex *Exec, _ *frame, _ *ssa.Function, a []Value) Value {
		ex.assert(ex.strArg(a[0], "vrt.Fail"), termFalse, "", false)
		return nil
	}
}

var _ = strings.Contains
