package main

import (
	"fmt"
	"go/token"
	"go/types"
	"math"
	"strings"
	"unicode/utf8"

	"golang.org/x/tools/go/ssa"
)

func (ex *Exec) unop(fr *frame, instr *ssa.UnOp, x Value) Value {
	f := ex.f
	switch instr.Op {
	case token.MUL:
		if o, ok := x.(Opaque); ok {
			if ex.eng.inInit {
				return o
			}
			panic(Unsupported{"load through opaque pointer " + o.what})
		}
		v := ex.load(x.(Ptr))
		// a load through an unsafe-converted pointer (*(*uint64)(unsafe.Pointer(&f))) reinterprets bits
		switch vv := v.(type) {
		case FloatV:
			if isInteger(instr.Type()) {
				return ex.f.Resize(fbitsOf(vv), widthOf(instr.Type()), false)
			}
		case *Term:
			if isFloat(instr.Type()) && vv.w != 0 {
				return floatFromBits(ex.f.Resize(vv, floatBits(instr.Type()), false), floatBits(instr.Type()))
			}
		}
		return v
	case token.NOT:
		return f.Not(x.(*Term))
	case token.SUB:
		switch x := x.(type) {
		case *Term:
			return f.Neg(x)
		case FloatV:
			return ex.fneg(x)
		}
	case token.XOR:
		return f.BVNot(x.(*Term))
	case token.ARROW:
		panic(Unsupported{"channel receive"})
	}
	panic(Unsupported{fmt.Sprintf("unop %v on %T", instr.Op, x)})
}

func cmpOp(op token.Token, signed bool) (Op, bool, bool) {
	// returns (smt op, swap operands, negate)
	switch op {
	case token.EQL:
		return OpEq, false, false
	case token.NEQ:
		return OpEq, false, true
	case token.LSS:
		if signed {
			return OpSLt, false, false
		}
		return OpULt, false, false
	case token.LEQ:
		if signed {
			return OpSLe, false, false
		}
		return OpULe, false, false
	case token.GTR:
		if signed {
			return OpSLt, true, false
		}
		return OpULt, true, false
	case token.GEQ:
		if signed {
			return OpSLe, true, false
		}
		return OpULe, true, false
	}
	panic("cmpOp")
}

func (ex *Exec) binop(op token.Token, tx, ty types.Type, x, y Value) Value {
	f := ex.f
	if _, ok := x.(Opaque); ok {
		return ex.opaqueOp("binop")
	}
	if _, ok := y.(Opaque); ok {
		return ex.opaqueOp("binop")
	}
	switch xv := x.(type) {
	case *Term:
		yv, ok := y.(*Term)
		if !ok {
			break
		}
		if xv.w == 0 { // bool
			switch op {
			case token.EQL:
				return f.Eq(xv, yv)
			case token.NEQ:
				return f.Not(f.Eq(xv, yv))
			case token.AND, token.LAND:
				return f.And(xv, yv)
			case token.OR, token.LOR:
				return f.Or(xv, yv)
			}
			break
		}
		signed := isSigned(tx)
		switch op {
		case token.ADD:
			return f.Bin(OpAdd, xv, yv)
		case token.SUB:
			return f.Bin(OpSub, xv, yv)
		case token.MUL:
			return f.Bin(OpMul, xv, yv)
		case token.QUO, token.REM:
			if yv.op == OpConst {
				if yv.c == 0 {
					ex.rtPanic("integer divide by zero")
				}
			} else if ex.decide(f.Eq(yv, Const(0, yv.w)), nil) {
				ex.rtPanic("integer divide by zero")
			}
			switch {
			case op == token.QUO && signed:
				return f.Bin(OpSDiv, xv, yv)
			case op == token.QUO:
				return f.Bin(OpUDiv, xv, yv)
			case signed:
				return f.Bin(OpSRem, xv, yv)
			default:
				return f.Bin(OpURem, xv, yv)
			}
		case token.AND:
			return f.Bin(OpAnd, xv, yv)
		case token.OR:
			return f.Bin(OpOr, xv, yv)
		case token.XOR:
			return f.Bin(OpXor, xv, yv)
		case token.AND_NOT:
			return f.Bin(OpAnd, xv, f.BVNot(yv))
		case token.SHL, token.SHR:
			// shift count: convert to the width of x, saturating
			cnt := yv
			if isSigned(ty) {
				// negative shift count panics
				neg := f.Cmp(OpSLt, cnt, Const(0, cnt.w))
				if neg.op == OpConst {
					if neg.c != 0 {
						ex.rtPanic("negative shift amount")
					}
				} else if ex.decide(neg, nil) {
					ex.rtPanic("negative shift amount")
				}
			}
			if cnt.w > xv.w {
				big := f.Cmp(OpULe, Const(uint64(xv.w), cnt.w), cnt)
				cnt = f.Ite(big, Const(uint64(xv.w), xv.w), f.Resize(cnt, xv.w, false))
			} else if cnt.w < xv.w {
				cnt = f.Resize(cnt, xv.w, false)
			}
			if op == token.SHL {
				return f.Bin(OpShl, xv, cnt)
			}
			if signed {
				return f.Bin(OpAShr, xv, cnt)
			}
			return f.Bin(OpLShr, xv, cnt)
		case token.EQL, token.NEQ, token.LSS, token.LEQ, token.GTR, token.GEQ:
			sop, swap, neg := cmpOp(op, signed)
			a, b := xv, yv
			if swap {
				a, b = b, a
			}
			r := f.Cmp(sop, a, b)
			if neg {
				r = f.Not(r)
			}
			return r
		}
	case FloatV:
		return ex.fbinop(op, xv, y.(FloatV))
	case StrV:
		yv := y.(StrV)
		switch op {
		case token.ADD:
			if xv.b == nil && yv.b == nil {
				return StrV{s: xv.s + yv.s}
			}
			if xv.Len() == 0 {
				return yv
			}
			if yv.Len() == 0 {
				return xv
			}
			b := make([]*Term, 0, xv.Len()+yv.Len())
			b = append(b, xv.Bytes()...)
			b = append(b, yv.Bytes()...)
			return StrV{b: b}
		case token.EQL:
			return ex.strEq(xv, yv)
		case token.NEQ:
			return f.Not(ex.strEq(xv, yv))
		case token.LSS:
			return ex.strLess(xv, yv, false)
		case token.LEQ:
			return ex.strLess(xv, yv, true)
		case token.GTR:
			return ex.strLess(yv, xv, false)
		case token.GEQ:
			return ex.strLess(yv, xv, true)
		}
	}
	switch op {
	case token.EQL:
		return ex.equals(tx, x, y)
	case token.NEQ:
		return f.Not(ex.equals(tx, x, y))
	}
	panic(Unsupported{fmt.Sprintf("binop %v on %T, %T (%v)", op, x, y, tx)})
}

func (ex *Exec) opaqueOp(what string) Value {
	if ex.eng.inInit {
		return Opaque{what}
	}
	panic(Unsupported{what + " on opaque value"})
}

func (ex *Exec) strEq(x, y StrV) *Term {
	if x.Len() != y.Len() {
		return termFalse
	}
	if x.b == nil && y.b == nil {
		return Bool(x.s == y.s)
	}
	r := termTrue
	f := ex.f
	for i := 0; i < x.Len(); i++ {
		r = f.And(r, f.Eq(x.At(i), y.At(i)))
		if r == termFalse {
			return r
		}
	}
	return r
}

// strLess: x < y (or x <= y) lexicographically by bytes.
func (ex *Exec) strLess(x, y StrV, orEq bool) *Term {
	if x.b == nil && y.b == nil {
		if orEq {
			return Bool(x.s <= y.s)
		}
		return Bool(x.s < y.s)
	}
	f := ex.f
	n := x.Len()
	if y.Len() < n {
		n = y.Len()
	}
	// result when common prefix equal
	var tail *Term
	if orEq {
		tail = Bool(x.Len() <= y.Len())
	} else {
		tail = Bool(x.Len() < y.Len())
	}
	r := tail
	for i := n - 1; i >= 0; i-- {
		a, b := x.At(i), y.At(i)
		r = f.Ite(f.Cmp(OpULt, a, b), termTrue, f.Ite(f.Eq(a, b), r, termFalse))
	}
	return r
}

func ptrEq(a, b Ptr) bool { return a.c == b.c && (a.c == nil || (a.i == b.i && a.sym == b.sym)) }

func isNilVal(v Value) bool {
	switch v := v.(type) {
	case Ptr:
		return v.c == nil
	case SliceV:
		return v.c == nil
	case *MapV:
		return v == nil
	case FuncNil:
		return true
	case IfaceV:
		return v.t == nil
	case *ssa.Function:
		return v == nil
	}
	return false
}

// equals implements Go ==.
func (ex *Exec) equals(t types.Type, x, y Value) *Term {
	f := ex.f
	switch xv := x.(type) {
	case *Term:
		return f.Eq(xv, y.(*Term))
	case StrV:
		return ex.strEq(xv, y.(StrV))
	case FloatV:
		return ex.fbinop(token.EQL, xv, y.(FloatV)).(*Term)
	case Ptr:
		if yp, ok := y.(Ptr); ok {
			return Bool(ptrEq(xv, yp))
		}
		return Bool(xv.c == nil && isNilVal(y))
	case SliceV:
		return Bool(xv.c == nil && isNilVal(y)) // only comparable to nil
	case *MapV:
		if ym, ok := y.(*MapV); ok {
			return Bool(xv == ym)
		}
		return Bool(xv == nil && isNilVal(y))
	case FuncNil:
		return Bool(isNilVal(y))
	case *ssa.Function, *Closure, *ssa.Builtin:
		return Bool(isNilVal(x) && isNilVal(y))
	case IfaceV:
		yv, ok := y.(IfaceV)
		if !ok {
			return Bool(xv.t == nil && isNilVal(y))
		}
		if xv.t == nil || yv.t == nil {
			return Bool(xv.t == nil && yv.t == nil)
		}
		if !types.Identical(xv.t, yv.t) {
			return termFalse
		}
		if !types.Comparable(xv.t) {
			ex.rtPanic("comparing uncomparable type " + xv.t.String())
		}
		return ex.equals(xv.t, xv.v, yv.v)
	case *Cont:
		yc := ex.rd(y.(*Cont))
		xc := ex.rd(xv)
		r := termTrue
		switch ut := t.Underlying().(type) {
		case *types.Struct:
			for i := range xc.v {
				if ut.Field(i).Name() == "_" {
					continue
				}
				r = f.And(r, ex.equals(ut.Field(i).Type(), xc.v[i], yc.v[i]))
			}
		case *types.Array:
			for i := range xc.v {
				r = f.And(r, ex.equals(ut.Elem(), xc.v[i], yc.v[i]))
			}
		default:
			panic(Unsupported{"equals on aggregate of type " + t.String()})
		}
		return r
	case Opaque:
		panic(Unsupported{"comparison of opaque value " + xv.what})
	case unit:
		return termTrue
	case RTypeV:
		yv, ok := y.(RTypeV)
		return Bool(ok && types.Identical(xv.t, yv.t))
	}
	panic(Unsupported{fmt.Sprintf("equals on %T", x)})
}

// ---------------------------------------------------------------------------
// conversions

func (ex *Exec) conv(tdst, tsrc types.Type, x Value) Value {
	f := ex.f
	ud, us := tdst.Underlying(), tsrc.Underlying()
	if o, ok := x.(Opaque); ok {
		return o
	}
	switch ud := ud.(type) {
	case *types.Pointer:
		return x // unsafe.Pointer -> *T
	case *types.Slice:
		// string -> []byte / []rune
		if s, ok := x.(StrV); ok {
			eb := ud.Elem().Underlying().(*types.Basic)
			if eb.Kind() == types.Uint8 {
				bs := s.Bytes()
				c := &Cont{v: make([]Value, len(bs))}
				for i, b := range bs {
					c.v[i] = b
				}
				if len(bs) == 0 {
					return SliceV{c: c}
				}
				return SliceV{c: c, ln: len(bs), cp: len(bs)}
			}
			if eb.Kind() == types.Int32 {
				if !s.IsConcrete() {
					return ex.strToRunesSym(s)
				}
				rs := []rune(s.Concrete())
				c := &Cont{v: make([]Value, len(rs))}
				for i, r := range rs {
					c.v[i] = Const(uint64(uint32(r)), 32)
				}
				return SliceV{c: c, ln: len(rs), cp: len(rs)}
			}
		}
		return x
	case *types.Basic:
		switch {
		case ud.Kind() == types.UnsafePointer:
			if p, ok := x.(Ptr); ok {
				return p
			}
			panic(Unsupported{"uintptr -> unsafe.Pointer"})
		case ud.Info()&types.IsString != 0:
			switch xv := x.(type) {
			case StrV:
				return xv
			case SliceV:
				// []byte or []rune -> string
				eb := us.(*types.Slice).Elem().Underlying().(*types.Basic)
				if eb.Kind() == types.Uint8 {
					if xv.ln == 0 {
						return StrV{}
					}
					c := ex.rd(xv.c)
					b := make([]*Term, xv.ln)
					for i := 0; i < xv.ln; i++ {
						b[i] = c.v[xv.off+i].(*Term)
					}
					return normStr(b)
				}
				var sb strings.Builder
				c := ex.rd(xv.c)
				for i := 0; i < xv.ln; i++ {
					t := c.v[xv.off+i].(*Term)
					if t.op != OpConst {
						panic(Unsupported{"[]rune -> string with symbolic runes"})
					}
					sb.WriteRune(rune(int32(t.c)))
				}
				return StrV{s: sb.String()}
			case *Term:
				// integer -> string
				v := ex.concTerm(xv, "int->string")
				r := rune(sext64(v, xv.w))
				if sext64(v, xv.w) < 0 || sext64(v, xv.w) > utf8.MaxRune {
					r = utf8.RuneError
				}
				return StrV{s: string(r)}
			}
		case ud.Info()&types.IsInteger != 0:
			w := widthOf(ud)
			switch xv := x.(type) {
			case *Term:
				return f.Resize(xv, w, isSigned(us))
			case FloatV:
				return ex.floatToInt(xv, w, isSigned(ud))
			case Ptr:
				panic(Unsupported{"unsafe.Pointer -> uintptr"})
			}
		case ud.Info()&types.IsFloat != 0:
			bits := floatBits(ud)
			switch xv := x.(type) {
			case *Term:
				return ex.intToFloat(xv, isSigned(us), bits)
			case FloatV:
				return ex.floatToFloat(xv, bits)
			}
		case ud.Info()&types.IsBoolean != 0:
			return x
		}
	}
	panic(Unsupported{fmt.Sprintf("conversion %v -> %v (%T)", tsrc, tdst, x)})
}

func (ex *Exec) strToRunesSym(s StrV) Value {
	panic(Unsupported{"string -> []rune with symbolic bytes"})
}

// ---------------------------------------------------------------------------
// indexing / slicing

// concTerm forces a term to a concrete value (forking over feasible values).
func (ex *Exec) concTerm(t *Term, why string) uint64 {
	if t.op == OpConst {
		return t.c
	}
	return ex.concretize(t, why)
}

func (ex *Exec) concInt(v Value, why string) int {
	t := v.(*Term)
	return int(sext64(ex.concTerm(t, why), t.w))
}

// indexSym checks 0 <= idx < n (solver-decided) and returns idx as a 64-bit term.
func (ex *Exec) indexSym(idx *Term, it types.Type, n int) *Term {
	f := ex.f
	wide := f.Resize(idx, 64, isSigned(it))
	inb := f.Cmp(OpULt, wide, Const(uint64(n), 64))
	if !ex.decide(inb, nil) {
		ex.rtPanic("index out of range [symbolic]")
	}
	return wide
}

// index checks 0 <= idx < n and returns the concrete index.
func (ex *Exec) index(idx *Term, it types.Type, n int) int {
	if idx.op == OpConst {
		var i int64
		if isSigned(it) {
			i = sext64(idx.c, idx.w)
		} else {
			i = int64(idx.c)
			if idx.c > 1<<62 {
				i = 1 << 62
			}
		}
		if i < 0 || i >= int64(n) {
			ex.rtPanic(fmt.Sprintf("index out of range [%d] with length %d", i, n))
		}
		return int(i)
	}
	wide := ex.indexSym(idx, it, n)
	return int(ex.concretize(wide, "index"))
}

func (ex *Exec) indexVal(x Value, idx *Term, it types.Type) Value {
	f := ex.f
	switch x := x.(type) {
	case StrV:
		if idx.op != OpConst && x.IsConcrete() && x.Len() > 0 && x.Len() <= 1024 {
			wide := ex.indexSym(idx, it, x.Len())
			s := x.Concrete()
			vals := make([]uint64, len(s))
			for i := range vals {
				vals[i] = uint64(s[i])
			}
			tb := f.TableFor("str:"+s, vals, 8, idxWidth(len(vals)))
			return f.TblSel(tb, f.Resize(wide, tb.IdxW, false))
		}
		i := ex.index(idx, it, x.Len())
		return x.At(i)
	case *Cont:
		c := ex.rd(x)
		if idx.op != OpConst && len(c.v) > 0 {
			if tb := ex.tableOfRange(x, 0, len(c.v)); tb != nil {
				wide := ex.indexSym(idx, it, len(c.v))
				return f.TblSel(tb, f.Resize(wide, tb.IdxW, false))
			}
		}
		i := ex.index(idx, it, len(c.v))
		return c.v[i]
	}
	panic(fmt.Sprintf("Index on %T", x))
}

func idxWidth(n int) uint8 {
	w := uint8(1)
	for (1 << w) < n {
		w++
	}
	return w
}

// tableOfRange returns a lookup table for cells [off, off+n) of a container when they are
// all constant integers (nil otherwise).
func (ex *Exec) tableOfRange(c0 *Cont, off, n int) *Table {
	c := ex.rd(c0)
	if n == 0 || n > 4096 {
		return nil
	}
	type tk struct {
		c      *Cont
		off, n int
	}
	cacheable := c0.frozen && c == c0
	if cacheable {
		if t, ok := ex.f.contTables[tk{c0, off, n}]; ok {
			return t
		}
	}
	var w uint8
	vals := make([]uint64, n)
	var tb *Table
	ok := true
	for i := 0; i < n; i++ {
		t, isT := c.v[off+i].(*Term)
		if !isT || t.op != OpConst {
			ok = false
			break
		}
		w = t.w
		vals[i] = t.c
	}
	if ok {
		h := uint64(n)
		for _, v := range vals {
			h = mix(h, v)
		}
		tw := w
		if tw == 0 {
			tw = 1 // bool tables are stored as 1-bit vectors
		}
		tb = ex.f.TableFor(fmt.Sprintf("arr:%d:%d:%x", w, n, h), vals, tw, idxWidth(n))
		tb.IsBool = w == 0
	}
	if cacheable {
		if ex.f.contTables == nil {
			ex.f.contTables = map[any]*Table{}
		}
		ex.f.contTables[tk{c0, off, n}] = tb
	}
	return tb
}

func (ex *Exec) slice(instr *ssa.Slice, x, lo, hi, max Value) Value {
	var ln, cp int
	var sv SliceV
	isStr := false
	var str StrV
	switch x := x.(type) {
	case SliceV:
		sv = x
		ln, cp = x.ln, x.cp
	case StrV:
		isStr = true
		str = x
		ln, cp = x.Len(), x.Len()
	case Ptr: // *array
		arr, ok := ex.loadRef(x).(*Cont)
		if !ok {
			panic(fmt.Sprintf("Slice: slot is %T", ex.loadRef(x)))
		}
		n := len(ex.rd(arr).v)
		sv = SliceV{c: arr, off: 0, ln: n, cp: n}
		ln, cp = n, n
	default:
		panic(fmt.Sprintf("Slice on %T", x))
	}
	l, h, m := 0, ln, cp
	if lo != nil {
		l = ex.concInt(lo, "slice low")
	}
	if hi != nil {
		h = ex.concInt(hi, "slice high")
	}
	if max != nil {
		m = ex.concInt(max, "slice max")
	}
	if isStr {
		if l < 0 || h < l || h > ln {
			ex.rtPanic(fmt.Sprintf("slice bounds out of range [%d:%d] with length %d", l, h, ln))
		}
		return str.Sub(l, h)
	}
	if l < 0 || h < l || m < h || m > cp {
		ex.rtPanic(fmt.Sprintf("slice bounds out of range [%d:%d:%d] with capacity %d", l, h, m, cp))
	}
	if sv.c == nil {
		return SliceV{}
	}
	return SliceV{c: sv.c, off: sv.off + l, ln: h - l, cp: m - l}
}

func (ex *Exec) makeSlice(et types.Type, ln, cp int) SliceV {
	c := &Cont{v: make([]Value, cp)}
	switch et.Underlying().(type) {
	case *types.Struct, *types.Array:
		for i := range c.v {
			c.v[i] = zero(et)
		}
	default:
		z := zero(et)
		for i := range c.v {
			c.v[i] = z
		}
	}
	return SliceV{c: c, ln: ln, cp: cp}
}

// ---------------------------------------------------------------------------
// type assertions

func (eng *Engine) implements(t types.Type, it *types.Interface) bool {
	type k struct {
		t  types.Type
		it *types.Interface
	}
	key := k{t, it}
	if v, ok := eng.implCache.Load(key); ok {
		return v.(bool)
	}
	r := types.Implements(t, it)
	eng.implCache.Store(key, r)
	return r
}

func (ex *Exec) typeAssert(instr *ssa.TypeAssert, xv Value) Value {
	if o, ok := xv.(Opaque); ok {
		if ex.eng.inInit {
			return o
		}
		panic(Unsupported{"type assertion on opaque value " + o.what})
	}
	x := xv.(IfaceV)
	var v Value
	ok := false
	if it, isIface := instr.AssertedType.Underlying().(*types.Interface); isIface {
		if x.t != nil && ex.eng.implements(x.t, it) {
			v, ok = x, true
		}
	} else if x.t != nil && types.Identical(x.t, instr.AssertedType) {
		v, ok = x.v, true
	}
	if instr.CommaOk {
		if !ok {
			v = zero(instr.AssertedType)
		}
		return TupleV{v, Bool(ok)}
	}
	if !ok {
		ts := "nil"
		if x.t != nil {
			ts = x.t.String()
		}
		panic(TargetPanic{runtime: true, msg: fmt.Sprintf("interface conversion: interface is %s, not %s", ts, instr.AssertedType)})
	}
	return v
}

// ---------------------------------------------------------------------------
// maps

func (ex *Exec) concKey(k Value) (string, bool) {
	switch k := k.(type) {
	case *Term:
		if k.op == OpConst {
			return fmt.Sprintf("i%d:%d", k.w, k.c), true
		}
	case StrV:
		if k.IsConcrete() {
			return "s" + k.Concrete(), true
		}
	case Ptr:
		return fmt.Sprintf("p%p:%d", k.c, k.i), true
	case IfaceV:
		if k.t == nil {
			return "nil", true
		}
		if s, ok := ex.concKey(k.v); ok {
			return "I" + k.t.String() + "|" + s, true
		}
	case *Cont:
		var sb strings.Builder
		sb.WriteString("{")
		for _, e := range ex.rd(k).v {
			s, ok := ex.concKey(e)
			if !ok {
				return "", false
			}
			fmt.Fprintf(&sb, "%d:%s,", len(s), s)
		}
		sb.WriteString("}")
		return sb.String(), true
	case FloatV:
		if k.t == nil {
			return fmt.Sprintf("f%v", math.Float64bits(k.f)), true
		}
	case RTypeV:
		return "T" + types.TypeString(k.t, nil), true
	case SliceV:
		return fmt.Sprintf("s%p:%d:%d", k.c, k.off, k.ln), true
	}
	return "", false
}

// mapFind returns the entry index for key k (or -1), forking on symbolic key equality.
func (ex *Exec) mapFind(m *MapV, k Value) int {
	if m.frozen {
		if s, ok := ex.mapShadow[m]; ok {
			m = s
		}
	}
	if cs, ok := ex.concKey(k); ok && m.index != nil {
		if i, ok := m.index[cs]; ok {
			return i
		}
		// concrete key not among concrete entries: still compare with symbolic-key entries
		if m.nSym() == 0 {
			return -1
		}
	}
	for i := range m.ents {
		e := &m.ents[i]
		if e.deleted {
			continue
		}
		eq := ex.equals(m.kt, e.k, k)
		if eq.op == OpConst {
			if eq.c != 0 {
				return i
			}
			continue
		}
		if ex.decide(eq, nil) {
			return i
		}
	}
	return -1
}

func (m *MapV) nSym() int {
	n := 0
	for i := range m.ents {
		if !m.ents[i].deleted {
			n++
		}
	}
	return n - len(m.index)
}

func (ex *Exec) mapW(m *MapV) *MapV {
	if m.frozen {
		if ex.eng.inInit {
			return m
		}
		if s, ok := ex.mapShadow[m]; ok {
			return s
		}
		s := &MapV{kt: m.kt, vt: m.vt, ents: append([]mapEntry(nil), m.ents...), index: map[string]int{}, live: m.live}
		for k, v := range m.index {
			s.index[k] = v
		}
		ex.mapShadow[m] = s
		return s
	}
	return m
}

func (ex *Exec) mapR(m *MapV) *MapV {
	if m != nil && m.frozen {
		if s, ok := ex.mapShadow[m]; ok {
			return s
		}
	}
	return m
}

func (ex *Exec) mapSet(m *MapV, k, v Value) {
	i := ex.mapFind(m, k)
	m = ex.mapW(m)
	v = ex.copyVal(v)
	if i >= 0 {
		m.ents[i].v = v
		return
	}
	m.ents = append(m.ents, mapEntry{k: ex.copyVal(k), v: v})
	m.live++
	if cs, ok := ex.concKey(k); ok {
		m.index[cs] = len(m.ents) - 1
	}
}

func (ex *Exec) mapDelete(m *MapV, k Value) {
	if m == nil {
		return
	}
	i := ex.mapFind(m, k)
	if i < 0 {
		return
	}
	m = ex.mapW(m)
	m.ents[i].deleted = true
	m.live--
	if cs, ok := ex.concKey(m.ents[i].k); ok {
		delete(m.index, cs)
	}
}

func (ex *Exec) lookup(instr *ssa.Lookup, x, idx Value) Value {
	switch x := x.(type) {
	case *MapV:
		var v Value
		ok := false
		if x != nil {
			if i := ex.mapFind(x, idx); i >= 0 {
				v, ok = ex.mapR(x).ents[i].v, true
			}
		}
		if !ok {
			v = zero(instr.X.Type().Underlying().(*types.Map).Elem())
		}
		if instr.CommaOk {
			return TupleV{v, Bool(ok)}
		}
		return v
	case StrV:
		return ex.indexVal(x, idx.(*Term), instr.Index.Type())
	case Opaque:
		return ex.opaqueOp("lookup")
	}
	panic(fmt.Sprintf("Lookup on %T", x))
}

// ---------------------------------------------------------------------------
// range

type iterator interface{ next(ex *Exec) Value }

type mapIter struct {
	m    *MapV
	i    int
	perm []int
}

func (it *mapIter) next(ex *Exec) Value {
	m := ex.mapR(it.m)
	if m != nil {
		if it.perm != nil {
			for it.i < len(it.perm) {
				e := &m.ents[it.perm[it.i]]
				it.i++
				if !e.deleted {
					return TupleV{termTrue, e.k, e.v}
				}
			}
			return TupleV{termFalse, nil, nil}
		}
		for it.i < len(m.ents) {
			e := &m.ents[it.i]
			it.i++
			if !e.deleted {
				return TupleV{termTrue, e.k, e.v}
			}
		}
	}
	return TupleV{termFalse, nil, nil}
}

type strIter struct {
	s StrV
	i int
}

func (it *strIter) next(ex *Exec) Value {
	if it.i >= it.s.Len() {
		return TupleV{termFalse, Const(0, 64), Const(0, 32)}
	}
	pos := it.i
	if it.s.b == nil {
		r, sz := utf8.DecodeRuneInString(it.s.s[pos:])
		it.i += sz
		return TupleV{termTrue, Const(uint64(pos), 64), Const(uint64(uint32(r)), 32)}
	}
	// symbolic bytes: decode with the real unicode/utf8 code, executed symbolically
	r, sz := ex.decodeRuneSym(it.s.Sub(pos, it.s.Len()))
	it.i += sz
	return TupleV{termTrue, Const(uint64(pos), 64), r}
}

func (ex *Exec) decodeRuneSym(s StrV) (*Term, int) {
	pkg := ex.eng.prog.ImportedPackage("unicode/utf8")
	if pkg == nil {
		panic(Unsupported{"range over symbolic string: unicode/utf8 not loaded"})
	}
	fn := pkg.Func("DecodeRuneInString")
	res := ex.callSSA(nil, fn, []Value{s}, nil).(TupleV)
	return res[0].(*Term), ex.concInt(res[1], "rune size")
}

func (ex *Exec) rangeIter(x Value, t types.Type) Value {
	switch x := x.(type) {
	case *MapV:
		it := &mapIter{m: x}
		if ex.mapOrderNondet && x != nil {
			it.perm = ex.nondetPerm(len(ex.mapR(x).ents))
		}
		return it
	case StrV:
		return &strIter{s: x}
	}
	panic(Unsupported{fmt.Sprintf("range over %T", x)})
}

// ---------------------------------------------------------------------------
// builtins

func (ex *Exec) callBuiltin(caller *frame, fn *ssa.Builtin, args []Value) Value {
	f := ex.f
	switch fn.Name() {
	case "append":
		if len(args) == 1 {
			return args[0]
		}
		dst := args[0].(SliceV)
		var srcCells []Value
		switch s := args[1].(type) {
		case StrV:
			for _, b := range s.Bytes() {
				srcCells = append(srcCells, b)
			}
		case SliceV:
			if s.ln > 0 {
				c := ex.rd(s.c)
				srcCells = make([]Value, s.ln)
				for i := 0; i < s.ln; i++ {
					srcCells[i] = ex.copyVal(c.v[s.off+i])
				}
			}
		}
		if len(srcCells) == 0 {
			return dst
		}
		need := dst.ln + len(srcCells)
		if need <= dst.cp {
			c := ex.wr(dst.c)
			for i, v := range srcCells {
				ex.setCell(c, dst.off+dst.ln+i, v)
			}
			return SliceV{c: dst.c, off: dst.off, ln: need, cp: dst.cp}
		}
		et := fn.Type().(*types.Signature).Params().At(0).Type().Underlying().(*types.Slice).Elem()
		ncap := ex.growCap(dst.cp, need, et)
		nc := &Cont{v: make([]Value, ncap)}
		if dst.ln > 0 {
			oc := ex.rd(dst.c)
			for i := 0; i < dst.ln; i++ {
				nc.v[i] = ex.copyVal(oc.v[dst.off+i])
			}
		}
		copy(nc.v[dst.ln:], srcCells)
		z := Value(nil)
		for i := need; i < ncap; i++ {
			switch et.Underlying().(type) {
			case *types.Struct, *types.Array:
				nc.v[i] = zero(et)
			default:
				if z == nil {
					z = zero(et)
				}
				nc.v[i] = z
			}
		}
		return SliceV{c: nc, off: 0, ln: need, cp: ncap}

	case "copy":
		dst := args[0].(SliceV)
		var n int
		switch s := args[1].(type) {
		case StrV:
			n = min(dst.ln, s.Len())
			if n > 0 {
				c := ex.wr(dst.c)
				for i := 0; i < n; i++ {
					c.v[dst.off+i] = s.At(i)
				}
			}
		case SliceV:
			n = min(dst.ln, s.ln)
			if n > 0 {
				sc := ex.rd(s.c)
				tmp := make([]Value, n)
				for i := 0; i < n; i++ {
					tmp[i] = ex.copyVal(sc.v[s.off+i])
				}
				c := ex.wr(dst.c)
				for i := 0; i < n; i++ {
					ex.setCell(c, dst.off+i, tmp[i])
				}
			}
		}
		return Const(uint64(n), 64)

	case "len":
		switch x := args[0].(type) {
		case StrV:
			return Const(uint64(x.Len()), 64)
		case SliceV:
			return Const(uint64(x.ln), 64)
		case *MapV:
			if x == nil {
				return Const(0, 64)
			}
			return Const(uint64(ex.mapR(x).live), 64)
		case *Cont:
			return Const(uint64(len(x.v)), 64)
		case Ptr: // *array
			if x.c == nil {
				// len of nil *array is the array length; take it from the type
				pt := fn.Type().(*types.Signature).Params().At(0).Type().Underlying().(*types.Pointer)
				return Const(uint64(pt.Elem().Underlying().(*types.Array).Len()), 64)
			}
			return Const(uint64(len(ex.loadRef(x).(*Cont).v)), 64)
		case Opaque:
			return ex.opaqueOp("len")
		}
	case "cap":
		switch x := args[0].(type) {
		case SliceV:
			return Const(uint64(x.cp), 64)
		case *Cont:
			return Const(uint64(len(x.v)), 64)
		case Ptr:
			return Const(uint64(len(ex.loadRef(x).(*Cont).v)), 64)
		}
	case "delete":
		m, _ := args[0].(*MapV)
		ex.mapDelete(m, args[1])
		return nil
	case "clear":
		switch x := args[0].(type) {
		case *MapV:
			if x != nil {
				m := ex.mapW(x)
				m.ents = nil
				m.index = map[string]int{}
				m.live = 0
			}
		case SliceV:
			if x.ln > 0 {
				et := fn.Type().(*types.Signature).Params().At(0).Type().Underlying().(*types.Slice).Elem()
				c := ex.wr(x.c)
				for i := 0; i < x.ln; i++ {
					c.v[x.off+i] = zero(et)
				}
			}
		}
		return nil
	case "min", "max":
		isMax := fn.Name() == "max"
		t := fn.Type().(*types.Signature).Params().At(0).Type()
		r := args[0]
		for _, a := range args[1:] {
			switch rv := r.(type) {
			case *Term:
				av := a.(*Term)
				op := OpULt
				if isSigned(t) {
					op = OpSLt
				}
				var c *Term
				if isMax {
					c = f.Cmp(op, rv, av)
				} else {
					c = f.Cmp(op, av, rv)
				}
				r = f.Ite(c, av, rv)
			case FloatV:
				av := a.(FloatV)
				if rv.t != nil || av.t != nil {
					panic(Unsupported{"min/max on symbolic floats"})
				}
				if isMax {
					r = FloatV{f: math.Max(rv.f, av.f), bits: rv.bits}
				} else {
					r = FloatV{f: math.Min(rv.f, av.f), bits: rv.bits}
				}
			case StrV:
				av := a.(StrV)
				var c *Term
				if isMax {
					c = ex.strLess(rv, av, false)
				} else {
					c = ex.strLess(av, rv, false)
				}
				if c.op != OpConst {
					if ex.decide(c, nil) {
						r = av
					}
				} else if c.c != 0 {
					r = av
				}
			}
		}
		return r
	case "panic":
		panic(TargetPanic{v: args[0]})
	case "recover":
		return ex.doRecover(caller)
	case "print", "println":
		return nil
	case "ssa:wrapnilchk":
		recv := args[0]
		if p, ok := recv.(Ptr); ok && p.c == nil {
			ex.rtPanic(fmt.Sprintf("value method %v.%v called using nil pointer", args[1], args[2]))
		}
		return recv
	case "SliceData":
		s := args[0].(SliceV)
		if s.c == nil {
			return Ptr{}
		}
		return Ptr{c: s.c, i: s.off}
	case "String":
		p := args[0].(Ptr)
		n := ex.concInt(args[1], "unsafe.String len")
		if n == 0 {
			return StrV{}
		}
		c := ex.rd(p.c)
		b := make([]*Term, n)
		for i := 0; i < n; i++ {
			b[i] = c.v[p.i+i].(*Term)
		}
		return normStr(b)
	case "StringData":
		s := args[0].(StrV)
		c := &Cont{v: make([]Value, s.Len())}
		for i, b := range s.Bytes() {
			c.v[i] = b
		}
		return Ptr{c: c}
	case "Slice":
		p := args[0].(Ptr)
		n := ex.concInt(args[1], "unsafe.Slice len")
		if p.c == nil {
			return SliceV{}
		}
		return SliceV{c: p.c, off: p.i, ln: n, cp: len(ex.rd(p.c).v) - p.i}
	}
	panic(Unsupported{"builtin " + fn.Name() + fmt.Sprintf(" on %T", args[0])})
}

func (ex *Exec) setCell(c *Cont, i int, v Value) {
	if sc, ok := v.(*Cont); ok {
		if dc, ok := c.v[i].(*Cont); ok {
			ex.copyInto(dc, sc)
			return
		}
	}
	c.v[i] = v
}

// growCap mirrors runtime.growslice's capacity computation (nextslicecap + size-class rounding).
func (ex *Exec) growCap(oldCap, newLen int, et types.Type) int {
	newcap := oldCap
	doublecap := newcap + newcap
	if newLen > doublecap {
		newcap = newLen
	} else {
		const threshold = 256
		if oldCap < threshold {
			newcap = doublecap
		} else {
			for {
				newcap += (newcap + 3*threshold) >> 2
				if uint(newcap) >= uint(newLen) {
					break
				}
			}
		}
	}
	esz := int(ex.eng.sizes.Sizeof(et))
	if esz == 0 {
		return newcap
	}
	mem := roundupsize(uintptr(newcap*esz), !hasPointers(et))
	return int(mem) / esz
}

func hasPointers(t types.Type) bool {
	switch t := t.Underlying().(type) {
	case *types.Basic:
		return t.Kind() == types.String || t.Kind() == types.UnsafePointer
	case *types.Array:
		return hasPointers(t.Elem())
	case *types.Struct:
		for i := 0; i < t.NumFields(); i++ {
			if hasPointers(t.Field(i).Type()) {
				return true
			}
		}
		return false
	}
	return true
}

var sizeClasses = [...]uint16{0, 8, 16, 24, 32, 48, 64, 80, 96, 112, 128, 144, 160, 176, 192, 208, 224, 240, 256, 288, 320, 352, 384, 416, 448, 480, 512, 576, 640, 704, 768, 896, 1024, 1152, 1280, 1408, 1536, 1792, 2048, 2304, 2688, 3072, 3200, 3456, 4096, 4864, 5376, 6144, 6528, 6784, 6912, 8192, 9472, 9728, 10240, 10880, 12288, 13568, 14336, 16384, 18432, 19072, 20480, 21760, 24576, 27264, 28672, 32768}

func roundupsize(size uintptr, noscan bool) uintptr {
	const maxSmall = 32768
	const mallocHeaderSize = 8
	const minSizeForMallocHeader = 512
	reqSize := size
	if reqSize <= maxSmall-mallocHeaderSize {
		if !noscan && reqSize > minSizeForMallocHeader {
			reqSize += mallocHeaderSize
		}
		for _, c := range sizeClasses {
			if uintptr(c) >= reqSize {
				return uintptr(c) - (reqSize - size)
			}
		}
	}
	// large: round up to page size
	const pageSize = 8192
	reqSize += pageSize - 1
	return reqSize &^ (pageSize - 1)
}
