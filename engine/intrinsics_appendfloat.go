package main

import (
	"fmt"
	"math"

	"golang.org/x/tools/go/ssa"
)

// strconv.AppendFloat on a SYMBOLIC float: an opt-in contract stub that models the SHAPE of
// the shortest formatting only (an obligation enables it with opaque=["strconv.AppendFloat#shape"]):
//
//	NaN -> "NaN", +Inf -> "+Inf", -Inf -> "-Inf"
//	'-' iff the sign bit is set
//	fmt 'f': D or D.D      (digits are unconstrained symbolic digits: nothing about their value is claimed)
//	fmt 'e': D[.D]e(+|-)XX[X] with the strconv contract for the exponent: at least two digits,
//	         a third only with a non-zero first digit; sign '-' iff 0 < |x| < 1; |x| >= 1e21 implies
//	         exponent >= 21; 0 < |x| < float64(1e-6) implies exponent >= 7 (both thresholds are exact floats)
//
// The digits are an over-approximation (any digits), the lengths an under-approximation (one
// integer digit, at most one fraction digit): harnesses using the stub may only depend on the
// layout (presence and form of the exponent), which is what it exists for.
func init() {
	extraIntrinsics = append(extraIntrinsics, func(eng *Engine) {
		in := eng.intrinsics
		in["strconv.AppendFloat"] = func(ex *Exec, caller *frame, fn *ssa.Function, a []Value) Value {
			x, ok := a[1].(FloatV)
			if !ok || x.t == nil {
				return ex.callSSA(caller, fn, a, nil)
			}
			if ex.run == nil || !ex.run.OpaqueFns["strconv.AppendFloat#shape"] {
				panic(Unsupported{"strconv.AppendFloat on a symbolic float (shape stub not enabled for this obligation)"})
			}
			fm, ok1 := a[2].(*Term)
			bs, ok2 := a[4].(*Term)
			if !ok1 || !ok2 || fm.op != OpConst || bs.op != OpConst || x.bits != 64 {
				panic(Unsupported{"strconv.AppendFloat shape stub: symbolic format or unexpected operand"})
			}
			f := ex.f
			dst := a[0].(SliceV)
			lit := func(s string) Value {
				ts := make([]*Term, len(s))
				for i := range s {
					ts[i] = Const(uint64(s[i]), 8)
				}
				return ex.appendTerms(dst, ts)
			}
			bits := x.t
			if bs.c == 32 {
				// the caller has already rounded to float32 (AppendFloat(dst, float64(float32(v)), ..., 32))
			}
			if ex.decide(f.FOp(OpFIsNaN, 0, bits, nil), nil) {
				return lit("NaN")
			}
			neg := ex.decide(f.Cmp(OpSLt, bits, Const(0, 64)), nil)
			abs := f.FOp(OpFAbs, 64, bits, nil)
			inf := Const(math.Float64bits(math.Inf(1)), 64)
			if ex.decide(f.Eq(abs, inf), nil) {
				if neg {
					return lit("-Inf")
				}
				return lit("+Inf")
			}
			key := fmt.Sprintf("%016x%016x", bits.h1, bits.h2)
			digit := func(name string, nonzero bool) *Term {
				d := ex.ufVar("fs_"+key+"_"+name, 8)
				lo := byte('0')
				if nonzero {
					lo = '1'
				}
				ex.addAssume(f.And(f.Cmp(OpULe, Const(uint64(lo), 8), d), f.Cmp(OpULe, d, Const('9', 8))))
				return d
			}
			var out []*Term
			if neg {
				out = append(out, Const('-', 8))
			}
			zero := ex.decide(f.Eq(abs, Const(0, 64)), nil)
			if zero {
				out = append(out, Const('0', 8))
			} else {
				out = append(out, digit("m0", fm.c == 'e'))
			}
			if !zero && ex.decide(f.Eq(ex.ufVar("fs_"+key+"_frac", 8), Const(1, 8)), nil) {
				out = append(out, Const('.', 8), digit("m1", false))
			}
			switch fm.c {
			case 'f':
			case 'e':
				out = append(out, Const('e', 8))
				one := Const(math.Float64bits(1), 64)
				small := !zero && ex.decide(f.FOp(OpFLt, 0, abs, one), nil)
				if small {
					out = append(out, Const('-', 8))
				} else {
					out = append(out, Const('+', 8))
				}
				if zero {
					out = append(out, Const('0', 8), Const('0', 8))
					break
				}
				three := ex.decide(f.Eq(ex.ufVar("fs_"+key+"_e3", 8), Const(1, 8)), nil)
				var e2, e1, e0 *Term
				if three {
					e2 = digit("e2", true)
					out = append(out, e2)
				}
				e1, e0 = digit("e1", false), digit("e0", false)
				out = append(out, e1, e0)
				val := func(d *Term) *Term { return f.Resize(f.Bin(OpSub, d, Const('0', 8)), 16, false) }
				ev := f.Bin(OpAdd, f.Bin(OpMul, val(e1), Const(10, 16)), val(e0))
				if three {
					ev = f.Bin(OpAdd, ev, f.Bin(OpMul, val(e2), Const(100, 16)))
				}
				big := Const(math.Float64bits(1e21), 64)
				tiny := Const(math.Float64bits(1e-6), 64)
				// |x| >= 1e21  =>  exponent >= 21;   0 < |x| < float64(1e-6)  =>  exponent >= 7
				ex.addAssume(f.Or(f.FOp(OpFLt, 0, abs, big), f.Cmp(OpULe, Const(21, 16), ev)))
				if small {
					ex.addAssume(f.Or(f.Not(f.FOp(OpFLt, 0, abs, tiny)), f.Cmp(OpULe, Const(7, 16), ev)))
					// and conversely a float in [1e-6, 1) has exponent 1..6
					ex.addAssume(f.Or(f.FOp(OpFLt, 0, abs, tiny), f.And(f.Cmp(OpULe, Const(1, 16), ev), f.Cmp(OpULe, ev, Const(6, 16)))))
				} else {
					// a float in [1, 1e21) has exponent 0..20
					ex.addAssume(f.Or(f.Not(f.FOp(OpFLt, 0, abs, big)), f.Cmp(OpULe, ev, Const(20, 16))))
				}
			default:
				panic(Unsupported{"strconv.AppendFloat shape stub: format " + string(rune(fm.c))})
			}
			return ex.appendTerms(dst, out)
		}
	})
}
