package main

import (
	"encoding/json"
	"flag"
	"fmt"
	"go/types"
	"math/big"
	"os"
	"runtime"
	"sort"
	"strings"
	"time"

	"golang.org/x/tools/go/ssa"
)

type Obligation struct {
	ID        string   `json:"id"`
	Pkg       string   `json:"pkg"`
	Fn        string   `json:"fn"`
	Args      []any    `json:"args"`
	Solver    string   `json:"solver,omitempty"`
	Second    string   `json:"second,omitempty"`
	TimeoutMS int      `json:"timeout_ms,omitempty"`
	StepLimit int      `json:"step_limit,omitempty"`
	MaxPaths  int64    `json:"max_paths,omitempty"`
	Sample    int      `json:"sample,omitempty"`
	Known     []string `json:"known,omitempty"`
	Covers    []string `json:"covers,omitempty"` // labels that must be reached
	Workers   int      `json:"workers,omitempty"`
	LogDir    string   `json:"log_dir,omitempty"`
	MaxSeconds int     `json:"max_seconds,omitempty"`
	Opaque    []string `json:"opaque,omitempty"` // functions whose (string) result is an opaque text: a stated cut
}

type Spec struct {
	Repo        string       `json:"repo"`
	Harness     string       `json:"harness"`
	Workers     int          `json:"workers"`
	Seed        int64        `json:"seed"`
	Obligations []Obligation `json:"obligations"`
}

type ViolationOut struct {
	Label string            `json:"label"`
	Kind  string            `json:"kind"`
	Msg   string            `json:"msg,omitempty"`
	KF    string            `json:"kf,omitempty"`
	Model map[string]uint64 `json:"model"`
	Obs   map[string]string `json:"obs,omitempty"`
}

type SampleOut struct {
	Model map[string]uint64 `json:"model"`
	Obs   map[string]string `json:"obs"`
}

type FuncOut struct {
	Name   string `json:"name"`
	Instrs int    `json:"instrs"`
	Calls  int    `json:"calls"`
}

type ObligationResult struct {
	ID            string           `json:"id"`
	Pkg           string           `json:"pkg"`
	Fn            string           `json:"fn"`
	Args          []any            `json:"args"`
	Status        string           `json:"status"` // ok | violation | inconclusive | error
	Error         string           `json:"error,omitempty"`
	Paths         int64            `json:"paths"`
	Done          int64            `json:"done"`
	Assumed       int64            `json:"assumed"`
	Panics        int64            `json:"panics"`
	Unsupported   int64            `json:"unsupported"`
	Budget        int64            `json:"budget"`
	Inconclusive  int64            `json:"inconclusive"`
	Transitions   int64            `json:"transitions"`
	Steps         int64            `json:"steps"`
	Violations    []ViolationOut   `json:"violations,omitempty"`
	KnownHits     []ViolationOut   `json:"known_hits,omitempty"`
	KnownCounts   map[string]int   `json:"known_counts,omitempty"`
	UnsupMsgs     map[string]int   `json:"unsupported_msgs,omitempty"`
	PanicMsgs     map[string]int   `json:"panic_msgs,omitempty"`
	Covers        map[string]int64 `json:"covers,omitempty"`
	MissingCovers []string         `json:"missing_covers,omitempty"`
	Samples       []SampleOut      `json:"samples,omitempty"`
	Funcs         []FuncOut        `json:"funcs,omitempty"`
	Queries       int64            `json:"solver_queries"`
	CacheHits     int64            `json:"solver_cache_hits"`
	SolverSat     int64            `json:"solver_sat"`
	SolverUnsat   int64            `json:"solver_unsat"`
	SolverUnknown int64            `json:"solver_unknown"`
	SolverTimeS   float64          `json:"solver_time_s"`
	MaxQueryS     float64          `json:"max_query_s"`
	CrossChecks   int64            `json:"cross_checks"`
	CrossAgree    int64            `json:"cross_agree"`
	SolverErrors  []string         `json:"solver_errors,omitempty"`
	Solver        string           `json:"solver"`
	Second        string           `json:"second,omitempty"`
	MassOK        bool             `json:"mass_checked"`
	Mass          string           `json:"mass,omitempty"`
	MassBits      int              `json:"mass_bits,omitempty"`
	MassExact     bool             `json:"mass_exact"`
	WallS         float64          `json:"wall_s"`
	Aborted       string           `json:"aborted,omitempty"`
}

func argValue(t types.Type, a any) (Value, error) {
	switch b := t.Underlying().(type) {
	case *types.Basic:
		switch {
		case b.Info()&types.IsBoolean != 0:
			v, ok := a.(bool)
			if !ok {
				return nil, fmt.Errorf("want bool arg, got %T", a)
			}
			return Bool(v), nil
		case b.Info()&types.IsInteger != 0:
			v, ok := a.(float64)
			if !ok {
				return nil, fmt.Errorf("want int arg, got %T", a)
			}
			return Const(uint64(int64(v)), widthOf(b)), nil
		case b.Info()&types.IsString != 0:
			v, ok := a.(string)
			if !ok {
				return nil, fmt.Errorf("want string arg, got %T", a)
			}
			return StrV{s: v}, nil
		}
	}
	return nil, fmt.Errorf("unsupported harness parameter type %v", t)
}

var hubs = map[string]*SolverHub{}

func runObligation(eng *Engine, spec *Spec, ob Obligation) (res ObligationResult) {
	t0 := time.Now()
	res = ObligationResult{ID: ob.ID, Pkg: ob.Pkg, Fn: ob.Fn, Args: ob.Args}
	defer func() { res.WallS = time.Since(t0).Seconds() }()
	fn := eng.FindFunc(ob.Pkg, ob.Fn)
	if fn == nil {
		res.Status, res.Error = "error", "harness function not found: "+ob.Pkg+"."+ob.Fn
		return
	}
	if len(fn.Params) != len(ob.Args) {
		res.Status, res.Error = "error", fmt.Sprintf("harness %s takes %d args, got %d", ob.Fn, len(fn.Params), len(ob.Args))
		return
	}
	args := make([]Value, len(ob.Args))
	for i, a := range ob.Args {
		v, err := argValue(fn.Params[i].Type(), a)
		if err != nil {
			res.Status, res.Error = "error", err.Error()
			return
		}
		args[i] = v
	}
	primary, tmo := "z3", 20000
	if ob.Solver != "" {
		primary = ob.Solver
	}
	if ob.TimeoutMS > 0 {
		tmo = ob.TimeoutMS
	}
	hkey := fmt.Sprintf("%s|%s|%d|%s", primary, ob.Second, tmo, ob.LogDir)
	hub := hubs[hkey]
	if hub == nil {
		hub = &SolverHub{Primary: primary, Second: ob.Second, TimeoutMS: tmo, LogDir: ob.LogDir}
		hubs[hkey] = hub
	}
	before := hub.Stats
	nerrBefore := len(hub.Errors)
	if ob.LogDir != "" {
		os.MkdirAll(ob.LogDir, 0o755)
	}
	workers := spec.Workers
	if ob.Workers > 0 {
		workers = ob.Workers
	}
	if workers <= 0 {
		workers = runtime.NumCPU()
	}
	run := &Run{eng: eng, hub: hub, entry: fn, args: args, workers: workers,
		StepLimit: 50_000_000, DepthLimit: 50_000, MaxViol: 8, SampleCap: ob.Sample, Seed: spec.Seed, sampleEvery: 64,
		KnownIDs: map[string]bool{}}
	if ob.StepLimit > 0 {
		run.StepLimit = ob.StepLimit
	}
	run.MaxPaths = ob.MaxPaths
	run.OpaqueFns = map[string]bool{}
	for _, k := range ob.Opaque {
		run.OpaqueFns[k] = true
	}
	for _, k := range ob.Known {
		run.KnownIDs[k] = true
	}
	maxS := 900
	if ob.MaxSeconds > 0 {
		maxS = ob.MaxSeconds
	}
	timer := time.AfterFunc(time.Duration(maxS)*time.Second, func() { run.abort(fmt.Sprintf("time limit %ds exceeded", maxS)) })
	run.Explore()
	timer.Stop()

	res.Solver, res.Second = hub.Primary, hub.Second
	res.Paths, res.Done, res.Assumed, res.Panics = run.Paths, run.Done, run.Assumed, run.Panics
	res.Unsupported, res.Budget, res.Inconclusive = run.Unsupported, run.Budget, run.Inconcl
	res.Transitions, res.Steps = run.Transitions, run.TotalSteps
	res.UnsupMsgs, res.PanicMsgs, res.Covers = run.UnsupMsgs, run.PanicMsgs, run.Covers
	res.KnownCounts = run.KnownCount
	res.Aborted = run.Aborted
	conv := func(v Violation) ViolationOut {
		return ViolationOut{Label: v.Label, Kind: v.Kind, Msg: v.Msg, KF: v.KF, Model: v.Model, Obs: v.Obs}
	}
	for _, v := range run.Violations {
		res.Violations = append(res.Violations, conv(v))
	}
	for _, k := range sortedKeys(run.KnownHits) {
		res.KnownHits = append(res.KnownHits, conv(run.KnownHits[k]))
	}
	// samples: keep at most SampleCap, deterministic by seed
	ss := run.Samples
	if len(ss) > ob.Sample {
		sort.Slice(ss, func(i, j int) bool { return fmt.Sprint(ss[i].Model) < fmt.Sprint(ss[j].Model) })
		step := len(ss) / ob.Sample
		var pick []PathSample
		for i := int(uint64(spec.Seed) % uint64(step)); i < len(ss) && len(pick) < ob.Sample; i += step {
			pick = append(pick, ss[i])
		}
		ss = pick
	}
	for _, s := range ss {
		res.Samples = append(res.Samples, SampleOut{Model: s.Model, Obs: s.Obs})
	}
	for fn, calls := range run.Funcs {
		n := 0
		for _, b := range fn.Blocks {
			n += len(b.Instrs)
		}
		res.Funcs = append(res.Funcs, FuncOut{Name: fn.String(), Instrs: n, Calls: calls})
	}
	sort.Slice(res.Funcs, func(i, j int) bool { return res.Funcs[i].Name < res.Funcs[j].Name })
	for _, c := range ob.Covers {
		if run.Covers[c] == 0 {
			res.MissingCovers = append(res.MissingCovers, c)
		}
	}
	st := &hub.Stats
	res.Queries, res.CacheHits = st.Queries-before.Queries, st.CacheHits-before.CacheHits
	res.SolverSat, res.SolverUnsat, res.SolverUnknown = st.Sat-before.Sat, st.Unsat-before.Unsat, st.Unknown-before.Unknown
	res.SolverTimeS = float64(st.TimeNS-before.TimeNS) / 1e9
	res.MaxQueryS = float64(st.MaxQueryNS) / 1e9
	res.CrossChecks, res.CrossAgree = st.CrossChecks-before.CrossChecks, st.CrossAgree-before.CrossAgree
	res.SolverErrors = append([]string(nil), hub.Errors[nerrBefore:]...)
	if run.MassOK && run.MassBits > 0 {
		res.MassOK = true
		res.Mass = run.Mass.String()
		res.MassBits = run.MassBits
		want := new(big.Int).Lsh(big.NewInt(1), uint(run.MassBits))
		res.MassExact = want.Cmp(run.Mass) == 0
	}
	switch {
	case len(res.Violations) > 0:
		res.Status = "violation"
	case run.Aborted != "" || run.Unsupported > 0 || run.Budget > 0 || run.Inconcl > 0 || len(res.SolverErrors) > 0 || len(res.MissingCovers) > 0 || (res.MassOK && !res.MassExact):
		res.Status = "inconclusive"
	default:
		res.Status = "ok"
	}
	return
}

func main() {
	if len(os.Args) < 2 {
		fmt.Fprintln(os.Stderr, "usage: gosym batch -spec spec.json -out results.json")
		os.Exit(64)
	}
	switch os.Args[1] {
	case "batch":
		fs := flag.NewFlagSet("batch", flag.ExitOnError)
		specPath := fs.String("spec", "", "spec file")
		outPath := fs.String("out", "", "output file")
		verbose := fs.Bool("v", false, "verbose")
		fs.Parse(os.Args[2:])
		b, err := os.ReadFile(*specPath)
		if err != nil {
			fmt.Fprintln(os.Stderr, err)
			os.Exit(64)
		}
		var spec Spec
		if err := json.Unmarshal(b, &spec); err != nil {
			fmt.Fprintln(os.Stderr, err)
			os.Exit(64)
		}
		t0 := time.Now()
		eng, err := LoadEngine(LoadConfig{RepoDir: spec.Repo, HarnessDir: spec.Harness})
		if err != nil {
			fmt.Fprintln(os.Stderr, "engine load failed:", err)
			os.Exit(70)
		}
		loadS := time.Since(t0).Seconds()
		if *verbose {
			fmt.Fprintf(os.Stderr, "loaded in %.1fs\n", loadS)
			for _, f := range eng.InitFailures {
				fmt.Fprintln(os.Stderr, "  ", f)
			}
		}
		var results []ObligationResult
		for _, ob := range spec.Obligations {
			r := runObligation(eng, &spec, ob)
			if *verbose {
				fmt.Fprintf(os.Stderr, "%-40s %-12s paths=%d done=%d assumed=%d unsup=%d inconcl=%d viol=%d known=%d q=%d hits=%d %.1fs\n",
					r.ID, r.Status, r.Paths, r.Done, r.Assumed, r.Unsupported, r.Inconclusive, len(r.Violations), len(r.KnownHits), r.Queries, r.CacheHits, r.WallS)
				for m, n := range r.UnsupMsgs {
					fmt.Fprintf(os.Stderr, "    unsupported x%d: %s\n", n, m)
				}
				for m, n := range r.PanicMsgs {
					fmt.Fprintf(os.Stderr, "    panic x%d: %s\n", n, m)
				}
				for _, e := range r.SolverErrors {
					fmt.Fprintf(os.Stderr, "    solver: %s\n", e)
				}
				if r.Error != "" {
					fmt.Fprintf(os.Stderr, "    error: %s\n", r.Error)
				}
				if len(r.MissingCovers) > 0 {
					fmt.Fprintf(os.Stderr, "    missing covers: %s\n", strings.Join(r.MissingCovers, ","))
				}
				for _, v := range r.Violations {
					fmt.Fprintf(os.Stderr, "    VIOL %s %s %v obs=%v\n", v.Label, v.Msg, v.Model, v.Obs)
				}
			}
			results = append(results, r)
		}
		out := map[string]any{"load_s": loadS, "results": results}
		ob, _ := json.MarshalIndent(out, "", " ")
		if *outPath != "" {
			os.WriteFile(*outPath, ob, 0o644)
		} else {
			os.Stdout.Write(ob)
		}
	default:
		fmt.Fprintln(os.Stderr, "unknown command")
		os.Exit(64)
	}
}

var _ *ssa.Function
