package main

// Contract stubs for strconv (engine side): the real functions run from source when their
// arguments are concrete; on symbolic arguments the result is an uninterpreted function of
// the argument terms (same argument terms => same result), constrained only by the
// documented contract. Listed in the evidence as assumptions by the checks that use them.

import (
	"fmt"
	"go/types"

	"golang.org/x/tools/go/ssa"
)

func termsKey(ts []*Term) string {
	h1, h2 := uint64(len(ts)), uint64(77)
	for _, t := range ts {
		h1 = mix(h1, t.h1)
		h2 = mix(h2*31, t.h2)
	}
	return fmt.Sprintf("%016x%016x", h1, h2)
}

func init() {
	extraIntrinsics = append(extraIntrinsics, func(eng *Engine) {
		in := eng.intrinsics
		// strconv.ParseFloat(s string, bitSize int) (float64, error)
		in["strconv.ParseFloat"] = func(ex *Exec, caller *frame, fn *ssa.Function, a []Value) Value {
			s := a[0].(StrV)
			if s.IsConcrete() {
				return ex.callSSA(caller, fn, a, nil)
			}
			bs := s.Bytes()
			key := termsKey(bs)
			f := ex.f
			val := ex.ufVar("pf_"+key+"_bits", 64)
			errv := ex.ufVar("pf_"+key+"_err", 0)
			// contract: a range error needs an exponent part and at least 5 bytes (e.g. 1e309)
			hasE := termFalse
			for _, b := range bs {
				hasE = f.Or(hasE, f.Or(f.Eq(b, Const('e', 8)), f.Eq(b, Const('E', 8))))
			}
			if len(bs) < 5 {
				hasE = termFalse
			}
			ex.addAssume(f.Or(f.Not(errv), hasE))
			// result is never NaN for a syntactically valid number; harnesses only pass those
			ex.addAssume(f.Not(f.FOp(OpFIsNaN, 0, val, nil)))
			res := FloatV{t: val, bits: 64}
			if ex.decide(errv, nil) {
				return TupleV{res, ex.numError(fn, s)}
			}
			return TupleV{res, IfaceV{}}
		}
	})
}

// numError builds a *strconv.NumError{Func: "ParseFloat", Num: s, Err: strconv.ErrRange}.
func (ex *Exec) numError(fn *ssa.Function, s StrV) Value {
	pkg := fn.Pkg
	nt := pkg.Type("NumError").Type()
	var errRange Value = IfaceV{}
	if g, ok := pkg.Members["ErrRange"].(*ssa.Global); ok {
		errRange = ex.load(Ptr{c: ex.eng.globals[g]})
	}
	st := &Cont{v: []Value{StrV{s: "ParseFloat"}, s, errRange}}
	p := ex.newObj(st)
	return IfaceV{t: types.NewPointer(nt), v: p}
}

// ufVar returns the variable standing for the result of an uninterpreted function applied to
// the argument identified by name: the same argument terms always give the same variable.
func (ex *Exec) ufVar(name string, w uint8) *Term {
	if ex.drawCount[name] > 0 {
		return ex.f.Var(name, w)
	}
	return ex.drawVar(name, w)
}

// ---------------------------------------------------------------------------
// Decimal formatting of symbolic integers: a contract stub instead of executing
// strconv's digit loops (which fork once per value): the path forks on sign and digit
// count k only, the k digit bytes are fresh variables (a function of the argument term:
// same argument => same digits) constrained by  10^(k-1) <= u < 10^k  and
// u == sum (d_i - '0') * 10^(k-1-i),  d_0 != '0' when k > 1,  each d_i in '0'..'9'.
// Listed as an assumption by the checks whose harnesses format symbolic integers.

var pow10u = [20]uint64{1, 10, 100, 1000, 10000, 100000, 1000000, 10000000, 100000000, 1000000000,
	10000000000, 100000000000, 1000000000000, 10000000000000, 100000000000000, 1000000000000000,
	10000000000000000, 100000000000000000, 1000000000000000000, 10000000000000000000}

// decimalDigits returns the symbolic decimal digits of the unsigned 64-bit term u.
func (ex *Exec) decimalDigits(u *Term) []*Term {
	f := ex.f
	k := 20
	for i := 1; i < 20; i++ {
		if ex.decide(f.Cmp(OpULt, u, Const(pow10u[i], 64)), nil) {
			k = i
			break
		}
	}
	key := fmt.Sprintf("%016x%016x", u.h1, u.h2)
	ds := make([]*Term, k)
	sum := Const(0, 64)
	for i := 0; i < k; i++ {
		d := ex.ufVar(fmt.Sprintf("dec_%s_%d_%d", key, k, i), 8)
		ex.addAssume(f.And(f.Cmp(OpULe, Const('0', 8), d), f.Cmp(OpULe, d, Const('9', 8))))
		ds[i] = d
		digit := f.Resize(f.Bin(OpSub, d, Const('0', 8)), 64, false)
		sum = f.Bin(OpAdd, sum, f.Bin(OpMul, digit, Const(pow10u[k-1-i], 64)))
	}
	if k > 1 {
		ex.addAssume(f.Not(f.Eq(ds[0], Const('0', 8))))
	}
	if k == 20 {
		// u < 2^64 < 2*10^19: the leading digit is 1 (this also rules out digit strings whose
		// true value exceeds 2^64 and only equals u modulo 2^64)
		ex.addAssume(f.Eq(ds[0], Const('1', 8)))
	}
	ex.addAssume(f.Eq(sum, u))
	return ds
}

// formatSigned returns the decimal text of the signed 64-bit term v.
func (ex *Exec) formatSigned(v *Term) []*Term {
	f := ex.f
	if ex.decide(f.Cmp(OpSLt, v, Const(0, 64)), nil) {
		return append([]*Term{Const('-', 8)}, ex.decimalDigits(f.Neg(v))...)
	}
	return ex.decimalDigits(v)
}

func (ex *Exec) appendTerms(dst SliceV, ts []*Term) SliceV {
	need := dst.ln + len(ts)
	if need <= dst.cp && dst.c != nil {
		c := ex.wr(dst.c)
		for i, t := range ts {
			c.v[dst.off+dst.ln+i] = t
		}
		return SliceV{c: dst.c, off: dst.off, ln: need, cp: dst.cp}
	}
	ncap := ex.growCap(dst.cp, need, types.Typ[types.Uint8])
	nc := &Cont{v: make([]Value, ncap)}
	if dst.ln > 0 {
		oc := ex.rd(dst.c)
		copy(nc.v, oc.v[dst.off:dst.off+dst.ln])
	}
	for i, t := range ts {
		nc.v[dst.ln+i] = t
	}
	z := Const(0, 8)
	for i := need; i < ncap; i++ {
		nc.v[i] = z
	}
	return SliceV{c: nc, ln: need, cp: ncap}
}

func init() {
	extraIntrinsics = append(extraIntrinsics, func(eng *Engine) {
		in := eng.intrinsics
		isBase10 := func(v Value) bool {
			t, ok := v.(*Term)
			return ok && t.op == OpConst && t.c == 10
		}
		in["strconv.AppendUint"] = func(ex *Exec, caller *frame, fn *ssa.Function, a []Value) Value {
			u := a[1].(*Term)
			if u.op == OpConst || !isBase10(a[2]) {
				return ex.callSSA(caller, fn, a, nil)
			}
			return ex.appendTerms(a[0].(SliceV), ex.decimalDigits(u))
		}
		in["strconv.AppendInt"] = func(ex *Exec, caller *frame, fn *ssa.Function, a []Value) Value {
			v := a[1].(*Term)
			if v.op == OpConst || !isBase10(a[2]) {
				return ex.callSSA(caller, fn, a, nil)
			}
			return ex.appendTerms(a[0].(SliceV), ex.formatSigned(v))
		}
		in["strconv.FormatUint"] = func(ex *Exec, caller *frame, fn *ssa.Function, a []Value) Value {
			u := a[0].(*Term)
			if u.op == OpConst || !isBase10(a[1]) {
				return ex.callSSA(caller, fn, a, nil)
			}
			return normStr(ex.decimalDigits(u))
		}
		in["strconv.FormatInt"] = func(ex *Exec, caller *frame, fn *ssa.Function, a []Value) Value {
			v := a[0].(*Term)
			if v.op == OpConst || !isBase10(a[1]) {
				return ex.callSSA(caller, fn, a, nil)
			}
			return normStr(ex.formatSigned(v))
		}
		in["strconv.Itoa"] = func(ex *Exec, caller *frame, fn *ssa.Function, a []Value) Value {
			v := a[0].(*Term)
			if v.op == OpConst {
				return ex.callSSA(caller, fn, a, nil)
			}
			return normStr(ex.formatSigned(v))
		}
	})
}
