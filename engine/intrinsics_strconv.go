package main

// Contract stubs for strconv (engine side): the real functions run from source when their
// arguments are concrete; on symbolic arguments the result is an uninterpreted function of
// the argument terms (same argument terms => same result), constrained only by the
// documented contract. Listed in the evidence as assumptions by the checks that use them.

import (
	"fmt"
	"go/types"

	"golang.org/x/tools/go/ssa"
)

func termsKey(ts []*Term) string {
	h1, h2 := uint64(len(ts)), uint64(77)
	for _, t := range ts {
		h1 = mix(h1, t.h1)
		h2 = mix(h2*31, t.h2)
	}
	return fmt.Sprintf("%016x%016x", h1, h2)
}

func init() {
	extraIntrinsics = append(extraIntrinsics, func(eng *Engine) {
		in := eng.intrinsics
		// strconv.ParseFloat(s string, bitSize int) (float64, error)
		in["strconv.ParseFloat"] = func(ex *Exec, caller *frame, fn *ssa.Function, a []Value) Value {
			s := a[0].(StrV)
			if s.IsConcrete() {
				return ex.callSSA(caller, fn, a, nil)
			}
			bs := s.Bytes()
			key := termsKey(bs)
			f := ex.f
			val := ex.ufVar("pf_"+key+"_bits", 64)
			errv := ex.ufVar("pf_"+key+"_err", 0)
			// contract: a range error needs an exponent part and at least 5 bytes (e.g. 1e309)
			hasE := termFalse
			for _, b := range bs {
				hasE = f.Or(hasE, f.Or(f.Eq(b, Const('e', 8)), f.Eq(b, Const('E', 8))))
			}
			if len(bs) < 5 {
				hasE = termFalse
			}
			ex.addAssume(f.Or(f.Not(errv), hasE))
			// result is never NaN for a syntactically valid number; harnesses only pass those
			ex.addAssume(f.Not(f.FOp(OpFIsNaN, 0, val, nil)))
			res := FloatV{t: val, bits: 64}
			if ex.decide(errv, nil) {
				return TupleV{res, ex.numError(fn, s)}
			}
			return TupleV{res, IfaceV{}}
		}
	})
}

// numError builds a *strconv.NumError{Func: "ParseFloat", Num: s, Err: strconv.ErrRange}.
func (ex *Exec) numError(fn *ssa.Function, s StrV) Value {
	pkg := fn.Pkg
	nt := pkg.Type("NumError").Type()
	var errRange Value = IfaceV{}
	if g, ok := pkg.Members["ErrRange"].(*ssa.Global); ok {
		errRange = ex.load(Ptr{c: ex.eng.globals[g]})
	}
	st := &Cont{v: []Value{StrV{s: "ParseFloat"}, s, errRange}}
	p := ex.newObj(st)
	return IfaceV{t: types.NewPointer(nt), v: p}
}

// ufVar returns the variable standing for the result of an uninterpreted function applied to
// the argument identified by name: the same argument terms always give the same variable.
func (ex *Exec) ufVar(name string, w uint8) *Term {
	if ex.drawCount[name] > 0 {
		return ex.f.Var(name, w)
	}
	return ex.drawVar(name, w)
}
