package main

// reflect as an environment: reflect.Type / reflect.Value are implemented by engine
// intrinsics on top of go/types (the static types of the loaded program) and the engine's own
// memory model. Harnesses use REAL Go types and the REAL reflect API, so they replay natively
// verbatim; what is modelled is the documented behaviour of the reflect operations the
// repository uses. Anything else in package reflect is reported as unsupported.

import (
	"fmt"
	"go/types"
	"math"
	"strings"

	"golang.org/x/tools/go/ssa"
)

// RTypeV is the dynamic value of a reflect.Type interface.
type RTypeV struct{ t types.Type }

const (
	rflagAddr     = 1 << iota // addressable
	rflagStickyRO             // obtained through an unexported, not embedded field (propagates)
	rflagEmbedRO              // obtained through an unexported embedded field (cleared by an exported Field)
	rflagRO       = rflagStickyRO | rflagEmbedRO
)

// rro mirrors reflect's flag.ro(): any read-only-ness becomes sticky when propagated.
func rro(fl uint64) uint64 {
	if fl&rflagRO != 0 {
		return rflagStickyRO
	}
	return 0
}

type reflectEnv struct {
	rtypePtr     types.Type // *reflect.rtype (dynamic type marker of reflect.Type values)
	litePtr      types.Type // *reflectlite.rtype
	structFieldT *types.Struct
	mapIterT     types.Type
}

func (eng *Engine) initReflect() {
	re := &reflectEnv{}
	if p := eng.prog.ImportedPackage("reflect"); p != nil {
		if t := p.Type("rtype"); t != nil {
			re.rtypePtr = types.NewPointer(t.Type())
		}
		if t := p.Type("StructField"); t != nil {
			re.structFieldT = t.Type().Underlying().(*types.Struct)
		}
		if t := p.Type("MapIter"); t != nil {
			re.mapIterT = t.Type()
		}
	}
	if p := eng.prog.ImportedPackage("internal/reflectlite"); p != nil {
		if t := p.Type("rtype"); t != nil {
			re.litePtr = types.NewPointer(t.Type())
		}
	}
	eng.refl = re
	in := eng.intrinsics
	for _, pk := range []string{"reflect", "internal/reflectlite"} {
		pk := pk
		marker := func(eng *Engine) types.Type {
			if pk == "reflect" {
				return eng.refl.rtypePtr
			}
			return eng.refl.litePtr
		}
		in[pk+".TypeOf"] = func(ex *Exec, _ *frame, _ *ssa.Function, a []Value) Value {
			iv := a[0].(IfaceV)
			if iv.t == nil {
				return IfaceV{}
			}
			return IfaceV{t: marker(ex.eng), v: RTypeV{iv.t}}
		}
		in[pk+".ValueOf"] = func(ex *Exec, _ *frame, _ *ssa.Function, a []Value) Value {
			iv := a[0].(IfaceV)
			if iv.t == nil {
				return zero(valueStructType(ex.eng, pk))
			}
			return ex.mkRValue(pk, iv.t, ex.newObj(ex.copyVal(iv.v)), 0)
		}
		for name, h := range rvalueMethods {
			h := h
			in["("+pk+".Value)."+name] = func(ex *Exec, _ *frame, fn *ssa.Function, a []Value) Value {
				return h(ex, pk, fn, a)
			}
		}
	}
	in["reflect.TypeFor"] = func(ex *Exec, _ *frame, fn *ssa.Function, a []Value) Value {
		ta := fn.TypeArgs()
		if len(ta) != 1 {
			panic(Unsupported{"reflect.TypeFor without type argument"})
		}
		return IfaceV{t: ex.eng.refl.rtypePtr, v: RTypeV{ta[0]}}
	}
	in["reflect.PointerTo"] = func(ex *Exec, _ *frame, _ *ssa.Function, a []Value) Value {
		return ex.rtypeIface(types.NewPointer(ex.rtypeOf(a[0])))
	}
	in["reflect.PtrTo"] = in["reflect.PointerTo"]
	in["reflect.SliceOf"] = func(ex *Exec, _ *frame, _ *ssa.Function, a []Value) Value {
		return ex.rtypeIface(types.NewSlice(ex.rtypeOf(a[0])))
	}
	in["reflect.MapOf"] = func(ex *Exec, _ *frame, _ *ssa.Function, a []Value) Value {
		return ex.rtypeIface(types.NewMap(ex.rtypeOf(a[0]), ex.rtypeOf(a[1])))
	}
	in["reflect.New"] = func(ex *Exec, _ *frame, _ *ssa.Function, a []Value) Value {
		t := ex.rtypeOf(a[0])
		cell := ex.newObj(zero(t))
		return ex.mkRValue("reflect", types.NewPointer(t), ex.newObj(cell), 0)
	}
	in["reflect.Zero"] = func(ex *Exec, _ *frame, _ *ssa.Function, a []Value) Value {
		t := ex.rtypeOf(a[0])
		return ex.mkRValue("reflect", t, ex.newObj(zero(t)), 0)
	}
	in["reflect.MakeSlice"] = func(ex *Exec, _ *frame, _ *ssa.Function, a []Value) Value {
		t := ex.rtypeOf(a[0])
		ln, cp := ex.concInt(a[1], "MakeSlice len"), ex.concInt(a[2], "MakeSlice cap")
		s := ex.makeSlice(t.Underlying().(*types.Slice).Elem(), ln, cp)
		return ex.mkRValue("reflect", t, ex.newObj(s), 0)
	}
	mkMap := func(ex *Exec, _ *frame, _ *ssa.Function, a []Value) Value {
		t := ex.rtypeOf(a[0])
		mt := t.Underlying().(*types.Map)
		return ex.mkRValue("reflect", t, ex.newObj(&MapV{kt: mt.Key(), vt: mt.Elem(), index: map[string]int{}}), 0)
	}
	in["reflect.MakeMap"] = mkMap
	in["reflect.MakeMapWithSize"] = mkMap
	in["reflect.TypeAssert"] = func(ex *Exec, _ *frame, fn *ssa.Function, a []Value) Value {
		ta := fn.TypeArgs()
		if len(ta) != 1 {
			panic(Unsupported{"reflect.TypeAssert without type argument"})
		}
		T := ta[0]
		rv := a[0].(*Cont)
		vt, loc, _, ok := ex.rvalParts(rv)
		if !ok {
			return TupleV{zero(T), termFalse}
		}
		val := ex.load(loc)
		if _, isIface := vt.Underlying().(*types.Interface); isIface {
			// the value holds an interface: assert on its dynamic content
			iv := val.(IfaceV)
			if iv.t == nil {
				return TupleV{zero(T), termFalse}
			}
			vt, val = iv.t, iv.v
		}
		if it, isIface := T.Underlying().(*types.Interface); isIface {
			if ex.eng.implements(vt, it) {
				return TupleV{IfaceV{t: vt, v: val}, termTrue}
			}
			return TupleV{zero(T), termFalse}
		}
		if types.Identical(vt, T) {
			return TupleV{val, termTrue}
		}
		return TupleV{zero(T), termFalse}
	}
	in["(*reflect.MapIter).Next"] = func(ex *Exec, _ *frame, _ *ssa.Function, a []Value) Value {
		st := ex.mapIterState(a[0].(Ptr))
		m := ex.mapR(st.m)
		for m != nil && st.i < len(m.ents) {
			e := &m.ents[st.i]
			st.i++
			if !e.deleted {
				st.cur = st.i - 1
				return termTrue
			}
		}
		st.cur = -1
		return termFalse
	}
	in["(*reflect.MapIter).Key"] = func(ex *Exec, _ *frame, _ *ssa.Function, a []Value) Value {
		st := ex.mapIterState(a[0].(Ptr))
		m := ex.mapR(st.m)
		return ex.mkRValue("reflect", st.mt.Key(), ex.newObj(ex.copyVal(m.ents[st.cur].k)), 0)
	}
	in["(*reflect.MapIter).Value"] = func(ex *Exec, _ *frame, _ *ssa.Function, a []Value) Value {
		st := ex.mapIterState(a[0].(Ptr))
		m := ex.mapR(st.m)
		return ex.mkRValue("reflect", st.mt.Elem(), ex.newObj(ex.copyVal(m.ents[st.cur].v)), 0)
	}
}

type mapIterSt struct {
	m      *MapV
	mt     *types.Map
	i, cur int
}

func (ex *Exec) mapIterState(p Ptr) *mapIterSt {
	key := ex.loadRef(p).(*Cont)
	st := ex.mapIters[key]
	if st == nil {
		panic(Unsupported{"reflect.MapIter not created by MapRange"})
	}
	return st
}

func valueStructType(eng *Engine, pk string) types.Type {
	p := eng.prog.ImportedPackage(pk)
	return p.Type("Value").Type()
}

func (ex *Exec) rtypeIface(t types.Type) Value {
	return IfaceV{t: ex.eng.refl.rtypePtr, v: RTypeV{t}}
}

// rtypeOf extracts the go/types type from a reflect.Type interface value.
func (ex *Exec) rtypeOf(v Value) types.Type {
	iv, ok := v.(IfaceV)
	if !ok || iv.t == nil {
		ex.rtPanic("reflect: nil Type")
	}
	rt, ok := iv.v.(RTypeV)
	if !ok {
		panic(Unsupported{fmt.Sprintf("reflect.Type implemented by %v", iv.t)})
	}
	return rt.t
}

// mkRValue builds a reflect.Value: (type, location of the value, flags).
func (ex *Exec) mkRValue(pk string, t types.Type, loc Ptr, flags uint64) Value {
	return &Cont{v: []Value{RTypeV{t}, loc, Const(flags, 64)}}
}

func (ex *Exec) rvalParts(rv *Cont) (types.Type, Ptr, uint64, bool) {
	c := ex.rd(rv)
	rt, ok := c.v[0].(RTypeV)
	if !ok {
		return nil, Ptr{}, 0, false
	}
	fl := uint64(0)
	if t, ok := c.v[2].(*Term); ok {
		fl = t.c
	}
	return rt.t, c.v[1].(Ptr), fl, true
}

func (ex *Exec) rvalMust(v Value, what string) (types.Type, Ptr, uint64) {
	t, loc, fl, ok := ex.rvalParts(v.(*Cont))
	if !ok {
		ex.rtPanic("reflect: call of reflect.Value." + what + " on zero Value")
	}
	return t, loc, fl
}

func reflectKind(t types.Type) uint64 {
	switch u := t.Underlying().(type) {
	case *types.Basic:
		switch u.Kind() {
		case types.Bool:
			return 1
		case types.Int:
			return 2
		case types.Int8:
			return 3
		case types.Int16:
			return 4
		case types.Int32:
			return 5
		case types.Int64:
			return 6
		case types.Uint:
			return 7
		case types.Uint8:
			return 8
		case types.Uint16:
			return 9
		case types.Uint32:
			return 10
		case types.Uint64:
			return 11
		case types.Uintptr:
			return 12
		case types.Float32:
			return 13
		case types.Float64:
			return 14
		case types.Complex64:
			return 15
		case types.Complex128:
			return 16
		case types.String:
			return 24
		case types.UnsafePointer:
			return 26
		}
	case *types.Array:
		return 17
	case *types.Chan:
		return 18
	case *types.Signature:
		return 19
	case *types.Interface:
		return 20
	case *types.Map:
		return 21
	case *types.Pointer:
		return 22
	case *types.Slice:
		return 23
	case *types.Struct:
		return 25
	}
	return 0
}

func typeName(t types.Type) (name, pkgPath string) {
	switch tt := types.Unalias(t).(type) {
	case *types.Named:
		name = tt.Obj().Name()
		if ta := tt.TypeArgs(); ta != nil && ta.Len() > 0 {
			var parts []string
			for i := 0; i < ta.Len(); i++ {
				parts = append(parts, types.TypeString(ta.At(i), nil))
			}
			name += "[" + strings.Join(parts, ",") + "]"
		}
		if tt.Obj().Pkg() != nil {
			pkgPath = tt.Obj().Pkg().Path()
		}
	case *types.Basic:
		name = tt.Name()
	}
	return
}

func typeString(t types.Type) string {
	return types.TypeString(t, func(p *types.Package) string { return p.Name() })
}

// rtypeMethod implements a method call on a reflect.Type (or reflectlite.Type) value.
func (ex *Exec) rtypeMethod(rt RTypeV, marker types.Type, name string, args []Value) Value {
	t := rt.t
	mk := func(x types.Type) Value { return IfaceV{t: marker, v: RTypeV{x}} }
	switch name {
	case "Kind":
		return Const(reflectKind(t), 64)
	case "Name":
		n, _ := typeName(t)
		return StrV{s: n}
	case "PkgPath":
		_, p := typeName(t)
		return StrV{s: p}
	case "String":
		return StrV{s: typeString(t)}
	case "Elem":
		switch u := t.Underlying().(type) {
		case *types.Pointer:
			return mk(u.Elem())
		case *types.Slice:
			return mk(u.Elem())
		case *types.Array:
			return mk(u.Elem())
		case *types.Map:
			return mk(u.Elem())
		case *types.Chan:
			return mk(u.Elem())
		}
		ex.rtPanic("reflect: Elem of invalid type " + typeString(t))
	case "Key":
		if u, ok := t.Underlying().(*types.Map); ok {
			return mk(u.Key())
		}
		ex.rtPanic("reflect: Key of non-map type " + typeString(t))
	case "Len":
		if u, ok := t.Underlying().(*types.Array); ok {
			return intV(int(u.Len()))
		}
		ex.rtPanic("reflect: Len of non-array type " + typeString(t))
	case "Bits":
		return intV(int(ex.eng.sizes.Sizeof(t)) * 8)
	case "Size":
		return Const(uint64(ex.eng.sizes.Sizeof(t)), 64)
	case "Comparable":
		return Bool(types.Comparable(t))
	case "NumField":
		if u, ok := t.Underlying().(*types.Struct); ok {
			return intV(u.NumFields())
		}
		ex.rtPanic("reflect: NumField of non-struct type " + typeString(t))
	case "NumMethod":
		if it, ok := t.Underlying().(*types.Interface); ok {
			return intV(it.NumMethods())
		}
		ms := types.NewMethodSet(t)
		n := 0
		for i := 0; i < ms.Len(); i++ {
			if ms.At(i).Obj().Exported() {
				n++
			}
		}
		return intV(n)
	case "Implements":
		u := ex.rtypeOf(args[0])
		it, ok := u.Underlying().(*types.Interface)
		if !ok {
			ex.rtPanic("reflect: non-interface type passed to Type.Implements")
		}
		return Bool(ex.eng.implements(t, it))
	case "AssignableTo":
		return Bool(types.AssignableTo(t, ex.rtypeOf(args[0])))
	case "ConvertibleTo":
		return Bool(types.ConvertibleTo(t, ex.rtypeOf(args[0])))
	case "OverflowInt":
		w := widthOf(t)
		x := args[0].(*Term)
		return ex.f.Not(ex.f.Eq(ex.f.Resize(ex.f.Resize(x, w, true), 64, true), x))
	case "OverflowUint":
		w := widthOf(t)
		x := args[0].(*Term)
		return ex.f.Not(ex.f.Eq(ex.f.Resize(ex.f.Resize(x, w, false), 64, false), x))
	case "OverflowFloat":
		x := args[0].(FloatV)
		if floatBits(t) == 64 {
			return termFalse
		}
		if x.t == nil {
			return Bool(math.Abs(x.f) > math.MaxFloat32 && !math.IsInf(x.f, 0))
		}
		ab := ex.f.FOp(OpFAbs, 64, x.t, nil)
		return ex.f.And(ex.f.FOp(OpFLt, 0, Const(math.Float64bits(math.MaxFloat32), 64), ab), ex.f.Not(ex.f.Eq(ab, Const(math.Float64bits(math.Inf(1)), 64))))
	case "Field":
		st, ok := t.Underlying().(*types.Struct)
		if !ok {
			ex.rtPanic("reflect: Field of non-struct type " + typeString(t))
		}
		i := ex.concInt(args[0], "Type.Field index")
		if i < 0 || i >= st.NumFields() {
			ex.rtPanic("reflect: Field index out of bounds")
		}
		return ex.structFieldValue(st, i, marker)
	}
	panic(Unsupported{"reflect.Type." + name})
}

// structFieldValue builds a reflect.StructField value for field i of st.
func (ex *Exec) structFieldValue(st *types.Struct, i int, marker types.Type) Value {
	sft := ex.eng.refl.structFieldT
	if sft == nil {
		panic(Unsupported{"reflect.StructField type not loaded"})
	}
	f := st.Field(i)
	c := &Cont{v: make([]Value, sft.NumFields())}
	for k := 0; k < sft.NumFields(); k++ {
		ff := sft.Field(k)
		switch ff.Name() {
		case "Name":
			c.v[k] = StrV{s: f.Name()}
		case "PkgPath":
			p := ""
			if !f.Exported() && f.Pkg() != nil {
				p = f.Pkg().Path()
			}
			c.v[k] = StrV{s: p}
		case "Type":
			c.v[k] = IfaceV{t: marker, v: RTypeV{f.Type()}}
		case "Tag":
			c.v[k] = StrV{s: st.Tag(i)}
		case "Index":
			c.v[k] = ex.bytesSliceOf([]Value{intV(i)})
		case "Anonymous":
			c.v[k] = Bool(f.Embedded())
		default:
			c.v[k] = zero(ff.Type())
		}
	}
	return c
}

func (ex *Exec) bytesSliceOf(vals []Value) SliceV {
	c := &Cont{v: vals}
	return SliceV{c: c, ln: len(vals), cp: len(vals)}
}

func (ex *Exec) isZeroVal(t types.Type, v Value) *Term {
	switch vv := v.(type) {
	case *Term:
		if vv.w == 0 {
			return ex.f.Not(vv)
		}
		return ex.f.Eq(vv, Const(0, vv.w))
	case FloatV:
		if vv.t == nil {
			return Bool(fToBits(vv.f, vv.bits) == 0)
		}
		return ex.f.Eq(vv.t, Const(0, vv.bits))
	case StrV:
		return Bool(vv.Len() == 0)
	case *Cont:
		r := termTrue
		c := ex.rd(vv)
		switch u := t.Underlying().(type) {
		case *types.Struct:
			for i, e := range c.v {
				r = ex.f.And(r, ex.isZeroVal(u.Field(i).Type(), e))
			}
		case *types.Array:
			for _, e := range c.v {
				r = ex.f.And(r, ex.isZeroVal(u.Elem(), e))
			}
		}
		return r
	}
	return Bool(isNilVal(v))
}

type rvalMethod func(ex *Exec, pk string, fn *ssa.Function, a []Value) Value

var rvalueMethods map[string]rvalMethod

func init() {
	m := map[string]rvalMethod{}
	rvalueMethods = m
	typeIface := func(ex *Exec, pk string, t types.Type) Value {
		if pk == "reflect" {
			return IfaceV{t: ex.eng.refl.rtypePtr, v: RTypeV{t}}
		}
		return IfaceV{t: ex.eng.refl.litePtr, v: RTypeV{t}}
	}
	m["IsValid"] = func(ex *Exec, pk string, _ *ssa.Function, a []Value) Value {
		_, _, _, ok := ex.rvalParts(a[0].(*Cont))
		return Bool(ok)
	}
	m["Type"] = func(ex *Exec, pk string, _ *ssa.Function, a []Value) Value {
		t, _, _ := ex.rvalMust(a[0], "Type")
		return typeIface(ex, pk, t)
	}
	m["Kind"] = func(ex *Exec, pk string, _ *ssa.Function, a []Value) Value {
		t, _, _, ok := ex.rvalParts(a[0].(*Cont))
		if !ok {
			return Const(0, 64)
		}
		return Const(reflectKind(t), 64)
	}
	m["CanAddr"] = func(ex *Exec, pk string, _ *ssa.Function, a []Value) Value {
		_, _, fl, ok := ex.rvalParts(a[0].(*Cont))
		return Bool(ok && fl&rflagAddr != 0)
	}
	m["CanSet"] = func(ex *Exec, pk string, _ *ssa.Function, a []Value) Value {
		_, _, fl, ok := ex.rvalParts(a[0].(*Cont))
		return Bool(ok && fl&rflagAddr != 0 && fl&rflagRO == 0)
	}
	m["CanInterface"] = func(ex *Exec, pk string, _ *ssa.Function, a []Value) Value {
		_, _, fl, ok := ex.rvalParts(a[0].(*Cont))
		return Bool(ok && fl&rflagRO == 0)
	}
	m["Addr"] = func(ex *Exec, pk string, _ *ssa.Function, a []Value) Value {
		t, loc, fl := ex.rvalMust(a[0], "Addr")
		if fl&rflagAddr == 0 {
			ex.rtPanic("reflect.Value.Addr of unaddressable value")
		}
		return ex.mkRValue(pk, types.NewPointer(t), ex.newObj(loc), rro(fl))
	}
	m["Elem"] = func(ex *Exec, pk string, _ *ssa.Function, a []Value) Value {
		t, loc, fl := ex.rvalMust(a[0], "Elem")
		switch u := t.Underlying().(type) {
		case *types.Pointer:
			p := ex.load(loc).(Ptr)
			if p.c == nil {
				return zero(valueStructType(ex.eng, pk))
			}
			return ex.mkRValue(pk, u.Elem(), p, rflagAddr|rro(fl))
		case *types.Interface:
			iv := ex.load(loc).(IfaceV)
			if iv.t == nil {
				return zero(valueStructType(ex.eng, pk))
			}
			return ex.mkRValue(pk, iv.t, ex.newObj(ex.copyVal(iv.v)), rro(fl))
		}
		ex.rtPanic("reflect: call of reflect.Value.Elem on " + typeString(t) + " Value")
		return nil
	}
	m["Interface"] = func(ex *Exec, pk string, _ *ssa.Function, a []Value) Value {
		t, loc, fl := ex.rvalMust(a[0], "Interface")
		if fl&rflagRO != 0 {
			ex.rtPanic("reflect.Value.Interface: cannot return value obtained from unexported field or method")
		}
		val := ex.load(loc)
		if _, isIface := t.Underlying().(*types.Interface); isIface {
			iv := val.(IfaceV)
			return IfaceV{t: iv.t, v: iv.v}
		}
		return IfaceV{t: t, v: val}
	}
	m["IsNil"] = func(ex *Exec, pk string, _ *ssa.Function, a []Value) Value {
		t, loc, _ := ex.rvalMust(a[0], "IsNil")
		switch t.Underlying().(type) {
		case *types.Pointer, *types.Map, *types.Slice, *types.Interface, *types.Signature, *types.Chan:
			return Bool(isNilVal(ex.load(loc)))
		case *types.Basic:
			if t.Underlying().(*types.Basic).Kind() == types.UnsafePointer {
				return Bool(isNilVal(ex.load(loc)))
			}
		}
		ex.rtPanic("reflect: call of reflect.Value.IsNil on " + typeString(t) + " Value")
		return nil
	}
	m["IsZero"] = func(ex *Exec, pk string, _ *ssa.Function, a []Value) Value {
		t, loc, _ := ex.rvalMust(a[0], "IsZero")
		return ex.isZeroVal(t, ex.load(loc))
	}
	m["Set"] = func(ex *Exec, pk string, _ *ssa.Function, a []Value) Value {
		t, loc, fl := ex.rvalMust(a[0], "Set")
		if fl&rflagAddr == 0 || fl&rflagRO != 0 {
			ex.rtPanic("reflect: reflect.Value.Set using unaddressable value")
		}
		xt, xloc, _ := ex.rvalMust(a[1], "Set (argument)")
		val := ex.load(xloc)
		_, dstIface := t.Underlying().(*types.Interface)
		_, srcIface := xt.Underlying().(*types.Interface)
		if dstIface && !srcIface {
			val = IfaceV{t: xt, v: val}
		} else if !types.AssignableTo(xt, t) {
			ex.rtPanic("reflect.Set: value of type " + typeString(xt) + " is not assignable to type " + typeString(t))
		}
		ex.store(loc, val)
		return nil
	}
	m["SetZero"] = func(ex *Exec, pk string, _ *ssa.Function, a []Value) Value {
		t, loc, fl := ex.rvalMust(a[0], "SetZero")
		if fl&rflagAddr == 0 {
			ex.rtPanic("reflect: reflect.Value.SetZero using unaddressable value")
		}
		ex.store(loc, zero(t))
		return nil
	}
	m["Bool"] = func(ex *Exec, pk string, _ *ssa.Function, a []Value) Value {
		_, loc, _ := ex.rvalMust(a[0], "Bool")
		return ex.load(loc)
	}
	m["Int"] = func(ex *Exec, pk string, _ *ssa.Function, a []Value) Value {
		_, loc, _ := ex.rvalMust(a[0], "Int")
		return ex.f.Resize(ex.load(loc).(*Term), 64, true)
	}
	m["Uint"] = func(ex *Exec, pk string, _ *ssa.Function, a []Value) Value {
		_, loc, _ := ex.rvalMust(a[0], "Uint")
		return ex.f.Resize(ex.load(loc).(*Term), 64, false)
	}
	m["Float"] = func(ex *Exec, pk string, _ *ssa.Function, a []Value) Value {
		_, loc, _ := ex.rvalMust(a[0], "Float")
		return ex.floatToFloat(ex.load(loc).(FloatV), 64)
	}
	m["String"] = func(ex *Exec, pk string, _ *ssa.Function, a []Value) Value {
		t, loc, _, ok := ex.rvalParts(a[0].(*Cont))
		if !ok {
			return StrV{s: "<invalid Value>"}
		}
		if isString(t) {
			return ex.load(loc)
		}
		return StrV{s: "<" + typeString(t) + " Value>"}
	}
	m["Bytes"] = func(ex *Exec, pk string, _ *ssa.Function, a []Value) Value {
		t, loc, _ := ex.rvalMust(a[0], "Bytes")
		switch t.Underlying().(type) {
		case *types.Slice:
			return ex.load(loc)
		case *types.Array:
			arr := ex.loadRef(loc).(*Cont)
			return SliceV{c: arr, ln: len(arr.v), cp: len(arr.v)}
		}
		ex.rtPanic("reflect.Value.Bytes of non-byte slice")
		return nil
	}
	setter := func(name string, conv func(ex *Exec, t types.Type, v Value) Value) {
		m[name] = func(ex *Exec, pk string, _ *ssa.Function, a []Value) Value {
			t, loc, fl := ex.rvalMust(a[0], name)
			if fl&rflagAddr == 0 || fl&rflagRO != 0 {
				ex.rtPanic("reflect: reflect.Value." + name + " using unaddressable value")
			}
			ex.store(loc, conv(ex, t, a[1]))
			return nil
		}
	}
	setter("SetBool", func(ex *Exec, t types.Type, v Value) Value { return v })
	setter("SetInt", func(ex *Exec, t types.Type, v Value) Value { return ex.f.Resize(v.(*Term), widthOf(t), true) })
	setter("SetUint", func(ex *Exec, t types.Type, v Value) Value { return ex.f.Resize(v.(*Term), widthOf(t), false) })
	setter("SetFloat", func(ex *Exec, t types.Type, v Value) Value { return ex.floatToFloat(v.(FloatV), floatBits(t)) })
	setter("SetString", func(ex *Exec, t types.Type, v Value) Value { return v })
	setter("SetBytes", func(ex *Exec, t types.Type, v Value) Value { return v })
	m["OverflowInt"] = func(ex *Exec, pk string, _ *ssa.Function, a []Value) Value {
		t, _, _ := ex.rvalMust(a[0], "OverflowInt")
		w := widthOf(t)
		x := a[1].(*Term)
		return ex.f.Not(ex.f.Eq(ex.f.Resize(ex.f.Resize(x, w, true), 64, true), x))
	}
	m["OverflowUint"] = func(ex *Exec, pk string, _ *ssa.Function, a []Value) Value {
		t, _, _ := ex.rvalMust(a[0], "OverflowUint")
		w := widthOf(t)
		x := a[1].(*Term)
		return ex.f.Not(ex.f.Eq(ex.f.Resize(ex.f.Resize(x, w, false), 64, false), x))
	}
	m["OverflowFloat"] = func(ex *Exec, pk string, _ *ssa.Function, a []Value) Value {
		t, _, _ := ex.rvalMust(a[0], "OverflowFloat")
		x := a[1].(FloatV)
		if floatBits(t) == 64 {
			return termFalse
		}
		if x.t == nil {
			ax := math.Abs(x.f)
			return Bool(ax > math.MaxFloat32 && !math.IsInf(x.f, 0))
		}
		f := ex.f
		ab := f.FOp(OpFAbs, 64, x.t, nil)
		big := f.FOp(OpFLt, 0, Const(math.Float64bits(math.MaxFloat32), 64), ab)
		inf := f.Eq(ab, Const(math.Float64bits(math.Inf(1)), 64))
		return f.And(big, f.Not(inf))
	}
	m["Len"] = func(ex *Exec, pk string, _ *ssa.Function, a []Value) Value {
		t, loc, _ := ex.rvalMust(a[0], "Len")
		switch u := t.Underlying().(type) {
		case *types.Array:
			return intV(int(u.Len()))
		case *types.Slice:
			return intV(ex.load(loc).(SliceV).ln)
		case *types.Map:
			mm, _ := ex.load(loc).(*MapV)
			if mm == nil {
				return intV(0)
			}
			return intV(ex.mapR(mm).live)
		case *types.Basic:
			return intV(ex.load(loc).(StrV).Len())
		}
		ex.rtPanic("reflect: call of reflect.Value.Len on " + typeString(t) + " Value")
		return nil
	}
	m["Cap"] = func(ex *Exec, pk string, _ *ssa.Function, a []Value) Value {
		t, loc, _ := ex.rvalMust(a[0], "Cap")
		switch u := t.Underlying().(type) {
		case *types.Array:
			return intV(int(u.Len()))
		case *types.Slice:
			return intV(ex.load(loc).(SliceV).cp)
		}
		ex.rtPanic("reflect: call of reflect.Value.Cap on " + typeString(t) + " Value")
		return nil
	}
	m["NumField"] = func(ex *Exec, pk string, _ *ssa.Function, a []Value) Value {
		t, _, _ := ex.rvalMust(a[0], "NumField")
		return intV(t.Underlying().(*types.Struct).NumFields())
	}
	m["Field"] = func(ex *Exec, pk string, _ *ssa.Function, a []Value) Value {
		t, loc, fl := ex.rvalMust(a[0], "Field")
		st, ok := t.Underlying().(*types.Struct)
		if !ok {
			ex.rtPanic("reflect: call of reflect.Value.Field on " + typeString(t) + " Value")
		}
		i := ex.concInt(a[1], "Value.Field index")
		if i < 0 || i >= st.NumFields() {
			ex.rtPanic("reflect: Field index out of range")
		}
		sc := ex.loadRef(loc).(*Cont)
		nfl := fl & (rflagAddr | rflagStickyRO)
		if !st.Field(i).Exported() {
			if st.Field(i).Embedded() {
				nfl |= rflagEmbedRO
			} else {
				nfl |= rflagStickyRO
			}
		}
		return ex.mkRValue(pk, st.Field(i).Type(), Ptr{c: sc, i: i}, nfl)
	}
	m["Index"] = func(ex *Exec, pk string, _ *ssa.Function, a []Value) Value {
		t, loc, fl := ex.rvalMust(a[0], "Index")
		i := ex.concInt(a[1], "Value.Index")
		switch u := t.Underlying().(type) {
		case *types.Slice:
			s := ex.load(loc).(SliceV)
			if i < 0 || i >= s.ln {
				ex.rtPanic("reflect: slice index out of range")
			}
			return ex.mkRValue(pk, u.Elem(), Ptr{c: s.c, i: s.off + i}, rflagAddr|rro(fl))
		case *types.Array:
			arr := ex.loadRef(loc).(*Cont)
			if i < 0 || i >= len(arr.v) {
				ex.rtPanic("reflect: array index out of range")
			}
			return ex.mkRValue(pk, u.Elem(), Ptr{c: arr, i: i}, fl&rflagAddr|rro(fl))
		case *types.Basic:
			s := ex.load(loc).(StrV)
			if i < 0 || i >= s.Len() {
				ex.rtPanic("reflect: string index out of range")
			}
			return ex.mkRValue(pk, types.Typ[types.Uint8], ex.newObj(s.At(i)), rro(fl))
		}
		ex.rtPanic("reflect: call of reflect.Value.Index on " + typeString(t) + " Value")
		return nil
	}
	m["SetLen"] = func(ex *Exec, pk string, _ *ssa.Function, a []Value) Value {
		_, loc, fl := ex.rvalMust(a[0], "SetLen")
		if fl&rflagAddr == 0 {
			ex.rtPanic("reflect: reflect.Value.SetLen using unaddressable value")
		}
		s := ex.load(loc).(SliceV)
		n := ex.concInt(a[1], "SetLen")
		if n < 0 || n > s.cp {
			ex.rtPanic("reflect: slice length out of range in SetLen")
		}
		s.ln = n
		ex.store(loc, s)
		return nil
	}
	m["SetCap"] = func(ex *Exec, pk string, _ *ssa.Function, a []Value) Value {
		_, loc, _ := ex.rvalMust(a[0], "SetCap")
		s := ex.load(loc).(SliceV)
		n := ex.concInt(a[1], "SetCap")
		if n < s.ln || n > s.cp {
			ex.rtPanic("reflect: slice capacity out of range in SetCap")
		}
		s.cp = n
		ex.store(loc, s)
		return nil
	}
	m["Grow"] = func(ex *Exec, pk string, _ *ssa.Function, a []Value) Value {
		t, loc, fl := ex.rvalMust(a[0], "Grow")
		if fl&rflagAddr == 0 {
			ex.rtPanic("reflect: reflect.Value.Grow using unaddressable value")
		}
		s := ex.load(loc).(SliceV)
		n := ex.concInt(a[1], "Grow")
		if n < 0 {
			ex.rtPanic("reflect.Value.Grow: negative len")
		}
		if s.ln+n > s.cp {
			et := t.Underlying().(*types.Slice).Elem()
			ncap := ex.growCap(s.cp, s.ln+n, et)
			ns := ex.makeSlice(et, s.ln, ncap)
			if s.ln > 0 {
				oc := ex.rd(s.c)
				for i := 0; i < s.ln; i++ {
					ns.c.v[i] = ex.copyVal(oc.v[s.off+i])
				}
			}
			ex.store(loc, ns)
		}
		return nil
	}
	m["Slice"] = func(ex *Exec, pk string, _ *ssa.Function, a []Value) Value {
		t, loc, fl := ex.rvalMust(a[0], "Slice")
		i, j := ex.concInt(a[1], "Slice i"), ex.concInt(a[2], "Slice j")
		switch u := t.Underlying().(type) {
		case *types.Slice:
			s := ex.load(loc).(SliceV)
			if i < 0 || j < i || j > s.cp {
				ex.rtPanic("reflect.Value.Slice: slice index out of bounds")
			}
			return ex.mkRValue(pk, t, ex.newObj(SliceV{c: s.c, off: s.off + i, ln: j - i, cp: s.cp - i}), rro(fl))
		case *types.Array:
			if fl&rflagAddr == 0 {
				ex.rtPanic("reflect.Value.Slice: slice of unaddressable array")
			}
			arr := ex.loadRef(loc).(*Cont)
			if i < 0 || j < i || j > len(arr.v) {
				ex.rtPanic("reflect.Value.Slice: slice index out of bounds")
			}
			return ex.mkRValue(pk, types.NewSlice(u.Elem()), ex.newObj(SliceV{c: arr, off: i, ln: j - i, cp: len(arr.v) - i}), rro(fl))
		case *types.Basic:
			s := ex.load(loc).(StrV)
			return ex.mkRValue(pk, t, ex.newObj(s.Sub(i, j)), rro(fl))
		}
		ex.rtPanic("reflect: call of reflect.Value.Slice on " + typeString(t) + " Value")
		return nil
	}
	m["Clear"] = func(ex *Exec, pk string, _ *ssa.Function, a []Value) Value {
		t, loc, _ := ex.rvalMust(a[0], "Clear")
		switch u := t.Underlying().(type) {
		case *types.Map:
			if mm, _ := ex.load(loc).(*MapV); mm != nil {
				w := ex.mapW(mm)
				w.ents, w.index, w.live = nil, map[string]int{}, 0
			}
		case *types.Slice:
			s := ex.load(loc).(SliceV)
			if s.ln > 0 {
				c := ex.wr(s.c)
				for i := 0; i < s.ln; i++ {
					c.v[s.off+i] = zero(u.Elem())
				}
			}
		default:
			ex.rtPanic("reflect: call of reflect.Value.Clear on " + typeString(t) + " Value")
		}
		return nil
	}
	m["MapIndex"] = func(ex *Exec, pk string, _ *ssa.Function, a []Value) Value {
		t, loc, fl := ex.rvalMust(a[0], "MapIndex")
		mt := t.Underlying().(*types.Map)
		mm, _ := ex.load(loc).(*MapV)
		_, kloc, _ := ex.rvalMust(a[1], "MapIndex key")
		if mm != nil {
			if i := ex.mapFind(mm, ex.load(kloc)); i >= 0 {
				return ex.mkRValue(pk, mt.Elem(), ex.newObj(ex.copyVal(ex.mapR(mm).ents[i].v)), rro(fl))
			}
		}
		return zero(valueStructType(ex.eng, pk))
	}
	m["SetMapIndex"] = func(ex *Exec, pk string, _ *ssa.Function, a []Value) Value {
		t, loc, _ := ex.rvalMust(a[0], "SetMapIndex")
		mt := t.Underlying().(*types.Map)
		mm, _ := ex.load(loc).(*MapV)
		_, kloc, _ := ex.rvalMust(a[1], "SetMapIndex key")
		key := ex.load(kloc)
		et, eloc, _, ok := ex.rvalParts(a[2].(*Cont))
		if !ok {
			ex.mapDelete(mm, key)
			return nil
		}
		if mm == nil {
			ex.rtPanic("assignment to entry in nil map")
		}
		val := ex.load(eloc)
		if _, isIface := mt.Elem().Underlying().(*types.Interface); isIface {
			if _, srcIface := et.Underlying().(*types.Interface); !srcIface {
				val = IfaceV{t: et, v: val}
			}
		}
		ex.mapSet(mm, key, val)
		return nil
	}
	m["MapRange"] = func(ex *Exec, pk string, _ *ssa.Function, a []Value) Value {
		t, loc, _ := ex.rvalMust(a[0], "MapRange")
		mt, ok := t.Underlying().(*types.Map)
		if !ok {
			ex.rtPanic("reflect: call of reflect.Value.MapRange on " + typeString(t) + " Value")
		}
		mm, _ := ex.load(loc).(*MapV)
		obj := zero(ex.eng.refl.mapIterT).(*Cont)
		p := ex.newObj(obj)
		ex.mapIters[ex.loadRef(p).(*Cont)] = &mapIterSt{m: mm, mt: mt, cur: -1}
		return p
	}
	m["SetIterKey"] = func(ex *Exec, pk string, _ *ssa.Function, a []Value) Value {
		_, loc, _ := ex.rvalMust(a[0], "SetIterKey")
		st := ex.mapIterState(a[1].(Ptr))
		ex.store(loc, ex.copyVal(ex.mapR(st.m).ents[st.cur].k))
		return nil
	}
	m["SetIterValue"] = func(ex *Exec, pk string, _ *ssa.Function, a []Value) Value {
		_, loc, _ := ex.rvalMust(a[0], "SetIterValue")
		st := ex.mapIterState(a[1].(Ptr))
		ex.store(loc, ex.copyVal(ex.mapR(st.m).ents[st.cur].v))
		return nil
	}
	m["UnsafePointer"] = func(ex *Exec, pk string, _ *ssa.Function, a []Value) Value {
		t, loc, _ := ex.rvalMust(a[0], "UnsafePointer")
		switch t.Underlying().(type) {
		case *types.Pointer:
			return ex.load(loc)
		case *types.Slice:
			s := ex.load(loc).(SliceV)
			if s.c == nil {
				return Ptr{}
			}
			return Ptr{c: s.c, i: s.off}
		case *types.Map:
			mm, _ := ex.load(loc).(*MapV)
			if mm == nil {
				return Ptr{}
			}
			// identity of the map object
			if ex.mapIdent == nil {
				ex.mapIdent = map[*MapV]*Cont{}
			}
			c := ex.mapIdent[mm]
			if c == nil {
				c = &Cont{v: []Value{unit{}}}
				ex.mapIdent[mm] = c
			}
			return Ptr{c: c}
		}
		panic(Unsupported{"reflect.Value.UnsafePointer on " + typeString(t)})
	}
	m["Convert"] = func(ex *Exec, pk string, _ *ssa.Function, a []Value) Value {
		t, loc, fl := ex.rvalMust(a[0], "Convert")
		dt := ex.rtypeOf(a[1])
		val := ex.load(loc)
		if _, isIface := dt.Underlying().(*types.Interface); isIface {
			if _, srcIface := t.Underlying().(*types.Interface); !srcIface {
				val = IfaceV{t: t, v: val}
			}
			return ex.mkRValue(pk, dt, ex.newObj(val), rro(fl))
		}
		return ex.mkRValue(pk, dt, ex.newObj(ex.conv(dt, t, val)), rro(fl))
	}
	m["Comparable"] = func(ex *Exec, pk string, _ *ssa.Function, a []Value) Value {
		t, _, _ := ex.rvalMust(a[0], "Comparable")
		return Bool(types.Comparable(t))
	}
	m["NumMethod"] = func(ex *Exec, pk string, _ *ssa.Function, a []Value) Value {
		t, _, _ := ex.rvalMust(a[0], "NumMethod")
		if it, ok := t.Underlying().(*types.Interface); ok {
			return intV(it.NumMethods())
		}
		ms := types.NewMethodSet(t)
		n := 0
		for i := 0; i < ms.Len(); i++ {
			if ms.At(i).Obj().Exported() {
				n++
			}
		}
		return intV(n)
	}
	m["Equal"] = func(ex *Exec, pk string, _ *ssa.Function, a []Value) Value {
		_, _, _, ok1 := ex.rvalParts(a[0].(*Cont))
		_, _, _, ok2 := ex.rvalParts(a[1].(*Cont))
		if !ok1 || !ok2 {
			return Bool(ok1 == ok2)
		}
		t, loc, _ := ex.rvalMust(a[0], "Equal")
		t2, loc2, _ := ex.rvalMust(a[1], "Equal")
		// interfaces are compared by their dynamic content
		if _, isI := t.Underlying().(*types.Interface); isI {
			iv := ex.load(loc).(IfaceV)
			if iv.t == nil {
				return Bool(false)
			}
			t, loc = iv.t, ex.newObj(iv.v)
		}
		if _, isI := t2.Underlying().(*types.Interface); isI {
			iv := ex.load(loc2).(IfaceV)
			if iv.t == nil {
				return Bool(false)
			}
			t2, loc2 = iv.t, ex.newObj(iv.v)
		}
		if !types.Identical(t, t2) {
			return termFalse
		}
		return ex.equals(t, ex.load(loc), ex.load(loc2))
	}
}
