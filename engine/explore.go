package main

import (
	"fmt"
	"math/big"
	"sort"
	"strings"
	"sync"
	"sync/atomic"

	"golang.org/x/tools/go/ssa"
)

type Decision struct {
	Taken  bool
	Forced bool
	Val    uint64
}

type Draw struct {
	Name string
	W    uint8
	T    *Term
}

type Obs struct {
	Name string
	V    Value
}

type Violation struct {
	Label    string
	Kind     string // assert | panic
	Model    Assignment
	Msg      string
	KF       string // known-finding id when the violating input lies in a declared region
	Obs      map[string]string
	Stack    string
}

type PathResult struct {
	Kind       string // done | assume | panic | unsupported | budget | inconclusive | violation
	Msg        string
	Decisions  int
	Steps      int
	Violations []Violation
}

// Exec is the per-path execution state.
type Exec struct {
	eng *Engine
	f   *Factory
	sol *SolverClient
	run *Run

	shadow    map[*Cont]*Cont
	mapShadow map[*MapV]*MapV
	pc        []*Term
	pcSet     map[uint32]bool
	byteDom   map[uint16]*[4]uint64 // per variable of width <= 8: over-approximation of its feasible values under the PC
	prefix    []Decision
	pos       int
	trace     []Decision
	taken     int

	steps, stepLimit   int
	depth, depthLimit  int
	trackFuncs         bool
	funcsSeen          map[*ssa.Function]int

	draws      []Draw
	drawCount  map[string]int
	obs        []Obs
	covers     map[string]bool
	violations []Violation
	inconclusive int
	inStub     map[string]bool
	pools      map[*Cont][]Value
	poolPolicy int
	onceDone   map[*Cont]bool
	mapOrderNondet bool
	misuseDepth int
	syncMaps   map[*Cont]*MapV
	mapIters   map[*Cont]*mapIterSt
	mapIdent   map[*MapV]*Cont
	nameSeq    int
	curInstr   ssa.Instruction
	model      Assignment // satisfies the path condition once the prefix has been replayed
	evalMemo   map[uint32]uint64
}

type Run struct {
	eng     *Engine
	hub     *SolverHub
	entry   *ssa.Function
	args    []Value
	workers int

	mu       sync.Mutex
	cond     *sync.Cond
	work     []workItem
	inflight int
	stopped  bool

	StepLimit  int
	DepthLimit int
	MaxPaths   int64
	MaxViol    int

	// results
	Paths       int64
	Done        int64
	Assumed     int64
	Panics      int64
	Unsupported int64
	Budget      int64
	Inconcl     int64
	Transitions int64
	TotalSteps  int64
	resMu       sync.Mutex
	Violations  []Violation
	KnownHits   map[string]Violation
	KnownCount  map[string]int
	UnsupMsgs   map[string]int
	PanicMsgs   map[string]int
	Covers      map[string]int64
	Funcs       map[*ssa.Function]int
	Samples     []PathSample
	Mass        *big.Int // model-count certificate accumulator
	MassOK      bool
	MassBits    int
	KnownIDs    map[string]bool
	OpaqueFns   map[string]bool
	sampleEvery int64
	SampleCap   int
	Seed        int64
	Aborted     string
}

type PathSample struct {
	Model Assignment
	Obs   map[string]string
	Kind  string
	Draws []string
}

// ---------------------------------------------------------------------------
// path condition, slicing, feasibility

func (ex *Exec) addPC(c *Term) {
	if c.op == OpConst {
		if c.c == 0 {
			panic(PathEnd{"infeasible", "false added to path condition"})
		}
		return
	}
	if c.op == OpBAnd {
		ex.addPC(c.a)
		ex.addPC(c.b)
		return
	}
	if ex.pcSet[c.id] {
		return
	}
	ex.pcSet[c.id] = true
	ex.pc = append(ex.pc, c)
	ex.refineByteDom(c)
}

// singleByteVar returns the only variable of c when it has exactly one and that one is at
// most 8 bits wide.
func (ex *Exec) singleByteVar(c *Term) (uint16, bool) {
	vs := ex.f.Vars(c)
	if len(vs) != 1 || ex.f.vars[vs[0]].W > 8 || ex.f.vars[vs[0]].W == 0 {
		return 0, false
	}
	return vs[0], true
}

// refineByteDom narrows the value set of a byte-wide variable by a constraint that mentions
// only that variable (exact evaluation of the constraint on each remaining value).
func (ex *Exec) refineByteDom(c *Term) {
	v, ok := ex.singleByteVar(c)
	if !ok {
		return
	}
	info := ex.f.vars[v]
	d := ex.byteDom[v]
	if d == nil {
		d = new([4]uint64)
		for x := uint64(0); x <= mask(info.W) && x < 256; x++ {
			d[x>>6] |= 1 << (x & 63)
		}
		ex.byteDom[v] = d
	}
	asg := Assignment{info.Name: 0}
	for x := uint64(0); x < 256; x++ {
		if d[x>>6]&(1<<(x&63)) == 0 {
			continue
		}
		asg[info.Name] = x
		if ex.f.Eval(c, asg, map[uint32]uint64{}) == 0 {
			d[x>>6] &^= 1 << (x & 63)
		}
	}
}

// byteDomDecides evaluates a condition over one byte-wide variable on every value the
// variable can still take: (true, v) when all agree on v. Sound because the value set
// over-approximates the feasible values under the path condition.
func (ex *Exec) byteDomDecides(c *Term) (decided, val bool) {
	v, ok := ex.singleByteVar(c)
	if !ok {
		return false, false
	}
	d := ex.byteDom[v]
	if d == nil {
		return false, false
	}
	info := ex.f.vars[v]
	asg := Assignment{info.Name: 0}
	seenT, seenF := false, false
	for x := uint64(0); x < 256; x++ {
		if d[x>>6]&(1<<(x&63)) == 0 {
			continue
		}
		asg[info.Name] = x
		if ex.f.Eval(c, asg, map[uint32]uint64{}) != 0 {
			seenT = true
		} else {
			seenF = true
		}
		if seenT && seenF {
			return false, false
		}
	}
	if seenT == seenF { // empty set: leave it to the solver
		return false, false
	}
	return true, seenT
}

// slice returns the constraints of the path condition that (transitively) share variables with c.
func (ex *Exec) pcSlice(c *Term) []*Term {
	f := ex.f
	vs := f.Vars(c)
	if len(vs) == 0 {
		return nil
	}
	in := map[uint16]bool{}
	for _, v := range vs {
		in[v] = true
	}
	used := make([]bool, len(ex.pc))
	var out []*Term
	for changed := true; changed; {
		changed = false
		for i, p := range ex.pc {
			if used[i] {
				continue
			}
			pv := f.Vars(p)
			hit := false
			for _, v := range pv {
				if in[v] {
					hit = true
					break
				}
			}
			if hit {
				used[i] = true
				out = append(out, p)
				for _, v := range pv {
					if !in[v] {
						in[v] = true
						changed = true
					}
				}
			}
		}
	}
	return out
}

func (ex *Exec) feasible(c *Term) Verdict {
	if c.op == OpConst {
		if c.c != 0 {
			return Sat
		}
		return Unsat
	}
	q := append(ex.pcSlice(c), c)
	r := ex.sol.Check(q, false, false)
	return r.V
}

func (ex *Exec) decide(c *Term, site ssa.Instruction) bool {
	return ex.decideV(c, 0)
}

// holds evaluates a Bool term under the path's witness model.
func (ex *Exec) holds(c *Term) bool {
	return ex.f.Eval(c, ex.model, map[uint32]uint64{}) != 0
}

// checkSide decides feasibility of PC ∧ c; on Sat the returned model covers c's slice.
func (ex *Exec) checkSide(c *Term) (Verdict, Assignment) {
	if c.op == OpConst {
		if c.c != 0 {
			return Sat, nil
		}
		return Unsat, nil
	}
	q := append(ex.pcSlice(c), c)
	r := ex.sol.Check(q, true, false)
	return r.V, r.Model
}

func mergeModel(base, over Assignment) Assignment {
	m := make(Assignment, len(base)+len(over))
	for k, v := range base {
		m[k] = v
	}
	for k, v := range over {
		m[k] = v
	}
	return m
}

func (ex *Exec) decideV(c *Term, val uint64) bool {
	if c.op == OpConst {
		return c.c != 0
	}
	if ex.eng.inInit {
		panic(Unsupported{"symbolic branch during package initialisation"})
	}
	f := ex.f
	if ex.pos < len(ex.prefix) {
		d := ex.prefix[ex.pos]
		ex.pos++
		ex.trace = append(ex.trace, d)
		if !d.Forced {
			ex.taken++
			if d.Taken {
				ex.addPC(c)
			} else {
				ex.addPC(f.Not(c))
			}
		}
		return d.Taken
	}
	nc := f.Not(c)
	// syntactic entailment: the condition (or its negation) is already a conjunct of the PC
	if ex.pcSet[c.id] {
		ex.trace = append(ex.trace, Decision{Taken: true, Forced: true, Val: val})
		ex.prefix, ex.pos = ex.trace, len(ex.trace)
		return true
	}
	if ex.pcSet[nc.id] {
		ex.trace = append(ex.trace, Decision{Taken: false, Forced: true, Val: val})
		ex.prefix, ex.pos = ex.trace, len(ex.trace)
		return false
	}
	// a condition over a single byte-wide variable whose remaining values all agree
	if ok, v := ex.byteDomDecides(c); ok {
		ex.trace = append(ex.trace, Decision{Taken: v, Forced: true, Val: val})
		ex.prefix, ex.pos = ex.trace, len(ex.trace)
		return v
	}
	// the witness model of the path condition settles one side without a query;
	// the solver decides the other side.
	mT := ex.holds(c)
	var other *Term
	if mT {
		other = nc
	} else {
		other = c
	}
	v, m2 := ex.checkSide(other)
	if v == Unknown {
		ex.inconclusive++
	}
	if v == Unsat {
		ex.trace = append(ex.trace, Decision{Taken: mT, Forced: true, Val: val})
		ex.prefix, ex.pos = ex.trace, len(ex.trace)
		return mT
	}
	// both sides feasible (or the other side undecided: explored, flagged inconclusive)
	otherModel := mergeModel(ex.model, m2)
	alt := make([]Decision, len(ex.trace)+1)
	copy(alt, ex.trace)
	alt[len(ex.trace)] = Decision{Taken: false, Val: val}
	if mT {
		ex.run.push(alt, otherModel)
	} else {
		ex.run.push(alt, ex.model)
		ex.model = otherModel
	}
	ex.trace = append(ex.trace, Decision{Taken: true, Val: val})
	ex.prefix, ex.pos = ex.trace, len(ex.trace)
	ex.taken++
	ex.addPC(c)
	return true
}

// concretize forks over the feasible values of t and returns the value of this path.
func (ex *Exec) concretize(t *Term, why string) uint64 {
	if t.op == OpConst {
		return t.c
	}
	f := ex.f
	for n := 0; ; n++ {
		if n > 4096 {
			panic(Unsupported{"concretize: too many values for " + why})
		}
		var v uint64
		if ex.pos < len(ex.prefix) {
			v = ex.prefix[ex.pos].Val
		} else {
			// the witness model of the path condition supplies a feasible value
			v = f.Eval(t, ex.model, map[uint32]uint64{})
		}
		if ex.decideV(f.Eq(t, Const(v, t.w)), v) {
			return v
		}
	}
}

func (ex *Exec) nondetPerm(n int) []int {
	// symbolic permutation chosen by successive Choice draws (forked)
	perm := make([]int, 0, n)
	rest := make([]int, n)
	for i := range rest {
		rest[i] = i
	}
	for len(rest) > 0 {
		k := 0
		if len(rest) > 1 {
			ex.nameSeq++
			t := ex.drawVar(fmt.Sprintf("_perm%d", ex.nameSeq), 8)
			ex.addAssume(ex.f.Cmp(OpULt, t, Const(uint64(len(rest)), 8)))
			k = int(ex.concretize(t, "map order"))
		}
		perm = append(perm, rest[k])
		rest = append(rest[:k], rest[k+1:]...)
	}
	return perm
}

func (ex *Exec) addAssume(c *Term) {
	if c.op == OpConst {
		if c.c == 0 {
			panic(PathEnd{"assume", "assumption false"})
		}
		return
	}
	if ex.pos < len(ex.prefix) {
		// replaying: feasibility was established when this prefix was created
		ex.addPC(c)
		return
	}
	if ex.holds(c) {
		ex.addPC(c)
		return
	}
	v, m2 := ex.checkSide(c)
	if v == Unsat {
		panic(PathEnd{"assume", "assumption infeasible"})
	}
	if v == Unknown {
		ex.inconclusive++
	} else {
		ex.model = mergeModel(ex.model, m2)
	}
	ex.addPC(c)
}

func (ex *Exec) drawVar(name string, w uint8) *Term {
	k := ex.drawCount[name]
	ex.drawCount[name] = k + 1
	full := name
	if k > 0 {
		full = fmt.Sprintf("%s#%d", name, k)
	}
	t := ex.f.Var(full, w)
	ex.draws = append(ex.draws, Draw{full, w, t})
	return t
}

// fullModel returns a model of the whole path condition (plus extra).
func (ex *Exec) fullModel(extra ...*Term) (Assignment, Verdict) {
	q := make([]*Term, 0, len(ex.pc)+len(extra)+len(ex.draws))
	q = append(q, ex.pc...)
	q = append(q, extra...)
	r := ex.sol.Check(q, true, false)
	if r.V != Sat {
		return nil, r.V
	}
	m := Assignment{}
	for k, v := range r.Model {
		m[k] = v
	}
	// unconstrained draws default to zero
	for _, d := range ex.draws {
		if _, ok := m[d.Name]; !ok {
			m[d.Name] = 0
		}
	}
	return m, Sat
}

// ---------------------------------------------------------------------------
// assertions

func (ex *Exec) assert(label string, cond *Term, kf string, inRegion bool) {
	f := ex.f
	if cond.op == OpConst && cond.c != 0 {
		return
	}
	ncond := f.Not(cond)
	var model Assignment
	if cond.op == OpConst {
		m, v := ex.fullModel()
		if v != Sat {
			if v == Unknown {
				ex.inconclusive++
			}
			// path condition unsat: cannot happen under the invariant; treat as inconclusive
			panic(PathEnd{"inconclusive", "assert: no model for path condition"})
		}
		model = m
	} else {
		q := append(ex.pcSlice(ncond), ncond)
		r := ex.sol.Check(q, false, true)
		if r.V == Unsat {
			ex.addPC(cond)
			return
		}
		if r.V == Unknown {
			ex.inconclusive++
			panic(PathEnd{"inconclusive", "assert " + label + ": solver unknown"})
		}
		m, v := ex.fullModel(ncond)
		if v != Sat {
			ex.inconclusive++
			panic(PathEnd{"inconclusive", "assert " + label + ": no full model"})
		}
		model = m
	}
	viol := Violation{Label: label, Kind: "assert", Model: model, Obs: ex.evalObs(model)}
	if kf != "" && inRegion {
		viol.KF = kf
	}
	ex.violations = append(ex.violations, viol)
	panic(PathEnd{"violation", "assertion " + label + " violated"})
}

func (ex *Exec) evalObs(m Assignment) map[string]string {
	out := map[string]string{}
	memo := map[uint32]uint64{}
	cnt := map[string]int{}
	for _, o := range ex.obs {
		k := cnt[o.Name]
		cnt[o.Name] = k + 1
		name := o.Name
		if k > 0 {
			name = fmt.Sprintf("%s#%d", o.Name, k)
		}
		out[name] = ex.showVal(o.V, m, memo)
	}
	return out
}

func (ex *Exec) showVal(v Value, m Assignment, memo map[uint32]uint64) string {
	f := ex.f
	switch v := v.(type) {
	case *Term:
		x := f.Eval(v, m, memo)
		if v.w == 0 {
			if x != 0 {
				return "true"
			}
			return "false"
		}
		return fmt.Sprintf("%d", x)
	case StrV:
		var sb strings.Builder
		for _, b := range v.Bytes() {
			fmt.Fprintf(&sb, "%02x", f.Eval(b, m, memo))
		}
		return "x" + sb.String()
	case SliceV:
		var sb strings.Builder
		if v.ln > 0 {
			c := ex.rd(v.c)
			for i := 0; i < v.ln; i++ {
				if t, ok := c.v[v.off+i].(*Term); ok && t.w == 8 {
					fmt.Fprintf(&sb, "%02x", f.Eval(t, m, memo))
				} else {
					sb.WriteString("[" + ex.showVal(c.v[v.off+i], m, memo) + "]")
				}
			}
		}
		return "x" + sb.String()
	case IfaceV:
		if v.t == nil {
			return "nil"
		}
		return ex.showVal(v.v, m, memo)
	case FloatV:
		if v.t == nil {
			return fmt.Sprintf("f%016x", fToBits(v.f, 64))
		}
		return fmt.Sprintf("f%016x", fToBits(bitsToF(f.Eval(v.t, m, memo), v.bits), 64))
	}
	return fmt.Sprintf("?%T", v)
}

// ---------------------------------------------------------------------------
// worklist

type workItem struct {
	prefix []Decision
	model  Assignment
}

func (r *Run) push(p []Decision, m Assignment) {
	r.mu.Lock()
	r.work = append(r.work, workItem{p, m})
	r.mu.Unlock()
	r.cond.Signal()
}

func (r *Run) pop() (workItem, bool) {
	r.mu.Lock()
	defer r.mu.Unlock()
	for {
		if r.stopped {
			return workItem{}, false
		}
		if n := len(r.work); n > 0 {
			p := r.work[n-1]
			r.work = r.work[:n-1]
			r.inflight++
			return p, true
		}
		if r.inflight == 0 {
			r.stopped = true
			r.cond.Broadcast()
			return workItem{}, false
		}
		r.cond.Wait()
	}
}

func (r *Run) finish() {
	r.mu.Lock()
	r.inflight--
	if r.inflight == 0 && len(r.work) == 0 {
		r.stopped = true
		r.cond.Broadcast()
	}
	r.mu.Unlock()
}

func (r *Run) abort(why string) {
	r.mu.Lock()
	if r.Aborted == "" {
		r.Aborted = why
	}
	r.stopped = true
	r.cond.Broadcast()
	r.mu.Unlock()
}

func (r *Run) Explore() {
	r.cond = sync.NewCond(&r.mu)
	r.work = []workItem{{nil, Assignment{}}}
	r.KnownHits = map[string]Violation{}
	r.KnownCount = map[string]int{}
	r.UnsupMsgs = map[string]int{}
	r.PanicMsgs = map[string]int{}
	r.Covers = map[string]int64{}
	r.Funcs = map[*ssa.Function]int{}
	r.Mass = new(big.Int)
	r.MassOK = true
	var wg sync.WaitGroup
	for w := 0; w < r.workers; w++ {
		wg.Add(1)
		go func(w int) {
			defer wg.Done()
			f := NewFactory()
			sol := r.hub.NewClient(f)
			defer sol.Close()
			npaths := 0
			for {
				p, ok := r.pop()
				if !ok {
					return
				}
				npaths++
				if len(f.tab) > 2_000_000 {
					// bound memory: start a fresh factory (cache keys are structural, so still valid)
					f = NewFactory()
					sol.f = f
				}
				r.runPath(f, sol, p)
				r.finish()
				if r.MaxPaths > 0 && atomic.LoadInt64(&r.Paths) > r.MaxPaths {
					r.abort(fmt.Sprintf("path limit %d exceeded", r.MaxPaths))
				}
			}
		}(w)
	}
	wg.Wait()
}

func (r *Run) newExec(f *Factory, sol *SolverClient, prefix []Decision) *Exec {
	return &Exec{
		eng: r.eng, f: f, sol: sol, run: r,
		shadow: map[*Cont]*Cont{}, mapShadow: map[*MapV]*MapV{},
		pcSet: map[uint32]bool{}, byteDom: map[uint16]*[4]uint64{}, prefix: prefix,
		stepLimit: r.StepLimit, depthLimit: r.DepthLimit,
		drawCount: map[string]int{}, covers: map[string]bool{},
		inStub: map[string]bool{}, pools: map[*Cont][]Value{}, onceDone: map[*Cont]bool{},
		syncMaps: map[*Cont]*MapV{}, mapIters: map[*Cont]*mapIterSt{},
		trackFuncs: true, funcsSeen: map[*ssa.Function]int{},
	}
}

func (r *Run) runPath(f *Factory, sol *SolverClient, wi workItem) {
	ex := r.newExec(f, sol, wi.prefix)
	ex.model = wi.model
	if ex.model == nil {
		ex.model = Assignment{}
	}
	res := PathResult{Kind: "done"}
	func() {
		defer func() {
			if rec := recover(); rec != nil {
				switch p := rec.(type) {
				case PathEnd:
					res.Kind, res.Msg = p.kind, p.msg
				case Unsupported:
					res.Kind, res.Msg = "unsupported", p.msg
				case StepBudget:
					res.Kind = "budget"
				case TargetPanic:
					res.Kind = "panic"
					res.Msg = ex.panicMsg(p)
				default:
					// an engine fault (Go run-time panic inside the interpreter) ends the path as
					// unsupported with its location; it is never turned into a verdict
					res.Kind, res.Msg = "unsupported", fmt.Sprintf("ENGINE FAULT: %v%s", rec, ex.where())
				}
			}
		}()
		ex.call(nil, r.entry, append([]Value(nil), r.args...))
	}()
	atomic.AddInt64(&r.Paths, 1)
	atomic.AddInt64(&r.Transitions, int64(ex.taken))
	atomic.AddInt64(&r.TotalSteps, int64(ex.steps))
	if ex.inconclusive > 0 {
		atomic.AddInt64(&r.Inconcl, int64(ex.inconclusive))
	}
	var sample *PathSample
	switch res.Kind {
	case "done":
		n := atomic.AddInt64(&r.Done, 1)
		if r.SampleCap > 0 && (n <= int64(r.SampleCap) || pseudoPick(n, r.Seed, r.sampleEvery)) {
			// the path's witness model (maintained from solver models) is the sample
			m := Assignment{}
			for _, d := range ex.draws {
				m[d.Name] = ex.model[d.Name]
			}
			sample = &PathSample{Model: m, Obs: ex.evalObs(m), Kind: "done"}
		}
	case "assume", "infeasible":
		atomic.AddInt64(&r.Assumed, 1)
	case "panic":
		atomic.AddInt64(&r.Panics, 1)
		// an escaping panic is a (C20) violation candidate
		if m, v := ex.fullModel(); v == Sat {
			ex.violations = append(ex.violations, Violation{Label: "panic", Kind: "panic", Model: m, Msg: res.Msg, Obs: ex.evalObs(m)})
		} else {
			atomic.AddInt64(&r.Inconcl, 1)
		}
	case "unsupported":
		atomic.AddInt64(&r.Unsupported, 1)
	case "budget":
		atomic.AddInt64(&r.Budget, 1)
	case "inconclusive":
		atomic.AddInt64(&r.Inconcl, 1)
	case "violation":
	}
	r.resMu.Lock()
	defer r.resMu.Unlock()
	if res.Kind == "unsupported" {
		r.UnsupMsgs[res.Msg]++
	}
	if res.Kind == "panic" {
		r.PanicMsgs[res.Msg]++
	}
	if res.Kind == "done" {
		for c := range ex.covers {
			r.Covers[c]++
		}
	}
	for fn, n := range ex.funcsSeen {
		r.Funcs[fn] += n
	}
	if sample != nil && len(r.Samples) < 4*r.SampleCap+8 {
		r.Samples = append(r.Samples, *sample)
	}
	for _, v := range ex.violations {
		if v.KF != "" && r.KnownIDs[v.KF] {
			r.KnownCount[v.KF]++
			if _, ok := r.KnownHits[v.KF]; !ok {
				r.KnownHits[v.KF] = v
			}
			continue
		}
		if len(r.Violations) < r.MaxViol {
			r.Violations = append(r.Violations, v)
		}
	}
	// model-count certificate
	if r.MassOK {
		if mass, ok := ex.pathMass(); ok {
			r.Mass.Add(r.Mass, mass)
		} else {
			r.MassOK = false
		}
	}
}

func pseudoPick(n, seed, every int64) bool {
	if every <= 1 {
		return true
	}
	h := mix(uint64(n), uint64(seed)+0x51ed)
	return h%uint64(every) == 0
}

func (ex *Exec) panicMsg(p TargetPanic) string {
	if p.runtime {
		return "runtime error: " + p.msg
	}
	switch v := p.v.(type) {
	case IfaceV:
		if v.t == nil {
			return "panic(nil)"
		}
		if s, ok := v.v.(StrV); ok && s.IsConcrete() {
			return "panic: " + s.Concrete()
		}
		return "panic: value of type " + v.t.String()
	}
	return fmt.Sprintf("panic: %T", p.v)
}

// pathMass counts the assignments to the drawn variables that satisfy the path condition,
// when every constraint mentions exactly one variable of width <= 16.
func (ex *Exec) pathMass() (*big.Int, bool) {
	f := ex.f
	per := map[uint16][]*Term{}
	for _, c := range ex.pc {
		vs := f.Vars(c)
		if len(vs) != 1 {
			return nil, false
		}
		per[vs[0]] = append(per[vs[0]], c)
	}
	mass := big.NewInt(1)
	counted := map[string]bool{}
	for vi, cs := range per {
		info := f.vars[vi]
		if info.W > 16 {
			return nil, false
		}
		n := 0
		dom := uint64(1) << info.W
		if info.W == 0 {
			dom = 2
		}
		for x := uint64(0); x < dom; x++ {
			asg := Assignment{info.Name: x}
			memo := map[uint32]uint64{}
			ok := true
			for _, c := range cs {
				if f.Eval(c, asg, memo) == 0 {
					ok = false
					break
				}
			}
			if ok {
				n++
			}
		}
		mass.Mul(mass, big.NewInt(int64(n)))
		counted[info.Name] = true
	}
	// unconstrained draws of this path
	for _, d := range ex.draws {
		if counted[d.Name] {
			continue
		}
		counted[d.Name] = true
		w := uint(d.W)
		if d.W == 0 {
			w = 1
		}
		mass.Lsh(mass, w)
	}
	// draws never made on this path (path ended early) still belong to the input space:
	// the caller normalises with the declared total width.
	bitsDrawn := 0
	for _, d := range ex.draws {
		if d.W == 0 {
			bitsDrawn++
		} else {
			bitsDrawn += int(d.W)
		}
	}
	if ex.run.MassBits > 0 {
		if bitsDrawn > ex.run.MassBits {
			return nil, false
		}
		mass.Lsh(mass, uint(ex.run.MassBits-bitsDrawn))
	}
	return mass, true
}

func sortedKeys[V any](m map[string]V) []string {
	ks := make([]string, 0, len(m))
	for k := range m {
		ks = append(ks, k)
	}
	sort.Strings(ks)
	return ks
}
