package main

import (
	"fmt"
	"go/types"
	"os"
	"path/filepath"
	"sort"
	"strings"

	"golang.org/x/tools/go/packages"
	"golang.org/x/tools/go/ssa"
	"golang.org/x/tools/go/ssa/ssautil"
)

const repoMod = "github.com/go-json-experiment/json"

var stdInitAllow = []string{
	"unicode/utf8", "unicode/utf16", "unicode", "bytes", "strings", "strconv", "internal/strconv",
	"errors", "io", "math", "math/bits", "encoding/binary", "slices", "cmp", "encoding/json", "sort",
	"internal/bytealg", "internal/stringslite", "internal/itoa", "encoding", "maps", "iter",
	"encoding/base64", "encoding/base32", "encoding/hex", "internal/byteorder", "unique",
	"internal/godebug", "time",
}

type LoadConfig struct {
	RepoDir    string
	HarnessDir string // files under <HarnessDir>/root/<rel> overlay <RepoDir>/<rel>
	Extra      []string
}

func buildOverlay(cfg LoadConfig) (map[string][]byte, error) {
	ov := map[string][]byte{}
	var err error
	for _, hd := range strings.Split(cfg.HarnessDir, ":") {
		if hd == "" {
			continue
		}
		if err = overlayFrom(ov, cfg, filepath.Join(hd, "root")); err != nil {
			break
		}
	}
	return ov, err
}

func overlayFrom(ov map[string][]byte, cfg LoadConfig, root string) error {
	err := filepath.Walk(root, func(p string, info os.FileInfo, err error) error {
		if err != nil {
			return err
		}
		if info.IsDir() || !strings.HasSuffix(p, ".go") {
			return nil
		}
		if strings.HasSuffix(p, "_test.go") {
			return nil
		}
		rel, _ := filepath.Rel(root, p)
		b, err := os.ReadFile(p)
		if err != nil {
			return err
		}
		ov[filepath.Join(cfg.RepoDir, rel)] = b
		return nil
	})
	return err
}

func LoadEngine(cfg LoadConfig) (*Engine, error) {
	ov, err := buildOverlay(cfg)
	if err != nil {
		return nil, err
	}
	// pin the toolchain whose standard library is encoded (the same one runs the native replays)
	os.Setenv("PATH", "/opt/veriftools/go1.26.8/bin:"+os.Getenv("PATH"))
	os.Setenv("GOTOOLCHAIN", "local")
	os.Setenv("GOFLAGS", "-mod=mod")
	os.Setenv("GOPROXY", "off")
	env := os.Environ()
	pcfg := &packages.Config{Mode: packages.LoadAllSyntax, Dir: cfg.RepoDir, Overlay: ov, Env: env}
	pats := append([]string{"./..."}, cfg.Extra...)
	pkgs, err := packages.Load(pcfg, pats...)
	if err != nil {
		return nil, err
	}
	nerr := 0
	packages.Visit(pkgs, nil, func(p *packages.Package) {
		for _, e := range p.Errors {
			if nerr < 20 {
				fmt.Fprintln(os.Stderr, "load error:", e)
			}
			nerr++
		}
	})
	if nerr > 0 {
		return nil, fmt.Errorf("%d package load errors", nerr)
	}
	prog, _ := ssautil.AllPackages(pkgs, ssa.InstantiateGenerics)
	prog.Build()
	eng := &Engine{prog: prog, fset: prog.Fset, globals: map[*ssa.Global]*Cont{}, initPkgs: map[string]bool{}, stubs: map[string]*ssa.Function{}}
	eng.sizes = types.SizesFor("gc", "amd64")
	eng.initIntrinsics()
	eng.initReflect()
	if rt := prog.ImportedPackage("runtime"); rt != nil {
		if t := rt.Type("errorString"); t != nil {
			eng.rtErrType = t.Type()
		}
	}
	for _, pkg := range prog.AllPackages() {
		for _, m := range pkg.Members {
			if g, ok := m.(*ssa.Global); ok {
				eng.globals[g] = &Cont{v: []Value{zero(g.Type().Underlying().(*types.Pointer).Elem())}}
			}
		}
	}
	eng.registerStubs()
	if err := eng.runInits(); err != nil {
		return nil, err
	}
	return eng, nil
}

func (eng *Engine) allowInit(path string) bool {
	if path == repoMod || strings.HasPrefix(path, repoMod+"/") {
		return true
	}
	for _, p := range stdInitAllow {
		if p == path {
			return true
		}
	}
	return false
}

func (eng *Engine) runInits() error {
	// topological order over imports
	var order []*ssa.Package
	seen := map[*types.Package]bool{}
	var visit func(p *types.Package)
	visit = func(p *types.Package) {
		if seen[p] {
			return
		}
		seen[p] = true
		for _, imp := range p.Imports() {
			visit(imp)
		}
		if sp := eng.prog.Package(p); sp != nil {
			order = append(order, sp)
		}
	}
	all := eng.prog.AllPackages()
	sort.Slice(all, func(i, j int) bool { return all[i].Pkg.Path() < all[j].Pkg.Path() })
	for _, sp := range all {
		visit(sp.Pkg)
	}
	for _, sp := range order {
		if eng.allowInit(sp.Pkg.Path()) {
			eng.initPkgs[sp.Pkg.Path()] = true
		}
	}
	eng.inInit = true
	f := NewFactory()
	run := &Run{eng: eng, StepLimit: 1 << 40, DepthLimit: 100000}
	for _, sp := range order {
		if !eng.initPkgs[sp.Pkg.Path()] {
			continue
		}
		initFn := sp.Func("init")
		if initFn == nil {
			continue
		}
		ex := run.newExec(f, nil, nil)
		ex.trackFuncs = false
		var failure any
		func() {
			defer func() {
				if r := recover(); r != nil {
					failure = r
				}
			}()
			ex.callSSA(nil, initFn, nil, nil)
		}()
		if failure != nil {
			delete(eng.initPkgs, sp.Pkg.Path())
			switch p := failure.(type) {
			case Unsupported:
				eng.InitFailures = append(eng.InitFailures, fmt.Sprintf("init of %s: unsupported: %s", sp.Pkg.Path(), p.msg))
			case TargetPanic:
				eng.InitFailures = append(eng.InitFailures, fmt.Sprintf("init of %s: panic: %s", sp.Pkg.Path(), ex.panicMsg(p)))
			default:
				eng.InitFailures = append(eng.InitFailures, fmt.Sprintf("init of %s: engine fault: %v", sp.Pkg.Path(), failure))
			}
		}
	}
	eng.inInit = false
	seenF := map[any]bool{}
	for _, c := range eng.globals {
		freeze(c, seenF)
	}
	return nil
}

// FindFunc locates a package-level function by import-path suffix and name.
func (eng *Engine) FindFunc(pkgSuffix, name string) *ssa.Function {
	for _, p := range eng.prog.AllPackages() {
		path := p.Pkg.Path()
		if path == pkgSuffix || path == repoMod+"/"+pkgSuffix || (pkgSuffix == "." && path == repoMod) {
			if fn := p.Func(name); fn != nil {
				return fn
			}
		}
	}
	return nil
}

// registerStubs binds contract stubs written in Go (package zzverif/stubs) to the functions
// they replace. A stub function named  X_<pkg with / -> _>__<Func>  replaces <pkg>.<Func>;
// methods use an explicit table below.
func (eng *Engine) registerStubs() {
	sp := eng.prog.ImportedPackage(repoMod + "/internal/zzverif/stubs")
	if sp == nil {
		return
	}
	for name, m := range sp.Members {
		fn, ok := m.(*ssa.Function)
		if !ok || !strings.HasPrefix(name, "X_") {
			continue
		}
		rest := strings.TrimPrefix(name, "X_")
		i := strings.LastIndex(rest, "__")
		if i < 0 {
			continue
		}
		pkg := strings.ReplaceAll(rest[:i], "_", "/")
		eng.stubs[pkg+"."+rest[i+2:]] = fn
	}
}
