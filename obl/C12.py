"""Obligations for C12."""
import os
from oblib import ob

BOUNDS = {"quick": "", "thorough": ""}
ASSUMPTIONS = []

UTF8, DUP, PRES, CINT, CFLT, REORD, HTML, JS, SPCOL, SPCOM, MULTI = [1 << i for i in range(11)]


def obligations(tier):
    q = tier == "quick"
    L = []
    if os.environ.get("C12_PROBE"):
        import json
        a = json.loads(os.environ["C12_PROBE"])
        L.append(ob("probe", "jsontext", a[0], a[1:], covers=["accept"]))
        return L
    return L
