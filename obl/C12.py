"""Obligations for C12 (reformatting never changes meaning)."""
import os
from oblib import ob

BOUNDS = {
    "quick": "Value.Format / AppendFormat / Compact / Indent / Canonicalize on (a) every byte string of length <= 3 (full byte range), "
             "(b) every string of length 4-5 over the 27-character JSON alphabet Sigma24, (c) skeletons of objects/arrays with one nested level and "
             "1-5 free bytes (names, string contents, scalar values, lead/continuation bytes), each under groups of 2-8 boolean options chosen by "
             "the solver (AllowInvalidUTF8, AllowDuplicateNames, PreserveRawStrings, CanonicalizeRawInts/Floats, ReorderRawObjects, EscapeForHTML/JS, "
             "SpaceAfterColon/Comma, Multiline) and the indent settings {default, WithIndent(\" \"), WithIndentPrefix(\" \")+WithIndent(\"\\t\"), WithIndent(\"\")}. "
             "OUTSIDE: longer inputs, deeper nesting, option combinations not grouped together, WithByteLimit/WithDepthLimit; under CanonicalizeRaw* "
             "numbers with symbolic digits are restricted to integers of <= 15 digits other than -0 (no strconv work), re-spelled concrete numbers are "
             "only checked to stay numbers (their digits: C13 num table). 'Already formatted value is not rewritten' is checked as: the output is a "
             "fixed point (a same-bytes rewrite is not observable in sequential Go).",
    "thorough": "as quick with full-range length <= 4, Sigma24 length <= 6, larger option groups (all 11 options symbolic on length 1, 8 on length 2), "
                "more skeletons (three members, duplicate names with ReorderRawObjects, 3/4-byte UTF-8 names, \\\\u escapes). OUTSIDE: as quick.",
}
ASSUMPTIONS = [
    "sync.Pool of encoders/decoders/member slices modelled LIFO (pooled encoder state reused across the Format calls of one path)",
    "strconv.ParseFloat/AppendFloat executed on concrete literals only; symbolic digits are kept away from them by vrt.Assume (see bounds)",
]

UTF8, DUP, PRES, CINT, CFLT, REORD, HTML, JS, SPCOL, SPCOM, MULTI = [1 << i for i in range(11)]
ALL = 2047
P = "jsontext"


def obligations(tier):
    q = tier == "quick"
    L = []

    def fmt(tag, n, alpha, tmpl, on, off, sym, indent=0, covers=("accept", "reject")):
        L.append(ob("format/%s/on=%d/off=%d/sym=%d/indent=%d" % (tag, on, off, sym, indent), P, "VerifC12Format", [n, alpha, tmpl, on, off, sym, indent], covers=list(covers)))

    def app(tag, n, alpha, tmpl, on, sym, overlap):
        L.append(ob("append/%s/on=%d/sym=%d/overlap=%d" % (tag, on, sym, overlap), P, "VerifC12Append", [n, alpha, tmpl, on, 0, sym, 0, overlap], covers=["accept", "reject"]))

    def wrap(tag, n, alpha, tmpl, which, on=0, off=0, sym=0, indent=0, covers=("accept", "reject")):
        L.append(ob("%s/%s/on=%d/off=%d/sym=%d/indent=%d" % (("compact", "indent", "canonicalize")[which], tag, on, off, sym, indent), P, "VerifC12Wrap",
                    [n, alpha, tmpl, which, on, off, sym, indent], covers=list(covers)))

    # ---- fully symbolic inputs
    if q:
        fmt("full/n=1", 1, 0, "", 0, 0, UTF8 | DUP | PRES | CINT | CFLT | REORD | HTML | JS)
        fmt("full/n=2", 2, 0, "", 0, 0, UTF8 | DUP | PRES | HTML | JS)
        fmt("full/n=2", 2, 0, "", 0, 0, CINT | CFLT | REORD | SPCOM | MULTI)
        fmt("full/n=3", 3, 0, "", 0, 0, UTF8 | PRES | HTML)
        fmt("full/n=3", 3, 0, "", 0, 0, MULTI | SPCOM | DUP, indent=0)
        fmt("full/n=3", 3, 0, "", CINT | CFLT | REORD, 0, 0, indent=2)
        fmt("sigma24/n=4", 4, 1, "", 0, 0, MULTI | REORD)
        fmt("sigma24/n=5", 5, 1, "", 0, 0, 0)
    else:
        fmt("full/n=1", 1, 0, "", 0, 0, ALL)
        fmt("full/n=2", 2, 0, "", 0, 0, UTF8 | DUP | PRES | CINT | CFLT | REORD | HTML | JS)
        fmt("full/n=2", 2, 0, "", 0, 0, SPCOL | SPCOM | MULTI | REORD | PRES, indent=1)
        fmt("full/n=3", 3, 0, "", 0, 0, UTF8 | DUP | PRES | HTML | JS)
        fmt("full/n=3", 3, 0, "", 0, 0, CINT | CFLT | REORD | SPCOL | SPCOM | MULTI)
        for ind in (1, 2, 3):
            fmt("full/n=3", 3, 0, "", 0, 0, REORD | SPCOM, indent=ind)
        fmt("full/n=4", 4, 0, "", 0, 0, UTF8 | PRES)
        fmt("full/n=4", 4, 0, "", 0, 0, HTML | JS)
        fmt("full/n=4", 4, 0, "", CINT | CFLT | REORD | MULTI, 0, 0)
        fmt("sigma24/n=4", 4, 1, "", 0, 0, MULTI | REORD | DUP | PRES | SPCOM)
        fmt("sigma24/n=5", 5, 1, "", 0, 0, MULTI | REORD)
        fmt("sigma24/n=6", 6, 1, "", 0, 0, 0)
        fmt("sigma24/n=6", 6, 1, "", ALL, 0, 0)
    # ---- skeletons
    T = [('{"?":?,"?":[?]}', 0, 0, DUP | REORD, 0),
         ('[?,{"?":"?"}]', 0, 0, UTF8 | PRES | HTML | JS, 0),
         (' { "?" : ? , "?" : ? } ', REORD, 0, MULTI | SPCOL | SPCOM, 0),
         ('{"b?":1,"a?":2,"?":{}}', REORD | DUP | UTF8, 0, PRES, 0),
         ('[-0,1.50,1e2,12345678901234567890,"?"]', 0, 0, CINT | CFLT | PRES, 0),
         ('{"%E2%80?":"<?>"}', 0, 0, HTML | JS | PRES | UTF8, 0),
         ('[[?],{"?":{"?":[]}}]', 0, 0, MULTI | SPCOM, 1),
         ('{"\\u00??":1,"?":2}', 0, 0, DUP | REORD, 0),
         ('{"\\u00??":1,"?":2}', 0, 0, DUP | PRES, 0),
         ('{"a\\/?":1,"a/?":2}', 0, 0, DUP | PRES | REORD, 0)]
    if not q:
        T += [('{"?":?,"?":[?]}', 0, 0, DUP | REORD | UTF8 | PRES | MULTI, 0),
              ('{"?":1,"?":2,"?":3}', REORD, 0, DUP | UTF8 | PRES, 0),
              ('{"?":1,"??":2,"?":3}', REORD | DUP | UTF8 | PRES, 0, 0, 0),
              ('{"%EE??":[?],"%F0%90%80?":2}', REORD, 0, UTF8 | PRES, 0),
              ('["\\u????"]', 0, 0, PRES | UTF8, 0),
              ('{"\\uD8??\\uDC??":1}', 0, 0, PRES | UTF8, 0),
              ('[?,{"?":"?"}]', 0, 0, ALL & ~(CINT | CFLT | MULTI | SPCOL | SPCOM), 0),
              ('{"a":{"?":1,"?":[{"b":?}]},"b":-0}', REORD | CINT, 0, DUP | CFLT, 2),
              ('[1?,-?,?.5,1e?]', 0, 0, PRES | MULTI, 3),
              (' [ ? , { "?" : "?" } , ? ] ', 0, 0, MULTI | SPCOM | SPCOL | REORD, 0)]
    for i, (t, on, off, sym, ind) in enumerate(T):
        fmt("tmpl/%d" % i, 0, 0, t, on, off, sym, ind)
    # ---- AppendFormat
    for ov in (False, True):
        app("full/n=3" if q else "full/n=4", 3 if q else 4, 0, "", 0, UTF8 | DUP if q else UTF8, ov)
        app("tmpl/0", 0, 0, '{"?":?,"?":"?"}', 0, DUP | REORD | (0 if q else HTML | PRES), ov)
    if not q:
        app("sigma24/n=5", 5, 1, "", 0, MULTI | REORD, True)
    # ---- Compact / Indent / Canonicalize wrappers
    for which in (0, 1):
        wrap("full/n=3" if q else "full/n=4", 3 if q else 4, 0, "", which)
        wrap("sigma24/n=4" if q else "sigma24/n=5", 4 if q else 5, 1, "", which)
        wrap("tmpl/0", 0, 0, ' { "?" : [ ? , "?" ] , "?" : { } } ', which)
        wrap("tmpl/1", 0, 0, '[{"?":?,"?":?},"%C0?"]' if not q else '[{"?":?},"%C0?"]', which)
    wrap("full/n=3", 3, 0, "", 0, 0, 0, MULTI | UTF8 | (0 if q else PRES | SPCOL))
    wrap("full/n=3", 3, 0, "", 1, 0, 0, DUP | SPCOM | (0 if q else SPCOL | REORD))
    for ind in ((2,) if q else (1, 2, 3)):
        wrap("tmpl/2", 0, 0, '{"?":[?,{}],"?":{"a":[]}}', 1, 0, 0, 0, ind)
    wrap("full/n=3", 3, 0, "", 2, 0, 0, UTF8 | DUP)
    wrap("tmpl/3", 0, 0, '{"?":1, "?":"?"}' if q else '{"?":?, "?":"?"}', 2, 0, 0, DUP | (0 if q else CINT | UTF8))
    if not q:
        wrap("tmpl/4", 0, 0, ' [ {"?":?,"a":[?]} , 1 ] ', 1, 0, 0, SPCOM | MULTI, 1)
        wrap("tmpl/5", 0, 0, '{"??":1,"?":{"a":2}}', 2, 0, 0, DUP | UTF8)
    only = os.environ.get("VERIF_ONLY")  # development aid: run the obligations whose id contains this text
    if only:
        L = [o for o in L if only in o["id"]]
    return L
