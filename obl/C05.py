"""Obligations for C05."""
from oblib import ob

BOUNDS = {'quick': 'Inside: [typed] json.UnmarshalRead equals json.Unmarshal (success, value) for a first value (string literal, array, digits) of exactly 63/64/65/128 bytes (thorough: 62-66, 127-129, 256) followed by 1-2 symbolic bytes, over a reader that fills the buffer or delivers 1 (thorough: also 7) bytes per Read, with and without EOF together with the last bytes; the reader reports repeated Read calls with an empty buffer (non-termination) as a violation. UnmarshalDecode of two values over such a reader, the second (a string literal of 40/70/130 bytes with two symbolic letters) extending past the buffered data, with and without ReportErrorsWithLegacySemantics. [token level] a Decoder with buffer capacity 2, 3, 4, 8 (and the default 64) over a reader whose first 2-9 Read sizes are chosen by the solver (0..min(len(p),rest), never two empty reads in a row, optional EOF together with the last bytes; later reads deliver one byte), inputs = 2-3 fully symbolic bytes and templates up to 18 bytes with symbolic holes ([1,"?"], {"?":[?]} 3, 1{"a?":{, 1{"ab":{, 1 {"a":{"?":tru), 2-3 calls each chosen by the solver from ReadToken/ReadValue/SkipValue/PeekKind, compared call by call with a buffer-mode decoder over the whole input; one transient read error at a solver-chosen Read (ReadToken/ReadValue only); the resumption contract of ConsumeStringResumable / ConsumeNumberResumable for every cut point of templates incl. surrogate pairs. Outside: longer inputs and call sequences, more than one fault, typed UnmarshalRead/UnmarshalDecode (C03 route covers UnmarshalRead into any).', 'thorough': 'Same families (the thorough tier currently equals the quick tier plus more resumption templates).'}
ASSUMPTIONS = []


def obligations(tier):
    q = tier == "quick"
    L = []
    T = [("??", 2, 2, 9), ("???", 2, 2, 2), ("[1,\"?\"]", 3, 3, 2), (" {\"?\":[?]} 3", 4, 3, 2), ("1{\"a?\":{", 4, 2, 3),
         ("1{\"ab\":{", 64, 2, 2), ("1{\"a?\":?", 8, 2, 2), ("1 {\"a\":{\"?\":tru", 8, 2, 2)]
    for i, (t, c, k, sr) in enumerate(T):
        L.append(ob("chunk/t%d/cap=%d/calls=%d/symreads=%d" % (i, c, k, sr), "jsontext", "VerifC05Chunk", [t, c, k, sr], covers=["end"]))
    F = [("??", 2, 2, 2, 3), ("[1,\"?\"]", 3, 3, 1, 6), (" {\"?\":[?]} 3", 4, 3, 1, 8), ("1{\"a?\":?", 8, 2, 2, 4)]
    for i, (t, c, k, sr, mf) in enumerate(F):
        L.append(ob("fault/t%d/cap=%d/calls=%d/symreads=%d/faultAt<=%d" % (i, c, k, sr, mf), "jsontext", "VerifC05Fault", [t, c, k, sr, mf], covers=["end", "fault-seen"]))
    ST = ['"??"', '"\\u????"', '"\\uD8??\\uDC??"', '"\\ud83d\\ud???"', '"?\\??"'] if q else ['"??"', '"???"', '"\\u????"', '"\\uD8??\\uDC??"', '"\\ud83d\\ud???"', '"\\uD???\\u????"', '"?\\??"', '"\\u00??\\?"']
    for i, t in enumerate(ST):
        for v in (False, True):
            L.append(ob("resumeS/t%d/validate=%d" % (i, v), "internal/jsonwire", "VerifC05ResumeString", [t, v], covers=["resumed"], max_seconds=600))
    for i, t in enumerate(['????', '-?.?e?', '0???', '1e+??'] if q else ['????', '?????', '-?.?e?', '0???', '1e+??', '-0.?e-?']):
        L.append(ob("resumeN/t%d" % i, "internal/jsonwire", "VerifC05ResumeNumber", [t], covers=["resumed"], max_seconds=600))
    # typed entry point: UnmarshalRead == Unmarshal around the buffer boundaries; the reader polices empty-buffer polling
    for kind in ((0, 1) if q else (0, 1, 2)):
        for n in ((63, 64, 65, 128) if q else (62, 63, 64, 65, 66, 127, 128, 129, 256)):
            for tail in ("?", " ?") if q else ("?", " ?", "??"):
                for chunk in (0, 1) if q else (0, 1, 7):
                    for eof in (False, True):
                        if q and eof and n != 64:
                            continue
                        L.append(ob("unmarshalread/kind=%d/n=%d/tail=%s/chunk=%d/eof=%d" % (kind, n, tail.replace(" ", "_"), chunk, eof), ".", "VerifC05UnmarshalRead", [kind, n, tail, chunk, eof]))
    # UnmarshalDecode over a stream: a second value that extends past the buffered data, with and without the v1 pre-validation option
    for n in ((40, 70, 130) if q else (40, 60, 70, 130, 260)):
        for chunk in (0, 1):
            for legacy in (False, True):
                L.append(ob("decodestream/n=%d/chunk=%d/legacy=%d" % (n, chunk, legacy), ".", "VerifC05DecodeStream", [n, chunk, legacy], covers=["checked"]))
    return L
