"""Obligations for C17 (user-defined (un)marshalers: dispatch order and policing) and, with the
same harnesses, the adversarial-user-code clause of C02 (labels C02/user/...)."""
import os
import re
from oblib import ob

BOUNDS = {
    "quick": "Real Go types (int8 underneath) for 14 combinations of {MarshalJSONTo, MarshalJSON, AppendText, MarshalText} x {value, pointer receiver, absent} and 6 combinations of {UnmarshalJSONFrom, UnmarshalJSON, UnmarshalText}; every type at 15 marshal positions (top-level value/pointer, slice and array element, map value, map key, addressable field, field of a non-addressable struct, behind any, pointer field, nil pointers at 4 places) and 11 unmarshal positions (incl. nil pointer allocation, existing map entry, any holding a pointer), each twice (cold/warm caches), with MarshalJSONTo/UnmarshalJSONFrom skipping by plain or wrapped ErrUnsupported: exact call log, receiver value and output/stored value. Policing: MarshalJSONTo performs every sequence of <= 3 (some positions <= 2) encoder calls from {null, [, ], {, }, \"a\"} with errors swallowed, then returns nil / ErrUnsupported / wrapped ErrUnsupported / own error; MarshalJSON returns every 2-3 byte string (and templates with duplicate names, strings) with nil/error; AppendText/MarshalText return every 2-byte text (ill-formed UTF-8 included) incl. an AppendText that returns a fresh or shortened slice; UnmarshalJSONFrom performs every sequence of <= 2..5 decoder calls from {ReadToken, SkipValue, PeekKind, ReadValue} on fixed inputs; UnmarshalJSON/UnmarshalText receive inputs of 2 arbitrary bytes and templates. Options (4 symbolic booleans) seen through Encoder/Decoder.Options inside the call for Marshal/MarshalWrite/MarshalEncode and the Unmarshal trio; Reset inside the call. Function lists of <= 3 elements built from MarshalFunc/MarshalToFunc (UnmarshalFunc/UnmarshalFromFunc) on T, *T, an interface, an unrelated type, flat and nested joins, 4-5 symbolic behaviours per element, second call with warm per-list cache; functions on string/bool under any.",
    "thorough": "as quick, with all three MarshalerTo-first types at all scripted positions with <= 3 calls, raw values of 2 arbitrary bytes among the scripted encoder calls, MarshalJSON/UnmarshalJSON/UnmarshalText over all 3-byte inputs, texts of 3 bytes, longer decoder scripts.",
}
ASSUMPTIONS = [
    "reflect.Type/reflect.Value are the engine's go/types-backed environment model (engine/reflect.go); the harness replays natively verbatim",
    "the values are int8-based named types and the containers listed in BOUNDS; user code is a finite script alphabet (not arbitrary Go): calls on a retained coder after return, goroutines, and an AppendText that overwrites the bytes before len(b) are outside",
    "legacy (v1) options such as CallMethodsWithLegacySemantics are outside: default options plus AllowInvalidUTF8/AllowDuplicateNames/StringifyNumbers/Deterministic/RejectUnknownMembers",
    "known finding KF-C17-close-parent-container: assertions whose script closed a container of the caller are attributed to it",
]

NT = 14
NP = 15


def hasJ(spec):
    return any(spec[2 * i] == "J" and spec[2 * i + 1] != "o" for i in range(len(spec) // 2))


def obligations(tier):
    q = tier == "quick"
    only = os.environ.get("C17_ONLY")
    L = []
    # ---- marshal: order, receivers, nil pointers
    for t in range(NT):
        for p in range(NP):
            nil = p in (10, 11, 12, 13)
            cov = ["nil-pointer"] if nil else ["first"]
            if not nil and t in (0, 1, 8, 9, 10, 11, 12):
                cov.append("fell-through")
            L.append(ob("morder/t=%d/p=%d" % (t, p), ".", "VerifC17MOrder", [t, p], covers=cov, max_seconds=600, max_paths=200, sample=2))
    # ---- marshal: scripted MarshalJSONTo
    MTO_COV = ["one-value", "zero-values", "two-values", "left-open", "user-error", "skip", "unsupported-after-write"]
    if q:
        MTO = [(0, 0, 3), (0, 2, 3), (0, 3, 3), (0, 4, 2), (0, 6, 2), (0, 8, 2), (1, 0, 2), (1, 2, 3), (1, 3, 2), (12, 2, 2), (12, 8, 2), (12, 5, 2)]
    else:
        MTO = [(t, p, 3) for t in (0, 1, 12) for p in (0, 1, 2, 3, 4, 5, 6, 8, 9)]
    for t, p, k in MTO:
        L.append(ob("mto/t=%d/p=%d/k=%d" % (t, p, k), ".", "VerifC17MTo", [t, p, k, 0], covers=MTO_COV, max_seconds=900, max_paths=20000))
    for t, p, k, rl in ([(0, 2, 1, 2)] if q else [(0, 2, 1, 2), (1, 3, 1, 2), (12, 0, 1, 2), (0, 8, 1, 2), (0, 2, 2, 1), (1, 3, 2, 1)]):
        L.append(ob("mto/raw=%d/t=%d/p=%d/k=%d" % (rl, t, p, k), ".", "VerifC17MTo", [t, p, k, rl], covers=["one-value", "zero-values", "skip"], max_seconds=1200, max_paths=60000))
    # ---- marshal: scripted MarshalJSON
    for t, p in ((2, 0), (3, 2), (2, 8), (0, 3), (10, 6)):
        n = 2 if (q or p != 0) else 3
        L.append(ob("mj/t=%d/p=%d/n=%d" % (t, p, n), ".", "VerifC17MJ", [t, p, n, "", False, False], covers=["valid-raw", "invalid-raw", "error-returned"], max_seconds=900, max_paths=60000))
    MJT = [(3, 3, '{"?":0,"?":0}', False, False), (2, 2, '{"?":0,"?":0}', False, True), (2, 4, '"??"', False, False), (3, 0, '"??"', True, False), (2, 8, '"?" ', False, False)]
    if not q:
        MJT += [(11, 1, '[?,?]', False, False), (3, 9, '"\\\\??"', False, False)]
    for i, (t, p, tm, u, d) in enumerate(MJT):
        L.append(ob("mj/T%d/t=%d/p=%d" % (i, t, p), ".", "VerifC17MJ", [t, p, 0, tm, u, d], covers=["valid-raw", "error-returned"], max_seconds=900, max_paths=60000))
    # ---- marshal: scripted text methods
    n = 2 if q else 3
    for t, p, u in ((4, 0, False), (5, 2, False), (6, 3, False), (7, 8, False), (9, 4, False), (8, 6, True), (4, 8, True), (5, 3, True)):
        if not q and p not in (0, 8):
            n = 2
        L.append(ob("mtext/t=%d/p=%d/n=%d/utf8=%d" % (t, p, n, u), ".", "VerifC17MText", [t, p, n, 0, u], covers=["text-encoded", "error-returned"] + ([] if u else ["ill-formed-rejected"]), max_seconds=900, max_paths=60000))
    for t, p, m in ((4, 0, 1), (4, 2, 1), (5, 3, 1), (4, 8, 1), (4, 0, 2), (5, 2, 2), (9, 8, 2)):
        L.append(ob("textappend-contract/t=%d/p=%d/mode=%d" % (t, p, m), ".", "VerifC17MText", [t, p, 1 if q else 2, m, False], covers=["contract-violated"], max_seconds=900, max_paths=60000))
    # ---- marshal: options and Reset inside the call
    for t, p, api, r in ((0, 0, 0, False), (1, 2, 0, True), (0, 3, 1, True), (1, 4, 2, True), (12, 6, 2, False), (0, 8, 0, True), (1, 0, 1, False), (0, 2, 3, True), (1, 1, 3, False)):
        L.append(ob("mopts/t=%d/p=%d/api=%d/reset=%d" % (t, p, api, r), ".", "VerifC17MOpts", [t, p, api, r], covers=["done"] + (["reset-tried"] if r else []), max_seconds=900, max_paths=2000))
    # ---- marshal: function lists
    FS = [(0, 0, "TvTv", 0), (1, 2, "TvJv", 0), (13, 3, "JvTv", 0), (0, 4, "ToTvTp", 1), (1, 6, "TpTvJi", 0), (13, 8, "TiJpTv", 1),
          (1, 1, "TiTpTv", 1), (0, 10, "TpTi", 0), (1, 11, "JpTv", 0), (0, 12, "TiJv", 0), (1, 14, "TvJp", 0), (0, 5, "JoTpJv", 1), (13, 7, "TvTiTp", 0),
          (1, 9, "TpJi", 0), (0, 13, "JiTp", 0)]
    for t, p, spec, nest in FS:
        nil = p in (10, 11, 12, 13)
        L.append(ob("mfuncs/t=%d/p=%d/%s/nest=%d" % (t, p, spec, nest), ".", "VerifC17MFuncs", [t, p, spec, bool(nest)],
                    covers=([] if (not nil and hasJ(spec)) else ["all-skipped"]) + ([] if nil else ["function-decides", "error"]), max_seconds=900, max_paths=3000))
    for sh in range(4):
        for single in (False, True):
            L.append(ob("mfuncsany/shape=%d/single=%d" % (sh, single), ".", "VerifC17MFuncsAny", [sh, single], covers=["done"], max_seconds=900, max_paths=100))
    for sh in range(3):
        L.append(ob("ufuncsany/shape=%d" % sh, ".", "VerifC17UFuncsAny", [sh], covers=["done"], max_seconds=900, max_paths=100))
    # ---- unmarshal: order
    for t in range(6):
        for p in range(11):
            L.append(ob("uorder/t=%d/p=%d" % (t, p), ".", "VerifC17UOrder", [t, p], covers=["first"] + (["fell-through"] if t in (0, 3, 4) else []), max_seconds=600, max_paths=200, sample=2))
    # ---- unmarshal: scripted UnmarshalJSONFrom
    UF_COV = ["one-value", "zero-values", "user-error", "skip", "unsupported-after-read"]
    UF = [(0, 0, 2, 4, "7"), (3, 1, 3, 4, "[7,[]]"), (4, 2, 3, 4, '{"a":7}'), (0, 3, 3, 4, '"s"'), (3, 4, 2, 4, "7"), (4, 7, 2, 4, '"7"'), (0, 1, 4, 3, "[]"), (3, 11, 5, 2, "7")]
    if not q:
        UF += [(0, 9, 3, 4, "[7,[]]"), (4, 10, 3, 4, '{"a":7}'), (0, 11, 5, 3, "7"), (3, 5, 3, 4, "[[]]"), (0, 6, 3, 4, "7")]
    for t, p, k, a, x in UF:
        L.append(ob("ufrom/t=%d/p=%d/k=%d/a=%d/%s" % (t, p, k, a, x), ".", "VerifC17UFrom", [t, p, k, a, x], covers=UF_COV, max_seconds=900, max_paths=60000))
    # ---- unmarshal: UnmarshalJSON / UnmarshalText inputs
    for t, p, n, tm in ((1, 0, 2 if q else 3, ""), (0, 3, 2, ""), (1, 0, 0, ' "?" '), (1, 3, 0, "[?,?]")):
        L.append(ob("uj/t=%d/p=%d/n=%d/%s" % (t, p, n, tm), ".", "VerifC17UJ", [t, p, n, tm], covers=["called", "accepted"], max_seconds=900, max_paths=60000))
    for t, p, n, tm in ((2, 0, 2 if q else 3, ""), (4, 3, 2, ""), (2, 0, 0, '"\\\\??"'), (2, 7, 0, '"??"'), (4, 0, 0, "nul?")):
        L.append(ob("ut/t=%d/p=%d/n=%d/%s" % (t, p, n, tm), ".", "VerifC17UT", [t, p, n, tm], covers=["null"] if tm.startswith("nul") else ["called"], max_seconds=900, max_paths=60000))
    # ---- unmarshal: options, Reset, function lists
    for t, p, api, r in ((0, 0, 0, False), (3, 1, 0, True), (4, 2, 0, True), (0, 0, 1, True), (0, 0, 2, True), (0, 0, 3, True), (0, 4, 0, True), (0, 7, 0, False)):
        L.append(ob("uopts/t=%d/p=%d/api=%d/reset=%d" % (t, p, api, r), ".", "VerifC17UOpts", [t, p, api, r], covers=["done"] + (["reset-tried"] if r else []), max_seconds=900, max_paths=2000))
    UFS = [(0, 0, "TpTp", 0), (5, 1, "TpJp", 0), (0, 2, "JpTp", 0), (5, 3, "ToTiTp", 1), (0, 4, "TiJpTp", 0), (5, 5, "TpTiJo", 1), (0, 6, "TpJi", 0),
           (5, 7, "TiTp", 0), (0, 8, "TpJp", 0), (5, 9, "JoTpJi", 1), (0, 10, "TiTpTp", 1)]
    for t, p, spec, nest in UFS:
        L.append(ob("ufuncs/t=%d/p=%d/%s/nest=%d" % (t, p, spec, nest), ".", "VerifC17UFuncs", [t, p, spec, bool(nest)],
                    covers=([] if hasJ(spec) else ["all-skipped"]) + ["function-decides", "error"], max_seconds=900, max_paths=3000))
    if only:
        L = [o for o in L if re.match(only, o["id"])]
    return L
