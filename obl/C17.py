"""Obligations for C17 (user-defined (un)marshalers: dispatch order and policing) and the
adversarial-user-code clause of C02."""
import os
import re
from oblib import ob

BOUNDS = {"quick": "", "thorough": ""}
ASSUMPTIONS = []

NT = 14
NP = 15


def obligations(tier):
    q = tier == "quick"
    only = os.environ.get("C17_ONLY")
    L = []
    for t in range(NT):
        for p in range(NP):
            nil = p in (10, 11, 12, 13)
            cov = ["nil-pointer"] if nil else ["first"]
            if not nil and t in (0, 1, 8, 9, 10, 11, 12):
                cov.append("fell-through")
            L.append(ob("morder/t=%d/p=%d" % (t, p), ".", "VerifC17MOrder", [t, p], covers=cov, max_seconds=600, max_paths=200))
    MTO_COV = ["one-value", "zero-values", "two-values", "left-open", "user-error", "skip", "unsupported-after-write"]
    for t in (0, 1, 12):
        for p, k in ((0, 3), (2, 3), (3, 3), (4, 2), (6, 2), (8, 2)):
            L.append(ob("mto/t=%d/p=%d/k=%d" % (t, p, k), ".", "VerifC17MTo", [t, p, k, 0], covers=MTO_COV, max_seconds=900, max_paths=20000))
    B = (False, True)
    for t, p in ((2, 0), (3, 2), (2, 8), (0, 3), (10, 6)):
        n = 3 if p == 0 else 2
        L.append(ob("mj/t=%d/p=%d/n<=%d" % (t, p, n), ".", "VerifC17MJ", [t, p, n, "", False, False], covers=["valid-raw", "invalid-raw", "error-returned"], max_seconds=900, max_paths=60000))
    for i, (t, p, tm, u, d) in enumerate(((3, 3, '{"?":0,"?":0}', False, False), (2, 2, '{"?":0,"?":0}', False, True), (2, 4, '"??"', False, False), (3, 0, '"??"', True, False), (2, 8, '"?" ', False, False))):
        L.append(ob("mj/T%d/t=%d/p=%d" % (i, t, p), ".", "VerifC17MJ", [t, p, 0, tm, u, d], covers=["valid-raw", "error-returned"], max_seconds=900, max_paths=60000))
    for t, p, u in ((4, 0, False), (5, 2, False), (6, 3, False), (7, 8, False), (9, 4, False), (8, 6, True), (4, 8, True), (5, 3, True)):
        L.append(ob("mtext/t=%d/p=%d/n=2/utf8=%d" % (t, p, u), ".", "VerifC17MText", [t, p, 2, 0, u], covers=["text-encoded", "error-returned"] + ([] if u else ["ill-formed-rejected"]), max_seconds=900, max_paths=60000))
    for t, p, m in ((4, 0, 1), (4, 2, 1), (5, 3, 1), (4, 0, 2), (5, 2, 2), (9, 8, 2)):
        L.append(ob("textappend-contract/t=%d/p=%d/mode=%d" % (t, p, m), ".", "VerifC17MText", [t, p, 1, m, False], covers=["contract-violated"], max_seconds=900, max_paths=60000))
    for t, p, api, r in ((0, 0, 0, False), (1, 2, 0, True), (0, 3, 1, True), (1, 4, 2, True), (12, 6, 2, False), (0, 8, 0, True), (1, 0, 1, False)):
        L.append(ob("mopts/t=%d/p=%d/api=%d/reset=%d" % (t, p, api, r), ".", "VerifC17MOpts", [t, p, api, r], covers=["done"] + (["reset-tried"] if r else []), max_seconds=900, max_paths=2000))
    FS = [(0, 0, "TvTv", 0), (1, 2, "TvJv", 0), (13, 3, "JvTv", 0), (0, 4, "ToTvTp", 1), (1, 6, "TpTvJi", 0), (13, 8, "TiJpTv", 1),
          (1, 1, "TiTpTv", 1), (0, 10, "TpTi", 0), (1, 11, "JpTv", 0), (0, 12, "TiJv", 0), (1, 14, "TvJp", 0), (0, 5, "JoTpJv", 1), (13, 7, "TvTiTp", 0),
          (1, 9, "TpJi", 0), (0, 13, "JiTp", 0)]
    for t, p, spec, nest in FS:
        nil = p in (10, 11, 12, 13)
        L.append(ob("mfuncs/t=%d/p=%d/%s/nest=%d" % (t, p, spec, nest), ".", "VerifC17MFuncs", [t, p, spec, bool(nest)], covers=([] if (not nil and any(spec[2 * i] == "J" and spec[2 * i + 1] != "o" for i in range(len(spec) // 2))) else ["all-skipped"]) + ([] if nil else ["function-decides", "error"]), max_seconds=900, max_paths=3000))
    for sh in range(4):
        L.append(ob("mfuncsany/shape=%d" % sh, ".", "VerifC17MFuncsAny", [sh], covers=["done"], max_seconds=900, max_paths=100))
    for t in range(6):
        for p in range(11):
            L.append(ob("uorder/t=%d/p=%d" % (t, p), ".", "VerifC17UOrder", [t, p], covers=["first"] + (["fell-through"] if t in (0, 3, 4) else []), max_seconds=600, max_paths=200))
    UF_COV = ["one-value", "zero-values", "user-error", "skip", "unsupported-after-read"]
    for t, p, k, a, x in ((0, 0, 2, 4, "7"), (3, 1, 3, 4, "[7,[]]"), (4, 2, 3, 4, '{"a":7}'), (0, 3, 3, 4, '"s"'), (3, 4, 2, 4, "7"), (4, 7, 2, 4, '"7"'),
                          (0, 1, 4, 3, "[]"), (3, 11, 5, 2, "7")):
        L.append(ob("ufrom/t=%d/p=%d/k=%d/a=%d/%s" % (t, p, k, a, x), ".", "VerifC17UFrom", [t, p, k, a, x], covers=UF_COV, max_seconds=900, max_paths=30000))
    for t, p, n, tm in ((1, 0, 3, ""), (0, 3, 2, ""), (1, 0, 0, ' "?" '), (1, 3, 0, "[?,?]")):
        L.append(ob("uj/t=%d/p=%d/n=%d/%s" % (t, p, n, tm), ".", "VerifC17UJ", [t, p, n, tm], covers=["called", "accepted"], max_seconds=900, max_paths=60000))
    for t, p, n, tm in ((2, 0, 3, ""), (4, 3, 2, ""), (2, 0, 0, '"\\??"'), (2, 7, 0, '"??"'), (4, 0, 0, "nul?")):
        L.append(ob("ut/t=%d/p=%d/n=%d/%s" % (t, p, n, tm), ".", "VerifC17UT", [t, p, n, tm], covers=["null"] if tm.startswith("nul") else ["called"], max_seconds=900, max_paths=60000))
    for t, p, api, r in ((0, 0, 0, False), (3, 1, 0, True), (4, 2, 0, True), (0, 0, 1, True), (0, 0, 2, True), (0, 4, 0, True), (0, 7, 0, False)):
        L.append(ob("uopts/t=%d/p=%d/api=%d/reset=%d" % (t, p, api, r), ".", "VerifC17UOpts", [t, p, api, r], covers=["done"] + (["reset-tried"] if r else []), max_seconds=900, max_paths=2000))
    UFS = [(0, 0, "TpTp", 0), (5, 1, "TpJp", 0), (0, 2, "JpTp", 0), (5, 3, "ToTiTp", 1), (0, 4, "TiJpTp", 0), (5, 5, "TpTiJo", 1), (0, 6, "TpJi", 0),
           (5, 7, "TiTp", 0), (0, 8, "TpJp", 0), (5, 9, "JoTpJi", 1), (0, 10, "TiTpTp", 1)]
    for t, p, spec, nest in UFS:
        hasJ = any(spec[2 * i] == "J" and spec[2 * i + 1] != "o" for i in range(len(spec) // 2))
        L.append(ob("ufuncs/t=%d/p=%d/%s/nest=%d" % (t, p, spec, nest), ".", "VerifC17UFuncs", [t, p, spec, bool(nest)], covers=([] if hasJ else ["all-skipped"]) + ["function-decides", "error"], max_seconds=900, max_paths=3000))
    if only:
        L = [o for o in L if re.match(only, o["id"])]
    return L
