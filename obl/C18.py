"""Obligations for C18 (sequential-history clause, package jsontext)."""
import os
from oblib import ob

_COMMON = (
    "Only the sequential-history and aliasing clauses, and only for package jsontext (its five sync.Pools of coders, Encoder.Reset, "
    "Decoder.Reset). The engine's sync.Pool hands back the most recently Put coder (LIFO), so the later call re-uses exactly the coder the "
    "earlier call left behind; the reference run of the same call uses pool policy 'fresh' (Get always calls New). "
    "hist: earlier call A of ANY kind among {IsValid, Format, Compact, Indent, Canonicalize, AppendFormat([]byte), AppendFormat(string), "
    "pooled buffered decoder driven by ReadToken until error/EOF, pooled buffered encoder driven by WriteToken until error, pooled streaming "
    "decoder (ReadValue then ReadToken*)} with any of 4 option sets (AllowDuplicateNames; WithIndent+WithIndentPrefix+SpaceAfterComma; "
    "ReorderRawObjects+AllowDuplicateNames; none) on a templated input whose holes are symbolic bytes of the structural alphabet "
    "{ } [ ] : , \" a 1 space (templates listed in the obligation ids: complete objects with symbolic names, objects truncated inside a nested "
    "object, arrays truncated after a member, free bytes, a 67-member object (map-backed namespace)%s); then call B (kind, option set and template in the id) on an independent symbolic "
    "input: verdict, bytes, token count, error class, SyntacticError.ByteOffset/JSONPointer/inner error identical to the fresh run. "
    "hist3: two earlier calls. strikes: one >4KiB result then 7 small calls (buffer-utilisation statistics incl. discard). "
    "alias: results of AppendFormat/Clone/Format family unchanged after a later call on the recycled coder and after the caller overwrites the "
    "input buffer (AppendFormat, Clone). reset: Decoder/Encoder used on input 1 (%s calls, stopped anywhere incl. after an error inside an object; "
    "chunk reader or *bytes.Buffer; sink or *bytes.Buffer) then Reset == new coder on input 2 (all results, errors, offsets, depths, pointers, bytes delivered). "
    "OUTSIDE: goroutine interleavings and data races (the engine is sequential), typed Marshal/Unmarshal and the arshaler/type caches, string interning cache, "
    "panicking user code, 1 MiB documents, Deterministic(true) map ordering, cross-process determinism, pool behaviour other than LIFO reuse (e.g. GC emptying a pool "
    "is the 'fresh' case), inputs outside the templates/alphabet, histories longer than 1 earlier call (hist), 2 (hist3), 8 (strikes); A itself starts from empty pools.")
BOUNDS = {
    "quick": _COMMON % ("", "<=3+2"),
    "thorough": _COMMON % (", free bytes up to 3, an error exit 1101 objects deep (beyond the stack sizes that reset keeps)", "<=3+3"),
}
ASSUMPTIONS = [
    "sync.Pool modelled as a LIFO stack per pool (Get = most recently Put object, else New); PoolFresh makes Get call New",
    "call kinds decLoop/encLoop/streamDec are harness code calling getBufferedDecoder/getBufferedEncoder/getStreamingDecoder + put*, i.e. the pool "
    "protocol package json follows through jsontext.Internal (json itself needs reflect and is not executed)",
    "for the in-place Format family the buffer passed in is the buffer handed back, so 'caller overwrites its input' is only checked for AppendFormat and Clone",
]

P = "jsontext"
# call kinds (zz18Call)
ISVALID, FORMAT, COMPACT, INDENT, CANON, APPEND, APPENDSTR, DECLOOP, ENCLOOP, STREAMDEC, CLONE = range(11)
NAMES = ["IsValid", "Format", "Compact", "Indent", "Canonicalize", "AppendFormat", "AppendFormatStr", "decLoop", "encLoop", "streamDec", "Clone"]
ANY = -1


def nm(op):
    return "any" if op < 0 else NAMES[op]


def hist(L, a, b, alpha=3, **kw):
    (opA, optA, tA) = a
    (opB, optB, tB) = b
    kw.setdefault("covers", ["A-ok", "A-fails"])
    L.append(ob("hist/A=%s,o%s,%s/B=%s,o%d,%s" % (nm(opA), "any" if optA < 0 else optA, tA, nm(opB), optB, tB), P, "VerifC18Hist",
                [opA, optA, tA, alpha, opB, optB, tB, alpha], **kw))


def obligations(tier):
    q = tier == "quick"
    L = []
    # typed Marshal/Unmarshal through the reflect environment (package json harnesses)
    for nd, rd in ((4, False), (4, True)) if q else ((3, False), (4, False), (4, True), (6, True)):
        L.append(ob("typed/err-alias/digits=%d/reader=%d" % (nd, rd), ".", "VerifC18ErrAlias", [nd, rd], covers=["error"], max_seconds=600))
    L.append(ob("typed/scratch-pools", ".", "VerifC18ScratchPools", [], covers=["unrelated-call-failed", "unrelated-call-ok"]))
    for depth in ((1005,) if q else (1001, 1005, 1100)):
        L.append(ob("typed/deep-history/depth=%d" % depth, ".", "VerifC18DeepHistory", [depth], covers=["second"], max_seconds=900, step_limit=400000000))
    only = os.environ.get("C18_ONLY", "")
    # ---- hist: A = any call kind, any of the option sets {1,4,7,0}, on templates that end on every kind of exit
    LONG = '@names66@"?":0}'      # 67 members: the namespace switches to its map representation
    DEEP = '@deep1100@{"?":'      # error exit 1101 objects deep: stacks beyond the sizes that reset keeps
    TA = ['{"?":1,"?":2}', '{"?":{"?":', '??', LONG] + ([] if q else ['[{"?":1},', '???', '{"?":[{"?":1}],"?":{}}', '[{"?":1,"?":{', '{"?":1}?', DEEP])
    TB = [(ISVALID, 0, '{"?":1,"?":2}'), (FORMAT, 0, '{"a?":1,"?":2}'), (FORMAT, 3, '[{"?":1}]'), (CANON, 0, '{"?":2,"?":1}'),
          (DECLOOP, 0, '{"?":{"?":'), (ENCLOOP, 0, '{"?":1,"a?":2}')]
    if not q:
        TB += [(APPEND, 5, '??'), (INDENT, 0, '[?,?]'), (STREAMDEC, 0, '{"a?":?}'),
               (COMPACT, 0, ' ? ?'), (APPENDSTR, 6, '"?",?'), (ISVALID, 2, '???'), (FORMAT, 4, '{"?":[?]}'), (CANON, 1, '{"?":1,"?":{"?":1}}'),
               (DECLOOP, 1, '[{"?":1},'), (ENCLOOP, 3, '[{"?":?'), (ISVALID, 0, '{"a?":1}'), (FORMAT, 0, '???'), (APPEND, 0, '{"a?":{"a?":1}}')]
    for tb in TB:
        for ta in TA:
            if ta == '???' and tb[2].count('?') >= 3:
                continue
            if ta == DEEP and tb not in TB[:4]:
                continue
            hist(L, (ANY, ANY, ta), tb, step_limit=50_000_000)
    # ---- buffer statistics of the pooled encoder: big result, then k small ones
    for (opB, optB, tB) in ([(FORMAT, 3, '[?]')] if q else [(FORMAT, 3, '[?]'), (APPEND, 0, '{"?":?}'), (CANON, 0, '{"?":1,"?":2}')]):
        L.append(ob("strikes/levels=1100/k=7/B=%s,o%d,%s" % (NAMES[opB], optB, tB), P, "VerifC18Strikes", [1100, 7, opB, optB, tB], step_limit=50_000_000, covers=["end", "buffer-was-discarded"]))
    # ---- hist3: two earlier calls of any kind / option set
    for (opB, optB, tB) in ([(ISVALID, 0, '{"?":1}')] if q else [(ISVALID, 0, '{"?":1}'), (FORMAT, 3, '[?]'), (CANON, 0, '{"?":1}'), (DECLOOP, 0, '{"?":?}')]):
        for (t1, t2) in ([('{"?":', '[?')] if q else [('{"?":', '[?'), ('{"?":1}', '{"a?":{'), ('?', '{"?":1,')]):
            L.append(ob("hist3/A1=any,%s/A2=any,%s/B=%s,o%d,%s" % (t1, t2, NAMES[opB], optB, tB), P, "VerifC18Hist3", [t1, t2, 3, opB, optB, tB, 3], covers=["B-ok", "B-fails"]))
    # ---- alias
    AL = [(APPEND, 0, '[?,"?"]'), (APPENDSTR, 3, '{"?":?}'), (CLONE, 0, '???'), (FORMAT, 3, '[?,?]'), (CANON, 0, '{"?":2,"?":1}'), (INDENT, 0, '{"?":[?]}'), (COMPACT, 0, ' [ ? ] ')]
    BL = [(FORMAT, 4, '{"?":[1,2,3]}'), (ISVALID, 0, '[?,?]')] if q else [(FORMAT, 4, '{"?":[1,2,3]}'), (ISVALID, 0, '[?,?]'), (CANON, 0, '{"?":2,"?":1}'), (APPEND, 3, '[[?]]'), (ENCLOOP, 0, '[?,?')]
    for i, (opA, optA, tA) in enumerate(AL):
        for j, (opB, optB, tB) in enumerate(BL):
            if q and (i + j) % 2 == 1:
                continue
            L.append(ob("alias/A=%s,o%d,%s/B=%s,o%d,%s" % (NAMES[opA], optA, tA, NAMES[opB], optB, tB), P, "VerifC18Alias", [opA, optA, tA, 3, opB, optB, tB, 3], covers=["nonempty"]))
    for (oA, tA, oB, tB) in [(0, '[?,?]', 3, '{"?":?}'), (4, '{"?":[?]}', 0, '??')]:
        L.append(ob("aliasB/A=o%d,%s/B=o%d,%s" % (oA, tA, oB, tB), P, "VerifC18AliasB", [oA, tA, 3, oB, tB, 3], covers=["nonempty"]))
    # ---- Reset of public coders: tmpl1, opt1, reader/writer kind 1, calls1, tmpl2, opt2, kind 2, calls2
    RD = [('{"?":{"?":', 0, 0, 3, '{"?":?}', 0, 0, 2), ('[{"?":1},', 1, 1, 3, '{"?":1,"?":2}', 0, 0, 2), ('{"?":1,"?":2}', 1, 0, 2, '[?,?', 0, 1, 2), ('[?', 0, 1, 2, '{"?":1,"?":2}', 0, 1, 2)]
    if not q:
        RD += [('{"?":{"?":', 0, 0, 3, '{"?":?}', 0, 0, 3), ('{"?":1,"?":2}', 1, 0, 2, '[?,?', 0, 1, 3), ('??', 0, 1, 2, '{"?":1,"?":2}', 0, 1, 2), ('{"?":{"?":', 1, 1, 3, '{"?":?}', 0, 1, 3), ('[[?,{"?":', 0, 0, 3, '[{"?":?}]', 0, 0, 2), ('??', 2, 0, 2, '??', 0, 0, 2)]
    for r in RD:
        L.append(ob("reset/dec/%s,o%d,r%d,k%d/then/%s,o%d,r%d,k%d" % r, P, "VerifC18ResetDec", list(r), covers=["end", "first-use-ended-in-error", "first-use-left-nested"]))
    RE = [('{"?":{"?":', 0, 0, '{"?":?}', 0, 0, False), ('[{"?":1},', 1, 1, '{"?":1,"?":2}', 0, 0, True), ('{"?":1,"?":2}', 4, 0, '[?,{"?":1}]', 3, 1, False), ('[?', 0, 1, '{"?":1,"?":2}', 0, 1, True)]
    if not q:
        RE += [('{"?":{"?":', 1, 1, '{"?":?}', 0, 1, True), ('[[?,{"?":', 4, 0, '[{"?":?}]', 0, 0, False), ('??', 5, 0, '???', 3, 0, False)]
    for r in RE:
        L.append(ob("reset/enc/%s,o%d,w%d/then/%s,o%d,w%d/values=%d" % r, P, "VerifC18ResetEnc", list(r), covers=["end", "first-use-left-nested"]))
    if only:
        L = [o for o in L if only in o["id"]]
    return L
