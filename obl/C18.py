"""Obligations for C18 (sequential-history clause, package jsontext)."""
import os
from oblib import ob

BOUNDS = {"quick": "", "thorough": ""}
ASSUMPTIONS = []

# call kinds (zz18Call)
ISVALID, FORMAT, COMPACT, INDENT, CANON, APPEND, APPENDSTR, DECLOOP, ENCLOOP, STREAMDEC, CLONE = range(11)
NAMES = ["IsValid", "Format", "Compact", "Indent", "Canonicalize", "AppendFormat", "AppendFormatStr", "decLoop", "encLoop", "streamDec", "Clone"]


def hist(L, a, b, **kw):
    (opA, optA, tA) = a
    (opB, optB, tB) = b
    L.append(ob("hist/A=%s,o%d,%s/B=%s,o%d,%s" % (NAMES[opA], optA, tA, NAMES[opB], optB, tB), "jsontext", "VerifC18Hist",
                [opA, optA, tA, 3, opB, optB, tB, 3], **kw))


def obligations(tier):
    q = tier == "quick"
    L = []
    if os.environ.get("C18_TRY"):
        hist(L, (ISVALID, 1, '{"?":1,"?":2}'), (ISVALID, 0, '{"?":1,"?":2}'))
        hist(L, (FORMAT, 4, '{"?":{"?":'), (FORMAT, 3, '???'))
        hist(L, (CANON, 0, '{"?":1,"?":2}'), (CANON, 0, '[{"?":1},'))
        hist(L, (DECLOOP, 0, '{"?":{"?":'), (DECLOOP, 0, '??'))
        hist(L, (ENCLOOP, 0, '{"?":{"?":'), (APPEND, 0, '??'))
        hist(L, (STREAMDEC, 0, '{"?":{"?":'), (APPENDSTR, 0, '??'))
        return L
    return L
