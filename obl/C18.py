"""Obligations for C18 (sequential-history clause, package jsontext)."""
import os
from oblib import ob

BOUNDS = {"quick": "", "thorough": ""}
ASSUMPTIONS = []

P = "jsontext"
# call kinds (zz18Call)
ISVALID, FORMAT, COMPACT, INDENT, CANON, APPEND, APPENDSTR, DECLOOP, ENCLOOP, STREAMDEC, CLONE = range(11)
NAMES = ["IsValid", "Format", "Compact", "Indent", "Canonicalize", "AppendFormat", "AppendFormatStr", "decLoop", "encLoop", "streamDec", "Clone"]
ANY = -1


def nm(op):
    return "any" if op < 0 else NAMES[op]


def hist(L, a, b, alpha=3, **kw):
    (opA, optA, tA) = a
    (opB, optB, tB) = b
    kw.setdefault("covers", ["A-ok", "A-fails"])
    L.append(ob("hist/A=%s,o%s,%s/B=%s,o%d,%s" % (nm(opA), "any" if optA < 0 else optA, tA, nm(opB), optB, tB), P, "VerifC18Hist",
                [opA, optA, tA, alpha, opB, optB, tB, alpha], **kw))


def obligations(tier):
    q = tier == "quick"
    L = []
    only = os.environ.get("C18_ONLY", "")
    # ---- hist: A = any call kind, any of the option sets {1,4,7,0}, on templates that end on every kind of exit
    LONG = '@names66@"?":0}'      # 67 members: the namespace switches to its map representation
    DEEP = '@deep1100@{"?":'      # error exit 1101 objects deep: stacks beyond the sizes that reset keeps
    TA = ['{"?":1,"?":2}', '{"?":{"?":', '[{"?":1},', '??', LONG] + ([] if q else ['???', '{"?":[{"?":1}],"?":{}}', '[{"?":1,"?":{', '{"?":1}?', DEEP])
    TB = [(ISVALID, 0, '{"?":1,"?":2}'), (FORMAT, 0, '{"a?":1,"?":2}'), (FORMAT, 3, '[{"?":1}]'), (CANON, 0, '{"?":2,"?":1}'),
          (APPEND, 5, '??'), (DECLOOP, 0, '{"?":{"?":'), (ENCLOOP, 0, '{"?":1,"a?":2}'), (INDENT, 0, '[?,?]'), (STREAMDEC, 0, '{"a?":?}')]
    if not q:
        TB += [(COMPACT, 0, ' ? ?'), (APPENDSTR, 6, '"?",?'), (ISVALID, 2, '???'), (FORMAT, 4, '{"?":[?]}'), (CANON, 1, '{"?":1,"?":{"?":1}}'),
               (DECLOOP, 1, '[{"?":1},'), (ENCLOOP, 3, '[{"?":?'), (ISVALID, 0, '{"a?":1}'), (FORMAT, 0, '???'), (APPEND, 0, '{"a?":{"a?":1}}')]
    for tb in TB:
        for ta in TA:
            if ta == '???' and tb[2].count('?') >= 3:
                continue
            hist(L, (ANY, ANY, ta), tb, step_limit=50_000_000)
    # ---- buffer statistics of the pooled encoder: big result, then k small ones
    for (opB, optB, tB) in ([(FORMAT, 3, '[?]')] if q else [(FORMAT, 3, '[?]'), (APPEND, 0, '{"?":?}'), (CANON, 0, '{"?":1,"?":2}')]):
        L.append(ob("strikes/levels=1100/k=7/B=%s,o%d,%s" % (NAMES[opB], optB, tB), P, "VerifC18Strikes", [1100, 7, opB, optB, tB], step_limit=50_000_000, covers=["end", "buffer-was-discarded"]))
    # ---- hist3: two earlier calls of any kind / option set
    for (opB, optB, tB) in ([(ISVALID, 0, '{"?":1}'), (FORMAT, 3, '[?]')] if q else [(ISVALID, 0, '{"?":1}'), (FORMAT, 3, '[?]'), (CANON, 0, '{"?":1}'), (DECLOOP, 0, '{"?":')]):
        for (t1, t2) in ([('{"?":', '[?')] if q else [('{"?":', '[?'), ('{"?":1}', '{"?":{'), ('??', '{"?":1,')]):
            L.append(ob("hist3/A1=any,%s/A2=any,%s/B=%s,o%d,%s" % (t1, t2, NAMES[opB], optB, tB), P, "VerifC18Hist3", [t1, t2, 3, opB, optB, tB, 3], covers=["B-ok", "B-fails"]))
    # ---- alias
    AL = [(APPEND, 0, '[?,"?"]'), (APPENDSTR, 3, '{"?":?}'), (CLONE, 0, '???'), (FORMAT, 3, '[?,?]'), (CANON, 0, '{"?":2,"?":1}'), (INDENT, 0, '{"?":[?]}'), (COMPACT, 0, ' [ ? ] ')]
    BL = [(FORMAT, 4, '{"?":[1,2,3]}'), (ISVALID, 0, '[?,?]')] if q else [(FORMAT, 4, '{"?":[1,2,3]}'), (ISVALID, 0, '[?,?]'), (CANON, 0, '{"?":2,"?":1}'), (APPEND, 3, '[[?]]'), (ENCLOOP, 0, '[?,?')]
    for (opA, optA, tA) in AL:
        for (opB, optB, tB) in BL:
            L.append(ob("alias/A=%s,o%d,%s/B=%s,o%d,%s" % (NAMES[opA], optA, tA, NAMES[opB], optB, tB), P, "VerifC18Alias", [opA, optA, tA, 3, opB, optB, tB, 3], covers=["nonempty"]))
    for (oA, tA, oB, tB) in [(0, '[?,?]', 3, '{"?":?}'), (4, '{"?":[?]}', 0, '??')]:
        L.append(ob("aliasB/A=o%d,%s/B=o%d,%s" % (oA, tA, oB, tB), P, "VerifC18AliasB", [oA, tA, 3, oB, tB, 3], covers=["nonempty"]))
    # ---- Reset of public coders: tmpl1, opt1, reader/writer kind 1, calls1, tmpl2, opt2, kind 2, calls2
    RD = [('{"?":{"?":', 0, 0, 3, '{"?":?}', 0, 0, 3), ('[{"?":1},', 1, 1, 3, '{"?":1,"?":2}', 0, 0, 2), ('{"?":1,"?":2}', 1, 0, 2, '[?,?', 0, 1, 3), ('??', 0, 1, 2, '{"?":1,"?":2}', 0, 1, 2)]
    if not q:
        RD += [('{"?":{"?":', 1, 1, 4, '{"?":?}', 0, 1, 3), ('[[?,{"?":', 0, 0, 4, '[{"?":?}]', 0, 0, 4), ('???', 2, 0, 3, '???', 0, 0, 3)]
    for r in RD:
        L.append(ob("reset/dec/%s,o%d,r%d,k%d/then/%s,o%d,r%d,k%d" % r, P, "VerifC18ResetDec", list(r), covers=["end", "first-use-ended-in-error", "first-use-left-nested"]))
    RE = [('{"?":{"?":', 0, 0, '{"?":?}', 0, 0, False), ('[{"?":1},', 1, 1, '{"?":1,"?":2}', 0, 0, True), ('{"?":1,"?":2}', 4, 0, '[?,{"?":1}]', 3, 1, False), ('[?', 0, 1, '{"?":1,"?":2}', 0, 1, True)]
    if not q:
        RE += [('{"?":{"?":', 1, 1, '{"?":?}', 0, 1, True), ('[[?,{"?":', 4, 0, '[{"?":?}]', 0, 0, False), ('???', 5, 0, '???', 3, 0, False)]
    for r in RE:
        L.append(ob("reset/enc/%s,o%d,w%d/then/%s,o%d,w%d/values=%d" % r, P, "VerifC18ResetEnc", list(r), covers=["end", "first-use-left-nested"]))
    if only:
        L = [o for o in L if only in o["id"]]
    return L
