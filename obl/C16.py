"""Obligations for C16: reported positions are truthful."""
import os
from oblib import ob

# error templates: '?' = one byte of zz16Sigma = { } [ ] : , " a 1 space b 2 ~ / \
ERR_T_Q = ['{"a":{"b":1?', '[{"a":1?', '{"a":[1?', '{"a":1,"?":2}', '{"a":1,"a":?}', '{"\\u0061\\u007e":[1?', '{"\\/b":{"c":1,"\\u0063":?}']
ERR_T_T = ['[{"a":1??', '{"a":{"b":??', '{"a":[{"b":1}??', '[[1,{"a~/b":[??', '{"a":{"b":{"c":1?', '[1,{"a":1,"?":??', '{"a":[1,[?,?', '{"~/":{"a":??']
POS_T_Q = ['{"?":[?,?]}', '[{"?~/":?}]']
POS_T_T = ['{"a":{"?":?},"?":1}', '[[?],{"\\?":[?]}]', '{"?":1,"?":[?]}']


def obligations(tier):
    q = tier == "quick"
    L = []
    B = (False, True)
    path = {False: "tok", True: "val"}

    # ptr: Pointer methods against RFC 6901
    L.append(ob("ptr/ascii/len<=%d" % (4 if q else 6), "jsontext", "VerifC16Ptr", [4 if q else 6, 0], covers=["valid", "invalid", "nonempty", "two-tokens"]))
    L.append(ob("ptr/utf8/len<=%d" % (3 if q else 4), "jsontext", "VerifC16Ptr", [3 if q else 4, 1], covers=["valid", "invalid", "nonempty"]))
    n, m = (2, 2) if q else (3, 3)
    L.append(ob("ptr/append/p<=%d/tok<=%d" % (n, m), "jsontext", "VerifC16PtrAppend", [n, m, 0], covers=["end"]))
    if not q:
        L.append(ob("ptr/append/utf8/p<=2/tok<=3", "jsontext", "VerifC16PtrAppend", [2, 3, 1], covers=["end"]))
    n, m = (3, 3) if q else (4, 5)
    L.append(ob("ptr/contains/p<=%d/q<=%d" % (n, m), "jsontext", "VerifC16PtrContains", [n, m, 0], covers=["contains", "not-contains"]))

    # errD: position carried by the first error, token path and value path
    for vp in B:
        n = 4 if q else 6
        L.append(ob("errD/%s/len<=%d" % (path[vp], n), "jsontext", "VerifC16ErrD", ["", n, 3, vp, False],
                    covers=["clean", "invalid", "truncated", "nested"]))
        if not q:
            L.append(ob("errD/%s/allowdup/len<=4" % path[vp], "jsontext", "VerifC16ErrD", ["", 4, 3, vp, True], covers=["clean", "invalid", "truncated"]))
        for i, t in enumerate(ERR_T_Q if q else ERR_T_Q + ERR_T_T):
            L.append(ob("errD/%s/t%d" % (path[vp], i), "jsontext", "VerifC16ErrD", [t, 0, 16, vp, False],
                        covers=["duplicate"] if i in (3, 4, 6) else ["invalid", "nested"]))

    # posD: positions after every decoder call
    n = 4 if q else 6
    L.append(ob("posD/tok/len<=%d" % n, "jsontext", "VerifC16PosD", ["", n, 3, n + 1, False, False], covers=["token", "eof", "error", "nested", "name-just-read"]))
    L.append(ob("posD/mix/len<=%d" % n, "jsontext", "VerifC16PosD", ["", n, 3, n + 1, True, False], covers=["token", "value", "eof", "error", "nested", "name-just-read"]))
    if not q:
        L.append(ob("posD/mix/allowdup/len<=4", "jsontext", "VerifC16PosD", ["", 4, 3, 5, True, True], covers=["token", "value"]))
    for i, t in enumerate(POS_T_Q if q else POS_T_Q + POS_T_T):
        L.append(ob("posD/tok/t%d" % i, "jsontext", "VerifC16PosD", [t, 0, 16, 12, False, False], covers=["token", "nested", "eof"]))
        L.append(ob("posD/mix/t%d" % i, "jsontext", "VerifC16PosD", [t, 0, 16, 4 if q else 6, True, False], covers=["token", "value", "nested"]))

    # posE: positions after every encoder call
    for pre in ((0, 1, 2, 4) if q else range(6)):
        for k, sl, rl in ([(2, 1, 2)] if q else [(2, 2, 3), (3, 1, 2)]):
            L.append(ob("posE/pre=%d/k=%d/str=%d/raw=%d" % (pre, k, sl, rl), "jsontext", "VerifC16PosE", [pre, k, sl, rl, False], covers=["accepted", "rejected"]))
    # names written as raw values, duplicate names allowed (the name stack must still be kept for StackPointer)
    for pre in (0, 1):
        L.append(ob("posE/pre=%d/k=2/str=1/raw=3/allowdup" % pre, "jsontext", "VerifC16PosE", [pre, 2, 1, 3, True], covers=["accepted", "rejected"]))
    if not q:
        L.append(ob("posE/pre=0/k=4/str=1/raw=1", "jsontext", "VerifC16PosE", [0, 4, 1, 1, False], covers=["accepted", "rejected", "nested"]))
        L.append(ob("posE/pre=4/k=2/allowdup", "jsontext", "VerifC16PosE", [4, 2, 2, 3, True], covers=["accepted", "rejected", "nested"]))

    # semE: SemanticError offset/pointer for one conversion error at a solver-chosen slot (typed Unmarshal)
    L.append(ob("semE/one-conversion-error", ".", "VerifC16SemE", [], covers=["conversion-error", "acceptable"], max_seconds=600))

    only = os.environ.get("C16_ONLY")  # development aid: run a subset
    if only:
        L = [o for o in L if any(s in o["id"] for s in only.split(","))]
    return L


_COMMON = (
    "Buffer-mode Decoder (whole input in the buffer, default options; thorough adds AllowDuplicateNames(true) variants) and "
    "Encoder over an accept-all writer (default options). Reference: zzspec.Tracker, an independent token reader written from the "
    "StackDepth/StackIndex/StackPointer documentation, RFC 8259 and RFC 6901. "
    "posD: after EVERY call (successful or failing) of a ReadToken loop, or of a solver-chosen ReadToken/ReadValue mixture, "
    "InputOffset, StackDepth, StackIndex(0..depth) and StackPointer equal the tracker run over b[:InputOffset]. "
    "posE: the same for OutputOffset/Stack* after every call (accepted or rejected) of all sequences of k calls from "
    "{null, {, }, [, ], String(s), Uint(7), WriteValue(raw)} after 6 concrete preludes (empty, {\"a\":7, [{\"a~/\", {\"a\":[, {\"a\":7,\"b\":{\"a\":7, [7), "
    "s over {a ~ / \"}, raw over SigmaStruct. "
    "errD: first error of the token path (ReadToken loop) and of the value path (ReadValue loop): io.EOF only for accepted input, "
    "else *SyntacticError with 0<=ByteOffset<=len, b[:ByteOffset] a viable prefix (zzspec.ScanStream), ByteOffset inside the first token "
    "no JSON stream can continue with (end of input for truncated input; a ',' directly before '}'/']' may be blamed instead of the bracket), "
    "JSONPointer = innermost container open at ByteOffset or its direct child there (member whose name was read and whose value is due; "
    "next array element after '[' or ','), for ErrDuplicateName container + '/' + escaped name. "
    "ptr: IsValid == RFC 6901 validity; for valid p Tokens/LastToken/Parent/AppendToken/Contains against reference split/join/escape. "
    "semE: real Unmarshal into a struct with int8/[]int8/map[string]bool/nested struct/pointer/uint8 map fields (reflect environment model): one "
    "solver-chosen slot of a fixed document gets a solver-chosen wrong-kind or out-of-range value; the SemanticError's JSONPointer and ByteOffset "
    "must designate exactly that value (member name with '~' or '/' included). "
    "OUTSIDE the bound: SemanticError positions for other type graphs and more than one error; Unmarshal-into-any positions; streaming mode (io.Reader refills: covered for agreement with buffer mode by C05); "
    "SkipValue/PeekKind interleavings; legacy error offsets (ReportErrorsWithLegacySemantics); non-default encoder options (indentation, "
    "escaping flags); depth > 4; strings with \\u escapes or non-ASCII bytes in decoder inputs. ")

BOUNDS = {
    "quick": _COMMON + "Sizes: decoder inputs = all strings of <=4 bytes over SigmaStruct {}[]:,\"a1 and space, plus templates with 1-3 holes over "
             "{}[]:,\"a1 b2~/\\ and space: " + ", ".join(ERR_T_Q + POS_T_Q) + "; encoder k=2, |s|<=1, |raw|<=2 (preludes 0,1,2,4); pointers <=4 bytes over {/ ~ 0 1 a} "
             "(<=3 with 0xC3 0xA9 0xFF added), AppendToken p<=2,tok<=2, Contains p<=3,q<=3.",
    "thorough": _COMMON + "Sizes: decoder inputs <=6 bytes over SigmaStruct, templates: " + ", ".join(ERR_T_Q + ERR_T_T + POS_T_Q + POS_T_T) +
                "; encoder k=2 (|s|<=2,|raw|<=3), k=3 (|s|<=1,|raw|<=2) for all preludes, k=4 from the empty state, k=2 with AllowDuplicateNames after the nested prelude; pointers <=6 bytes ASCII, <=4 with UTF-8/0xFF bytes, "
                "AppendToken p<=3,tok<=3, Contains p<=4,q<=5.",
}
ASSUMPTIONS = [
    "C16: d.s.reset(b, nil, opts...) is used to obtain a buffer-mode Decoder as Unmarshal/Value methods do (internal entry point, no exported constructor for it)",
    "C16: a nested object/array counts in its parent's StackIndex length from its opening token on (reading of 'decoded so far' needed for StackPointer to designate the value being read)",
    "C16: Encoder.OutputOffset is compared with the number of bytes produced (including the newline the encoder writes after a top-level value)",
    "C16: 'offending token' for a ',' directly followed by '}' or ']' may be the comma (trailing comma) or the bracket",
]
