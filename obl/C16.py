"""Obligations for C16: reported positions are truthful."""
import os
from oblib import ob

# error templates: '?' = one byte of zz16Sigma = { } [ ] : , " a 1 space b 2 ~ / \
ERR_T_Q = ['{"a":{"b":1?', '[{"a":1?', '{"a":[1?', '{"a":1,"?":2}', '{"a":1,"a":?}']
ERR_T_T = ['[{"a":1??', '{"a":{"b":??', '{"a":[{"b":1}??', '[[1,{"a~/b":[??', '{"a":{"b":{"c":1?', '[1,{"a":1,"?":??', '{"a":[1,[?,?', '{"~/":{"a":??']
POS_T_Q = ['{"?":[?,?]}', '[{"?~/":?}]']
POS_T_T = ['{"a":{"?":?},"?":1}', '[[?],{"\\?":[?]}]', '{"?":1,"?":[?]}']


def obligations(tier):
    q = tier == "quick"
    L = []
    B = (False, True)
    path = {False: "tok", True: "val"}

    # ptr: Pointer methods against RFC 6901
    L.append(ob("ptr/ascii/len<=%d" % (4 if q else 6), "jsontext", "VerifC16Ptr", [4 if q else 6, 0], covers=["valid", "invalid", "nonempty", "two-tokens"]))
    L.append(ob("ptr/utf8/len<=%d" % (3 if q else 4), "jsontext", "VerifC16Ptr", [3 if q else 4, 1], covers=["valid", "invalid", "nonempty"]))
    n, m = (2, 2) if q else (3, 3)
    L.append(ob("ptr/append/p<=%d/tok<=%d" % (n, m), "jsontext", "VerifC16PtrAppend", [n, m, 0], covers=["end"]))
    if not q:
        L.append(ob("ptr/append/utf8/p<=2/tok<=3", "jsontext", "VerifC16PtrAppend", [2, 3, 1], covers=["end"]))
    n, m = (3, 3) if q else (4, 5)
    L.append(ob("ptr/contains/p<=%d/q<=%d" % (n, m), "jsontext", "VerifC16PtrContains", [n, m, 0], covers=["contains", "not-contains"]))

    # errD: position carried by the first error, token path and value path
    for vp in B:
        n = 4 if q else 5
        L.append(ob("errD/%s/len<=%d" % (path[vp], n), "jsontext", "VerifC16ErrD", ["", n, 3, vp, False],
                    covers=["clean", "invalid", "truncated", "nested"]))
        if not q:
            L.append(ob("errD/%s/allowdup/len<=4" % path[vp], "jsontext", "VerifC16ErrD", ["", 4, 3, vp, True], covers=["clean", "invalid", "truncated"]))
        for i, t in enumerate(ERR_T_Q if q else ERR_T_Q + ERR_T_T):
            L.append(ob("errD/%s/t%d" % (path[vp], i), "jsontext", "VerifC16ErrD", [t, 0, 16, vp, False],
                        covers=["duplicate"] if i in (3, 4) else ["invalid", "nested"]))
    if not q:
        L.append(ob("errD/tok/len<=6", "jsontext", "VerifC16ErrD", ["", 6, 3, False, False], covers=["clean", "invalid", "truncated", "nested"]))

    # posD: positions after every decoder call
    n = 4 if q else 5
    L.append(ob("posD/tok/len<=%d" % n, "jsontext", "VerifC16PosD", ["", n, 3, n + 1, False, False], covers=["token", "eof", "error", "nested", "name-just-read"]))
    L.append(ob("posD/mix/len<=%d" % n, "jsontext", "VerifC16PosD", ["", n, 3, n + 1, True, False], covers=["token", "value", "eof", "error", "nested", "name-just-read"]))
    if not q:
        L.append(ob("posD/tok/len<=6", "jsontext", "VerifC16PosD", ["", 6, 3, 7, False, False], covers=["token", "eof", "error", "nested"]))
        L.append(ob("posD/mix/allowdup/len<=4", "jsontext", "VerifC16PosD", ["", 4, 3, 5, True, True], covers=["token", "value"]))
    for i, t in enumerate(POS_T_Q if q else POS_T_Q + POS_T_T):
        L.append(ob("posD/tok/t%d" % i, "jsontext", "VerifC16PosD", [t, 0, 16, 12, False, False], covers=["token", "nested", "eof"]))
        L.append(ob("posD/mix/t%d" % i, "jsontext", "VerifC16PosD", [t, 0, 16, 4 if q else 6, True, False], covers=["token", "value", "nested"]))

    # posE: positions after every encoder call
    for pre in range(6):
        for k, sl, rl in ([(2, 1, 2)] if q else [(2, 2, 3), (3, 1, 2)]):
            L.append(ob("posE/pre=%d/k=%d/str=%d/raw=%d" % (pre, k, sl, rl), "jsontext", "VerifC16PosE", [pre, k, sl, rl, False], covers=["accepted", "rejected"]))
    if not q:
        L.append(ob("posE/pre=0/k=4/str=1/raw=1", "jsontext", "VerifC16PosE", [0, 4, 1, 1, False], covers=["accepted", "rejected", "nested"]))
        L.append(ob("posE/pre=4/k=3/allowdup", "jsontext", "VerifC16PosE", [4, 3, 1, 2, True], covers=["accepted", "rejected", "nested"]))

    only = os.environ.get("C16_ONLY")  # development aid: run a subset
    if only:
        L = [o for o in L if any(s in o["id"] for s in only.split(","))]
    return L


BOUNDS = {"quick": "", "thorough": ""}
ASSUMPTIONS = []
