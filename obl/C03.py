"""Obligations for C03 (untyped unmarshal fast path: exact meaning)."""
from oblib import ob

BOUNDS = {
    "quick": "unmarshalValueAny + CheckEOF over a pooled buffered decoder: all byte strings of length 2-3 (full range) and templates with 2-5 symbolic bytes ([\"?\",\"?\"], {\"?\":?}, [?,[?]], {\"?\":?,\"?\":[?]}, \"\\\\u????\"), 4 Allow* settings for the short inputs; makeString from an arbitrary cache for |b| in {2,3,4,8}. Number values: strconv.ParseFloat is an uninterpreted function of the literal bytes (same bytes => same value), so what is decided is that the literal handed to it is exactly the number token and that its error is propagated. Routes: templates with 2-4 symbolic bytes through *any, *any with AllowDuplicateNames, map[string]any, []any, UnmarshalRead, a named empty interface, and *any with a declining UnmarshalFromFunc for *any (accept iff valid, same tree); literals overflowing float64 in arrays/objects/nested are an error on all seven routes.",
    "thorough": "as quick with lengths up to 4 and more templates (nested, wide, intern with 2-byte symbolic strings).",
}
ASSUMPTIONS = [
    "strconv.ParseFloat on symbolic digits is an uninterpreted function of its argument (functional consistency only; ErrRange only possible for literals with an exponent and >= 5 bytes); correct rounding is strconv's and outside the claim",
    "the generic interface/map/slice arshaler routes run through the engine's reflect environment model (engine/reflect.go)",
]


def obligations(tier):
    q = tier == "quick"
    L = []
    B = (False, True)
    for t in (["??", "???"] if q else ["??", "???", "????"]):
        for u in B:
            for d in (False,):
                if len(t) == 4 and u:
                    continue
                L.append(ob("any/full/%d/utf8=%d/dup=%d" % (len(t), u, d), ".", "VerifC01Any", [t, 0, u, d], covers=["accept", "reject"]))
    T = ['["?","?"]', '{"?":?}', '[?,[?]]', '{"?":?,"?":[?]}', '"\\\\u00??"', ' [1e?,-?.?] ']
    if not q:
        T += ['["??"]', '{"?":{"?":?}}', '[?,?,?]', '{"a":?,"?":?,"b":?}', '"\\\\uD8??\\\\uDC??"', '[1e???]']
    for i, t in enumerate(T):
        for d in (False,):
            L.append(ob("any/t%d/dup=%d" % (i, d), ".", "VerifC01Any", [t, 0, False, d], covers=["accept", "reject"]))
    for n in ([2, 3, 4, 8] if q else [2, 3, 4, 5, 8, 9, 16]):
        for same in B:
            L.append(ob("intern/n=%d/samelen=%d" % (n, same), ".", "VerifC03Intern", [n, same], covers=["end"], timeout_ms=60000))
    RT = ['{"?":?}', '[?,{"?":"?"}]', ' {"a":[?,null],"?":{}} ', '{"?":1,"?":2}'] if q else ['{"?":?}', '[?,{"?":"?"}]', ' {"a":[?,null],"?":{}} ', '{"?":1,"?":2}', '[[?],?]', '{"a":{"?":[?]}}', '??', '[1e?,"\\u00??"]']
    for i, t in enumerate(RT):
        for target in range(7):
            kind = t.strip()[0]
            cov = ["accept"]
            if (target == 2 and kind != "{") or (target == 3 and kind != "["):
                cov = []  # a typed map/slice target only accepts texts of its own kind
            L.append(ob("route/t%d/target=%d" % (i, target), ".", "VerifC03Route", [t, target], covers=cov, max_seconds=600))
    # numbers that overflow float64 at every position and through every route: always an error
    for i, t in enumerate(['[1e400]', '{"a":[-1E999,2]}', '[[1.5e309],?]'] if q else ['[1e400]', '{"a":[-1E999,2]}', '[[1.5e309],?]', '{"?":1e400}', '[1,[2,[1e999]]]', ' 1e400 ']):
        for target in range(7):
            L.append(ob("overflow/t%d/target=%d" % (i, target), ".", "VerifC03Route", [t, target], max_seconds=600))
    return L
