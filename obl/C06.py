"""Obligations for C06."""
from oblib import ob

BOUNDS = {'quick': 'Inside: all sequences of k calls (k=2,3) over {Null, False, True, BeginObject, EndObject, BeginArray, EndArray, String(s) with 1-2 symbolic bytes, Uint(7), WriteValue(v) with 1-3 symbolic bytes over {}[]:,"a1 space}, starting from the empty encoder and from 6 concrete mid-states (name expected, value expected nested, inside array, nested with sibling names, after array element, after an object whose names exceeded 1 KiB - the latter through the dedicated nsreuse obligations), for AllowDuplicateNames x AllowInvalidUTF8, to an accept-all writer, against zzspec.EncModel after every call (accept iff model; delivered+buffered bytes = model serialisation; everything delivered at depth 0; OutputOffset; StackDepth). Plus: namespace re-use after an object whose names exceeded 1 KiB was closed: two names of 1 symbolic byte (thorough: 2) written into the next object at that depth are accepted iff the model accepts them. Outside: k>3 (thorough: 4), whitespace options (C12), longer strings.', 'thorough': 'As quick with k=3 from the empty state and from three mid-states, strings of 2 and raw values of 3 symbolic bytes for k=2 (k=4, and k=3 with 3-byte raw values, exceed 10^6 paths per obligation and are left out), namespace re-use with 2-byte names.'}
ASSUMPTIONS = []


def obligations(tier):
    q = tier == "quick"
    L = []
    B = (False, True)
    for d in B:
        for u in B:
            for pre, k, sl, rl in ([(0, 2, 1, 2), (0, 3, 1, 1), (1, 2, 1, 3), (2, 2, 1, 2), (3, 2, 1, 2), (4, 2, 1, 3), (5, 2, 1, 2)] if q else
                                   [(0, 2, 2, 3), (0, 3, 1, 2), (1, 2, 2, 3), (2, 3, 1, 2), (3, 3, 1, 2), (4, 2, 2, 3), (5, 3, 1, 2)]):
                L.append(ob("seq/pre=%d/k=%d/str=%d/raw=%d/dup=%d/utf8=%d" % (pre, k, sl, rl, d, u), "jsontext", "VerifC06Seq", [pre, k, sl, rl, d, u], covers=["accepted", "rejected"]))
    for d in B:
        L.append(ob("nsreuse/str=1/dup=%d" % d, "jsontext", "VerifC06NamespaceReuse", [1, d], covers=["second-accepted"] + ([] if d else ["second-rejected"])))
    if not q:
        L.append(ob("nsreuse/str=2/dup=0", "jsontext", "VerifC06NamespaceReuse", [2, False], covers=["second-accepted", "second-rejected"]))
    return L
