"""Obligations for C06."""
from oblib import ob

BOUNDS = {"quick": "", "thorough": ""}
ASSUMPTIONS = []


def obligations(tier):
    q = tier == "quick"
    L = []
    B = (False, True)
    for d in B:
        for u in B:
            for pre, k, sl, rl in ([(0, 2, 1, 2), (0, 3, 1, 1), (1, 2, 1, 3), (2, 2, 1, 2), (3, 2, 1, 2), (4, 2, 1, 3), (5, 2, 1, 2), (6, 2, 2, 1)] if q else
                                   [(0, 2, 2, 3), (0, 3, 1, 2), (0, 4, 1, 1), (1, 2, 2, 4), (1, 3, 1, 3), (2, 3, 1, 2), (3, 3, 1, 2), (4, 2, 2, 4), (4, 3, 1, 3), (5, 3, 1, 2), (6, 2, 2, 2), (6, 3, 2, 1)]):
                L.append(ob("seq/pre=%d/k=%d/str=%d/raw=%d/dup=%d/utf8=%d" % (pre, k, sl, rl, d, u), "jsontext", "VerifC06Seq", [pre, k, sl, rl, d, u], covers=["accepted", "rejected"]))
    return L
