"""Obligations for C13."""
import os
from oblib import ob

BOUNDS = {"quick": "", "thorough": ""}
ASSUMPTIONS = []


def obligations(tier):
    q = tier == "quick"
    L = []
    if os.environ.get("C12_PROBE"):
        import json
        a = json.loads(os.environ["C12_PROBE"])
        L.append(ob("probe", a[0], a[1], a[2:]))
        return L
    return L
