"""Obligations for C13 (Canonicalize produces the RFC 8785 form)."""
import os
from oblib import ob

BOUNDS = {
    "quick": "cmp: CompareUTF16 on all byte strings x,y of 0..2 bytes each (full range, ill-formed included) plus skeletons with "
             "2-3 free bytes per side reaching 3- and 4-byte sequences (U+E000..U+FFFF against supplementary planes). "
             "order/class: Value.Canonicalize on object skeletons with 2-3 members, one nested level, names of 1-2 free bytes "
             "(full byte range) or fixed 3/4-byte lead bytes with free continuation bytes, values fixed small integers or one free byte; "
             "whitespace variants; escape re-spelling by the reference transformer. num: 20 concrete literals x 3 positions x 4 flag sets. "
             "OUTSIDE: longer names, more members, deeper nesting; the digits strconv produces for a float64 (numbers with symbolic "
             "digits are restricted to integers of at most 15 digits and not -0, whose canonical spelling is the literal itself).",
    "thorough": "as quick with x,y up to 3 bytes each, three-member skeletons with two free bytes per name, \\\\u escape holes in names, "
                "nested objects in arrays, and 3-string transitivity skeletons. OUTSIDE: as quick.",
}
ASSUMPTIONS = [
    "the ECMAScript shortest digits of a float64 are produced by strconv.AppendFloat/ParseFloat, executed only on concrete literals; "
    "with symbolic digits only integer literals of <= 15 digits (own canonical form) are admitted (vrt.Assume on the bytes around holes)",
    "sync.Pool (encoder, decoder, member slices) modelled LIFO",
]

P = "jsontext"
W = "internal/jsonwire"

NUMS = [("-0", "0"), ("0", "0"), ("1.50", "1.5"), ("1e2", "100"), ("-0.0", "0"), ("1E-7", "1e-7"),
        ("12345678901234567890", "12345678901234567000"), ("1e400", "1.7976931348623157e+308"),
        ("-1e400", "-1.7976931348623157e+308"), ("123456789012345678", "123456789012345680"),
        ("9007199254740993", "9007199254740992"), ("100000000000000000000", "100000000000000000000"),
        ("1000000000000000000000", "1e+21"), ("0.000001", "0.000001"), ("0.0000001", "1e-7"), ("1.0", "1"),
        ("-1.5e+3", "-1500"), ("123456789012345", "123456789012345"), ("1234567890123456", "1234567890123456"),
        ("-123456789012345678", "-123456789012345680")]


def obligations(tier):
    q = tier == "quick"
    L = []
    # ---- cmp
    m = 2 if q else 3
    for nx in range(m + 1):
        for ny in range(nx, m + 1):  # (ny, nx) is covered through the antisymmetry assertion
            cov = ["well-formed"] + (["ill-formed"] if nx + ny > 0 else []) + (["less"] if ny > 0 else [])
            L.append(ob("cmp/full/nx=%d/ny=%d" % (nx, ny), W, "VerifC13Cmp", [nx, ny], covers=cov))
    T = [("%EE??", "%F0%90??"), ("%F0%90??", "%EF??"), ("%EF%BF?", "%F0?%80%80"), ("a%ED??", "a%F4%8F??"), ("%F0%9F%98?", "%F0%9F?%80")]
    if not q:
        T += [("?%EF%BF%BD", "?%F0%90%80%80"), ("%F0???", "%EE??"), ("%E2%82%AC?", "%E2%82%AC%F0%90%80?"), ("???", "%F0%90%80%80"), ("%F0%9F%98%80?", "%F0%9F%98%80%EF%BF?")]
    for i, (x, y) in enumerate(T):
        L.append(ob("cmp/tmpl/%d" % i, W, "VerifC13CmpT", [x, y], covers=["well-formed"]))
    TR = [("?", "?", "?"), ("%F0%90%80?", "%EE%80?", "%EF%BF?")] if q else [("??", "??", "?"), ("%F0%90%80?", "%EE%80?", "%EF%BF?"), ("?", "%F0%90??", "%EF??"), ("a?", "a%F0%9F%98?", "a%EE??")]
    for i, t in enumerate(TR):
        L.append(ob("cmp/trans/%d" % i, W, "VerifC13CmpTrans", list(t), covers=["chain"]))
    # ---- order
    O = ['{"?":1,"?":2}', ' { "?" : 1 , "?" : 2 } ', '{"?":?,"?":"?"}', '{"b":{"?":1,"?":2},"a":[{"?":1,"?":2}]}',
         '{"%EE??":1,"%F0%90??":2}', '{"%F0%9F%98?":1,"%EF%BF?":2,"?":3}', '{"\\u00??":1,"?":2}', '{"c":1,"?":2,"a":3}']
    if not q:
        O += ['{"?":1,"??":2,"?":3}', '{"??":1,"??":2}', '{"\\uFF??":1,"\\uD83D\\uDE0?":2}', '{"\\u????":1,"%EF%BF?":2}', '[{"?":[],"?":{}},{"?":1,"?":2}]',
              '{"?":1,\n\t"?":{"?":2 , "?":3}}', '{"%EE??":1,"%F0???":2}', '{"?":1,"?":2,"?":3,"?":4}']
    for i, t in enumerate(O):
        L.append(ob("order/%d" % i, P, "VerifC13Canon", [t, 0], covers=["accept", "reject", "reordered"]))
    # ---- class
    C = [('{"?":1,"?":2}', '{"?":2,"?":1}', "10", 2, 0), ('{"?":1,"?":2}', '{"?":2,"?":1}', "10", 2, 3),
         ('{"?":1,"?":[2],"?":{}}', '{"?":{},"?":1,"?":[2]}', "201", 3, 1), ('{"a?":"?","b":{"?":1,"b":2}}', '{"b":{"b":2,"?":1},"a?":"?"}', "201", 3, 2),
         ('{"%EE??":1,"%F0%90??":2}', '{"%F0%90??":2,"%EE??":1}', "2301", 4, 3),
         ('{"?":[100,-0,1.5,1e21],"?":12345678901234567890}', '{"?":12345678901234567000,"?":[1E+2,0.0,15e-1,1000000000000000000000]}', "10", 2, 1)]
    if not q:
        C += [('{"a?":"?","?":{"?":1,"b":2}}', '{"?":{"b":2,"?":1},"a?":"?"}', "2301", 4, 2), ('{"??":1,"??":2}', '{"??":2,"??":1}', "2301", 4, 3), ('{"?":1,"?":2,"?":3}', '{"?":3,"?":2,"?":1}', "210", 3, 3),
              ('[{"?":?,"?":"?"}]', ' [ { "?" : "?" , "?" : ? } ] ', "2301", 4, 2), ('{"%F0%9F??":1,"%EF%BF?":2,"?":3}', '{"?":3,"%EF%BF?":2,"%F0%9F??":1}', "3201", 4, 3)]
    for i, (t1, t2, perm, nh, xf) in enumerate(C):
        L.append(ob("class/%d" % i, P, "VerifC13Class", [t1, t2, perm, nh, xf], covers=["accept", "reject", "different-texts"]))
    # ---- num (concrete literals; strconv executed concretely)
    table = "|".join("%s>%s" % (a, b) for a, b in NUMS)
    for t in ("#", "[#]", '{"a":[1,#]}'):
        L.append(ob("num/%s" % t, P, "VerifC13Num", [t, table], covers=["respelled", "verbatim"]))
    only = os.environ.get("VERIF_ONLY")  # development aid: run the obligations whose id contains this text
    if only:
        L = [o for o in L if only in o["id"]]
    return L
