"""Obligations for C14 (merge semantics of Unmarshal)."""
from oblib import ob

BOUNDS = {
    "quick": "one struct type holding every merge-capable kind (nested struct, pointer to struct, map[string]int8, []int8, [2]int8, any, int8); j1 populates all fields with symbolic digits/letters/keys, j2 mentions exactly one member in one of three ways (value / null / partial or differently shaped value), keys drawn from {a,b,c} so equal and distinct keys both occur: 7 fields x 3 modes, plus element replacement in a []any and in an array of structs (also under UnmarshalArrayFromAnyLength alone). The expected final value is written directly from the documented merge rules.",
    "thorough": "same (plus: null zeroes each of 13 destination kinds - [3]byte, []byte, [2]int8, pointer, map, slice, string, bool, struct, any, float64, uint8, pointer to pointer - and keeps the other 12 fields; in both tiers); same (the space of the 21 obligations is explored completely in both tiers).",
}
ASSUMPTIONS = [
    "reflect.Type/reflect.Value are the engine's go/types-backed environment model (engine/reflect.go): the harness runs the real arshalers on a real Go type and replays natively verbatim",
    "Outside: other type graphs, chains longer than two texts, numbers beyond one digit",
]


def obligations(tier):
    L = []
    for field in range(7):
        for mode in range(3):
            L.append(ob("merge/field=%d/mode=%d" % (field, mode), ".", "VerifC14Merge", [field, mode], covers=["second-unmarshal"], max_seconds=600))
    for field in (7, 8):
        for mode in (0, 1):
            L.append(ob("merge/elements/field=%d/mode=%d" % (field, mode), ".", "VerifC14Merge", [field, mode], covers=["second-unmarshal"], max_seconds=600))
    for t in ('{"ba":"??=="}', '{"ba":""}', '{"ia":[?]}', '{"ia":[]}'):
        for al in (False, True):
            L.append(ob("short-array/%s/anylength=%d" % (t.replace('"', ''), al), ".", "VerifC14ShortArray", [t, al], max_seconds=600))
    for via in (False, True):
        L.append(ob("null/viajson=%d" % via, ".", "VerifC14Null", [via], covers=["checked"], max_seconds=600))
    return L
