"""Obligations for C01."""
from oblib import ob

BOUNDS = {'quick': 'Inside: every byte string of length 1-3 (all 256 values per byte) and every string of length 4 over Sigma24 = {}[]:,"\\/u019-+.eEantflsr space newline, for the 4 AllowInvalidUTF8 x AllowDuplicateNames settings, on Value.IsValid, a ReadToken loop and a ReadValue loop (buffer mode), compared with zzspec.ValidText / ScanStream (verdict, number of values, io.EOF only at a value boundary); the partition certificate (sum of path model counts = 256^n) is checked for the full-range obligations. Namespace switch: objects with 64 / 66 concrete distinct members (and 3 members after one 1100-byte name) followed by a member named \'a\'+2 symbolic bytes. Outside: longer inputs, the depth limit (C20), streaming mode (C05), Unmarshal-into-any (C03).', 'thorough': 'As quick with all byte strings of length <= 4, Sigma24 strings of length 5 and 6, and namespace objects with 63..70 members plus trailing members.'}
ASSUMPTIONS = []


def obligations(tier):
    q = tier == "quick"
    L = []
    for fn, tag in (("VerifC01IsValid", "isvalid"), ("VerifC01Tokens", "tokens"), ("VerifC01Values", "values")):
        for u in (False, True):
            for d in (False, True):
                for n in ([1, 2, 3] if q else [1, 2, 3, 4]):
                    L.append(ob("%s/full/n=%d/utf8=%d/dup=%d" % (tag, n, u, d), "jsontext", fn, [n, 0, u, d]))
                for n in ([4] if q else [5, 6]):
                    L.append(ob("%s/sigma24/n=%d/utf8=%d/dup=%d" % (tag, n, u, d), "jsontext", fn, [n, 1, u, d]))
    # namespace linear->map switch (65th name / >1 KiB of names)
    for cnt, ln, hl, ex in ([(64, False, 2, 0), (66, False, 2, 0), (3, True, 2, 0)] if q else
                            [(63, False, 2, 2), (64, False, 2, 2), (65, False, 2, 0), (66, False, 2, 2), (70, False, 2, 0), (3, True, 2, 2), (1, True, 2, 0)]):
        for d in (False, True):
            if d and q:
                continue
            L.append(ob("ns/count=%d/long=%d/hole=%d/extra=%d/dup=%d" % (cnt, ln, hl, ex, d), "jsontext", "VerifC01NS", [cnt, ln, hl, ex, d], covers=["accept", "reject"] if not d else ["accept"], max_seconds=600))
    return L
