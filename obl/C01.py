"""Obligations for C01."""
from oblib import ob

BOUNDS = {"quick": "", "thorough": ""}
ASSUMPTIONS = []


def obligations(tier):
    q = tier == "quick"
    L = []
    for fn, tag in (("VerifC01IsValid", "isvalid"), ("VerifC01Tokens", "tokens"), ("VerifC01Values", "values")):
        for u in (False, True):
            for d in (False, True):
                for n in ([1, 2, 3] if q else [1, 2, 3, 4]):
                    L.append(ob("%s/full/n=%d/utf8=%d/dup=%d" % (tag, n, u, d), "jsontext", fn, [n, 0, u, d]))
                for n in ([4] if q else [5, 6]):
                    L.append(ob("%s/sigma24/n=%d/utf8=%d/dup=%d" % (tag, n, u, d), "jsontext", fn, [n, 1, u, d]))
    return L
