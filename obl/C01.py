"""Obligations for C01."""
from oblib import ob

BOUNDS = {"quick": "", "thorough": ""}
ASSUMPTIONS = []


def obligations(tier):
    q = tier == "quick"
    L = []
    for fn, tag in (("VerifC01IsValid", "isvalid"), ("VerifC01Tokens", "tokens"), ("VerifC01Values", "values")):
        for u in (False, True):
            for d in (False, True):
                for n in ([1, 2, 3] if q else [1, 2, 3, 4]):
                    L.append(ob("%s/full/n=%d/utf8=%d/dup=%d" % (tag, n, u, d), "jsontext", fn, [n, 0, u, d]))
                for n in ([4] if q else [5, 6]):
                    L.append(ob("%s/sigma24/n=%d/utf8=%d/dup=%d" % (tag, n, u, d), "jsontext", fn, [n, 1, u, d]))
    # namespace linear->map switch (65th name / >1 KiB of names)
    for cnt, ln, hl, ex in ([(64, False, 2, 0), (66, False, 2, 0), (3, True, 2, 0)] if q else
                            [(63, False, 2, 2), (64, False, 2, 2), (65, False, 2, 0), (66, False, 2, 2), (70, False, 2, 0), (3, True, 2, 2), (1, True, 2, 0)]):
        for d in (False, True):
            if d and q:
                continue
            L.append(ob("ns/count=%d/long=%d/hole=%d/extra=%d/dup=%d" % (cnt, ln, hl, ex, d), "jsontext", "VerifC01NS", [cnt, ln, hl, ex, d], covers=["accept", "reject"] if not d else ["accept"], max_seconds=600))
    return L
