"""Obligations for C09 (v1 Valid/Compact/Indent/HTMLEscape and the reflection-based entry points Marshal/MarshalIndent/
Unmarshal/Decoder/Encoder against the real encoding/json)."""
import os
from oblib import ob

BOUNDS = {
    "quick": "Differential run of v1.{Valid,Compact,Indent,HTMLEscape} and the standard library's encoding/json source on the same "
             "symbolic bytes. Inside: every byte string of length <=2 (Valid, Compact) "
             "resp. <=1 (Indent with (prefix,indent) = (\"\",\"\") and (\">\",\"x\")) resp. <=3 (HTMLEscape); every string of length 4 over Sigma24 = {}[]:,\"\\/u019-+.eEantflsr space newline "
             "(Valid, Compact); Indent for the five (prefix,indent) pairs (\"\",\"\") (\"\",\"\\t\") (\"\",\"  \") (\">\",\"x\") (\"p\",\" \") and "
             "additionally (\">\",\"\") on every string of length 4 over {}[]:,\"a1 space and on skeletons with 1-3 unconstrained bytes "
             "(trailing whitespace after a scalar, array element, object member value); Valid/Compact/HTMLEscape skeletons listed in the "
             "obligation arguments. Reflection-based entry points (typed harness, real Go types handed unchanged to both packages): "
             "Marshal and MarshalIndent ((\"\",\"\\t\") and (\">\",\"x\")) of 8 type families (struct tags name/omitempty/omitzero/string/-; embedded struct "
             "and embedded pointer with a name conflict; map[string]int8, map[int8]string, map[string]bool; []byte, [2]int8, [2]byte, []int8, []string, [0]int8; "
             "*int8, *string, **bool, any holding bool/string/nil pointer/[]any/map; MarshalJSON (value and pointer receiver), MarshalText, text-marshaling map keys; "
             "encoding/json.RawMessage and v1.RawMessage fields; strings with 1-2 unconstrained bytes incl. HTML characters, U+2028 prefixes and ill-formed UTF-8) "
             "with every int8/bool value; Unmarshal of the same families (plus float32/float64 with the string option on 21 concrete texts, and an any target) on "
             "the listed skeletons with 1-2 unconstrained bytes in member names, values, quoted numbers, duplicates, unknown members, with targets pre-filled "
             "by sentinels (compared field by field; untouched on syntax errors); Decoder call sequences of 3 calls from {Decode, Token, More} + InputOffset "
             "after every call on 7 skeletons (UseNumber, DisallowUnknownFields variants) until the first error; Encoder with SetIndent/SetEscapeHTML variants, "
             "two values. Outside: longer inputs, other prefix/indent strings, other Go types (floats on symbolic text, time, wide integers, channels...), "
             "v1.Number/encoding/json.Number (different types in the two packages), Decoder.Buffered, calls after the first error, error message text and "
             "offsets, the target value after a semantic error, non-empty destination contents other than \"#\".",
    "thorough": "As quick with: all byte strings of length <=3 (Valid, Compact, Indent for (\"\",\"\") and (\">\",\"x\")) resp. <=4 "
                "(HTMLEscape); Sigma24 strings of length 5 and 6 (Valid, Compact) resp. 5 (Indent, five pairs); more skeletons incl. three "
                "trailing unconstrained bytes after an array; typed part: all skeletons of the lists TM/TU/TD/TE, MarshalIndent for every family, Decoder "
                "sequences of 3 and 4 calls, Decode into any as well as into int8/struct.",
}
ASSUMPTIONS = [
    "oracle = source of encoding/json of the Go toolchain the engine loads (go1.26.8), executed symbolically next to the v1 code",
    "sync.Pool (jsontext decoder/encoder pools, encoding/json scanner pool) modelled sequentially by the engine",
    "The former cut for inputs on which v1.Indent did not terminate (non-blank prefix, empty indent; finding KF-C09-indent-trailing-ws) was removed after fix 4952b30: those inputs are explored again and a disagreement anywhere is a violation",
    "error values are compared only for presence (nil / non-nil); SyntaxError text and Offset are not compared",
    "typed part: reflect.Type/reflect.Value are the engine's go/types-backed model (engine/reflect.go) for BOTH packages; decimal formatting of symbolic int8 "
    "values is the engine's contract stub; strconv.ParseFloat on symbolic text is an uninterpreted function shared by both packages (so float VALUES from "
    "symbolic digits are compared only up to that function; the float32/float64 range checks use concrete texts); syntactic validity of an Unmarshal input is "
    "decided by encoding/json.Valid",
    "typed part, recorded findings (AssertKF, tight regions in the harness): KF-C09-invalid-utf8-literal (Marshal bytes for ill-formed UTF-8), "
    "KF-C09-quoted-number-lead and KF-C09-quoted-string-strict (`string` tag option on decode), KF-C09-decode-at-object-name, "
    "KF-C09-more-before-invalid-close, KF-C09-more-at-truncation (Decoder)",
]

AR = ["accept", "reject"]
PAIRS = [("", ""), ("", "\t"), ("", "  "), (">", "x"), ("p", " "), (">", "")]
# skeletons for Valid / Compact ('?' = unconstrained byte)
VT_Q = ['[?,?]', '{"?":?}', 'tru?', '"\\??"', '{"?":1,"?":2}']
VT_T = VT_Q + ['-?.?e??', ' ?1? ', 'fals?', 'nul?', '"\\u00??"', '"\\u?8?f"', '{"a":?,"b":?}', '[[?]]?', '[?,?,?]', '{"a":{"?":?}}', '??.??', '"??"?', '[1e?,-?]']
# skeletons for Indent
IT_Q = ['1??', '[1,?]', '{"a":?}']
IT_T = IT_Q + ['[?]??', '[1]???', '{"a":[?]}?', ' [?, ?]\n', '[{}?[]?1]', '{"a":1}\n? ']
# HTMLEscape skeletons: X, Y, Z, W stand for the bytes 0xE2, 0x80, 0xA8, 0xA9 (string arguments must stay ASCII)
HT_Q = ['"?<?"', '?XY?', 'X?Z?']
HT_T = HT_Q + ['?XYZ?', '??XY?', 'XY??', '&?>?<', 'XXYW?', '?X?W']


def obligations(tier):
    q = tier == "quick"
    L = []
    V = ("valid", "VerifC09Valid"), ("compact", "VerifC09Compact")
    for tag, fn in V:
        for n in ([0, 1, 2] if q else [0, 1, 2, 3]):
            L.append(ob("%s/full/n=%d" % (tag, n), "v1", fn, [n, 0, ""], covers=AR if n else ["reject"], solver="z3-new" if n == 3 else "z3"))
        for n in ([4] if q else [4, 5, 6]):
            L.append(ob("%s/sigma24/n=%d" % (tag, n), "v1", fn, [n, 1, ""], covers=AR))
        for i, t in enumerate(VT_Q if q else VT_T):
            L.append(ob("%s/t%d" % (tag, i), "v1", fn, [0, 0, t], covers=AR))
    for pi, (p, ind) in enumerate(PAIRS):
        tag = "indent/p%d" % pi
        if pi in (0, 3):
            for n in ([0, 1] if q else [0, 1, 2, 3]):
                L.append(ob("%s/full/n=%d" % (tag, n), "v1", "VerifC09Indent", [n, 0, "", p, ind], covers=AR if n else ["reject"], solver="z3-new" if n == 3 else "z3"))
        L.append(ob("%s/struct/n=4" % tag, "v1", "VerifC09Indent", [4, 3, "", p, ind], covers=AR))
        if not q:
            L.append(ob("%s/struct/n=5" % tag, "v1", "VerifC09Indent", [5, 3, "", p, ind], covers=AR))
            if pi < 5:
                L.append(ob("%s/sigma24/n=5" % tag, "v1", "VerifC09Indent", [5, 1, "", p, ind], covers=AR))
        for i, t in enumerate(IT_Q if q else IT_T):
            L.append(ob("%s/t%d" % (tag, i), "v1", "VerifC09Indent", [0, 0, t, p, ind], covers=AR))
    for n in ([0, 1, 2, 3] if q else [0, 1, 2, 3, 4]):
        L.append(ob("html/full/n=%d" % n, "v1", "VerifC09HTML", [n, 0, ""], covers=["verbatim"] + (["escaped"] if n else [])))
    for i, t in enumerate(HT_Q if q else HT_T):
        L.append(ob("html/t%d" % i, "v1", "VerifC09HTML", [0, 0, t], covers=["escaped"] if any(c in t for c in ("<", ">", "&", "XYZ", "XYW")) else ["verbatim", "escaped"]))
    L += typed_obligations(q)
    f = os.environ.get("C09_ONLY")
    if f:
        L = [o for o in L if any(x in o["id"] for x in f.split(","))]
    return L


# ---- reflection-based entry points (harness v1/zz_verif_c09_typed.go) ----------------------
# skeletons: '?' = unconstrained byte, %XY = byte 0xXY
OKERR = ["ok", "error"]
OK = ["ok"]
# Marshal: (kind, variant, skeleton, covers, quick?)
TM = [
    (0, 0, "?", OK, 1), (0, 1, "<", OK, 1), (0, 2, "?", OK, 1), (0, 3, "a", OK, 1),
    (1, 0, "", OK, 1), (1, 1, "?", OK, 1),
    (2, 0, "", OK, 1), (2, 1, "?", OK, 1), (2, 2, "?", OK, 1), (2, 3, "?", OK, 1),
    (3, 0, "", OK, 1), (3, 1, "??", OK, 1), (3, 2, "?", OK, 1),
    (4, 0, "", OK, 1), (4, 1, "?", OK, 1), (4, 2, "?", OK, 1),
    (5, 0, "?", OKERR, 1), (5, 0, ' [?, "?"] ', OKERR, 0), (5, 1, "??", OK, 1), (5, 2, "[?]", OKERR, 1), (5, 3, "?", OKERR, 1),
    (6, 0, "?", OKERR, 1), (6, 0, '{"a" :?}', OKERR, 1), (6, 0, '{"?" :?}', OKERR, 0), (6, 1, "?", OKERR, 1), (6, 2, "[?]", OKERR, 1), (6, 3, "", OK, 1),
    (7, 0, "??", OK, 1), (7, 0, "%E2%80?", OK, 1), (7, 1, "?&", OK, 1), (7, 2, "?%FF", [], 1), (7, 4, "?", OK, 1),
    (7, 0, "???", OK, 0), (7, 1, "%E2??", OK, 0),
]
QUICK_INDENT = {(0, 0), (1, 1), (2, 1), (3, 2), (4, 2), (5, 0), (6, 0), (7, 0)}  # MarshalIndent families of the quick tier
SYN = ["ok", "syntax-error"]
SEM = ["ok", "semantic-error"]
ALL3 = ["ok", "syntax-error", "semantic-error"]
# Unmarshal: (kind, variant, skeleton, covers, quick?)
TU = [
    # struct tags: names (case-insensitive), kinds, `string` option, duplicates, unknown members
    (0, 0, '{"?":1}', ALL3, 1), (0, 0, '{"a":??}', ALL3, 0), (0, 0, '{"a":?}', SYN, 1), (0, 0, '{"e":"?"}', ALL3, 1), (0, 0, '{"e":?}', ["syntax-error", "semantic-error"], 1),
    (0, 0, '{"e":"-?"}', ALL3, 0), (0, 0, '{"e":"nul?"}', ["ok", "semantic-error"], 1), (0, 0, '{"h":"tru?"}', ["ok", "semantic-error"], 1), (0, 0, '{"h":"?"}', ["syntax-error", "semantic-error"], 0),
    (0, 0, '{"i":"\\"?\\""}', SYN, 1), (0, 0, '{"i":"?"}', ["syntax-error", "semantic-error"], 0), (0, 0, '{"bee":?,"BEE":"x"}', ["syntax-error", "semantic-error"], 1), (0, 0, '{"a":1,"A":?}', SYN, 1),
    (0, 0, '{"x":?}', SYN, 0), (0, 0, '{"u":?,"f":?}', SYN, 0), (0, 0, '{"-":"?"}', SYN, 1), (0, 0, '{"a":n?ll}', SYN, 0), (0, 0, '{"a":12?}', ALL3, 1),
    (0, 0, '{"a":-12?}', ALL3, 0), (0, 0, '{"a":1?0}', ALL3, 1), (0, 0, '{"d":?e0}', ["syntax-error", "semantic-error"], 0), (0, 0, '{"a":1}?', SYN, 1), (0, 0, '[?]', ["syntax-error", "semantic-error"], 0),
    (0, 0, '??', ALL3, 0), (0, 0, '{"a":1?"d":2}', SYN, 0), (0, 0, '{"\\u00?1":5}', SYN, 1), (0, 0, '{"??":true}', SYN, 0), (0, 0, '{"BE?":"z"}', SYN, 0),
    (0, 0, '{"e":"??"}', ALL3, 1), (0, 0, '{"i":"nul?"}', ["semantic-error"], 1), (0, 0, '{"i":"\\"\\\\ud8?0\\""}', [], 0),
    # embedding
    (1, 0, '{"?":1}', ALL3, 1), (1, 1, '{"?":2}', ALL3, 1), (1, 0, '{"k":?}', SYN, 1), (1, 0, '{"v":tru?}', SYN, 0), (1, 1, '{"Y":"?"}', SYN, 0), (1, 0, '{"%E2%84?":1}', SYN, 1),
    (1, 0, '{"x":?,"k":?}', SYN, 0), (1, 0, '{"z":?,"Z":1}', SYN, 0),
    # maps
    (2, 0, '{"m":{"?":1}}', SYN, 1), (2, 1, '{"m":{"b":?}}', SYN, 1), (2, 1, '{"m":{"?":1,"?":2}}', SYN, 0), (2, 1, '{"m":nul?}', SYN, 1), (2, 0, '{"m":[?]}', ["syntax-error", "semantic-error"], 0),
    (2, 0, '{"n":{"??":"x"}}', ALL3, 1), (2, 1, '{"n":{"1?":"y"}}', ALL3, 1), (2, 0, '{"n":{"12?":"x"}}', ALL3, 0), (2, 0, '{"n":{"-?":"x","-1":"y"}}', ALL3, 0), (2, 1, '{"o":{"?":tru?}}', SYN, 0),
    # slices, arrays, []byte
    (3, 1, '{"y":"AA??"}', ALL3, 1), (3, 0, '{"y":"?AA="}', ALL3, 0), (3, 1, '{"y":[?]}', SYN, 1), (3, 1, '{"y":nul?}', SYN, 0), (3, 0, '{"a":[?]}', SYN, 1), (3, 0, '{"a":[1,2,?]}', SYN, 1),
    (3, 1, '{"l":[?]}', SYN, 1), (3, 1, '{"l":[?,?]}', ALL3, 0), (3, 1, '{"l":nul?}', SYN, 0), (3, 0, '{"ba":[?,3]}', SYN, 1), (3, 0, '{"ba":"AA?="}', ["syntax-error", "semantic-error"], 0),
    (3, 1, '{"s":[nul?]}', SYN, 1), (3, 1, '{"s":["?"]}', SYN, 0), (3, 1, '{"s":[?]}', ALL3, 0), (3, 0, '{"z":[?]}', SYN, 1), (3, 1, '{"l":[?', ["syntax-error"], 0),
    # pointers, interfaces
    (4, 0, '{"p":?}', SYN, 1), (4, 1, '{"p":nul?}', SYN, 1), (4, 1, '{"q":"?"}', SYN, 0), (4, 0, '{"pp":tru?}', SYN, 0), (4, 1, '{"pp":nul?}', SYN, 0), (4, 0, '{"i":?}', SYN, 1),
    (4, 1, '{"i":[?]}', SYN, 0), (4, 1, '{"i":{"a":?}}', SYN, 0), (4, 1, '{"j":?}', SYN, 1), (4, 1, '{"j":nul?}', SYN, 1), (4, 1, '{"j":"?"}', ["syntax-error", "semantic-error"], 0),
    (4, 0, '{"ps":"?"}', ALL3, 1), (4, 1, '{"ps":?}', ["syntax-error", "semantic-error"], 0), (4, 1, '{"ps":nul?}', SYN, 0), (4, 1, '{"ps":"nul?"}', ["ok", "semantic-error"], 1),
    # user methods
    (5, 0, '{"j":?}', SYN, 1), (5, 0, '{"j": [? ] }', SYN, 1), (5, 1, '{"j":nul?}', SYN, 0), (5, 1, '{"jp":nul?}', SYN, 1), (5, 0, '{"jp":?}', SYN, 0), (5, 0, '{"t":"?"}', SYN, 1),
    (5, 0, '{"t":"\\?"}', SYN, 0), (5, 0, '{"t":?}', ["syntax-error", "semantic-error"], 1), (5, 0, '{"t":nul?}', SYN, 0), (5, 0, '{"pj":{"B":"AA?="}}', ALL3, 0), (5, 1, '{"k":{"k?":1}}', SYN, 1),
    (5, 0, '{"k":{"?b":1}}', ALL3, 0),
    # raw messages
    (6, 0, '{"r":?}', SYN, 1), (6, 0, '{"r": [?, "?"] }', SYN, 0), (6, 1, '{"r":nul?}', SYN, 1), (6, 0, '{"rp":?}', SYN, 0), (6, 1, '{"rp":nul?}', SYN, 1), (6, 0, '{"ro":"?"}', SYN, 0),
    (6, 0, '{"v":?}', SYN, 1), (6, 0, '{"v": {"?":?}}', SYN, 0), (6, 1, '{"v":nul?}', SYN, 1),
    # any
    (8, 0, '??', SYN, 0), (8, 0, '[?,?]', SYN, 1), (8, 0, '{"?":?}', SYN, 0), (8, 0, '{"a":?}', SYN, 1), (8, 0, '"\\??"', SYN, 0), (8, 0, '"\\u00?0"', SYN, 0), (8, 0, '"\\ud83?"', SYN, 1), (8, 0, '"%E2?"', SYN, 1),
    (8, 0, '-?.?', SYN, 0), (8, 0, '1e?', SYN, 0), (8, 1, '{"?":1}', SYN, 1), (8, 0, ' ?1? ', SYN, 0), (8, 0, '"\\ud83d\\ud?00"', SYN, 0),
    # strings
    (9, 0, '{"s":"??"}', SYN, 0), (9, 0, '{"s":"\\??"}', SYN, 0), (9, 0, '{"s":"%FF?"}', SYN, 1), (9, 1, '{"k":{"?":?}}', SYN, 0), (9, 1, '{"k":{"a":?}}', SYN, 1), (9, 0, '{"s":"?"}', SYN, 1), (9, 0, '{"S":?}', ["syntax-error"], 0), (9, 0, '{"s":"\\ud8?0\\udc00"}', SYN, 0),
]
# float32/float64 with the `string` option: concrete texts around the float32 / float64 range
TF = [('{"f":"3.5e38"}', "semantic-error"), ('{"f":"1e39"}', "semantic-error"), ('{"f":"1e300"}', "semantic-error"), ('{"f":"1.5"}', "ok"), ('{"f":"3.4028235e38"}', "ok"),
      ('{"f":"-3.5e38"}', "semantic-error"), ('{"f":"1e-50"}', "ok"), ('{"g":"1e300"}', "ok"), ('{"g":"1e400"}', "semantic-error"), ('{"h":3.5e38}', "semantic-error"),
      ('{"h":1.5}', "ok"), ('{"f":1.5}', "semantic-error"), ('{"f":"+1"}', None), ('{"f":"01"}', "ok"), ('{"f":" 1"}', "semantic-error"), ('{"f":"1e5"}', "ok"), ('{"f":"null"}', "ok"),
      ('{"f":"Inf"}', None), ('{"f":"0x1p-2"}', "ok"), ('{"f":"1_0"}', "ok"), ('{"f":""}', "semantic-error")]
# Decoder: (skeleton, target, useNumber, disallow, covers, quick?)
TD = [
    ('[1 ,?]', 2, False, False, ["decoded", "token", "more"], 1),
    ('[?]', 2, False, False, ["decoded", "token", "more", "no-more"], 1),
    ('{"a":?} 7', 2, False, False, ["decoded", "token", "more"], 1),
    (' [?]\n[2]', 2, False, False, ["decoded", "token", "more"], 1),
    ('[1 ,?]', 2, True, False, ["decoded", "token"], 1),
    ('{"a":1,"?":2} ', 1, False, True, ["decoded", "token", "error"], 1),
    ('{"a":1,"?":2} ', 1, False, False, ["decoded", "token"], 0),
    (' 1 ?', 2, False, False, ["decoded", "token", "error"], 0),
    ('1?2', 2, True, False, ["decoded", "token"], 0),
    ('{"a" :? , "b":2}', 2, False, False, ["decoded", "token"], 0),
    ('[]?', 2, False, False, ["token", "token-eof"], 1),
    ('[1]?', 2, False, False, ["decoded", "token"], 0),
    # Decode into an any (needs reflect.Value.Equal on a zero Value and Value.NumMethod in the engine)
    ('[1 ,?]', 0, False, False, ["decoded", "token", "more"], 0),
    ('[1 ,?]', 0, True, False, ["decoded", "token"], 0),
    ('{"a":?} 7', 0, False, False, ["decoded", "token", "more"], 0),
    ('["?",{"b":[?]}]', 0, False, False, ["decoded", "token"], 0),
    ('[tru?,nul?]', 0, False, False, ["decoded", "token"], 0),
]
# Encoder: (kind, variant, skeleton, indent, escapeHTML, reset, quick?)
TE = [
    (7, 4, "?", 0, True, False, 1), (7, 4, "?", 0, False, False, 1), (7, 4, "?", 1, False, True, 1), (7, 4, "?", 2, True, False, 1),
    (7, 1, "%E2%80?", 0, False, False, 1), (7, 1, "?&", 2, False, True, 0), (0, 0, "?", 1, True, True, 0), (2, 1, "?", 2, False, False, 0), (5, 0, "?", 0, False, False, 1), (6, 0, '{"a" :?}', 1, False, False, 0),
    (5, 1, "??", 0, False, True, 0), (4, 2, "?", 2, False, False, 0),
]


def typed_obligations(q):
    L = []
    kw = dict(max_paths=150000, max_seconds=1500)
    for kind, var, t, cov, quick in TM:
        if q and not quick:
            continue
        for mode in (0, 1, 2):
            if q and mode and (kind, var) not in QUICK_INDENT:
                continue
            L.append(ob("tmarshal/k%d/v%d/m%d/%s" % (kind, var, mode, t), "v1", "VerifC09TMarshal", [kind, var, mode, t], covers=cov, **kw))
    for kind, var, t, cov, quick in TU:
        if q and not quick:
            continue
        L.append(ob("tunmarshal/k%d/v%d/%s" % (kind, var, t), "v1", "VerifC09TUnmarshal", [kind, var, t], covers=cov, **kw))
    for t, cov in TF:
        L.append(ob("tunmarshal/float/%s" % t, "v1", "VerifC09TUnmarshal", [7, 0, t], covers=[cov] if cov else [], **kw))
    for t, target, un, dis, cov, quick in TD:
        if q and not quick:
            continue
        for steps in ([3] if q else [3, 4]):
            L.append(ob("tdecoder/n%d/t%d/un%d/dis%d/%s" % (steps, target, un, dis, t.replace("\n", "\\n")), "v1", "VerifC09TDecoder", [t, steps, target, un, dis], covers=cov, **kw))
    for kind, var, t, ind, esc, reset, quick in TE:
        if q and not quick:
            continue
        L.append(ob("tencoder/k%d/v%d/i%d/esc%d/r%d/%s" % (kind, var, ind, esc, reset, t), "v1", "VerifC09TEncoder", [kind, var, t, ind, esc, reset], covers=[], **kw))
    L.append(ob("ptrmethods/positions", "v1", "VerifC09PointerMethods", [], covers=["compared"]))
    # three further recorded differences (regions stated in the harness), everything around them must agree
    for kind, t in ((0, '{"nul?":1}'), (0, '{"?ull":1}'), (1, '{"?o?":1}'), (2, '"???"')) + (() if q else ((0, '{"n?l?":1}'), (1, '{"f??":1}'))):
        L.append(ob("diff/kind=%d/%s" % (kind, t.replace('"', '')), "v1", "VerifC09Diff", [kind, t]))
    return L
