"""Obligations for C09 (v1 Valid/Compact/Indent/HTMLEscape against the real encoding/json)."""
import os
from oblib import ob

BOUNDS = {
    "quick": "Differential run of v1.{Valid,Compact,Indent,HTMLEscape} and the standard library's encoding/json source on the same "
             "symbolic bytes. Inside: every byte string of length <=2 (Valid, Compact) "
             "resp. <=1 (Indent with (prefix,indent) = (\"\",\"\") and (\">\",\"x\")) resp. <=3 (HTMLEscape); every string of length 4 over Sigma24 = {}[]:,\"\\/u019-+.eEantflsr space newline "
             "(Valid, Compact); Indent for the five (prefix,indent) pairs (\"\",\"\") (\"\",\"\\t\") (\"\",\"  \") (\">\",\"x\") (\"p\",\" \") and "
             "additionally (\">\",\"\") on every string of length 4 over {}[]:,\"a1 space and on skeletons with 1-3 unconstrained bytes "
             "(trailing whitespace after a scalar, array element, object member value); Valid/Compact/HTMLEscape skeletons listed in the "
             "obligation arguments. Outside: longer inputs, other prefix/indent strings, Marshal/Unmarshal/Encoder/Decoder and every other "
             "reflection-based entry point of package v1, error message text and offsets, non-empty destination contents other than \"#\".",
    "thorough": "As quick with: all byte strings of length <=3 (Valid, Compact, Indent for (\"\",\"\") and (\">\",\"x\")) resp. <=4 "
                "(HTMLEscape); Sigma24 strings of length 5 and 6 (Valid, Compact) resp. 5 (Indent, five pairs); more skeletons incl. three "
                "trailing unconstrained bytes after an array.",
}
ASSUMPTIONS = [
    "oracle = source of encoding/json of the Go toolchain the engine loads (go1.26.8), executed symbolically next to the v1 code",
    "sync.Pool (jsontext decoder/encoder pools, encoding/json scanner pool) modelled sequentially by the engine",
    "The former cut for inputs on which v1.Indent did not terminate (non-blank prefix, empty indent; finding KF-C09-indent-trailing-ws) was removed after fix 4952b30: those inputs are explored again and a disagreement anywhere is a violation",
    "error values are compared only for presence (nil / non-nil); SyntaxError text and Offset are not compared",
]

AR = ["accept", "reject"]
PAIRS = [("", ""), ("", "\t"), ("", "  "), (">", "x"), ("p", " "), (">", "")]
# skeletons for Valid / Compact ('?' = unconstrained byte)
VT_Q = ['[?,?]', '{"?":?}', 'tru?', '"\\??"', '{"?":1,"?":2}']
VT_T = VT_Q + ['-?.?e??', ' ?1? ', 'fals?', 'nul?', '"\\u00??"', '"\\u?8?f"', '{"a":?,"b":?}', '[[?]]?', '[?,?,?]', '{"a":{"?":?}}', '??.??', '"??"?', '[1e?,-?]']
# skeletons for Indent
IT_Q = ['1??', '[1,?]', '{"a":?}']
IT_T = IT_Q + ['[?]??', '[1]???', '{"a":[?]}?', ' [?, ?]\n', '[{}?[]?1]', '{"a":1}\n? ']
# HTMLEscape skeletons: X, Y, Z, W stand for the bytes 0xE2, 0x80, 0xA8, 0xA9 (string arguments must stay ASCII)
HT_Q = ['"?<?"', '?XY?', 'X?Z?']
HT_T = HT_Q + ['?XYZ?', '??XY?', 'XY??', '&?>?<', 'XXYW?', '?X?W']


def obligations(tier):
    q = tier == "quick"
    L = []
    V = ("valid", "VerifC09Valid"), ("compact", "VerifC09Compact")
    for tag, fn in V:
        for n in ([0, 1, 2] if q else [0, 1, 2, 3]):
            L.append(ob("%s/full/n=%d" % (tag, n), "v1", fn, [n, 0, ""], covers=AR if n else ["reject"], solver="z3-new" if n == 3 else "z3"))
        for n in ([4] if q else [4, 5, 6]):
            L.append(ob("%s/sigma24/n=%d" % (tag, n), "v1", fn, [n, 1, ""], covers=AR))
        for i, t in enumerate(VT_Q if q else VT_T):
            L.append(ob("%s/t%d" % (tag, i), "v1", fn, [0, 0, t], covers=AR))
    for pi, (p, ind) in enumerate(PAIRS):
        tag = "indent/p%d" % pi
        if pi in (0, 3):
            for n in ([0, 1] if q else [0, 1, 2, 3]):
                L.append(ob("%s/full/n=%d" % (tag, n), "v1", "VerifC09Indent", [n, 0, "", p, ind], covers=AR if n else ["reject"], solver="z3-new" if n == 3 else "z3"))
        L.append(ob("%s/struct/n=4" % tag, "v1", "VerifC09Indent", [4, 3, "", p, ind], covers=AR))
        if not q:
            L.append(ob("%s/struct/n=5" % tag, "v1", "VerifC09Indent", [5, 3, "", p, ind], covers=AR))
            if pi < 5:
                L.append(ob("%s/sigma24/n=5" % tag, "v1", "VerifC09Indent", [5, 1, "", p, ind], covers=AR))
        for i, t in enumerate(IT_Q if q else IT_T):
            L.append(ob("%s/t%d" % (tag, i), "v1", "VerifC09Indent", [0, 0, t, p, ind], covers=AR))
    for n in ([0, 1, 2, 3] if q else [0, 1, 2, 3, 4]):
        L.append(ob("html/full/n=%d" % n, "v1", "VerifC09HTML", [n, 0, ""], covers=["verbatim"] + (["escaped"] if n else [])))
    for i, t in enumerate(HT_Q if q else HT_T):
        L.append(ob("html/t%d" % i, "v1", "VerifC09HTML", [0, 0, t], covers=["escaped"] if any(c in t for c in ("<", ">", "&", "XYZ", "XYW")) else ["verbatim", "escaped"]))
    f = os.environ.get("C09_ONLY")
    if f:
        L = [o for o in L if f in o["id"]]
    return L
