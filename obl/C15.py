"""Obligations for C15 (struct fields map to JSON members by the documented resolution rules)."""
from oblib import ob

DIG = "0123456789"
TA = 'aomit,:\'\\"_-'  # tag alphabet: a o m i t , : ' \ " _ -

# VerifC15Unmarshal: (type, template, alphabet ("" = every ASCII byte), options quick, options thorough, covers by option)
# options: 0 default, 1 MatchCaseInsensitiveNames, 2 RejectUnknownMembers, 3 both
UNM = [
    (1, '{"?":5}', "", (0, 1, 2), (0, 1, 2, 3)),
    (1, '{"??":5}', "AaXx_-q", (1,), (0, 1)),
    (2, '{"?":5}', "", (0, 1), (0, 1, 2)),
    (2, '{"?1":5}', "Uu-_K", (1,), (0, 1)),
    (3, '{"?":5}', "", (0, 1), (0, 1, 2)),
    (3, '{"?A":5}', "PUNpunC_", (0, 1, 2), (0, 1, 2)),
    (3, '{"p?":5}', "bBaA_", (0, 1), (0, 1)),
    (4, '{"?":5}', "", (0, 1, 2), (0, 1, 2, 3)),
    (4, '{"?":"5"}', "", (0, 1), (0, 1)),
    (4, '{"a?b":5}', "_-ABb", (0, 1), (0, 1)),
    (4, '{"h??":"5"}', "-_1hH", (0, 1), (0, 1)),
    (4, '{"t\\?b":5}', 'tnu\\"/', (0,), (0, 2)),
    (4, '{"??":5}', "-_d", (0, 1), (0, 1)),
    (4, '{"":5}', "", (0, 1), (0, 1, 3)),
    (5, '{"??":5}', "abABxyXY_-zZgG", (0, 1, 2, 3), (0, 1, 2, 3)),
    (5, '{"???":5}', "abAB_-xy", (0, 1), (0, 1)),
    (6, '{"?":5}', "", (0, 2), (0, 1, 2, 3)),
    (6, '{"b?c":5}', "_-bBx", (0, 1, 2), (0, 1, 2)),
    (6, '{"??":5}', "abcBC_k", (0, 1), (0, 1)),
    (7, '{"?":5}', "", (0, 2), (0, 2)),
    (7, '{"?":"5"}', "aQqz", (0, 1), (0, 1)),
    (8, '{"F6?":5}', DIG, (0, 2), (0, 2)),
    (8, '{"?6?":5}', "Ff" + DIG, (1,), (0, 1)),
    (8, '{"G?":5}', "0123g", (0, 1), (0, 1)),
    (9, '{"S":{"?":5}}', "", (0, 1, 2), (0, 1, 2, 3)),
    (9, '{"in":{"?":5}}', "xXyYwW_z", (0, 1), (0, 1)),
    (9, '{"?":5}', "", (0, 1), (0, 1)),
    (9, '{"??":{"x":5}}', "iInNsS_-", (0, 1, 2), (0, 1, 2)),
    (11, '{"?":5}', "", (0, 1, 2), (0, 1, 2)),
    (12, '{"F1??":5}', DIG, (0,), (0, 2)),
    (13, '{"?":5}', "", (0, 1), (0, 1, 2)),
]
UNM_THOROUGH = [
    (1, '{"??":5}', "", (0, 1)),
    (5, '{"??":5}', "", (0, 1)),
    (5, '{"????":5}', "abAB_-", (0, 1)),
    (5, '{"???":5}', "", (0, 1)),
    (6, '{"???":5}', "bcBC_-k", (0, 1, 3)),
    (3, '{"??":5}', "PpUuAaBbIiCcNn_", (0, 1, 2)),
    (4, '{"???":5}', "aAbB_-dD", (0, 1)),
    (9, '{"??":{"?":5}}', "iInNsSxXyY_", (0, 1)),
    (8, '{"F??":5}', DIG, (0, 2)),
    (8, '{"???":5}', "FfGg0126", (0, 1)),
]
# the diamond type (known finding KF-C15-diamond-embedding)
UNM_DIAMOND = [(10, '{"?":5}', "XYVUxy", (0, 1, 2, 3))]

# VerifC15Dup: (type, template with two members, alphabet, options quick, options thorough)
DUP = [
    (1, '{"?":1,"?":2}', "AaXxBq", (0, 1), (0, 1)),
    (5, '{"??":1,"??":2}', "abAB_", (0, 1), (0, 1)),
    (8, '{"F6?":1,"F6?":2}', DIG, (0,), (0,)),
    (8, '{"?63":1,"?6?":2}', "Ff3456", (1,), (1,)),
    (8, '{"G?":1,"F0?":2}', "0123", (0,), (0,)),
    (8, '{"G?":1,"F6?":2}', "0123456", (0,), (0,)),
    (6, '{"?":1,"?":2}', "abk", (0, 2), (0, 2)),
    (6, '{"b?c":1,"?c":2}', "_bBC", (0,), (0, 1)),
    (4, '{"g":"1","?":"2"}', "gGh", (0, 1), (0, 1)),
    (3, '{"P?":1,"p?":2}', "AaBb", (0, 1), (0, 1)),
    (12, '{"F12?":1,"F12?":2}', DIG, (0,), (0,)),
    (12, '{"F0?4":1,"F1?2":2}', "0123", (0,), (0,)),
]
DUP_THOROUGH = [
    (5, '{"???":1,"??":2}', "abAB_-", (0, 1)),
    (8, '{"F??":1,"F6?":2}', DIG, (0,)),
    (12, '{"F1??":1,"F128":2}', DIG, (0,)),
    (12, '{"F1??":1,"F064":2}', DIG, (0,)),
    (7, '{"?":1,"?":2}', "aQqk", (0, 1, 2)),
]

TAG = [
    ("?", TA), ("??", TA), ("???", TA),
    ("?,omitzero", TA), (",omit?ero", "zZ_e"), ("?,string", TA), ("a?string", ",:_-'"), ("a,string?", ",:_'s"),
    ("n,omitempty?string", ",:_"), (",case:?gnore", "iI_s"), (",case:ignore?case:strict", ",:_"), ("a,??", TA), ("-?", TA), ("?,embed", TA),
]
TAG_THOROUGH = [("????", TA), ("a,???", TA), ("?,omitzero?omitempty", TA), (",case:strict?", TA), ("??,string", TA), ("?", ""), ("a,?", "")]

# cover labels that must be reached (vacuity guard), reviewed by hand per obligation
COVERS = {
    'unm/0/t=1/opt=0': ['exact', 'invalid-json', 'unknown-ignored'],
    'unm/0/t=1/opt=1': ['exact', 'folded', 'invalid-json', 'unknown-ignored'],
    'unm/0/t=1/opt=2': ['exact', 'invalid-json', 'unknown-rejected'],
    'unm/1/t=1/opt=1': ['folded', 'unknown-ignored'],
    'unm/2/t=2/opt=0': ['exact', 'invalid-json', 'unknown-ignored'],
    'unm/2/t=2/opt=1': ['exact', 'folded', 'invalid-json', 'unknown-ignored'],
    'unm/3/t=2/opt=1': ['exact', 'folded', 'unknown-ignored'],
    'unm/4/t=3/opt=0': ['exact', 'invalid-json', 'unknown-ignored'],
    'unm/4/t=3/opt=1': ['exact', 'folded', 'invalid-json', 'unknown-ignored'],
    'unm/5/t=3/opt=0': ['exact', 'unknown-ignored'],
    'unm/5/t=3/opt=1': ['exact', 'folded', 'unknown-ignored'],
    'unm/5/t=3/opt=2': ['exact', 'unknown-rejected'],
    'unm/6/t=3/opt=0': ['exact', 'unknown-ignored'],
    'unm/6/t=3/opt=1': ['exact', 'folded', 'unknown-ignored'],
    'unm/7/t=4/opt=0': ['exact', 'invalid-json', 'string-option-mismatch', 'unknown-ignored'],
    'unm/7/t=4/opt=1': ['exact', 'folded', 'invalid-json', 'string-option-mismatch', 'unknown-ignored'],
    'unm/7/t=4/opt=2': ['exact', 'invalid-json', 'string-option-mismatch', 'unknown-rejected'],
    'unm/8/t=4/opt=0': ['exact', 'invalid-json', 'string-option-mismatch', 'unknown-ignored'],
    'unm/8/t=4/opt=1': ['exact', 'folded', 'invalid-json', 'string-option-mismatch', 'unknown-ignored'],
    'unm/9/t=4/opt=0': ['exact', 'unknown-ignored'],
    'unm/9/t=4/opt=1': ['exact', 'folded', 'unknown-ignored'],
    'unm/10/t=4/opt=0': ['exact', 'unknown-ignored'],
    'unm/10/t=4/opt=1': ['exact', 'folded', 'unknown-ignored'],
    'unm/11/t=4/opt=0': ['exact', 'invalid-json', 'unknown-ignored'],
    'unm/12/t=4/opt=0': ['unknown-ignored'],
    'unm/12/t=4/opt=1': ['folded', 'unknown-ignored'],
    'unm/13/t=4/opt=0': ['unknown-ignored'],
    'unm/13/t=4/opt=1': ['folded'],
    'unm/14/t=5/opt=0': ['ambiguous', 'exact', 'exact-preferred-over-folded', 'folded', 'unknown-ignored'],
    'unm/14/t=5/opt=1': ['ambiguous', 'exact', 'exact-preferred-over-folded', 'unknown-ignored'],
    'unm/14/t=5/opt=2': ['ambiguous', 'exact', 'exact-preferred-over-folded', 'folded', 'unknown-rejected'],
    'unm/14/t=5/opt=3': ['ambiguous', 'exact', 'exact-preferred-over-folded', 'unknown-rejected'],
    'unm/15/t=5/opt=0': ['ambiguous', 'exact', 'exact-preferred-over-folded', 'folded', 'unknown-ignored'],
    'unm/15/t=5/opt=1': ['ambiguous', 'exact', 'exact-preferred-over-folded', 'unknown-ignored'],
    'unm/16/t=6/opt=0': ['captured', 'exact', 'invalid-json'],
    'unm/16/t=6/opt=2': ['captured', 'exact', 'invalid-json'],
    'unm/17/t=6/opt=0': ['captured', 'exact', 'folded'],
    'unm/17/t=6/opt=1': ['captured', 'exact', 'folded'],
    'unm/17/t=6/opt=2': ['captured', 'exact', 'folded'],
    'unm/18/t=6/opt=0': ['captured', 'folded'],
    'unm/18/t=6/opt=1': ['captured', 'folded'],
    'unm/19/t=7/opt=0': ['captured', 'exact', 'invalid-json'],
    'unm/19/t=7/opt=2': ['captured', 'exact', 'invalid-json'],
    'unm/20/t=7/opt=0': ['captured', 'string-option-mismatch'],
    'unm/20/t=7/opt=1': ['captured', 'string-option-mismatch'],
    'unm/21/t=8/opt=0': ['exact', 'unknown-ignored'],
    'unm/21/t=8/opt=2': ['exact', 'unknown-rejected'],
    'unm/22/t=8/opt=1': ['exact', 'folded', 'unknown-ignored'],
    'unm/23/t=8/opt=0': ['exact', 'unknown-ignored'],
    'unm/23/t=8/opt=1': ['exact', 'unknown-ignored'],
    'unm/24/t=9/opt=0': ['exact', 'folded', 'invalid-json', 'unknown-ignored'],
    'unm/24/t=9/opt=1': ['exact', 'folded', 'invalid-json', 'unknown-ignored'],
    'unm/24/t=9/opt=2': ['exact', 'folded', 'invalid-json', 'unknown-rejected'],
    'unm/25/t=9/opt=0': ['exact', 'folded', 'unknown-ignored'],
    'unm/25/t=9/opt=1': ['exact', 'folded', 'unknown-ignored'],
    'unm/26/t=9/opt=0': ['exact', 'invalid-json', 'shape-mismatch', 'unknown-ignored'],
    'unm/26/t=9/opt=1': ['exact', 'folded', 'invalid-json', 'shape-mismatch', 'unknown-ignored'],
    'unm/27/t=9/opt=0': ['exact', 'unknown-ignored'],
    'unm/27/t=9/opt=1': ['exact', 'unknown-ignored'],
    'unm/27/t=9/opt=2': ['exact', 'unknown-rejected'],
    'unm/28/t=11/opt=0': ['exact', 'invalid-json', 'unknown-ignored'],
    'unm/28/t=11/opt=1': ['exact', 'folded', 'invalid-json', 'unknown-ignored'],
    'unm/28/t=11/opt=2': ['exact', 'invalid-json', 'unknown-rejected'],
    'unm/29/t=12/opt=0': ['exact', 'unknown-ignored'],
    'unmdiamond/0/t=10/opt=0': ['exact', 'unknown-ignored'],
    'unmdiamond/0/t=10/opt=1': ['exact', 'unknown-ignored'],
    'unmdiamond/0/t=10/opt=2': ['exact', 'unknown-rejected'],
    'unmdiamond/0/t=10/opt=3': ['exact', 'unknown-rejected'],
    'dup/0/t=1/opt=0': ['distinct', 'dup-same-name-same-field', 'dup-unknown-name'],
    'dup/0/t=1/opt=1': ['distinct', 'dup-different-names-same-field', 'dup-same-name-same-field', 'dup-unknown-name'],
    'dup/1/t=5/opt=0': ['distinct', 'dup-different-names-same-field', 'dup-same-name-same-field', 'dup-unknown-name'],
    'dup/1/t=5/opt=1': ['distinct', 'dup-same-name-same-field', 'dup-unknown-name'],
    'dup/2/t=8/opt=0': ['distinct', 'dup-same-name-same-field', 'dup-unknown-name'],
    'dup/3/t=8/opt=1': ['distinct', 'dup-different-names-same-field', 'dup-same-name-same-field', 'dup-unknown-name'],
    'dup/4/t=8/opt=0': ['distinct'],
    'dup/5/t=8/opt=0': ['distinct'],
    'dup/6/t=6/opt=0': ['distinct', 'dup-same-name-same-field', 'dup-unknown-name'],
    'dup/6/t=6/opt=2': ['distinct', 'dup-same-name-same-field', 'dup-unknown-name'],
    'dup/7/t=6/opt=0': ['distinct', 'dup-different-names-same-field'],
    'dup/8/t=4/opt=0': ['distinct', 'dup-same-name-same-field'],
    'dup/8/t=4/opt=1': ['distinct', 'dup-different-names-same-field', 'dup-same-name-same-field'],
    'dup/9/t=3/opt=0': ['distinct'],
    'dup/9/t=3/opt=1': ['distinct', 'dup-different-names-same-field'],
    'dup/10/t=12/opt=0': ['distinct', 'dup-same-name-same-field'],
    'dup/11/t=12/opt=0': ['distinct'],
    'tag/0': ['clean', 'ignored', 'malformed', 'no-json-tag', 'well-formed'],
    'tag/1': ['clean', 'ignored', 'malformed', 'no-json-tag', 'well-formed'],
    'tag/2': ['clean', 'ignored', 'malformed', 'no-json-tag', 'well-formed'],
    'tag/3': ['clean', 'malformed', 'no-json-tag', 'well-formed'],
    'tag/4': ['clean', 'well-formed'],
    'tag/5': ['clean', 'malformed', 'no-json-tag', 'well-formed'],
    'tag/6': ['clean', 'malformed', 'well-formed'],
    'tag/7': ['malformed', 'well-formed'],
    'tag/8': ['clean', 'malformed', 'well-formed'],
    'tag/9': ['bad-case', 'clean', 'well-formed'],
    'tag/10': ['bad-case', 'malformed', 'well-formed'],
    'tag/11': ['malformed', 'no-json-tag', 'well-formed'],
    'tag/12': ['clean', 'ignored', 'malformed', 'no-json-tag', 'well-formed'],
    'tag/13': ['clean', 'malformed', 'no-json-tag', 'well-formed'],
    'unm/11/t=4/opt=2': ['exact', 'invalid-json', 'unknown-rejected'],
}

BOUNDS = {
    "quick": "12 hand-written struct types (harness/root/zz_verif_c15.go: depth shadowing over 3 levels; ties at equal depth with 0/1/2 tagged fields and a deeper loser; embedded pointer, "
             "embedded struct of unexported type, named embedded non-struct, `embed` option; json:\"-\", renames incl. the names \"-\", \"$%/ x\" and one with a TAB, omitzero/omitempty/string on int8; "
             "case:ignore / case:strict / untagged mixes with exact-vs-folded rivals; map and jsontext.Value fallbacks (the latter one level down); 70 and 132 fields; nested struct values resolved per level; "
             "a type met twice at one depth (diamond: known finding) and at two depths, self-embedding) whose JSON field lists are stated by hand from doc.go. "
             "Marshal: each type in 4 states (all fields distinct non-zero / zero value / non-zero with nil embedded pointer / zero value under OmitZeroStructFields), concrete values: member names, order and values re-read with the reference tokenizer. "
             "Unmarshal: one-member objects with 1-3 SYMBOLIC name bytes (every ASCII byte for 1 hole, type-specific alphabets of 5-15 letters/separators for 2-3 holes) into the zero value under "
             "{default, MatchCaseInsensitiveNames, RejectUnknownMembers, both}: designated field set, every other field (shadowed/cancelled/ignored ones included) untouched, error iff documented. "
             "Dup: two-member objects with 2-4 symbolic name bytes (incl. fields 60-69 and 120-131 of the big types). Fallback-vs-field duplicates on Marshal: 1 ASCII byte / 2 bytes over 8 letters. "
             "Omit: 17 fields (int8, string, slice, map, pointer, struct, any, IsZero type; omitzero / omitempty / plain) each in all of its nil/empty/non-empty states with symbolic digit/letter contents, "
             "against all-zero and all-set neighbours. Tag grammar: parseFieldOptions on json:\"<t>\" with t = 1-3 bytes over {a o m i t , : ' \\ \" _ -} and 11 templates around omitzero/omitempty/string/embed/case with 1-2 symbolic bytes. "
             "10 type-validity cases. Names are ASCII; values one digit; int8 leaves.",
    "thorough": "quick plus: every option set for every template; 2 symbolic name bytes over ALL ASCII bytes for T1/T5, 3-4 bytes over small alphabets, symbolic outer AND inner names for nested structs, "
                "all two-digit field numbers of the 70-field type; more dup shapes (3+2 bytes, boundary fields 64/128, jsontext.Value fallback); fallback-duplicate names of 3 bytes and 2 ASCII bytes; "
                "tags of 4 bytes over the 12-letter alphabet and 1 byte over all ASCII.",
}
ASSUMPTIONS = [
    "reflect.Type/reflect.Value are the engine's go/types-backed environment model (engine/reflect.go); every sampled path is replayed natively",
    "the expected field list of each struct type (zz15Table) and the reference matcher/tag grammar (zzspec/fields.go) are written by hand from doc.go / options.go and are the specification; "
    "types are a fixed hand-written family, not generated: type graphs outside it (depth > 3, generic types, interface-typed embeds, v1 matching options, OmitZeroStructFields) are not covered",
    "non-ASCII member names (Unicode case folding, e.g. U+212A KELVIN SIGN) are outside the bound; names in error messages (fmt.Errorf text) are opaque",
    "tag reference: errors are only asserted for malformed tags, bad case values and clean tags; whether an unknown but well-formed option is reported is undocumented and left free; format is out of scope",
    "known finding KF-C15-diamond-embedding is attributed only inside type zz15T10 for the name Y (AssertKF region)",
]


def obligations(tier):
    q = tier == "quick"
    L = []

    def add(id, fn, args, **kw):
        kw.setdefault("max_seconds", 900 if q else 3000)
        kw.setdefault("max_paths", 40000 if q else 400000)
        cv = COVERS.get(id)
        if cv:
            kw["covers"] = cv
        L.append(ob(id, ".", fn, args, **kw))

    for t in range(1, 14):
        for st in (0, 1, 2, 3):
            # t=10 is the diamond type: its only path ends in the known finding, before nothing else can be covered
            add("marshal/t=%d/state=%d" % (t, st), "VerifC15Marshal", [t, st], covers=["marshal-done"] if t != 10 else [])
    for i, (t, tm, al, oq, ot) in enumerate(UNM):
        for o in (oq if q else ot):
            add("unm/%d/t=%d/opt=%d" % (i, t, o), "VerifC15Unmarshal", [t, tm, al, o])
    if not q:
        for i, (t, tm, al, opts) in enumerate(UNM_THOROUGH):
            for o in opts:
                add("unmT/%d/t=%d/opt=%d" % (i, t, o), "VerifC15Unmarshal", [t, tm, al, o])
    for i, (t, tm, al, opts) in enumerate(UNM_DIAMOND):
        for o in opts:
            add("unmdiamond/%d/t=%d/opt=%d" % (i, t, o), "VerifC15Unmarshal", [t, tm, al, o])
    for i, (t, tm, al, oq, ot) in enumerate(DUP):
        for o in (oq if q else ot):
            add("dup/%d/t=%d/opt=%d" % (i, t, o), "VerifC15Dup", [t, tm, al, o])
    if not q:
        for i, (t, tm, al, opts) in enumerate(DUP_THOROUGH):
            for o in opts:
                add("dupT/%d/t=%d/opt=%d" % (i, t, o), "VerifC15Dup", [t, tm, al, o])
    for n, al in ((1, ""), (2, "abBCc_-k")) if q else ((1, ""), (2, "abBCc_-k"), (3, "bBcC_-"), (2, "")):
        for ci in (False, True):
            add("fbdup/n=%d/a=%d/ci=%d" % (n, len(al), ci), "VerifC15FallbackDup", [n, al, ci], covers=["fallback-name-hits-field", "fallback-name-free"])
    for f in range(17):
        for oth in (0, 1):
            add("omit/field=%d/others=%d" % (f, oth), "VerifC15Omit", [f, oth], covers=["emitted"] if f in (8, 15, 16) else ["emitted", "omitted"])
    for i, (tm, al) in enumerate(TAG):
        add("tag/%d" % i, "VerifC15Tag", [tm, al])
    if not q:
        for i, (tm, al) in enumerate(TAG_THOROUGH):
            add("tagT/%d" % i, "VerifC15Tag", [tm, al])
    for k in range(1, 11):
        add("invalid/k=%d" % k, "VerifC15Invalid", [k], covers=["invalid-done"])
    # omitzero through the OmitZeroStructFields option; embedded-fallback dominance with 3 candidates
    for opt in (False, True):
        L.append(ob("omitzero-option/option=%d" % opt, ".", "VerifC15OmitZeroOption", [opt], covers=["end"], max_seconds=600))
    for kind in (0, 1):
        for rej in (False, True):
            for t in (['{"A":1,"?":2}'] if q else ['{"A":1,"?":2}', '{"??":2,"A":1}']):
                L.append(ob("fallback-dominance/kind=%d/reject=%d/%s" % (kind, rej, t.replace('"', '')), ".", "VerifC15FallbackDominance", [kind, rej, t], covers=["end"], max_seconds=600))
    return L
