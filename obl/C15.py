"""Obligations for C15 (struct field resolution)."""
import os
from oblib import ob

BOUNDS = {"quick": "wip", "thorough": "wip"}
ASSUMPTIONS = []

DIG = "0123456789"

# (type, template, alphabet ("" = all ASCII), option sets, covers)
UNM = [
    (1, '{"?":5}', "", (0, 1, 2, 3)),
    (1, '{"??":5}', "AaXx_-q", (0, 1)),
    (2, '{"?":5}', "", (0, 1, 2)),
    (2, '{"?1":5}', "Uu-_K", (0, 1)),
    (3, '{"?":5}', "", (0, 1, 2)),
    (3, '{"?A":5}', "PUNpunC_", (0, 1, 2)),
    (3, '{"p?":5}', "bBaA_", (0, 1)),
    (4, '{"?":5}', "", (0, 1, 2, 3)),
    (4, '{"?":"5"}', "", (0, 1)),
    (4, '{"a?b":5}', "_-ABb", (0, 1)),
    (4, '{"h??":"5"}', "-_1hH", (0, 1)),
    (4, '{"t\\\\?b":5}', 'tnu\\"/', (0, 2)),
    (4, '{"??":5}', "-_d", (0, 1)),
    (4, '{"":5}', "", (0, 1, 3)),
    (5, '{"??":5}', "abABxyXY_-zZgG", (0, 1, 2, 3)),
    (5, '{"???":5}', "abAB_-xy", (0, 1)),
    (6, '{"?":5}', "", (0, 1, 2, 3)),
    (6, '{"b?c":5}', "_-bBx", (0, 1, 2)),
    (6, '{"??":5}', "abcBC_k", (0, 1)),
    (7, '{"?":5}', "", (0, 2)),
    (7, '{"?":"5"}', "aQqz", (0, 1)),
    (8, '{"F6?":5}', DIG, (0, 2)),
    (8, '{"?6?":5}', "Ff" + DIG, (0, 1)),
    (8, '{"G?":5}', "0123g", (0, 1)),
    (9, '{"S":{"?":5}}', "", (0, 1, 2, 3)),
    (9, '{"in":{"?":5}}', "xXyYwW_z", (0, 1)),
    (9, '{"?":5}', "", (0, 1)),
    (9, '{"??":{"x":5}}', "iInNsS_-", (0, 1, 2)),
    (11, '{"?":5}', "", (0, 1, 2)),
]
UNM_DIAMOND = [(10, '{"?":5}', "XYVUxy", (0, 1, 2, 3))]

DUP = [
    (1, '{"?":1,"?":2}', "AaXxBq", (0, 1)),
    (5, '{"??":1,"??":2}', "abAB_", (0, 1)),
    (8, '{"F6?":1,"F6?":2}', DIG, (0,)),
    (8, '{"?63":1,"?6?":2}', "Ff3456", (1,)),
    (8, '{"G?":1,"F0?":2}', "0123", (0,)),
    (8, '{"G?":1,"F6?":2}', "0123456", (0,)),
    (6, '{"?":1,"?":2}', "abk", (0, 2)),
    (6, '{"b?c":1,"?c":2}', "_bBC", (0,)),
    (4, '{"g":"1","?":"2"}', "gGh", (0, 1)),
    (3, '{"P?":1,"p?":2}', "AaBb", (0, 1)),
]


TA = 'aomit,:\'\\"_-'
TAG = [
    ("?", TA), ("??", TA), ("???", TA),
    ("?,omitzero", TA), (",omit?ero", "zZ_e"), ("?,string", TA), ("a?string", ",:_-'"), ("a,string?", ",:_'s"),
    ("n,omitempty?string", ",:_"), (",case:?gnore", "iI_s"), (",case:ignore?case:strict", ",:_"), ("a,??", TA), ("-?", TA), ("?,embed", TA),
]


def obligations(tier):
    L = []
    for t in range(1, 12):
        for st in (0, 1, 2):
            L.append(ob("marshal/t=%d/state=%d" % (t, st), ".", "VerifC15Marshal", [t, st], covers=["marshal-done"], max_seconds=600))
    for i, (t, tm, al, opts) in enumerate(UNM):
        for o in opts:
            L.append(ob("unm/%d/t=%d/opt=%d" % (i, t, o), ".", "VerifC15Unmarshal", [t, tm, al, o], max_seconds=900, max_paths=40000))
    for i, (t, tm, al, opts) in enumerate(UNM_DIAMOND):
        for o in opts:
            L.append(ob("unmdiamond/%d/t=%d/opt=%d" % (i, t, o), ".", "VerifC15Unmarshal", [t, tm, al, o], max_seconds=900, max_paths=40000))
    for i, (t, tm, al, opts) in enumerate(DUP):
        for o in opts:
            L.append(ob("dup/%d/t=%d/opt=%d" % (i, t, o), ".", "VerifC15Dup", [t, tm, al, o], max_seconds=900, max_paths=40000))
    for n, al in ((1, ""), (2, "abBCc_-k")):
        for ci in (False, True):
            L.append(ob("fbdup/n=%d/ci=%d" % (n, ci), ".", "VerifC15FallbackDup", [n, al, ci], covers=["fallback-name-hits-field", "fallback-name-free"], max_seconds=900))
    for f in range(17):
        for oth in (0, 1):
            L.append(ob("omit/field=%d/others=%d" % (f, oth), ".", "VerifC15Omit", [f, oth], max_seconds=900))
    for i, (tm, al) in enumerate(TAG):
        L.append(ob("tag/%d" % i, ".", "VerifC15Tag", [tm, al], max_seconds=900, max_paths=40000))
    for k in range(1, 11):
        L.append(ob("invalid/k=%d" % k, ".", "VerifC15Invalid", [k], covers=["invalid-done"]))
    only = os.environ.get("VERIF_C15_ONLY")
    if only:
        L = [o for o in L if any(o["id"].startswith(p) for p in only.split(","))]
    return L
