"""Obligations for C19."""
from oblib import ob

BOUNDS = {'quick': 'Inside: Flags.Set/Join/Clear/Get/Has for ALL 64-bit presence/value words satisfying the invariant, all argument words and a symbolic key (full width, one inductive step; z3 and cvc5 must agree); v1-then-anything-then-v2 cancellation; Struct.Join + GetOption for all sequences of 1 option (incl. a nested Struct built from 2 options) and of 2 options from {any single boolean flag true/false, Indent, IndentPrefix, ByteLimit, DepthLimit, nil}, against a backwards-scanning last-wins map; option scoping: UnmarshalDecode/MarshalEncode on a long-lived coder with and without call options, inputs with symbolic holes producing errors at any field (incl. string-tagged): coder options identical afterwards, nothing leaked; explicit-false: for each of 24 boolean options (7 v2, 12 v1, 5 coder) chosen by the solver, Marshal of three values (duration without format, a struct touching byte arrays / nil slice / nil map / string-tagged pointer / omitempty struct and array / interface, a string-tagged string) and Unmarshal of documents with a symbolic hole give the same success and the same bytes/value with no options, with the option passed as false, as true-then-false, and with v1 defaults followed by DefaultOptionsV2. nil-arshalers: WithMarshalers(nil)/WithUnmarshalers(nil) passed directly, joined, or after a non-nil setter behave as no option on 3 value shapes behind interfaces. Outside: longer sequences (thorough: 2 with nesting, 3 without), options not affecting an operation for typed arshal.', 'thorough': 'As quick with sequences of 2 options incl. nested Structs and 3 options without nesting, more scope templates.'}
ASSUMPTIONS = []


def obligations(tier):
    q = tier == "quick"
    L = []
    L.append(ob("flags/algebra", "internal/jsonflags", "VerifC19Flags", [], second="cvc5", covers=["end"]))
    L.append(ob("flags/v1v2", "internal/jsonflags", "VerifC19V1V2", [], second="cvc5", covers=["end"]))
    for k, nested in ([(1, True), (2, False)] if q else [(1, True), (2, True), (3, False)]):
        L.append(ob("join/k=%d/nested=%d" % (k, nested), "internal/jsonopts", "VerifC19Join", [k, nested], covers=["end"], max_seconds=1200))
    T = ['{"a":?,"b":7}', '{"a":"?","c":tru?}', '{"?":1}'] if q else ['{"a":?,"b":7}', '{"a":"?","c":?}', '{"?":1}', '{"a":"5","b":??}', '{"b":1,"a":t?ue}', '[?]']
    for i, t in enumerate(T):
        for wo in (False, True):
            L.append(ob("scope/unmarshal/t%d/callopt=%d" % (i, wo), ".", "VerifC19Scope", [t, wo, False], covers=["first-error"], max_seconds=600))
    for wo in (False, True):
        L.append(ob("scope/marshal/callopt=%d" % wo, ".", "VerifC19Scope", ["", wo, True], covers=["first-call"], max_seconds=600))
    # behavioural last-wins: an option set to false (explicitly, after true, or by v1 defaults then v2 defaults) is as if never passed
    for mode in range(3):
        for shape in range(3):
            L.append(ob("explicit-false/marshal/mode=%d/shape=%d" % (mode, shape), ".", "VerifC19ExplicitFalseMarshal", [mode, shape]))
    TU = ['{"d":?,"y":"AQI=","sp":"2","oe":{"q":1}}', '{"y":[1,?],"ns":null,"nm":{}}', '{"FLD_NAME":?,"ss":"\\"x\\""}', '{"fld-name":3,"sp":?,"b":"A?=="}', '{"oe":{"q":?},"oe":{},"x":1}', '{"mm":{"k":{"p":?}}}']
    for mode in range(3):
        for i, t in enumerate(TU if not q else TU[1:4] + TU[5:6]):
            L.append(ob("explicit-false/unmarshal/mode=%d/t%d" % (mode, i), ".", "VerifC19ExplicitFalseUnmarshal", [mode, t]))
    for i, t in enumerate(['{"?":"1"}', '{"b":1,"q":?}']):
        for wo in (False, True):
            L.append(ob("scope-nil-embedded/t%d/callopt=%d" % (i, wo), ".", "VerifC19ScopeNilEmbedded", [t, wo], covers=["first-error"]))
    for wo in (False, True):
        L.append(ob("scope/marshal-failing-member/callopt=%d" % wo, ".", "VerifC19ScopeMarshalFail", [wo], covers=["failed", "succeeded"]))
    for side in (False, True):
        L.append(ob("nil-arshalers/unmarshal=%d" % side, ".", "VerifC19NilArshalers", [side], covers=["unmarshal-done" if side else "marshal-done"]))
    return L
