"""Obligations for C19."""
from oblib import ob

BOUNDS = {"quick": "", "thorough": ""}
ASSUMPTIONS = []


def obligations(tier):
    q = tier == "quick"
    L = []
    L.append(ob("flags/algebra", "internal/jsonflags", "VerifC19Flags", [], second="cvc5", covers=["end"]))
    L.append(ob("flags/v1v2", "internal/jsonflags", "VerifC19V1V2", [], second="cvc5", covers=["end"]))
    return L
