"""Obligations for C19."""
from oblib import ob

BOUNDS = {"quick": "", "thorough": ""}
ASSUMPTIONS = []


def obligations(tier):
    q = tier == "quick"
    L = []
    L.append(ob("flags/algebra", "internal/jsonflags", "VerifC19Flags", [], second="cvc5", covers=["end"]))
    L.append(ob("flags/v1v2", "internal/jsonflags", "VerifC19V1V2", [], second="cvc5", covers=["end"]))
    for k, nested in ([(1, True), (2, False)] if q else [(1, True), (2, True), (3, False)]):
        L.append(ob("join/k=%d/nested=%d" % (k, nested), "internal/jsonopts", "VerifC19Join", [k, nested], covers=["end"], max_seconds=1200))
    return L
