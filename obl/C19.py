"""Obligations for C19."""
from oblib import ob

BOUNDS = {"quick": "", "thorough": ""}
ASSUMPTIONS = []


def obligations(tier):
    q = tier == "quick"
    L = []
    L.append(ob("flags/algebra", "internal/jsonflags", "VerifC19Flags", [], second="cvc5", covers=["end"]))
    L.append(ob("flags/v1v2", "internal/jsonflags", "VerifC19V1V2", [], second="cvc5", covers=["end"]))
    for k, nested in ([(1, True), (2, False)] if q else [(1, True), (2, True), (3, False)]):
        L.append(ob("join/k=%d/nested=%d" % (k, nested), "internal/jsonopts", "VerifC19Join", [k, nested], covers=["end"], max_seconds=1200))
    T = ['{"a":?,"b":7}', '{"a":"?","c":tru?}', '{"?":1}'] if q else ['{"a":?,"b":7}', '{"a":"?","c":?}', '{"?":1}', '{"a":"5","b":??}', '{"b":1,"a":t?ue}', '[?]']
    for i, t in enumerate(T):
        for wo in (False, True):
            L.append(ob("scope/unmarshal/t%d/callopt=%d" % (i, wo), ".", "VerifC19Scope", [t, wo, False], covers=["first-error"], max_seconds=600))
    for wo in (False, True):
        L.append(ob("scope/marshal/callopt=%d" % wo, ".", "VerifC19Scope", ["", wo, True], covers=["first-call"], max_seconds=600))
    return L
