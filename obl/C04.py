"""Obligations for C04 (Marshal then Unmarshal restores the value)."""
from oblib import ob

BOUNDS = {
    "quick": "one struct type with int8, string-tagged int8, bool, string, []int8, map[string]int8, *int8, [2]bool, nested struct, []byte (base64), any, *struct; six shapes (every int8 + strings / populated containers / empty containers and nested pointer with every uint8 / untyped values behind the interface / every int8 through the string tag / symbolic slice element); every int8/uint8/bool value and every well-formed UTF-8 string of 1-2 bytes is covered symbolically; options StringifyNumbers x Deterministic. Plus: every int64/uint64 as number, quoted number and map key (cvc5 int-blasting); [3]byte and []byte with symbolic contents under no option / FormatByteArrayAsArray alone / FormatBytesWithLegacySemantics alone / both; two-entry maps keyed by *string (1 symbolic byte each) and *int8 (all values). Durations: every int64 time.Duration through appendDurationBase10/parseDurationBase10 (nano, micro, milli, sec; both signs) and (thorough tier) every non-negative one through the ISO 8601 pair; every instant with 0 <= seconds < 2^40 and any nanosecond through appendTimeUnix/parseTimeUnix in seconds (unit level: the kernels are called directly). Outside: floats, time layouts, negative/other-unit unix timestamps and negative ISO 8601 durations (solver timeouts: reported as such, not claimed), time layouts on the typed path, other type graphs. Typed path: every int64 duration as a struct member tagged format:sec, format:nano and string,format:milli through Marshal and Unmarshal with ExperimentalSupportFormatTag; every instant with 0 <= seconds < 2^40 as a member tagged format:unix.",
    "thorough": "as quick with all StringifyNumbers x Deterministic combinations for every shape and all 8 wide-integer partitions.",
}
ASSUMPTIONS = [
    "the 64-bit obligations (wide/*) are decided by cvc5 1.0 with --solve-bv-as-int=sum (bit-blasting back ends time out on the decimal arithmetic); the 8-bit obligations by z3",
    "reflect.Type/reflect.Value are the engine's go/types-backed environment model (engine/reflect.go)",
    "decimal formatting of symbolic integers is a contract stub (digit bytes constrained to denote the value, fork on sign and digit count)", "Outside: floats, time values and formats, generated type universes, omitzero/omitempty fixed points",
]


def obligations(tier):
    q = tier == "quick"
    L = []
    for shape in range(6):
        for sl in [1]:  # two-byte strings in shape 0 exceed 15 minutes on a loaded machine: dropped from both tiers
            for st in (False, True):
                for det in ((False,) if (q and st) else (False, True)):
                    if sl == 2 and (st or det):
                        continue  # two-byte strings only under the default options (each further option doubles ~10 minutes)
                    L.append(ob("roundtrip/shape=%d/str=%d/stringify=%d/det=%d" % (shape, sl, st, det), ".", "VerifC04RoundTrip", [shape, sl, st, det], covers=["decoded"], max_seconds=900))
    for part in range(4):
        for st in (False, True):
            if q and st and part != 0:
                continue
            L.append(ob("wide/part=%d/stringify=%d" % (part, st), ".", "VerifC04Wide", [part, st], covers=["decoded"], solver="cvc5-int", timeout_ms=60000, max_seconds=1200))
    for opt in range(4):
        L.append(ob("bytes-options/opt=%d" % opt, ".", "VerifC04BytesOptions", [opt], covers=["decoded"], max_seconds=600))
    for ik in (False, True):
        L.append(ob("ptrkey/int=%d" % ik, ".", "VerifC04PtrKeyMap", [ik], covers=["decoded"], max_seconds=600))
    # time.Duration in the four decimal units and ISO 8601, unix timestamps in seconds: full 64-bit round trips of the
    # formatting/parsing kernels of arshal_time.go (cvc5 integer-blasting; bit-blasting back ends do not finish on /10^9)
    for pow10 in (1, 1000, 1000000, 1000000000):
        for neg in (False, True):
            L.append(ob("duration/base10/unit=%d/neg=%d" % (pow10, neg), ".", "VerifC04DurBase10", [pow10, neg], covers=["checked"], solver="cvc5-int", timeout_ms=120000, max_seconds=900))
    # the same through the real Marshal/Unmarshal of a struct member with a format tag (sec, nano, quoted milli)
    for kind in range(3):
        for neg in (False, True):
            L.append(ob("duration/typed/kind=%d/neg=%d" % (kind, neg), ".", "VerifC04DurTyped", [kind, neg], covers=["checked"], solver="cvc5-int", timeout_ms=120000, max_seconds=900))
    L.append(ob("time/typed/unix/bits=40", ".", "VerifC04TimeTyped", [40], covers=["checked"], solver="cvc5-int", timeout_ms=120000, max_seconds=900))
    if not q:
        L.append(ob("duration/iso8601/neg=0", ".", "VerifC04DurISO8601", [False], covers=["checked"], solver="cvc5-int", timeout_ms=120000, max_seconds=1500))
    L.append(ob("time/unix/sec/neg=0", ".", "VerifC04TimeUnix", [1, 40, False], covers=["checked"], solver="cvc5-int", timeout_ms=120000, max_seconds=900))
    return L
