"""Obligations for C02 (Marshal never emits malformed JSON): the enforcement layer."""
from oblib import ob

BOUNDS = {
    "quick": "marshalValueAny (the untyped fast path used by Marshal for any/map[string]any/[]any values) on trees of 6 shapes (depth <= 3, <= 3 keys) whose leaves are nil / symbolic bool / string of 1-2 symbolic bytes (all 256 values, ill-formed UTF-8 included) / a concrete float, map keys symbolic, under AllowInvalidUTF8 x AllowDuplicateNames x Deterministic, with insertion and solver-chosen map iteration orders. Raw values and tokens written by user code are policed by Encoder.WriteValue/WriteToken: see C06 (every call sequence accepted iff the output stays valid JSON).",
    "thorough": "strings/keys up to 2 bytes on all shapes, all option combinations, nondeterministic map order everywhere.",
}
ASSUMPTIONS = [
    "typed values: embedded fallbacks (raw value and map) run through the reflect environment model here; adversarial user marshal methods/functions are decided by the C17 harnesses (labels C02/user/*); other type universes are outside",
    "float leaves are concrete (strconv digit generation is outside the technique)",
]


def obligations(tier):
    q = tier == "quick"
    L = []
    B = (False, True)
    for shape in (range(5) if q else range(6)):
        for u in B:
            for d in B:
                for det in B:
                    if q and det and d:
                        continue
                    sl = 2 if (shape == 0 and not q) else 1
                    nd = shape == 2 and det  # (three-key maps under all 6 iteration orders exceed the per-obligation budget)
                    L.append(ob("anyM/shape=%d/str=%d/utf8=%d/dup=%d/det=%d/nd=%d" % (shape, sl, u, d, det, nd), ".", "VerifC02AnyM", [shape, sl, u, d, det, nd], covers=["success"], max_seconds=400))
    for t in ['{"?":1,"?":2}', '{"?":1}'] if q else ['{"?":1,"?":2}', '{"?":1}', '{"??":1,"?":2}', '{"\\u00??":1,"?":2}']:
        for via in B:
            for u in B:
                L.append(ob("embedded/%s/map=%d/utf8=%d" % (t.replace('"', ''), via, u), ".", "VerifC02Embedded", [t, via, u], covers=["success"], max_seconds=600))
    for t in ['{"?":1}', '{"?":1,"?":2}'] if q else ['{"?":1}', '{"?":1,"?":2}', '{"\\u004?":1}']:
        for via in B:
            L.append(ob("embedded2/%s/map=%d" % (t.replace('"', ''), via), ".", "VerifC02Embedded2", [t, via], covers=["success", "error"], max_seconds=600))
    # composite / pointer / interface values and key functions in object-name position
    for kind in range(7):
        L.append(ob("mapkeys/kind=%d" % kind, ".", "VerifC02MapKeys", [kind], covers=(["success", "error"] if kind == 6 else [])))
    # time.Time: the location name (user-controlled text) reaches the output through layouts that print the zone abbreviation
    for layout in range(6):
        for n in ((1, 2) if q else (1, 2, 3)):
            if n == 3 and layout not in (0, 4):
                continue
            L.append(ob("timezone/layout=%d/n=%d" % (layout, n), ".", "VerifC02TimeZone", [layout, n], covers=(["accepted"] if layout == 5 else ["accepted", "refused"]), max_seconds=600))
    return L
