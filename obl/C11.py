"""Obligations for C11."""
from oblib import ob

BOUNDS = {'quick': 'Inside: AppendQuote on every byte string of length 1-3 for the 8 EscapeForHTML x EscapeForJS x AllowInvalidUTF8 settings (minimal literal, error iff disallowed invalid UTF-8, unquote round trip); ConsumeString/AppendUnquote/UnquoteMayCopy on every byte string of length 2-4 with and without UTF-8 validation, and on the skeletons "\\u????", "\\uD???\\uD???", "\\u????\\u??, "??\\u00??" (accept / truncated / invalid class, meaning, verbatim and canonical flag soundness); ReformatString on every byte string of length 3-4 for 6 option sets; the NeedEscape lemma (not NeedEscape(s) implies quoting s under every escape option is \'"\'+s+\'"\') on every byte string of length 1-3; Marshal paths: a string of 2 symbolic bytes (3 under EscapeForJS) reaching the output as string value, map key+value, struct member name (concrete, holding < > & U+2028 U+2029), raw jsontext.Value field, MarshalJSON output, MarshalText, AppendText, MarshalJSONTo token and raw value, string in any, text-marshaler map key, under 4 settings of EscapeForHTML/EscapeForJS/PreserveRawStrings: no raw < > & / U+2028 U+2029 in the output and every output literal decodes to the expected text. Outside: longer strings.', 'thorough': 'As quick with lengths up to 4 (quote, NeedEscape), 5 (scan, reformat) and more skeletons with up to 8 symbolic bytes; Marshal paths with strings of 1-4 bytes.'}
ASSUMPTIONS = []


def obligations(tier):
    q = tier == "quick"
    L = []
    B = (False, True)
    for n in ([1, 2, 3] if q else [1, 2, 3, 4]):
        for h in B:
            for j in B:
                for a in B:
                    L.append(ob("quote/n=%d/html=%d/js=%d/allow=%d" % (n, h, j, a), "internal/jsonwire", "VerifC11Quote", [n, h, j, a]))
    for n in ([2, 3, 4] if q else [2, 3, 4, 5]):
        for v in B:
            L.append(ob("scan/n=%d/validate=%d" % (n, v), "internal/jsonwire", "VerifC11Scan", [n, v]))
    T = ['"\\u????"', '"\\uD???\\uD???"', '"\\u????\\u??', '"??\\u00??"'] if q else ['"\\u????"', '"\\uD???\\uD???"', '"\\u????\\u??', '"\\uD8??\\?D???"', '"??\\u00??"', '"\\u????\\u????"', '"\\u?????"', '"\\uD8???????"', '"???\\u????"']
    for i, t in enumerate(T):
        for v in B:
            if not v and t.count("?") >= 7:
                continue  # without UTF-8 validation 7 unconstrained bytes exceed the budget (1.7 M paths)
            L.append(ob("scanT/%d/validate=%d" % (i, v), "internal/jsonwire", "VerifC11ScanT", [t, v]))
    for n in ([3, 4] if q else [3, 4, 5]):
        for h, j, a, p in ((0, 0, 0, 0), (1, 1, 0, 0), (1, 0, 0, 1), (0, 1, 1, 1), (0, 0, 1, 0), (0, 0, 0, 1)):
            L.append(ob("reformat/n=%d/html=%d/js=%d/allow=%d/preserve=%d" % (n, h, j, a, p), "internal/jsonwire", "VerifC11Reformat", [n, bool(h), bool(j), bool(a), bool(p)]))
    for n in ([1, 2, 3] if q else [1, 2, 3, 4]):
        L.append(ob("needescape/n=%d" % n, "internal/jsonwire", "VerifC11NeedEscape", [n], covers=["verbatim", "needs-escape"]))
    # every path by which a string reaches Marshal's output, under the escape options
    for path in range(11):
        for h, j, p in ((1, 1, 0), (1, 0, 1), (0, 1, 1), (0, 0, 0)):
            for n in ((2, 3) if q else (1, 2, 3, 4)):
                if n >= 3 and not j:
                    continue  # 3+ byte strings matter for U+2028/U+2029 only
                if n == 4 and path in (1, 10):
                    continue
                L.append(ob("paths/p=%d/n=%d/html=%d/js=%d/preserve=%d" % (path, n, h, j, p), ".", "VerifC11Paths", [path, n, bool(h), bool(j), bool(p)], covers=["checked"]))
    return L
