"""Obligations for C07."""
import os
from oblib import ob

BOUNDS = {
    "quick": (
        "Token-level Encoder only (WriteToken/WriteValue, plus the internal UnwriteEmptyObjectMember/UnwriteOnlyObjectMemberName "
        "driven exactly as arshal_default.go drives them). Internal buffer capacity 4, 8 or 16 bytes (growth by Flush included), so every "
        "call crosses or nearly crosses the 75% flush threshold. wr/bbufW: fixed call shapes ([s,s,{a:s}] and similar, 4-8 calls) with 1-5 "
        "symbolic string bytes (full range, Sigma24 or the 10-letter structural alphabet, see alpha=) and sequences with 2 solver-chosen calls "
        "out of {{,},[,],null,7,string(1 byte),raw value(2 bytes)} after a concrete prelude; destination a non-bytes.Buffer writer (wr) or a "
        "*bytes.Buffer of the same initial capacity (bbufW); compact, Multiline, and the newline-less mode of Marshal/MarshalWrite. Compared after "
        "every call with a 256-byte-buffer twin and, for the first top-level value, with a writer-less encoder configured like json.Marshal. "
        "short: 1-2 failing Write calls among the first 2-6, every accepted count 0..len(p). unwrite: 1-2 members, each value one of 17 kinds "
        "(null, \"\", {}, [], \"x\", 0, {\"a\":null}, \"\\\"\", the strings backslash-quote and backslash, raw values with whitespace, [[]], [\"\"], a nested object emptied by its own retraction), "
        "omitempty chosen per member, object at top level / inside an array / as a member value, namespace disabled (as the struct marshaler "
        "does) or active (with duplicate-name probe). unwname: 2 keys of 1 symbolic byte. pool: the pooled streaming encoder (getStreamingEncoder/putStreamingEncoder, "
        "as two MarshalWrite calls use it) reused after a first use that stopped at a failed/short Write; sync.Pool modelled as LIFO. "
        "typed: json.MarshalWrite to a *bytes.Buffer and to another writer, and two json.MarshalEncode calls on an Encoder over either writer kind, "
        "deliver exactly json.Marshal's bytes (plus the newline per top-level value) for 15 value shapes (a pointer to an any holding an empty []any / map[string]any, empty and 1-entry maps, empty slice/array, "
        "struct with omitempty/omitzero members present or retracted, the same struct padded so that the retractions fall around the 75% threshold of the "
        "4 KiB pooled buffer, []any, string, nil pointer, empty struct, empty map[string]any / []any, nested empty map) with 1 symbolic string byte, "
        "under default options (Deterministic and Multiline for 4 shapes); a first Write that accepts 0-3 bytes and fails makes MarshalWrite return the "
        "error having delivered a prefix of Marshal's bytes. "
        "OUTSIDE: other Go types and option sets for the typed entry points; AppendRaw; capacities above 16 and outputs longer than ~40 bytes; "
        "longer sequences; more than 2 write faults; writers that return n>len(p) or n<len(p) without error; indent strings other than one tab."
    ),
    "thorough": (
        "As quick, plus: string length grid 0..6 for each capacity 4/8/16, raw-value shapes, 3 solver-chosen calls from the top level and after "
        "four preludes (up to 7 calls in total), two faults on the longer shapes, unwrite with 3 members (15^3 value combinations x 2^3 omitempty "
        "choices) for each capacity and both destinations, symbolic member names (1 byte from Sigma24: quote, backslash, newline, letters), "
        "unwname with 3 one-byte keys and with a single 2- or 3-byte key. Same OUTSIDE list as quick."
    ),
}
ASSUMPTIONS = [
    "The encoder is built with encoderState.reset(make([]byte,0,c), w, opts...) - the call getStreamingEncoder makes - with a tiny c instead of the pooled buffer; "
    "NewEncoder starts from capacity 0 and reaches the same small capacities through append, so these states are reachable through exported API.",
    "Reference for 'fault-free output' is the real encoder with a 256-byte buffer over an accept-all writer (twin execution); its agreement with the "
    "independent serialisation model zzspec.EncModel is C06's obligation, not repeated here.",
    "UnwriteEmptyObjectMember is called only right after a complete member value, with prevName = name of the last member that stayed (nil if none), "
    "as makeStructArshaler does; UnwriteOnlyObjectMemberName only right after the first name of an object, as the deterministic map marshaler does. "
    "The struct marshaler's inlined fast path for writing names (optimizeCommon) is replaced by the equivalent WriteToken(String(name)).",
    "StackPointer equality (ptr=1) is used as the observable for the name stack after flushes/retractions; it is evaluated once, after the last call, "
    "because evaluating it copies the names out of the buffer.",
    "bytes.Buffer is executed from its Go source by the engine (no stub).",
]

CW = ["accepted", "flushed-inside-value", "top-level-done"]


def wr(L, tag, prog, c, sl, rl, alpha, bbuf=False, ws=0, nonl=False, ptr=False, covers=CW, **kw):
    L.append(ob("%s/%s/cap=%d/str=%d/raw=%d/alpha=%d/ws=%d/nonl=%d/ptr=%d" % ("bbufW" if bbuf else "wr", prog, c, sl, rl, alpha, ws, nonl, ptr),
                "jsontext", "VerifC07Wr", [prog, c, sl, rl, alpha, bbuf, ws, nonl, ptr], covers=covers, **kw))


def short(L, prog, c, sl, rl, alpha, nf, maxat, ws=0, nonl=False, ptr=False, covers=("fault-seen", "recovered", "partial-write-retained"), **kw):
    L.append(ob("short/%s/cap=%d/str=%d/raw=%d/alpha=%d/faults=%d/at<=%d/ws=%d/nonl=%d/ptr=%d" % (prog, c, sl, rl, alpha, nf, maxat, ws, nonl, ptr),
                "jsontext", "VerifC07Short", [prog, c, sl, rl, alpha, nf, maxat, ws, nonl, ptr], covers=list(covers), **kw))


def unwrite(L, pre, k, c, nl, ws=0, nsoff=True, sym=False, ptr=False, probe=False, bbuf=False, **kw):
    cov = ["retracted", "kept"] + (["probe-duplicate", "probe-accepted"] if probe and not nsoff else [])
    L.append(ob("unwrite/pre=%d/k=%d/cap=%d/name=%d/ws=%d/nsoff=%d/sym=%d/ptr=%d/probe=%d/bbuf=%d" % (pre, k, c, nl, ws, nsoff, sym, ptr, probe, bbuf),
                "jsontext", "VerifC07Unwrite", [pre, k, c, nl, ws, nsoff, sym, ptr, probe, bbuf], covers=cov, **kw))


def unwname(L, n, c, nl, ws=0, nsoff=False, ptr=False, **kw):
    cov = ["all-written"] + ([] if nsoff or n < 2 else ["duplicate-key"])
    L.append(ob("unwname/n=%d/cap=%d/name=%d/ws=%d/nsoff=%d/ptr=%d" % (n, c, nl, ws, nsoff, ptr),
                "jsontext", "VerifC07UnwriteName", [n, c, nl, ws, nsoff, ptr], covers=cov, **kw))


def obligations(tier):
    q = tier == "quick"
    L = []
    SEQ = ["accepted", "rejected"]
    for bb in (False, True):
        wr(L, "t", "[ss{as}]", 4, 1, 0, 1, bb)
        wr(L, "t", "[ss{as}]", 8, 3, 0, 3, bb)
        wr(L, "t", "[s{as}]", 16, 5, 0, 3, bb)
        wr(L, "t", "[s{as}]", 8, 2, 0, 1, bb, ws=1)
        wr(L, "t", "{a{bs}}", 4, 2, 0, 0, bb, nonl=True, ptr=True)
        wr(L, "t", "{a{bs", 4, 2, 0, 1, bb, ptr=True, covers=["accepted", "flushed-inside-value"])
        wr(L, "t", "{a7??", 4, 1, 2, 0, bb, covers=SEQ + ["flushed-inside-value"])
        if not bb:
            wr(L, "t", "??", 4, 1, 2, 0, bb, covers=SEQ + ["top-level-done"])
        if q:
            continue
        for c in (4, 8, 16):
            for sl in range(0, 7):
                prog = "[ss{as}]" if sl <= 3 else "[s{as}]"
                # cap 16, 1-byte strings: append doubles the capacity before the threshold is crossed inside the value
                cov = ["accepted", "top-level-done"] if (c, sl) == (16, 1) else CW
                wr(L, "t", prog, c, sl, 0, 3, bb, ptr=(sl % 2 == 1), ws=(1 if sl == 4 else 0), covers=cov)
        wr(L, "t", "[s{as}s]", 16, 4, 0, 3, bb)
        wr(L, "t", "[ss{as}]", 4, 2, 0, 1, bb)
        wr(L, "t", "[{ss}]n", 8, 2, 0, 1, bb, ws=2, ptr=True)
        wr(L, "t", "n[s]", 4, 2, 0, 0, bb)
        wr(L, "t", "[{a{b[7s", 8, 3, 0, 3, bb, ptr=True, covers=["accepted", "flushed-inside-value"])
        wr(L, "t", "[v{av}]", 8, 0, 3, 0, bb)
        wr(L, "t", "{a7??", 4, 1, 3, 0, bb, covers=SEQ + ["flushed-inside-value"])
        wr(L, "t", "[{a??", 8, 1, 3, 0, bb, covers=SEQ)
        wr(L, "t", "[7???", 4, 1, 1, 0, bb, covers=SEQ + ["flushed-inside-value"], ptr=True)
        if not bb:
            wr(L, "t", "???", 4, 1, 2, 0, bb, covers=SEQ + ["top-level-done"])
        wr(L, "t", "{a[??", 16, 4, 3, 3, bb, covers=SEQ)
    short(L, "[s{as}]", 4, 1, 0, 1, 1, 5)
    short(L, "{as}n", 4, 1, 0, 1, 2, 3)
    short(L, "n[s]", 8, 3, 0, 3, 1, 2, ptr=True)
    short(L, "{as}", 8, 2, 0, 1, 1, 1, ws=1)
    short(L, "[7?", 4, 1, 2, 0, 1, 2, covers=("fault-seen", "recovered"))
    short(L, "{a{bs", 4, 2, 0, 1, 1, 1, ptr=True, covers=("fault-seen", "partial-write-retained"))
    if not q:
        short(L, "[s{as}]", 4, 1, 0, 1, 2, 5)
        short(L, "[s{as}]", 8, 3, 0, 3, 2, 4, nonl=True, ptr=True)
        short(L, "[s{as}]", 16, 4, 0, 3, 1, 3, ws=1)
        short(L, "n[s]n", 16, 6, 0, 3, 2, 3)
        short(L, "[7??", 4, 1, 2, 0, 1, 3)
        short(L, "{a7??", 4, 1, 2, 0, 1, 3, ptr=True)
        short(L, "n??", 8, 1, 2, 1, 2, 2, covers=("fault-seen", "recovered"))
    for c in (4, 8, 16):
        unwrite(L, 0, 2, c, 1)
        unwrite(L, 1, 2, c, 2, nsoff=False, probe=True)
        unwrite(L, 2, 2, c, 1, ws=1, ptr=True)
        if not q:
            unwrite(L, 0, 3, c, 1)
            if c == 8:
                unwrite(L, 1, 3, c, 1, nsoff=False, probe=True, ws=2)
            else:
                unwrite(L, 2, 3, c, 2, ws=1, ptr=True, bbuf=True)
            unwrite(L, 1, 2, c, 1, sym=True, ptr=True)
            unwrite(L, 0, 2, c, 3, bbuf=True)
    unwrite(L, 1, 2, 8, 1, bbuf=True)
    unwrite(L, 0, 1, 4, 1, ws=2, sym=True, ptr=True)
    PC = ["first-use-failed", "unflushed-bytes-left-behind", "recycled"]
    L.append(ob("pool/[s{as}]+[s]/str=1/alpha=1/at<=3", "jsontext", "VerifC07Pool", ["[s{as}]", "[s]", 1, 1, 3], covers=PC))
    L.append(ob("pool/{as}+n/str=2/alpha=3/at<=1", "jsontext", "VerifC07Pool", ["{as}", "n", 2, 3, 1], covers=PC))
    if not q:
        L.append(ob("pool/[ss{as}]+{as}/str=2/alpha=3/at<=5", "jsontext", "VerifC07Pool", ["[ss{as}]", "{as}", 2, 3, 5], covers=PC))
        L.append(ob("pool/[s[s]]+[s]/str=1/alpha=0/at<=4", "jsontext", "VerifC07Pool", ["[s[s]]", "[s]", 1, 0, 4], covers=PC))
    unwname(L, 2, 4, 1)
    unwname(L, 2, 8, 1, ws=1, nsoff=True)
    if not q:
        unwname(L, 1, 4, 2, ptr=True)
        unwname(L, 1, 8, 3, ws=1)
        unwname(L, 3, 8, 1)
        unwname(L, 3, 16, 1, ws=1, nsoff=True, ptr=True)
    for o in L:
        o["max_paths"] = 400000
    only = os.environ.get("C07_ONLY")
    if only:
        L = [o for o in L if any(x in o["id"] for x in only.split(","))]  # development aid
    # typed entry points (reflect environment): MarshalWrite / MarshalEncode vs Marshal
    for shape in range(15):
        for mode in range(5):
            L.append(ob("typed/shape=%d/mode=%d/opt=0" % (shape, mode), ".", "VerifC07Typed", [shape, 1, mode, 0], covers=["checked"]))
    for shape in (1, 3, 4, 9):
        for mode in (1, 3):
            for opt in (1, 2):
                L.append(ob("typed/shape=%d/mode=%d/opt=%d" % (shape, mode, opt), ".", "VerifC07Typed", [shape, 1, mode, opt], covers=["checked"]))
    if tier != "quick":
        for shape in (1, 3, 4, 5):
            for mode in range(5):
                L.append(ob("typed/shape=%d/n=2/mode=%d/opt=0" % (shape, mode), ".", "VerifC07Typed", [shape, 2, mode, 0], covers=["checked"]))
    return L
