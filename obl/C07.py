"""Obligations for C07."""
import os
from oblib import ob

BOUNDS = {"quick": "", "thorough": ""}
ASSUMPTIONS = []

CW = ["accepted", "flushed-inside-value", "top-level-done"]


def wr(L, tag, prog, c, sl, rl, alpha, bbuf=False, ws=0, nonl=False, ptr=False, covers=CW, **kw):
    L.append(ob("%s/%s/cap=%d/str=%d/raw=%d/alpha=%d/ws=%d/nonl=%d/ptr=%d" % ("bbufW" if bbuf else "wr", prog, c, sl, rl, alpha, ws, nonl, ptr),
                "jsontext", "VerifC07Wr", [prog, c, sl, rl, alpha, bbuf, ws, nonl, ptr], covers=covers, **kw))


def short(L, prog, c, sl, rl, alpha, nf, maxat, ws=0, nonl=False, ptr=False, covers=("fault-seen", "recovered", "partial-write-retained"), **kw):
    L.append(ob("short/%s/cap=%d/str=%d/raw=%d/alpha=%d/faults=%d/at<=%d/ws=%d/nonl=%d/ptr=%d" % (prog, c, sl, rl, alpha, nf, maxat, ws, nonl, ptr),
                "jsontext", "VerifC07Short", [prog, c, sl, rl, alpha, nf, maxat, ws, nonl, ptr], covers=list(covers), **kw))


def unwrite(L, pre, k, c, nl, ws=0, nsoff=True, sym=False, ptr=False, probe=False, bbuf=False, **kw):
    cov = ["retracted", "kept"] + (["probe-duplicate", "probe-accepted"] if probe and not nsoff else [])
    L.append(ob("unwrite/pre=%d/k=%d/cap=%d/name=%d/ws=%d/nsoff=%d/sym=%d/ptr=%d/probe=%d/bbuf=%d" % (pre, k, c, nl, ws, nsoff, sym, ptr, probe, bbuf),
                "jsontext", "VerifC07Unwrite", [pre, k, c, nl, ws, nsoff, sym, ptr, probe, bbuf], covers=cov, **kw))


def unwname(L, n, c, nl, ws=0, nsoff=False, ptr=False, **kw):
    cov = ["all-written"] + ([] if nsoff else ["duplicate-key"])
    L.append(ob("unwname/n=%d/cap=%d/name=%d/ws=%d/nsoff=%d/ptr=%d" % (n, c, nl, ws, nsoff, ptr),
                "jsontext", "VerifC07UnwriteName", [n, c, nl, ws, nsoff, ptr], covers=cov, **kw))


def obligations(tier):
    q = tier == "quick"
    L = []
    SEQ = ["accepted", "rejected"]
    for bb in (False, True):
        wr(L, "t", "[ss{as}]", 4, 1, 0, 1, bb)
        wr(L, "t", "[ss{as}]", 8, 3, 0, 3, bb)
        wr(L, "t", "[s{as}]", 16, 5, 0, 3, bb)
        wr(L, "t", "[s{as}]", 8, 2, 0, 1, bb, ws=1)
        wr(L, "t", "{a{bs}}", 4, 2, 0, 0, bb, nonl=True, ptr=True)
        wr(L, "t", "{a7??", 4, 1, 2, 0, bb, covers=SEQ + ["flushed-inside-value"])
        if not bb:
            wr(L, "t", "??", 4, 1, 2, 0, bb, covers=SEQ + ["top-level-done"])
        if q:
            continue
        for c, prog in ((4, "[ss{as}]"), (8, "[ss{as}]"), (16, "[s{as}s]")):
            for sl in range(0, 7):
                wr(L, "t", prog, c, sl, 0, 3, bb, ptr=(sl % 2 == 1), ws=(1 if sl == 4 else 0))
        wr(L, "t", "[ss{as}]", 4, 2, 0, 1, bb)
        wr(L, "t", "[{ss}]n", 8, 2, 0, 1, bb, ws=2, ptr=True)
        wr(L, "t", "n[s]", 4, 2, 0, 0, bb)
        wr(L, "t", "[v{av}]", 8, 0, 3, 0, bb)
        wr(L, "t", "???", 4, 1, 2, 0, bb, covers=SEQ + ["top-level-done"])
        wr(L, "t", "{a7??", 4, 1, 3, 0, bb, covers=SEQ + ["flushed-inside-value"])
        wr(L, "t", "[{a??", 8, 1, 3, 0, bb, covers=SEQ)
        wr(L, "t", "[7???", 4, 1, 1, 0, bb, covers=SEQ + ["flushed-inside-value"], ptr=True)
        wr(L, "t", "{a[??", 16, 6, 4, 3, bb, covers=SEQ)
    short(L, "[s{as}]", 4, 1, 0, 1, 1, 5)
    short(L, "{as}n", 4, 1, 0, 1, 2, 3)
    short(L, "n[s]", 8, 3, 0, 3, 1, 2, ptr=True)
    short(L, "{as}", 8, 2, 0, 1, 1, 1, ws=1)
    short(L, "[7?", 4, 1, 2, 0, 1, 2, covers=("fault-seen", "recovered"))
    if not q:
        short(L, "[s{as}]", 4, 1, 0, 1, 2, 5)
        short(L, "[s{as}]", 8, 3, 0, 3, 2, 4, nonl=True, ptr=True)
        short(L, "[s{as}s]", 16, 4, 0, 3, 2, 3, ws=1)
        short(L, "[7??", 4, 1, 2, 0, 1, 3)
        short(L, "{a7??", 4, 1, 2, 0, 1, 3, ptr=True)
        short(L, "n??", 8, 2, 3, 1, 2, 3)
    for c in (4, 8, 16):
        unwrite(L, 0, 2, c, 1)
        unwrite(L, 1, 2, c, 2, nsoff=False, probe=True)
        unwrite(L, 2, 2, c, 1, ws=1, ptr=True)
        if not q:
            unwrite(L, 0, 3, c, 1)
            unwrite(L, 1, 3, c, 1, nsoff=False, probe=True, ws=2)
            unwrite(L, 2, 3, c, 2, ws=1, ptr=True, bbuf=True)
            unwrite(L, 1, 2, c, 1, sym=True, ptr=True)
            unwrite(L, 0, 2, c, 3, bbuf=True)
    unwrite(L, 1, 2, 8, 1, bbuf=True)
    unwrite(L, 0, 1, 4, 1, ws=2, sym=True, ptr=True)
    unwname(L, 2, 4, 1)
    unwname(L, 2, 8, 1, ws=1, nsoff=True)
    if not q:
        unwname(L, 2, 4, 2, ptr=True)
        unwname(L, 3, 8, 1)
        unwname(L, 3, 16, 1, ws=1, nsoff=True, ptr=True)
    only = os.environ.get("C07_ONLY")
    if only:
        L = [o for o in L if only in o["id"]]
    return L
