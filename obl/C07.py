"""Obligations for C07."""
import os
from oblib import ob

BOUNDS = {"quick": "", "thorough": ""}
ASSUMPTIONS = []


def obligations(tier):
    q = tier == "quick"
    L = []
    L.append(ob("wr/t0", "jsontext", "VerifC07Wr", ["[s]", 4, 1, 0, 0, False, 0, False, False], covers=["accepted", "top-level-done"], max_paths=20000))
    L.append(ob("short/t0", "jsontext", "VerifC07Short", ["[ss{as}]", 4, 1, 0, 0, 1, 4, 0, False, False], covers=["fault-seen", "recovered"], max_paths=20000))
    L.append(ob("bbuf/t0", "jsontext", "VerifC07Wr", ["[ss{as}]", 4, 2, 0, 0, True, 0, False, False], covers=["accepted", "flushed-inside-value", "top-level-done"], max_paths=20000))
    L.append(ob("unwrite/t0", "jsontext", "VerifC07Unwrite", [0, 2, 4, 1, 0, True, False, False, False], covers=["retracted", "kept"], max_paths=20000))
    L.append(ob("unwname/t0", "jsontext", "VerifC07UnwriteName", [2, 4, 1, 0, False, False], covers=["all-written"], max_paths=20000))
    only = os.environ.get("C07_ONLY")
    if only:
        L = [o for o in L if only in o["id"]]
    return L
