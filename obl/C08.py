"""Obligations for C08 (ambiguous input rejected by default)."""
from oblib import ob

BOUNDS = {
    "quick": "[targets] a duplicated, possibly escaped name one level down into 8 kinds of target at that position (struct, map, any, raw jsontext.Value, skipped unknown member, embedded raw fallback, embedded map fallback, pointer to map): rejected by default iff the names are equal after unescaping, accepted with AllowDuplicateNames. [coder level] duplicate member names (compared after unescaping) injected through templates with symbolic name bytes at depth 0/1 and inside arrays, on the decode entry points Value.IsValid, ReadToken loop, ReadValue loop (jsontext) and the untyped unmarshal fast path, for AllowDuplicateNames x AllowInvalidUTF8; the field bit-set uintSet from an arbitrary pre-state with 0..3 high words and indices < 256.",
    "thorough": "more and longer name templates (escapes \\\\u00XX vs raw, two-byte names, three members, invalid UTF-8 mangling to U+FFFD).",
}
ASSUMPTIONS = [
    "map targets run the real map arshaler through the engine's reflect environment model; struct targets with symbolic names are in the C15 check; embedded fallbacks are outside",
    "strconv.ParseFloat uninterpreted (see C03)",
]


def obligations(tier):
    q = tier == "quick"
    L = []
    B = (False, True)
    T = ['{"?":0,"?":0}', '{"a":{"?":0,"?":0}}', '[{"?":0,"?":0}]', '{"\\\\u00??":0,"?":0}']
    if not q:
        T += ['{"??":0,"??":0}', '{"?":0,"?":0,"?":0}', '{"\\\\u00??":0,"\\\\u00??":0}', '{"a":1,"b":[{"?":{},"?":[]}]}', '{"\\\\?":0,"?":0}']
    for i, t in enumerate(T):
        for u in B:
            for d in B:
                for fn, tag in (("VerifC01IsValidT", "isvalid"), ("VerifC01TokensT", "tokens"), ("VerifC01ValuesT", "values")):
                    L.append(ob("%s/t%d/utf8=%d/dup=%d" % (tag, i, u, d), "jsontext", fn, [t, u, d]))
            L.append(ob("any/t%d/utf8=%d" % (i, u), ".", "VerifC01Any", [t, 0, u, False], covers=["accept", "reject"]))
    for h in (0, 1, 2, 3):
        L.append(ob("uset/hi=%d" % h, ".", "VerifC08UintSet", [h], covers=["end"], second="cvc5"))
    for t in ['{"?":1,"?":2}', '{"a":1,"?":2,"?":3}'] if q else ['{"?":1,"?":2}', '{"a":1,"?":2,"?":3}', '{"\\u006?":1,"?":2}', '{"?":1,"b":2,"?":3}']:
        for pre in B:
            for d in B:
                L.append(ob("map/%s/prefilled=%d/dup=%d" % (t.replace('"', ''), pre, d), ".", "VerifC08Map", [t, pre, d], covers=["accept"] if d else ["accept", "reject"], max_seconds=600))
    # the duplicated (possibly escaped) name one level down, for every kind of target at that position
    for i, t in enumerate(['{"x":{"?":1,"?":2}}', '{"x":{"\\u006?":1,"a":2}}'] if q else ['{"x":{"?":1,"?":2}}', '{"x":{"\\u006?":1,"a":2}}', '{"y":1,"x":{"??":1,"a?":2}}']):
        for target in range(8):
            for d in (False, True):
                if q and d and target not in (1, 2):
                    continue
                L.append(ob("targets/t%d/target=%d/dup=%d" % (i, target, d), ".", "VerifC08Targets", [t, target, d], covers=["accept"] if d else ["accept", "reject"], max_seconds=600))
    return L
