"""Obligations for C20 (jsontext part: depth limit on every path, accessor totality)."""
import os
from oblib import ob

_COMMON = (
    "jsontext, plus Marshal of 9999/10000 nested []any / map[string]any around 7 leaves (package json, on the engine's reflect model). depth: concrete towers open^a hole close^a with a in %s, shapes '[' / '{\"\":' / alternating, hole = %s symbolic bytes of the structural "
    "alphabet { } [ ] : , \" a 1 space (so the innermost value, an extra level, or garbage), also with the concrete innermost values 0, {} and [] (empty containers at exactly 10000 and 10001), through ReadToken loop, ReadValue, SkipValue, Value.IsValid, "
    "a/2 levels by tokens then ReadValue/SkipValue, Value.Format, Value.Compact, AppendFormat, Encoder.WriteValue, a/2 levels by WriteToken then WriteValue of the rest, "
    "and a WriteToken pushes followed by one of 7 calls: accepted iff the reference grammar with depth limit 10000 accepts (so 10000 accepted, 10001 refused with a "
    "*SyntacticError), no panic, refused call leaves depth unchanged. total: Token accessors (Kind, String, Clone, Bool, Int, Uint, Float, Float32) on the first/later token of "
    "inputs of <=%s free bytes and templates, on constructor tokens with symbolic payloads and on the zero Token panic exactly on the wrong kind as documented; WithIndent/WithIndentPrefix on all "
    "strings of <=%s bytes panic iff a non-blank byte is present; nil reader/writer/coder Reset panics are the documented ones and leave the coder usable. "
    "nopanic: the engine reports any escaping panic in any harness of any property as a violation (not re-run here). "
    "ptrcycle: Marshal of values whose cycle runs only through pointers/interfaces (type P *P at itself, any holding a pointer to itself, a two-pointer cycle through any) and Unmarshal of `1` "
    "into the self-referential any and into type P: the library returns an error of its own before 3000 levels of recursion (counted by a declining caller-supplied function; the unmarshal half is the known finding "
    "KF-C20-unmarshal-pointer-cycle). callopt: a Decoder/Encoder whose own AllowDuplicateNames and the per-call value given to UnmarshalDecode/MarshalEncode are chosen by the solver, 0-4 tokens consumed before the call, "
    "two symbolic bytes in the member value the call may stumble over; afterwards the caller keeps reading/writing tokens: errors are fine, a panic is not. "
    "legacy-elements: under ReportErrorsWithLegacySemantics (conversion errors do not stop an array/object) every element of [?,\"x\",?] / {\"a\":?,...} is offered to the element unmarshaler at most once for four target kinds (slice of a non-empty interface, []int8, map[string]int8, [2]bool): no element is re-read (non-termination). "
    "OUTSIDE: other deep or cyclic typed Go values (cycles through slices/maps/structs past depth 1000), Int/Uint/Float of number tokens with symbolic non-digit text (strconv), numbers whose "
    "ParseFloat takes the Eisel-Lemire/overflow path (engine fault, see ASSUMPTIONS), wall-clock termination (only the step budget), depths other than those listed, AppendFloat bit sizes.")
BOUNDS = {
    "quick": _COMMON % ("{10000, 10001}", "0 or 1 (1 only for arrays at a=10000)", "2 (3 over a 24-letter alphabet)", "2"),
    "thorough": _COMMON % ("9997..10002 (9998..10002 for values, 10000..10001 with a 1-byte hole, 10000 arrays only with a 2-byte hole)", "0, 1 or 2", "3 (4 over a 24-letter alphabet)", "3"),
}
ASSUMPTIONS = [
    "reference verdict for a tower = zzspec.ValidText on its innermost level with the limit reduced by the a-1 enclosing levels (every enclosing level wraps exactly one value); "
    "thorough tier additionally runs the recursive recogniser on the whole text for hole=0 and asserts agreement",
    "unique-name checking is on (default options) for all towers except the obligations marked dup",
    "engine fault avoided: strconv.ParseFloat on '1e400' / '-9223372036854775809' ends in 'interface conversion: main.Value is *main.Term, not main.FloatV' (math.IsNaN intrinsic); those two literals are not used",
]

BIG = 400_000_000
P = "jsontext"


def obligations(tier):
    q = tier == "quick"
    L = []
    only = os.environ.get("C20_ONLY", "")
    # ---- depth: reading and formatting entry points; op/shape chosen by the solver (-1), a in [lo,hi]
    # args: op, shape, aLo, aHi, inner (concrete innermost text), holeLen (symbolic bytes after it), allowDup, fullRef
    SH = ["arr", "obj", "mix", "mix2"]

    def cov(shapes, refuse=True, reject=False):
        c = ["accept/" + SH[x] for x in shapes] + (["refused-for-depth/" + SH[x] for x in shapes] if refuse else [])
        return c + (["reject"] if reject else [])
    for fn, tag in (("VerifC20DepthRead", "read"), ("VerifC20DepthFormat", "format")):
        if q:
            L.append(ob("depth/%s/ops=all/shapes=all/a=10000..10001/inner=0/hole=0" % tag, P, fn, [-1, -1, 10000, 10001, "0", 0, False, False], step_limit=BIG, max_seconds=2400, covers=cov([0, 1, 2])))
            L.append(ob("depth/%s/ops=all/shape=arr/a=10000/inner=/hole=1" % tag, P, fn, [-1, 0, 10000, 10000, "", 1, False, False], step_limit=BIG, max_seconds=2400, covers=cov([0], False, True)))
        else:
            for d in (False, True):
                L.append(ob("depth/%s/ops=all/shapes=all/a=9998..10002/inner=0/hole=0/dup=%d/fullref" % (tag, d), P, fn, [-1, -1, 9998, 10002, "0", 0, d, True], step_limit=BIG, max_seconds=2400, covers=cov([0, 1, 2])))
            L.append(ob("depth/%s/ops=all/shapes=all/a=10000..10001/inner=/hole=1/dup=0" % tag, P, fn, [-1, -1, 10000, 10001, "", 1, False, False], step_limit=BIG, max_seconds=2400, covers=cov([0, 1, 2], True, True)))
            L.append(ob("depth/%s/ops=all/shape=arr/a=9999..10001/inner=/hole=0/fullref" % tag, P, fn, [-1, 0, 9999, 10001, "", 0, False, True], step_limit=BIG, max_seconds=2400, covers=cov([0])))
            for sh in (0,):
                L.append(ob("depth/%s/ops=all/shape=%s/a=10000/inner=/hole=2" % (tag, SH[sh]), P, fn, [-1, sh, 10000, 10000, "", 2, False, False], step_limit=BIG, max_seconds=2400, covers=cov([sh], True, True)))
            L.append(ob("depth/%s/ops=all/shape=mix2/a=9999..10001/inner=\"a\"/hole=0/fullref" % tag, P, fn, [-1, 3, 9999, 10001, '"a"', 0, False, True], step_limit=BIG, max_seconds=2400, covers=cov([3])))
    # empty object / empty array as the innermost value: total depth a+1, i.e. exactly 10000 and 10001
    for fn, tag in (("VerifC20DepthRead", "read"), ("VerifC20DepthFormat", "format")):
        for inner in ("{}", "[]"):
            if q and tag == "read" and inner == "[]":
                continue
            L.append(ob("depth/%s/ops=all/shapes=%s/a=9999..10000/inner=%s/hole=0" % (tag, ("arr" if inner == "[]" else "obj") if q else "all", inner), P, fn,
                        [-1, -1 if not q else (0 if inner == "[]" else 1), 9999, 10000, inner, 0, False, False], step_limit=BIG, max_seconds=2400,
                        covers=cov([0, 1, 2] if not q else ([0] if inner == "[]" else [1]))))
    # ---- marshaling deeply nested Go values (package json, reflect environment model of the engine)
    for depth in (9999, 10000):
        for maps in (False, True):
            L.append(ob("marshal-depth/%d/maps=%d" % (depth, maps), ".", "VerifC20MarshalDepth", [depth, maps],
                        covers=["within-limit"] + (["beyond-limit"] if depth == 10000 else []), step_limit=BIG, max_seconds=900))
    # ---- depth: WriteToken pushes then one call
    if q:
        L.append(ob("depth/write/shapes=all/a=10000..10001", P, "VerifC20DepthWrite", [-1, 10000, 10001, False], step_limit=BIG, max_seconds=2400, covers=["call-accepted", "call-refused", "push-refused"]))
    else:
        for d in (False, True):
            L.append(ob("depth/write/shapes=all/a=9997..10002/dup=%d" % d, P, "VerifC20DepthWrite", [-1, 9997, 10002, d], step_limit=BIG, max_seconds=2400, covers=["call-accepted", "call-refused", "push-refused"]))
        L.append(ob("depth/write/shape=alt-obj-first/a=9999..10001", P, "VerifC20DepthWrite", [3, 9999, 10001, False], step_limit=BIG, max_seconds=2400, covers=["call-accepted", "call-refused", "push-refused"]))
    # ---- totality of Token accessors
    TC = ["token", "no-token"]
    for n in ([1, 2, 3] if q else [1, 2, 3, 4]):
        full = n <= (2 if q else 3)
        for u in (False, True):
            # first token of an arbitrary input: Kind/String/Clone/Bool (+Int/Uint when the alphabet keeps numbers to plain digits)
            L.append(ob("total/token/first/n=%d/alpha=%s/utf8=%d" % (n, "all" if full else "sigma24", u), P, "VerifC20TokenTotal", ["?" * n, 0 if full else 1, 0, 0, u], covers=TC))
    for t in ['[?', '[??', '{"?":?', '[1,?', '["a",?'] + ([] if q else ['{"?":??', '[[],??', '[???']):
        L.append(ob("total/token/later/%s/struct-alphabet/int,uint" % t, P, "VerifC20TokenTotal", [t, 3, (2 if t.startswith('{') or ',' in t else 1), 1, False], covers=(["token"] if t == '[[],??' else TC)))
    for t in ['"?a?"', '"I?finit?"', '"-Infinit?"', '"??"', 'tru?', 'nul?', '?'] + ([] if q else ['"?aN"', '"Na?"', '"?Infinity"', '"-?nfinity"', 'fals?', '??']):
        L.append(ob("total/token/float/%s" % t, P, "VerifC20TokenTotal", [t, 0, 0, 2, False], covers=["token"]))
    for t in ['0', '-0', '1.5', '-1e3', '123456789012345678901', '-9223372036854775808', '9007199254740993', '18446744073709551615', '0.1E-2']:
        L.append(ob("total/token/number/%s" % t, P, "VerifC20TokenTotal", [t + " ", 0, 0, 2, False], covers=["token", "number"]))
    for w, nm in enumerate(["Int", "Uint", "Bool", "String", "Float", "zero", "String?aN"]):
        L.append(ob("total/ctor/%s" % nm, P, "VerifC20CtorTotal", [w]))
    for n in ([1, 2] if q else [1, 2, 3]):
        for pre in (False, True):
            L.append(ob("total/indent/n=%d/prefix=%d" % (n, pre), P, "VerifC20Indent", [n, pre], covers=["panics", "accepted"]))
    for wk in (0, 1):
        L.append(ob("nopanic/stack-pointer-after-mid-value-flush/w=%d" % wk, P, "VerifC20FlushPointer", [wk, 40], covers=["end", "flushed-mid-value"]))
    L.append(ob("total/reset-misuse", P, "VerifC20ResetMisuse", [], covers=["end"]))
    if only:
        L = [o for o in L if only in o["id"]]
    # cycles through pointers and interfaces only; per-call AllowDuplicateNames on a call that fails mid-object
    for kind in range(5):
        L.append(ob("ptrcycle/kind=%d" % kind, ".", "VerifC20PointerCycle", [kind], covers=(["checked"] if kind < 3 else []), step_limit=400000000))
    for kind in range(4):
        L.append(ob("legacy-elements/kind=%d" % kind, ".", "VerifC20LegacyElementsConsumed", [kind], covers=["error"]))
    L.append(ob("callopt/decoder", ".", "VerifC20CallOptionDecoder", [], covers=["call-failed", "call-succeeded", "stopped-with-error"]))
    L.append(ob("callopt/encoder", ".", "VerifC20CallOptionEncoder", [], covers=["call-failed", "call-succeeded"]))
    return L
