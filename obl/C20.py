"""Obligations for C20 (jsontext part: depth limit on every path, accessor totality)."""
import os
from oblib import ob

BOUNDS = {"quick": "", "thorough": ""}
ASSUMPTIONS = []

BIG = 400_000_000
P = "jsontext"
DCOV = ["accept", "refused-for-depth"]


def obligations(tier):
    q = tier == "quick"
    L = []
    only = os.environ.get("C20_ONLY", "")
    # ---- depth: reading and formatting entry points; op/shape chosen by the solver (-1), a in [lo,hi]
    # args: op, shape, aLo, aHi, holeLen, allowDup, fullRef
    for fn, tag in (("VerifC20DepthRead", "read"), ("VerifC20DepthFormat", "format")):
        if q:
            L.append(ob("depth/%s/ops=all/shapes=all/a=10000..10001/hole=0" % tag, P, fn, [-1, -1, 10000, 10001, 0, False, False], step_limit=BIG, covers=DCOV))
            L.append(ob("depth/%s/ops=all/shape=arr/a=10000/hole=1" % tag, P, fn, [-1, 0, 10000, 10000, 1, False, False], step_limit=BIG, covers=["accept", "reject"]))
        else:
            for d in (False, True):
                L.append(ob("depth/%s/ops=all/shapes=all/a=9998..10002/hole=0/dup=%d/fullref" % (tag, d), P, fn, [-1, -1, 9998, 10002, 0, d, True], step_limit=BIG, covers=DCOV))
                L.append(ob("depth/%s/ops=all/shapes=all/a=9999..10001/hole=1/dup=%d" % (tag, d), P, fn, [-1, -1, 9999, 10001, 1, d, False], step_limit=BIG, covers=DCOV + ["reject"]))
            for sh in (0, 1, 2):
                L.append(ob("depth/%s/ops=all/shape=%d/a=9999..10000/hole=2" % (tag, sh), P, fn, [-1, sh, 9999, 10000, 2, False, False], step_limit=BIG, covers=DCOV + ["reject"]))
            L.append(ob("depth/%s/ops=all/shape=alt-obj-first/a=9999..10001/hole=0/fullref" % tag, P, fn, [-1, 3, 9999, 10001, 0, False, True], step_limit=BIG, covers=DCOV))
    # ---- depth: WriteToken pushes then one call
    if q:
        L.append(ob("depth/write/shapes=all/a=10000..10001", P, "VerifC20DepthWrite", [-1, 10000, 10001, False], step_limit=BIG, covers=["call-accepted", "call-refused", "push-refused"]))
    else:
        for d in (False, True):
            L.append(ob("depth/write/shapes=all/a=9997..10002/dup=%d" % d, P, "VerifC20DepthWrite", [-1, 9997, 10002, d], step_limit=BIG, covers=["call-accepted", "call-refused", "push-refused"]))
        L.append(ob("depth/write/shape=alt-obj-first/a=9999..10001", P, "VerifC20DepthWrite", [3, 9999, 10001, False], step_limit=BIG, covers=["call-accepted", "call-refused", "push-refused"]))
    # ---- totality of Token accessors
    TC = ["token", "no-token"]
    for n in ([1, 2, 3] if q else [1, 2, 3, 4]):
        full = n <= (2 if q else 3)
        for u in (False, True):
            # first token of an arbitrary input: Kind/String/Clone/Bool (+Int/Uint when the alphabet keeps numbers to plain digits)
            L.append(ob("total/token/first/n=%d/alpha=%s/utf8=%d" % (n, "all" if full else "sigma24", u), P, "VerifC20TokenTotal", ["?" * n, 0 if full else 1, 0, 0, u], covers=TC))
    for t in ['[?', '[??', '{"?":?', '[1,?', '["a",?'] + ([] if q else ['{"?":??', '[[],??', '[???']):
        L.append(ob("total/token/later/%s/struct-alphabet/int,uint" % t, P, "VerifC20TokenTotal", [t, 3, (2 if t.startswith('{') or ',' in t else 1), 1, False], covers=TC))
    for t in ['"?a?"', '"I?finit?"', '"-Infinit?"', '"??"', 'tru?', 'nul?', '?'] + ([] if q else ['"?aN"', '"Na?"', '"?Infinity"', '"-?nfinity"', 'fals?', '??']):
        L.append(ob("total/token/float/%s" % t, P, "VerifC20TokenTotal", [t, 0, 0, 2, False], covers=["token"]))
    for t in ['0', '-0', '1.5', '-1e3', '123456789012345678901', '-9223372036854775808', '9007199254740993', '18446744073709551615', '0.1E-2']:
        L.append(ob("total/token/number/%s" % t, P, "VerifC20TokenTotal", [t + " ", 0, 0, 2, False], covers=["token", "number"]))
    for w, nm in enumerate(["Int", "Uint", "Bool", "String", "Float", "zero", "String?aN"]):
        L.append(ob("total/ctor/%s" % nm, P, "VerifC20CtorTotal", [w]))
    for n in ([1, 2] if q else [1, 2, 3]):
        for pre in (False, True):
            L.append(ob("total/indent/n=%d/prefix=%d" % (n, pre), P, "VerifC20Indent", [n, pre], covers=["panics", "accepted"]))
    L.append(ob("total/reset-misuse", P, "VerifC20ResetMisuse", [], covers=["end"]))
    if only:
        L = [o for o in L if only in o["id"]]
    return L
