"""Obligations for C10."""
from oblib import ob

BOUNDS = {'quick': 'Inside: AppendFloat layout for EVERY finite float64 and every float32: exponent form exactly when 0<|x|<1e-6 or |x|>=1e21, signed exponent without leading zeros, -0 kept (SMT floating-point theory for the thresholds; digits are strconv and not modelled); ParseUint on every byte string of lengths 1, 2, 5, 19, 20, 21 against a decimal reference (exact value, overflow exactly at 2^64, syntax class); Token.Int/Uint on raw number tokens = optional \'-\' + 1/18/19/20/21 symbolic digits + tails "", .5, e2, .0; Token.Int/Uint on tokens built from every int64, every uint64 and every finite non-zero float64 (SMT floating-point theory); real Unmarshal of such literals into int8/16/32/64 and uint8/16/32/64 (exact bounds), through the string tag (8-bit), and a concrete float32 range table with symbolic sign and route. Outside: shortest float formatting and correct rounding (strconv, uninterpreted), AppendFloat layout.', 'thorough': 'As quick with ParseUint for every length 1..22, more digit counts and tails.'}
ASSUMPTIONS = ["strconv.AppendFloat on a symbolic float is an opt-in SHAPE stub (engine/intrinsics_appendfloat.go): sign, NaN/Inf texts, one integer digit, optional fraction digit, and for the e format a signed exponent of 2-3 digits constrained by the exact thresholds 1, 1e-6 and 1e21; digit values are unconstrained, lengths under-approximated: only the floatlayout obligations use it and they depend on the layout alone", "typed destinations: reflect is the engine's go/types-backed environment model (engine/reflect.go)", "Token.String (used by the accessors only to build error text) is cut: its result is an opaque string", "strconv.ParseFloat on symbolic digits is an uninterpreted function (value of non-integer literals not checked)"]


def obligations(tier):
    q = tier == "quick"
    L = []
    for n in ([1, 2, 5, 19, 20, 21] if q else list(range(1, 23))):
        L.append(ob("parseuint/n=%d" % n, "internal/jsonwire", "VerifC10ParseUint", [n], timeout_ms=60000))
    for neg in (False, True):
        for nd, tail in ([(1, ""), (18, ""), (19, ""), (20, ""), (21, ""), (2, ".5"), (1, "e2"), (19, ".0")] if q else
                         [(n, "") for n in range(1, 23)] + [(1, ".5"), (2, "e2"), (19, ".0"), (20, "e0"), (3, "E+1")]):
            L.append(ob("tokraw/neg=%d/digits=%d/tail=%s" % (neg, nd, tail or "none"), "jsontext", "VerifC10TokRaw", [neg, nd, tail], timeout_ms=60000))
    TS = "(github.com/go-json-experiment/json/jsontext.Token).String"
    for k in (0, 1, 2, 3):
        L.append(ob("toktyped/kind=%d" % k, "jsontext", "VerifC10TokTyped", [k], timeout_ms=120000, second="z3-new" if k < 2 else "", opaque=[TS], max_seconds=1500))
    # typed integer destinations (real Unmarshal through the reflect environment)
    for bits in (8, 16, 32, 64):
        for signed in (True, False):
            nds = {8: [3], 16: [5], 32: [10], 64: [19, 20]}[bits] if q else {8: [1, 3, 4], 16: [5, 6], 32: [10, 11], 64: [19, 20, 21]}[bits]
            for nd in nds:
                for neg in (False, True):
                    lim = (1 << (bits - 1)) - (0 if neg else 1) if signed else (0 if neg else (1 << bits) - 1)
                    cov = []
                    if 10 ** nd - 1 > lim:
                        cov.append("refused")
                    if 10 ** (nd - 1) <= lim or (nd == 1):
                        cov.append("accepted")
                    if not signed and neg:
                        cov = ["refused"]
                    kw = {"solver": "cvc5-int"} if nd >= 10 else {}
                    L.append(ob("intA/bits=%d/signed=%d/neg=%d/digits=%d" % (bits, signed, neg, nd), ".", "VerifC10IntA", [bits, signed, neg, nd, ""], covers=cov, timeout_ms=60000, max_seconds=600, **kw))
    for bits, signed, tail in ((8, True, ".0"), (64, False, "e0"), (16, True, ".5")):
        L.append(ob("intA/bits=%d/signed=%d/tail=%s" % (bits, signed, tail), ".", "VerifC10IntA", [bits, signed, False, 1, tail], covers=["refused"], max_seconds=600))
    for signed in (True, False):
        for neg in (False, True):
            L.append(ob("intQ/signed=%d/neg=%d" % (signed, neg), ".", "VerifC10IntQuoted", [signed, neg, 3, ""], covers=["refused"], max_seconds=600))
    L.append(ob("float32/range", ".", "VerifC10Float32Range", [], covers=["refused", "accepted"], max_seconds=600))
    # ECMA-262 layout of AppendFloat for every finite float64 / float32 (shape stub for strconv.AppendFloat, see ASSUMPTIONS)
    for bits in (64, 32):
        L.append(ob("floatlayout/bits=%d" % bits, "internal/jsonwire", "VerifC10FloatLayout", [bits], covers=["exponent-form", "plain-form", "negative-zero"], opaque=["strconv.AppendFloat#shape"], timeout_ms=60000))
    return L
