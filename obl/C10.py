"""Obligations for C10."""
from oblib import ob

BOUNDS = {"quick": "", "thorough": ""}
ASSUMPTIONS = ["Token.String (used by the accessors only to build error text) is cut: its result is an opaque string", "strconv.ParseFloat on symbolic digits is an uninterpreted function (value of non-integer literals not checked)"]


def obligations(tier):
    q = tier == "quick"
    L = []
    for n in ([1, 2, 5, 19, 20, 21] if q else list(range(1, 23))):
        L.append(ob("parseuint/n=%d" % n, "internal/jsonwire", "VerifC10ParseUint", [n], timeout_ms=60000))
    for neg in (False, True):
        for nd, tail in ([(1, ""), (18, ""), (19, ""), (20, ""), (21, ""), (2, ".5"), (1, "e2"), (19, ".0")] if q else
                         [(n, "") for n in range(1, 23)] + [(1, ".5"), (2, "e2"), (19, ".0"), (20, "e0"), (3, "E+1")]):
            L.append(ob("tokraw/neg=%d/digits=%d/tail=%s" % (neg, nd, tail or "none"), "jsontext", "VerifC10TokRaw", [neg, nd, tail], timeout_ms=60000))
    TS = "(github.com/go-json-experiment/json/jsontext.Token).String"
    for k in (0, 1, 2, 3):
        L.append(ob("toktyped/kind=%d" % k, "jsontext", "VerifC10TokTyped", [k], timeout_ms=120000, second="z3-new" if k < 2 else "", opaque=[TS], max_seconds=1500))
    return L
