"""Obligations for C10."""
from oblib import ob

BOUNDS = {"quick": "", "thorough": ""}
ASSUMPTIONS = []


def obligations(tier):
    q = tier == "quick"
    L = []
    for n in ([1, 2, 5, 19, 20, 21] if q else list(range(1, 23))):
        L.append(ob("parseuint/n=%d" % n, "internal/jsonwire", "VerifC10ParseUint", [n], timeout_ms=60000))
    return L
