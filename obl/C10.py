"""Obligations for C10."""
from oblib import ob

BOUNDS = {"quick": "", "thorough": ""}
ASSUMPTIONS = []


def obligations(tier):
    q = tier == "quick"
    L = []
    for n in ([1, 2, 5, 19, 20, 21] if q else list(range(1, 23))):
        L.append(ob("parseuint/n=%d" % n, "internal/jsonwire", "VerifC10ParseUint", [n], timeout_ms=60000))
    for neg in (False, True):
        for nd, tail in ([(1, ""), (18, ""), (19, ""), (20, ""), (21, ""), (2, ".5"), (1, "e2"), (19, ".0")] if q else
                         [(n, "") for n in range(1, 23)] + [(1, ".5"), (2, "e2"), (19, ".0"), (20, "e0"), (3, "E+1")]):
            L.append(ob("tokraw/neg=%d/digits=%d/tail=%s" % (neg, nd, tail or "none"), "jsontext", "VerifC10TokRaw", [neg, nd, tail], timeout_ms=60000))
    for k in (0, 1, 2):
        L.append(ob("toktyped/kind=%d" % k, "jsontext", "VerifC10TokTyped", [k], timeout_ms=120000, second="z3-new" if k < 2 else ""))
    return L
