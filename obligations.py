"""Registry of proof obligations per property and tier."""

ASSUMPTIONS = [
    "Go semantics as implemented by gosym (go/ssa v0.50.0 interpreter over bit-vector terms); validated per run by native replay of sampled solver models",
    "solver verdicts of z3 4.8.12 (primary) / cvc5 1.0 (where stated) are trusted; any (error, unknown or timeout is reported as inconclusive",
    "sequential execution only; sync.Pool/Mutex/Once/Map modelled sequentially",
    "error message text (fmt, strconv.Quote) is opaque",
    "reference models in harness/root/internal/zzverif/zzspec are the specification",
]


def ob(id, pkg, fn, args, **kw):
    d = {"id": id, "pkg": pkg, "fn": fn, "args": list(args)}
    d.update(kw)
    return d


def obligations(prop, tier):
    q = tier == "quick"
    L = []
    if prop == "SMOKE":
        L.append(ob("smoke/ws/3", "internal/jsonwire", "VerifSmokeWS", [3]))
    if prop == "C01":
        for fn, tag in (("VerifC01IsValid", "isvalid"), ("VerifC01Tokens", "tokens"), ("VerifC01Values", "values")):
            for u in (False, True):
                for d in (False, True):
                    for n in ([1, 2, 3] if q else [1, 2, 3, 4]):
                        L.append(ob("%s/full/n=%d/utf8=%d/dup=%d" % (tag, n, u, d), "jsontext", fn, [n, 0, u, d]))
                    for n in ([4] if q else [5, 6]):
                        L.append(ob("%s/sigma24/n=%d/utf8=%d/dup=%d" % (tag, n, u, d), "jsontext", fn, [n, 1, u, d]))
    if prop == "C05":
        T = [("??", 2, 2, 9), ("???", 2, 2, 2), ("[1,\"?\"]", 3, 3, 2), (" {\"?\":[?]} 3", 4, 3, 2), ("1{\"a?\":{", 4, 2, 3),
             ("1{\"ab\":{", 64, 2, 2), ("1{\"a?\":?", 8, 2, 2), ("1 {\"a\":{\"?\":tru", 8, 2, 2)]
        for i, (t, c, k, sr) in enumerate(T):
            L.append(ob("chunk/t%d/cap=%d/calls=%d/symreads=%d" % (i, c, k, sr), "jsontext", "VerifC05Chunk", [t, c, k, sr], covers=["end"]))
        F = [("??", 2, 2, 2, 3), ("[1,\"?\"]", 3, 3, 1, 6), (" {\"?\":[?]} 3", 4, 3, 1, 8), ("1{\"a?\":?", 8, 2, 2, 4)]
        for i, (t, c, k, sr, mf) in enumerate(F):
            L.append(ob("fault/t%d/cap=%d/calls=%d/symreads=%d/faultAt<=%d" % (i, c, k, sr, mf), "jsontext", "VerifC05Fault", [t, c, k, sr, mf], covers=["end", "fault-seen"]))
    if prop == "C06":
        B = (False, True)
        for d in B:
            for u in B:
                for pre, k, sl, rl in ([(0, 2, 1, 2), (0, 3, 1, 1), (1, 2, 1, 3), (2, 2, 1, 2), (3, 2, 1, 2), (4, 2, 1, 3), (5, 2, 1, 2)] if q else
                                       [(0, 2, 2, 3), (0, 3, 1, 2), (0, 4, 1, 1), (1, 2, 2, 4), (1, 3, 1, 3), (2, 3, 1, 2), (3, 3, 1, 2), (4, 2, 2, 4), (4, 3, 1, 3), (5, 3, 1, 2)]):
                    L.append(ob("seq/pre=%d/k=%d/str=%d/raw=%d/dup=%d/utf8=%d" % (pre, k, sl, rl, d, u), "jsontext", "VerifC06Seq", [pre, k, sl, rl, d, u], covers=["accepted", "rejected"]))
    if prop == "C10":
        for n in ([1, 2, 5, 19, 20, 21] if q else list(range(1, 23))):
            L.append(ob("parseuint/n=%d" % n, "internal/jsonwire", "VerifC10ParseUint", [n], timeout_ms=60000))
    if prop == "C11":
        B = (False, True)
        for n in ([1, 2, 3] if q else [1, 2, 3, 4]):
            for h in B:
                for j in B:
                    for a in B:
                        L.append(ob("quote/n=%d/html=%d/js=%d/allow=%d" % (n, h, j, a), "internal/jsonwire", "VerifC11Quote", [n, h, j, a]))
        for n in ([2, 3, 4] if q else [2, 3, 4, 5]):
            for v in B:
                L.append(ob("scan/n=%d/validate=%d" % (n, v), "internal/jsonwire", "VerifC11Scan", [n, v]))
        T = ['"\\u????"', '"\\uD???\\uD???"', '"\\u????\\u??', '"??\\u00??"'] if q else ['"\\u????"', '"\\uD???\\uD???"', '"\\u????\\u??', '"\\uD8??\\?D???"', '"??\\u00??"', '"\\u????\\u????"', '"\\u?????"', '"\\uD8???????"', '"???\\u????"']
        for i, t in enumerate(T):
            for v in B:
                L.append(ob("scanT/%d/validate=%d" % (i, v), "internal/jsonwire", "VerifC11ScanT", [t, v]))
        for n in ([3, 4] if q else [3, 4, 5]):
            for h, j, a, p in ((0, 0, 0, 0), (1, 1, 0, 0), (1, 0, 0, 1), (0, 1, 1, 1), (0, 0, 1, 0), (0, 0, 0, 1)):
                L.append(ob("reformat/n=%d/html=%d/js=%d/allow=%d/preserve=%d" % (n, h, j, a, p), "internal/jsonwire", "VerifC11Reformat", [n, bool(h), bool(j), bool(a), bool(p)]))
    if prop == "C19":
        L.append(ob("flags/algebra", "internal/jsonflags", "VerifC19Flags", [], second="cvc5", covers=["end"]))
        L.append(ob("flags/v1v2", "internal/jsonflags", "VerifC19V1V2", [], second="cvc5", covers=["end"]))
    return L


def bounds_text(prop, tier):
    return BOUNDS.get(prop, {}).get(tier, "")


def assumptions_for(prop):
    return EXTRA_ASSUMPTIONS.get(prop, [])


BOUNDS = {}
EXTRA_ASSUMPTIONS = {}
