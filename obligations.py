"""Registry of proof obligations per property and tier: one module per property in obl/."""
import importlib
import os
import sys

sys.path.insert(0, os.path.dirname(os.path.abspath(__file__)))
sys.path.insert(0, os.path.join(os.path.dirname(os.path.abspath(__file__)), "obl"))

ASSUMPTIONS = [
    "Go semantics as implemented by gosym (go/ssa v0.50.0 interpreter over bit-vector terms); validated per run by native replay of sampled solver models",
    "solver verdicts of z3 4.8.12 (primary) / cvc5 1.0 (where stated) are trusted; any (error, unknown or timeout is reported as inconclusive",
    "sequential execution only; sync.Pool/Mutex/Once/Map modelled sequentially",
    "error message text (fmt, strconv.Quote) is opaque",
    "reference models in harness/root/internal/zzverif/zzspec are the specification",
]


def _mod(prop):
    try:
        return importlib.import_module(prop)
    except ModuleNotFoundError:
        return None


def obligations(prop, tier):
    m = _mod(prop)
    return m.obligations(tier) if m else []


def bounds_text(prop, tier):
    m = _mod(prop)
    return getattr(m, "BOUNDS", {}).get(tier, "") if m else ""


def assumptions_for(prop):
    m = _mod(prop)
    return list(getattr(m, "ASSUMPTIONS", [])) if m else []
