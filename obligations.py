"""Registry of proof obligations per property and tier."""

ASSUMPTIONS = [
    "Go semantics as implemented by gosym (go/ssa v0.50.0 interpreter over bit-vector terms); validated per run by native replay of sampled solver models",
    "solver verdicts of z3 4.8.12 (primary) / cvc5 1.0 (where stated) are trusted; any (error, unknown or timeout is reported as inconclusive",
    "sequential execution only; sync.Pool/Mutex/Once/Map modelled sequentially",
    "error message text (fmt, strconv.Quote) is opaque",
    "reference models in harness/root/internal/zzverif/zzspec are the specification",
]


def ob(id, pkg, fn, args, **kw):
    d = {"id": id, "pkg": pkg, "fn": fn, "args": list(args)}
    d.update(kw)
    return d


def obligations(prop, tier):
    q = tier == "quick"
    L = []
    if prop == "SMOKE":
        L.append(ob("smoke/ws/3", "internal/jsonwire", "VerifSmokeWS", [3]))
    if prop == "C01":
        for n in ([1, 2] if q else [1, 2, 3]):
            for u in (False, True):
                for d in (False, True):
                    L.append(ob("isvalid/n=%d/utf8=%d/dup=%d" % (n, u, d), "jsontext", "VerifC01IsValid", [n, u, d], covers=["reject"]))
    return L


def bounds_text(prop, tier):
    return BOUNDS.get(prop, {}).get(tier, "")


def assumptions_for(prop):
    return EXTRA_ASSUMPTIONS.get(prop, [])


BOUNDS = {}
EXTRA_ASSUMPTIONS = {}
